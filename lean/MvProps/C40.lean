/-
  C40 — bulk-ingestion paths are equivalent to plain puts.

  Model: the shared Core model (`MvModel/Core.lean`: `step`, `run`), which since repair 7cd4b84
  (`/verif/fixes/C40.diff`) mirrors the repaired `commit_skip_indexes` / `finalize_indexes`.  The proofs
  work on the flat copies `stepR` / `runR` of `MvModel/Bulk.lean`; `runR_eq_run` shows they are `run`.

  Property theorems (for ANY starting handle `m0` satisfying `Start` — in particular a fresh file,
  `start_create`, and again every handle a finished ingestion leaves, `done_start` — and for ARBITRARY
  trace inputs: stored lengths / compression, automatic checkpoints, WAL sizes, footers may differ from
  path to path):

    C40_batch        begin_batch; puts; end_batch; commit            ≡ puts; commit
    C40_skip         (puts; commit_skip_indexes)*; finalize_indexes  ≡ puts; commit
    C40_skip_batch   the skip-index program inside batch mode        ≡ puts; commit
        each about `run`: the same `visible` (logical frame table, what a read of every frame returns,
        time index, vector index, engine documents, sketch track), the same abstract state `abs`, and
        the same `visible` after drop + open.
    C40_batch_pre_repair   on programs without the two bulk operations the pre-repair model `runOld`
        equals `run`: the batch clause never depended on the repair.
    C40_counterexample   for the code BEFORE the repair (`runOld`) the skip-index clause is FALSE: one
        embedded document through commit_skip_indexes + finalize_indexes ends with an empty vector index.
-/
import MvProps.C40View
namespace Mv.Core

/-! ## "The same documents" -/

/-- a put without what depends on the path: stored lengths / compression, instant-index and
    enrichment switches, extracted cards -/
def logical (a : PutArgs) : PutArgs :=
  { a with len := 0, plen := 0, zstd := false, ii := false, q := false, nc := 0,
           chunks := a.chunks.map (fun c => { c with len := 0 }) }

/-- two lists of put arguments describe the same document set -/
def SameDocs (ds ds' : List PutArgs) : Prop := ds.map logical = ds'.map logical

theorem lchunks_logical (a : PutArgs) (d n : Nat) (cs : List ChunkArg) (i k : Nat) :
    lchunks (logical a) d n (cs.map (fun c => { c with len := 0 })) i k = lchunks a d n cs i k := by
  induction cs generalizing i k with
  | nil => rfl
  | cons c cs ih => simp only [List.map_cons, lchunks, ih]; rfl

theorem ldocFrames_logical (a : PutArgs) (k : Nat) : ldocFrames (logical a) k = ldocFrames a k := by
  unfold ldocFrames
  have h1 : ldoc (logical a) k = ldoc a k := by
    simp only [ldoc, mkSFrame, parentIns, logical, List.length_map]
  have h2 : (logical a).chunks = a.chunks.map (fun c => { c with len := 0 }) := rfl
  rw [h1, h2, List.length_map, lchunks_logical]

theorem ldocs_logical (k : Nat) (ds : List PutArgs) : ldocs k (ds.map logical) = ldocs k ds := by
  induction ds generalizing k with
  | nil => rfl
  | cons a as ih =>
    simp only [List.map_cons, ldocs, ldocFrames_logical, ih]
    have : (logical a).chunks.length = a.chunks.length := by simp [logical]
    rw [this]

theorem chunkEmbs_logical (cs : List ChunkArg) (k : Nat) :
    chunkEmbs (cs.map (fun c => { c with len := 0 })) k = chunkEmbs cs k := by
  induction cs generalizing k with
  | nil => rfl
  | cons c cs ih => simp only [List.map_cons, chunkEmbs, ih]

theorem embsOf_logical (k : Nat) (ds : List PutArgs) : embsOf k (ds.map logical) = embsOf k ds := by
  induction ds generalizing k with
  | nil => rfl
  | cons a as ih =>
    have h2 : (logical a).chunks = a.chunks.map (fun c => { c with len := 0 }) := rfl
    simp only [List.map_cons, embsOf, docEmbs, ih, h2, chunkEmbs_logical, List.length_map]
    rfl

theorem wantsVec_logical (ds : List PutArgs) : (ds.map logical).any wantsVec = ds.any wantsVec := by
  rw [List.any_map]; rfl

theorem SameDocs.closed {ds ds' : List PutArgs} (h : SameDocs ds ds') (k : Nat) :
    ldocs k ds = ldocs k ds' ∧ embsOf k ds = embsOf k ds' ∧ ds.any wantsVec = ds'.any wantsVec := by
  unfold SameDocs at h
  refine ⟨?_, ?_, ?_⟩
  · rw [← ldocs_logical k ds, ← ldocs_logical k ds', h]
  · rw [← embsOf_logical k ds, ← embsOf_logical k ds', h]
  · rw [← wantsVec_logical ds, ← wantsVec_logical ds', h]

/-! ## Two finished ingestions of the same documents -/

theorem sApply_lexOnly (S : Spec) (l : List (Nat × Entry)) (h : OnlyLexRecs l) : sApply S l = S := by
  induction l generalizing S with
  | nil => rfl
  | cons r rs ih =>
    have hr : r.2 = Entry.lex := h r (by simp)
    show sApply (sApplyOne S r) rs = S
    have : sApplyOne S r = S := by unfold sApplyOne; rw [hr]
    rw [this]
    exact ih S (fun x hx => h x (by simp [hx]))

theorem Done.abs_eq {m0 m : Mem} {docs} (h : Done m0 docs m) : abs m = (m.frames.map lview).map (·.v) := by
  obtain ⟨L, hL, hp⟩ := h.mid.pend
  unfold abs
  rw [hp, sApply_lexOnly _ _ (by simpa [recsOf] using hL), List.map_map]
  rfl

/-- what the three clauses of C40 say about two handles -/
structure Equivalent (m m' : Mem) : Prop where
  /-- frames, contents, timeline, vector index, engine documents, sketches -/
  now : visible m = visible m'
  /-- the abstract state (what the acknowledged calls mean to the client) -/
  spec : abs m = abs m'
  /-- and the same after dropping the handle and opening the file again -/
  reopened : ∀ a b a' b', visible (m.reopen a b).1 = visible (m'.reopen a' b').1

theorem done_equivalent {m0 m m' : Mem} {docs docs'} (s : Start m0) (h : Done m0 docs m) (h' : Done m0 docs' m')
    (same : SameDocs docs docs') : Equivalent m m' := by
  obtain ⟨e1, e2, e3⟩ := same.closed m0.frames.length
  have hv : visible m = visible m' := by rw [h.visible_eq s, h'.visible_eq s, e1, e2, e3]
  refine ⟨hv, ?_, ?_⟩
  · rw [h.abs_eq, h'.abs_eq, h.frames_lview, h'.frames_lview, e1]
  · intro a b a' b'
    obtain ⟨L, hL, hp⟩ := h.mid.pend
    obtain ⟨L', hL', hp'⟩ := h'.mid.pend
    rw [settled_reopen h.settled (by rw [hp]; simpa [recsOf] using hL) (h.mid.noOrphan s) a b,
      settled_reopen h'.settled (by rw [hp']; simpa [recsOf] using hL') (h'.mid.noOrphan s) a' b', hv]
    have : m.sketch = m'.sketch := congrArg Visible.sketch hv
    rw [this]

theorem sameDocs_ne {ds ds' : List PutArgs} (h : SameDocs ds ds') (hne : ds ≠ []) : ds' ≠ [] := by
  intro h0
  subst h0
  unfold SameDocs at h
  cases ds with
  | nil => exact hne rfl
  | cons _ _ => simp at h

/-! ## The flat copies are the shared model -/

theorem commitSkipIndexesR_eq (m : Mem) : m.commitSkipIndexesR = m.commitSkipIndexes := rfl
theorem finalizeIndexesR_eq (m : Mem) (ft : Nat) : m.finalizeIndexesR ft = m.finalizeIndexes ft := rfl

theorem stepR_eq_step (m : Mem) (op : Op) : stepR m op = step m op := by
  cases op <;> rfl

theorem runR_eq_run (m : Mem) (ops : List Op) : runR m ops = run m ops := by
  induction ops generalizing m with
  | nil => rfl
  | cons op ops ih => simp only [runR, run, stepR_eq_step]; exact ih _

/-- the answers of a run of the shared model -/
def outs (m : Mem) (ops : List Op) : List Out := (trace m ops).map (·.2)

theorem outsR_eq_outs (m : Mem) (ops : List Op) : outsR m ops = outs m ops := by
  induction ops generalizing m with
  | nil => rfl
  | cons op ops ih =>
    simp only [outsR, outs, trace, List.map_cons, stepR_eq_step]
    exact congrArg _ (ih _)

/-- every call of the program is acknowledged (shared model) -/
def Acked (m : Mem) (ops : List Op) : Prop := ∀ o ∈ outs m ops, o.isAck = true

theorem Acked.allAcked {m : Mem} {ops : List Op} (h : Acked m ops) : AllAcked m ops := by
  unfold AllAcked; rw [outsR_eq_outs]; exact h

/-! ## The property -/

/-- **C40, batch clause.**  Ingesting a document set through `begin_batch; puts; end_batch; commit`
    (any batch options: automatic checkpoints on or off, any WAL pre-size, any compression level —
    stored lengths are trace inputs of the puts) is equivalent to plain puts followed by `commit`. -/
theorem C40_batch {m0 : Mem} (s : Start m0) (docs docsB : List DocCall) (ft ftB ws : Nat) (dis : Bool)
    (hne : docs ≠ []) (same : SameDocs (docs.map (·.1)) (docsB.map (·.1)))
    (ok : ∀ d ∈ docs, DocOk d.1) (okB : ∀ d ∈ docsB, DocOk d.1)
    (acked : Acked m0 (plainOps docs ft)) (ackedB : Acked m0 (batchOps dis ws docsB ftB)) :
    Equivalent (run m0 (batchOps dis ws docsB ftB)) (run m0 (plainOps docs ft)) := by
  have hneB : docsB ≠ [] := by
    have := sameDocs_ne same (by simpa using hne)
    simpa using this
  have same' : SameDocs (docsB.map (·.1)) (docs.map (·.1)) := by unfold SameDocs at *; exact same.symm
  rw [← runR_eq_run, ← runR_eq_run]
  exact done_equivalent s (batch_done s dis ws docsB ftB hneB okB ackedB.allAcked)
    (plain_done s docs ft hne ok acked.allAcked) same'

/-- **C40, skip-index clause.**  Ingesting a document set in groups, each followed by
    `commit_skip_indexes`, and one `finalize_indexes` at the end is equivalent to plain puts followed by
    `commit`. -/
theorem C40_skip {m0 : Mem} (s : Start m0) (docs : List DocCall) (groups : List (List DocCall)) (ft ftS : Nat)
    (hne : docs ≠ []) (same : SameDocs (docs.map (·.1)) (groups.flatten.map (·.1)))
    (ok : ∀ d ∈ docs, DocOk d.1) (okS : GroupsOk groups)
    (acked : Acked m0 (plainOps docs ft)) (ackedS : Acked m0 (skipOps groups ftS)) :
    Equivalent (run m0 (skipOps groups ftS)) (run m0 (plainOps docs ft)) := by
  have hneS : groups ≠ [] := by
    intro h0; subst h0
    exact sameDocs_ne same (by simpa using hne) rfl
  have same' : SameDocs (groups.flatten.map (·.1)) (docs.map (·.1)) := by unfold SameDocs at *; exact same.symm
  rw [← runR_eq_run, ← runR_eq_run]
  exact done_equivalent s (skip_done s groups ftS hneS okS ackedS.allAcked)
    (plain_done s docs ft hne ok acked.allAcked) same'

/-- **C40, skip-index clause inside batch mode.** -/
theorem C40_skip_batch {m0 : Mem} (s : Start m0) (docs : List DocCall) (groups : List (List DocCall)) (ft ftS ws : Nat)
    (dis : Bool) (hne : docs ≠ []) (same : SameDocs (docs.map (·.1)) (groups.flatten.map (·.1)))
    (ok : ∀ d ∈ docs, DocOk d.1) (okS : GroupsOk groups)
    (acked : Acked m0 (plainOps docs ft)) (ackedS : Acked m0 (skipBatchOps dis ws groups ftS)) :
    Equivalent (run m0 (skipBatchOps dis ws groups ftS)) (run m0 (plainOps docs ft)) := by
  have hneS : groups ≠ [] := by
    intro h0; subst h0
    exact sameDocs_ne same (by simpa using hne) rfl
  have same' : SameDocs (groups.flatten.map (·.1)) (docs.map (·.1)) := by unfold SameDocs at *; exact same.symm
  rw [← runR_eq_run, ← runR_eq_run]
  exact done_equivalent s (skip_batch_done s dis ws groups ftS hneS okS ackedS.allAcked)
    (plain_done s docs ft hne ok acked.allAcked) same'

theorem lchunks_id_lt (a : PutArgs) (d n : Nat) (cs : List ChunkArg) (i k : Nat) :
    ∀ x ∈ lchunks a d n cs i k, x.v.id < k + cs.length := by
  induction cs generalizing i k with
  | nil => intro x hx; simp [lchunks] at hx
  | cons c cs ih =>
    intro x hx
    simp only [lchunks, List.mem_cons] at hx
    rcases hx with rfl | hx
    · show k < k + (cs.length + 1); omega
    · have := ih (i + 1) (k + 1) x hx
      simp only [List.length_cons]; omega

theorem ldocs_id_lt (ds : List PutArgs) (k : Nat) : ∀ x ∈ ldocs k ds, x.v.id < k + flen ds := by
  induction ds generalizing k with
  | nil => intro x hx; simp [ldocs] at hx
  | cons a as ih =>
    intro x hx
    simp only [ldocs, ldocFrames, List.mem_append, List.mem_cons] at hx
    rcases hx with (rfl | hx) | hx
    · show k < k + flen (a :: as); simp only [flen]; omega
    · have := lchunks_id_lt a k a.chunks.length a.chunks 0 (k + 1) x hx
      simp only [flen]; omega
    · have := ih (k + 1 + a.chunks.length) x hx
      simp only [flen]; omega

/-- a finished ingestion leaves a handle the next ingestion can start from (`Start` is inductive
    over rounds of bulk ingestion) -/
theorem done_start {m0 m : Mem} {docs} (s : Start m0) (h : Done m0 docs m) : Start m := by
  obtain ⟨L, hL, hp⟩ := h.mid.pend
  obtain ⟨nf, hf, hn⟩ := h.mid.frames
  have hlen := h.mid.length
  refine ⟨by rw [hp]; simpa [recsOf] using hL, h.mid.engine, h.mid.lexEnabled, h.settled.lex, h.mid.vecAct s, ?_,
    h.mid.noOrphan s, h.mid.frameOk s, ?_, ?_, ?_⟩
  · intro hv
    have := h.settled.vec
    rw [hv] at this
    simp at this
    rw [this]; rfl
  · rw [missingSketches_eq]
    apply List.filter_eq_nil_iff.mpr
    intro i hi
    have : i ∈ m.sketch := by
      rw [h.sketch]
      rw [hf, fullLexRebuild_append, fullLexRebuild_eq_lidx nf, hn.1] at hi
      rcases List.mem_append.mp hi with h1 | h1
      · have hc := s.sketchComplete
        rw [missingSketches_eq] at hc
        have := List.filter_eq_nil_iff.mp hc i h1
        have hm : i ∈ m0.sketch := by simpa using this
        exact List.mem_append.mpr (Or.inl hm)
      · exact List.mem_append.mpr (Or.inr h1)
    simpa using this
  · intro i hi
    rw [h.sketch] at hi
    rcases List.mem_append.mp hi with h1 | h1
    · have := s.sketchBound i h1; omega
    · unfold lidx at h1
      obtain ⟨x, hx, rfl⟩ := List.mem_map.mp h1
      have := ldocs_id_lt docs m0.frames.length x (List.mem_filter.mp hx).1
      omega
  · intro h0; rw [h.settled.pSketch]; exact h0

/-! ## A fresh file is a starting point; the pre-repair model on programs without bulk operations -/

theorem start_create : Start Mem.create := by
  refine ⟨?_, rfl, rfl, rfl, ?_, ?_, ?_, ?_, rfl, ?_, ?_⟩
  · intro r hr; cases hr
  · intro e he; cases he
  · intro _; rfl
  · intro f hf _; cases hf
  · intro f hf; cases hf
  · intro i hi; cases hi
  · intro _; rfl

/-- `commit_skip_indexes` / `finalize_indexes` -/
def isBulk : Op → Bool
  | .commitSkipIndexes => true
  | .finalizeIndexes _ => true
  | _ => false

/-- the program contains neither `commit_skip_indexes` nor `finalize_indexes` -/
def NoBulkOp (ops : List Op) : Prop := ∀ op ∈ ops, isBulk op = false

theorem stepOld_eq_step (m : Mem) (op : Op) (h : isBulk op = false) : stepOld m op = step m op := by
  cases op <;> try rfl
  all_goals (simp [isBulk] at h)

theorem runOld_eq_run (ops : List Op) (h : NoBulkOp ops) (m : Mem) : runOld m ops = run m ops := by
  induction ops generalizing m with
  | nil => rfl
  | cons op ops ih =>
    simp only [runOld, run, stepOld_eq_step m op (h op (by simp))]
    exact ih (fun x hx => h x (by simp [hx])) _

theorem noBulk_puts (docs : List DocCall) (rest : List Op) (h : NoBulkOp rest) : NoBulkOp (putOps docs ++ rest) := by
  intro op hop
  rcases List.mem_append.mp hop with h1 | h1
  · unfold putOps at h1
    obtain ⟨d, _, rfl⟩ := List.mem_map.mp h1
    rfl
  · exact h op h1

/-- on the plain and the batch program the model of the code before the repair is the shared model:
    `C40_batch` never depended on repair 7cd4b84 -/
theorem C40_batch_pre_repair (m : Mem) (dis : Bool) (ws : Nat) (docs : List DocCall) (ft : Nat) :
    runOld m (plainOps docs ft) = run m (plainOps docs ft) ∧
    runOld m (batchOps dis ws docs ft) = run m (batchOps dis ws docs ft) := by
  constructor
  · apply runOld_eq_run
    apply noBulk_puts
    intro op hop
    simp only [List.mem_singleton] at hop
    subst hop; rfl
  · apply runOld_eq_run
    intro op hop
    unfold batchOps at hop
    rcases List.mem_cons.mp hop with h1 | h1
    · subst h1; rfl
    · refine noBulk_puts docs [Op.endBatch, Op.commit ft] ?_ op h1
      intro op' hop'
      simp only [List.mem_cons, List.not_mem_nil, or_false] at hop'
      rcases hop' with rfl | rfl <;> rfl

/-! ## The code before repair 7cd4b84: the skip-index clause was false -/

/-- the skip-index clause for the pre-repair model `runOld`, already on a fresh file -/
def C40_full : Prop :=
  ∀ (docs : List DocCall) (groups : List (List DocCall)) (ft ftS : Nat),
    docs ≠ [] → SameDocs (docs.map (·.1)) (groups.flatten.map (·.1)) →
    (∀ d ∈ docs, DocOk d.1) → GroupsOk groups →
    (∀ o ∈ outsOld Mem.create (plainOps docs ft), o.isAck = true) →
    (∀ o ∈ outsOld Mem.create (skipOps groups ftS), o.isAck = true) →
    visible (runOld Mem.create (skipOps groups ftS)) = visible (runOld Mem.create (plainOps docs ft))

/-- the witness: one 80-byte document with a 4-dimensional embedding -/
def witnessDoc : DocCall :=
  ({ ts := 100, content := "c0ffee", len := 69, plen := 69, emb := some (4, "e4"), zstd := true }, { ft := 69 })

theorem witness_docOk : DocOk witnessDoc.1 := by
  refine ⟨by decide, ?_, ?_, ?_⟩
  · intro h; exact absurd h (by decide)
  · intro c hc; cases hc
  · intro _; decide

/-- **C40 was false for the code before the repair**: through `commit_skip_indexes` +
    `finalize_indexes` the embedding of the witness document is not in the vector index (`some []`),
    through `commit` it is. -/
theorem C40_counterexample : ¬ C40_full := by
  intro h
  have hv := h [witnessDoc] [[witnessDoc]] 6958 6958 (by simp) rfl
    (fun d hd => by simp only [List.mem_singleton] at hd; subst hd; exact witness_docOk)
    ⟨fun g hg => by simp only [List.mem_singleton] at hg; subst hg; simp,
     fun g hg d hd => by
       simp only [List.mem_singleton] at hg; subst hg
       simp only [List.mem_singleton] at hd; subst hd; exact witness_docOk,
     fun g hg d hd => by
       simp only [List.mem_singleton] at hg; subst hg
       simp only [List.mem_singleton] at hd; subst hd; rfl⟩
    (by decide) (by decide)
  have hvec := congrArg Visible.vec hv
  revert hvec
  decide

/-- the same witness on the shared (repaired) model: both paths hold the embedding -/
example : (visible (run Mem.create (skipOps [[witnessDoc]] 6958))).vec = some [{ id := 0, dim := 4, tok := "e4" }] ∧
    (visible (run Mem.create (plainOps [witnessDoc] 6958))).vec = some [{ id := 0, dim := 4, tok := "e4" }] := by
  decide

/-! ## Non-vacuity: concrete instances satisfy the hypotheses of the theorems -/

/-- a chunked document with a chunk embedding; the chunks' stored lengths are parameters -/
def exDocA (len1 len2 : Nat) : DocCall :=
  ({ ts := 7, uri := some "mv2://doc/a.txt", content := "E", len := 0, plen := 500,
     chunks := [{ content := "c1", len := len1, emb := some (2, "e1") }, { content := "c2", len := len2, emb := none }],
     cdims := [2] }, {})

/-- a small embedded document put with `instant_index`; stored length / compression are parameters -/
def exDocB (len : Nat) (z : Bool) : DocCall :=
  ({ ts := 5, content := "bb", len := len, plen := len, emb := some (2, "e0"), zstd := z, ii := true }, {})

theorem exDocA_ok (l1 l2 : Nat) (h1 : l1 ≠ 0) (h2 : l2 ≠ 0) : DocOk (exDocA l1 l2).1 := by
  refine ⟨by simp [exDocA], ?_, ?_, ?_⟩
  · intro _; exact ⟨rfl, rfl⟩
  · intro c hc
    simp only [exDocA, List.mem_cons, List.not_mem_nil, or_false] at hc
    rcases hc with rfl | rfl
    · exact h1
    · exact h2
  · intro _; simp [exDocA, embDims]

theorem exDocB_ok (l : Nat) (z : Bool) (h : l ≠ 0) : DocOk (exDocB l z).1 := by
  refine ⟨by simp [exDocB], ?_, ?_, ?_⟩
  · intro h0; exact absurd h0 h
  · intro c hc; cases hc
  · intro _; simp [exDocB, embDims]

/-- `C40_skip` and `C40_batch` apply to a fresh file and a two-document set (one chunked, with a chunk
    embedding; different stored lengths / compression on the bulk paths; two skip-index commits) -/
example :
    Equivalent (run Mem.create (skipOps [[exDocB 30 false], [exDocA 9 8]] 900))
               (run Mem.create (plainOps [exDocB 20 true, exDocA 40 41] 700)) ∧
    Equivalent (run Mem.create (batchOps true 262144 [exDocB 30 false, exDocA 9 8] 800))
               (run Mem.create (plainOps [exDocB 20 true, exDocA 40 41] 700)) := by
  have okP : ∀ d ∈ [exDocB 20 true, exDocA 40 41], DocOk d.1 := by
    intro d hd
    simp only [List.mem_cons, List.not_mem_nil, or_false] at hd
    rcases hd with rfl | rfl
    · exact exDocB_ok 20 true (by decide)
    · exact exDocA_ok 40 41 (by decide) (by decide)
  have okB : ∀ d ∈ [exDocB 30 false, exDocA 9 8], DocOk d.1 := by
    intro d hd
    simp only [List.mem_cons, List.not_mem_nil, or_false] at hd
    rcases hd with rfl | rfl
    · exact exDocB_ok 30 false (by decide)
    · exact exDocA_ok 9 8 (by decide) (by decide)
  have okS : GroupsOk [[exDocB 30 false], [exDocA 9 8]] := by
    refine ⟨?_, ?_, ?_⟩
    · intro g hg
      simp only [List.mem_cons, List.not_mem_nil, or_false] at hg
      rcases hg with rfl | rfl <;> simp
    · intro g hg d hd
      simp only [List.mem_cons, List.not_mem_nil, or_false] at hg
      rcases hg with rfl | rfl
      · simp only [List.mem_singleton] at hd; subst hd; exact exDocB_ok 30 false (by decide)
      · simp only [List.mem_singleton] at hd; subst hd; exact exDocA_ok 9 8 (by decide) (by decide)
    · intro g hg d hd
      simp only [List.mem_cons, List.not_mem_nil, or_false] at hg
      rcases hg with rfl | rfl
      · simp only [List.mem_singleton] at hd; subst hd; rfl
      · simp only [List.mem_singleton] at hd; subst hd; rfl
  have ackP : Acked Mem.create (plainOps [exDocB 20 true, exDocA 40 41] 700) := by
    unfold Acked; decide
  exact ⟨C40_skip start_create _ _ 700 900 (by simp) rfl okP okS ackP (by unfold Acked; decide),
         C40_batch start_create _ _ 700 800 262144 true (by simp) rfl okP okB ackP (by unfold Acked; decide)⟩

end Mv.Core
