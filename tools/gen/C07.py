#!/usr/bin/env python3
"""C07: MAX_FRAME_BYTES (src/lib.rs), the default compression level of prepare_canonical_payload and the
shape of its UTF-8 / level-0 case split (src/memvid/mutation.rs), and whether apply_records advances
data_end right after it wrote a payload (the repair of fixes/C07.diff)."""
import re
from common import *

def fn_body(src, name):
    m = re.search(r"\bfn\s+" + re.escape(name) + r"\b", src)
    if not m:
        raise TranslateError(f"fn {name} not found")
    i = src.find("{", m.end())
    depth, j = 0, i
    while j < len(src):
        if src[j] == "{":
            depth += 1
        elif src[j] == "}":
            depth -= 1
            if depth == 0:
                break
        j += 1
    body = src[i:j + 1]
    body = re.sub(r"/\*.*?\*/", "", body, flags=re.S)
    return re.sub(r"//[^\n]*", "", body)

def run():
    lib = read("src/lib.rs")
    maxb = const_int(lib, "MAX_FRAME_BYTES")
    mut = read("src/memvid/mutation.rs")
    body = fn_body(mut, "prepare_canonical_payload")
    m = re.search(r"prepare_canonical_payload_with_level\(\s*payload\s*,\s*(-?\d+)\s*\)", body)
    if not m:
        raise TranslateError("default level of prepare_canonical_payload not found")
    level = int(m.group(1))
    lv = fn_body(mut, "prepare_canonical_payload_with_level")
    flat = re.sub(r"\s+", "", lv)
    if not flat.startswith("{iflevel==0{returnOk((payload.to_vec(),CanonicalEncoding::Plain,Some(payload.len()asu64),));}ifstd::str::from_utf8(payload).is_ok(){"):
        raise TranslateError("prepare_canonical_payload_with_level no longer has the shape `level == 0 -> plain; valid UTF-8 -> zstd; else plain`")
    ap = re.sub(r"\s+", "", fn_body(mut, "apply_records"))
    k = ap.find("data_cursor+=payload_length;")
    if k < 0:
        raise TranslateError("apply_records: `data_cursor += payload_length;` not found")
    # the repaired code advances data_end inside the Insert branch, before the index text is read
    k2 = ap.find("letindex_text=", k)
    if k2 < 0:
        raise TranslateError("apply_records: `let index_text =` not found")
    early = "self.data_end=self.data_end.max(data_cursor);" in ap[k:k2]
    out = (f"def MAX_FRAME_BYTES : Nat := {maxb}\n"
           f"def DEFAULT_LEVEL : Int := {level}\n"
           f"/-- apply_records advances data_end right after writing a payload (before the index text is read) -/\n"
           f"def DATA_END_ADVANCED_EARLY : Bool := {'true' if early else 'false'}\n")
    return emit("C07", out)

main(run)
