-- This module serves as the root of the `MvModel` library.
-- Import modules here that should be built as part of the library.
import MvModel.Basic
