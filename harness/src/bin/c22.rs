//! C22 — stub (under construction)
use memvid_core::verif_hooks as vh;
fn main() {
    let _ = vh::verify_toc_prefix(&[0u8; 8]);
    let _ = vh::scan_range_for_toc(&[0u8; 8], 0, 8);
    let _ = vh::locate_footer_window(&[0u8; 8]);
    let _ = (vh::read_toc, vh::recover_toc, vh::ensure_non_overlapping_frames, vh::compute_data_end,
             vh::compute_payload_region_end, vh::validate_frame_bounds, vh::read_frame_payload_bytes);
}
