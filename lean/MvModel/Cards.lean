/-
  Model of memvid's memory-card track (src/types/memories_track.rs, src/types/memory_card.rs)
  and of the way `Memvid` persists it (src/memvid/memory.rs, mutation.rs: commit_from_records /
  rebuild_indexes / persist_memories_track, lifecycle.rs: open_locked / load_memories_track,
  lib.rs: Drop for Memvid).

  Conventions
  * strings are UTF-8 byte lists; `str::to_lowercase` is the parameter `lower` (Unicode tables are a
    black box; the driver instantiates it with ASCII lower-casing);
  * timestamps are `Int` (i64 in Rust; no arithmetic is performed on them);
  * `HashMap<String, Vec<id>>` is an association list with unique keys.  Where the Rust code iterates
    a HashMap (case-insensitive fallback of `SlotIndex::get`, `get_by_entity`) the order is
    unspecified in Rust and is the list order here;
  * `slice::sort_by` / `sort_by_key` are stable sorts; every stable sort returns the same list
    (`MvProps.C27: sortBy_unique`), modelled by stable insertion sort;
  * serde_json + zstd (cards) and bincode + zstd (mesh) are `Codec` parameters.
-/
import MvModel.Bytes
namespace Mv.Cards

/-! ## memory_card.rs -/

inductive Rel where
  | sets | updates | extends | retracts
  deriving DecidableEq, Repr, Inhabited

inductive Kind where
  | fact | preference | event | profile | relationship | goal | other
  deriving DecidableEq, Repr, Inhabited

structure Card where
  id : Nat
  kind : Kind
  entity : Bytes
  slot : Bytes
  value : Bytes
  eventDate : Option Int
  documentDate : Option Int
  versionKey : Option Bytes
  rel : Rel
  createdAt : Int
  deriving DecidableEq, Repr

/-- `MemoryCard::effective_timestamp`: event_date.or(document_date).unwrap_or(created_at) -/
def Card.effTs (c : Card) : Int :=
  match c.eventDate with
  | some t => t
  | none =>
    match c.documentDate with
    | some t => t
    | none => c.createdAt

/-- `MemoryCard::is_retracted` -/
def Card.isRetracted (c : Card) : Bool := decide (c.rel = Rel.retracts)

def Card.live (c : Card) : Bool := !c.isRetracted

def COLON : UInt8 := 0x3A

/-- `MemoryCard::default_version_key`: "{entity}:{slot}" (original case) -/
def Card.defaultVersionKey (c : Card) : Bytes := c.entity ++ COLON :: c.slot

/-! ## stable sort (slice::sort_by) -/

/-- insert `x` behind every leading element that must strictly precede it -/
def insertBy {α : Type} (lt : α → α → Bool) (x : α) : List α → List α
  | [] => [x]
  | y :: ys => if lt y x then y :: insertBy lt x ys else x :: y :: ys

/-- stable insertion sort; `lt a b` = "a must come strictly before b" -/
def sortBy {α : Type} (lt : α → α → Bool) : List α → List α
  | [] => []
  | x :: xs => insertBy lt x (sortBy lt xs)

/-- comparator of `get_current` / `get_at_time`: `b_time.cmp(&a_time)` (descending) -/
def descLt (a b : Card) : Bool := decide (b.effTs < a.effTs)

/-- comparator of `get_timeline`: `sort_by_key(effective_timestamp)` (ascending) -/
def ascLt (a b : Card) : Bool := decide (a.effTs < b.effTs)

/-! ## memories_track.rs -/

abbrev Index := List (Bytes × List Nat)

structure Track where
  cards : List Card
  nextId : Nat
  index : Index
  deriving DecidableEq, Repr

def Track.empty : Track := { cards := [], nextId := 0, index := [] }

/-- `slot_key`: "{entity.to_lowercase()}:{slot.to_lowercase()}" -/
def slotKey (lower : Bytes → Bytes) (e s : Bytes) : Bytes := lower e ++ COLON :: lower s

/-- `SlotIndex::insert`: entries.entry(key).or_default().insert(0, id) -/
def indexInsert : Index → Bytes → Nat → Index
  | [], k, id => [(k, [id])]
  | (k', ids) :: rest, k, id =>
    if k' = k then (k', id :: ids) :: rest else (k', ids) :: indexInsert rest k id

/-- `SlotIndex::get`: exact key first, then the first entry whose lower-cased key matches -/
def indexGet (lower : Bytes → Bytes) (ix : Index) (e s : Bytes) : Option (List Nat) :=
  let key := slotKey lower e s
  match ix.find? (fun p => decide (p.1 = key)) with
  | some p => some p.2
  | none => (ix.find? (fun p => decide (lower p.1 = key))).map (·.2)

/-- `SlotIndex::get_by_entity`: ids of every entry whose lower-cased key starts with "{entity}:" -/
def indexGetByEntity (lower : Bytes → Bytes) (ix : Index) (e : Bytes) : List Nat :=
  let pre := lower e ++ [COLON]
  (ix.filter (fun p => pre.isPrefixOf (lower p.1))).flatMap (·.2)

/-- `MemoriesTrack::add_card` -/
def Track.addCard (lower : Bytes → Bytes) (tr : Track) (c : Card) : Track × Nat :=
  let id := tr.nextId
  let c1 : Card := { c with id := id }
  let c2 : Card :=
    match c1.versionKey with
    | none => { c1 with versionKey := some c1.defaultVersionKey }
    | some _ => c1
  ({ cards := tr.cards ++ [c2], nextId := id + 1,
     index := indexInsert tr.index (slotKey lower c2.entity c2.slot) id }, id)

/-- `self.cards.iter().find(|c| c.id == *id)` -/
def findCard (cards : List Card) (id : Nat) : Option Card := cards.find? (fun c => decide (c.id = id))

/-- `MemoriesTrack::get_cards` -/
def Track.getCards (lower : Bytes → Bytes) (tr : Track) (e s : Bytes) : List Card :=
  match indexGet lower tr.index e s with
  | some ids => ids.filterMap (findCard tr.cards)
  | none => []

/-- `cards.into_iter().find(|c| !c.is_retracted())` -/
def firstLive (l : List Card) : Option Card := l.find? Card.live

/-- `MemoriesTrack::get_current` -/
def Track.getCurrent (lower : Bytes → Bytes) (tr : Track) (e s : Bytes) : Option Card :=
  firstLive (sortBy descLt (tr.getCards lower e s))

/-- `MemoriesTrack::get_at_time` -/
def Track.getAtTime (lower : Bytes → Bytes) (tr : Track) (e s : Bytes) (t : Int) : Option Card :=
  firstLive (sortBy descLt ((tr.getCards lower e s).filter (fun c => decide (c.effTs ≤ t))))

/-- `MemoriesTrack::get_entity_cards` -/
def Track.getEntityCards (lower : Bytes → Bytes) (tr : Track) (e : Bytes) : List Card :=
  (indexGetByEntity lower tr.index e).filterMap (findCard tr.cards)

/-- `MemoriesTrack::get_timeline` -/
def Track.getTimeline (lower : Bytes → Bytes) (tr : Track) (e : Bytes) : List Card :=
  sortBy ascLt ((tr.getEntityCards lower e).filter (fun c => decide (c.kind = Kind.event)))

/-- `MemoriesTrack::clear` -/
def Track.clear (_ : Track) : Track := Track.empty

/-- reference semantics of "first non-retraction of the descending stable sort":
    the first card of the list, among the non-retractions, whose effective timestamp is maximal -/
def best : List Card → Option Card
  | [] => none
  | c :: cs =>
    if c.isRetracted then best cs
    else
      match best cs with
      | none => some c
      | some d => if c.effTs < d.effTs then some d else some c

/-! ## persistence (Memvid level)

  `Store` keeps what matters for the card track and the logic mesh: the in-memory values, the
  blobs the last written TOC points to (`toc.memories_track`, `toc.logic_mesh`), the `dirty` flag and
  the number of frame records sitting in the WAL (`pending`; they survive a crash).

  `commitWith guardEmpty` and `openWith loadFirst` carry two switches so that both the code as found
  (`guardEmpty = true`, `loadFirst = false`) and the repaired code (`false`, `true`; fixes/C27.diff)
  are expressible; the unadorned `commit` / `openDisk` are the repaired behaviour. -/

structure Codec (α β : Type) where
  ser : α → β
  de : β → Option α

/-- black boxes and the mesh component -/
structure Env (M B : Type) where
  lower : Bytes → Bytes
  cardsCodec : Codec Track B
  meshCodec : Codec M B
  meshNew : M
  meshIsEmpty : M → Bool

structure Store (M B : Type) where
  mem : Track
  mesh : M
  tocCards : Option B
  tocMesh : Option B
  dirty : Bool
  pending : Nat

variable {M B : Type}

/-- `Memvid::create`: empty tracks, nothing in the TOC -/
def Store.create (env : Env M B) : Store M B :=
  { mem := Track.empty, mesh := env.meshNew, tocCards := none, tocMesh := none, dirty := false, pending := 0 }

/-- `persist_memories_track` / the block in `rebuild_indexes`: None when there is no card -/
def persistCards (env : Env M B) (tr : Track) : Option B :=
  if tr.cards.length = 0 then none else some (env.cardsCodec.ser tr)

/-- `persist_logic_mesh` / the block in `rebuild_indexes` -/
def persistMesh (env : Env M B) (m : M) : Option B :=
  if env.meshIsEmpty m then none else some (env.meshCodec.ser m)

/-- `load_memories_track`: no manifest → the freshly constructed empty track stays -/
def loadCards (env : Env M B) (toc : Option B) : Option Track :=
  match toc with
  | none => some Track.empty
  | some b => env.cardsCodec.de b

/-- `load_logic_mesh` -/
def loadMesh (env : Env M B) (toc : Option B) : Option M :=
  match toc with
  | none => some env.meshNew
  | some b => env.meshCodec.de b

/-- `put_memory_card` (non-strict schema mode: validation only logs) -/
def Store.putCard (env : Env M B) (s : Store M B) (c : Card) : Store M B × Nat :=
  let r := s.mem.addCard env.lower c
  ({ s with mem := r.1, dirty := true }, r.2)

/-- `clear_memories` -/
def Store.clearCards (s : Store M B) : Store M B := { s with mem := s.mem.clear, dirty := true }

/-- `add_mesh_node` / `add_mesh_edge` / `set_logic_mesh`: any in-memory mesh mutation -/
def Store.updMesh (s : Store M B) (f : M → M) : Store M B := { s with mesh := f s.mesh, dirty := true }

/-- `put_bytes` (triplet extraction off): one more WAL record, dirty -/
def Store.putFrame (s : Store M B) : Store M B := { s with pending := s.pending + 1, dirty := true }

/-- `commit` → `commit_with_options` → `commit_from_records`.
    With pending frame records the delta is non-empty and `rebuild_indexes` writes both tracks
    (None when empty).  Without, the tracks are persisted on their own; `guardEmpty` is the
    `card_count() > 0` / `!is_empty()` guard of the code as found, which leaves a stale manifest. -/
def Store.commitWith (guardEmpty : Bool) (env : Env M B) (s : Store M B) : Store M B :=
  if s.pending = 0 ∧ s.dirty = false then s
  else
    let rebuilt := decide (s.pending > 0)
    { s with
      tocCards := if !rebuilt && guardEmpty && decide (s.mem.cards.length = 0) then s.tocCards
                  else persistCards env s.mem
      tocMesh := if !rebuilt && guardEmpty && env.meshIsEmpty s.mesh then s.tocMesh
                 else persistMesh env s.mesh
      dirty := false
      pending := 0 }

/-- what a later `open` finds in the file -/
structure Disk (B : Type) where
  tocCards : Option B
  tocMesh : Option B
  pending : Nat

def Store.disk (s : Store M B) : Disk B := { tocCards := s.tocCards, tocMesh := s.tocMesh, pending := s.pending }

/-- `Memvid::open` → `open_locked`.  `loadFirst = false` is the order found in the code:
    `recover_wal` (which, with pending records, runs `rebuild_indexes` on the still empty in-memory
    tracks and so drops both manifests) and only then `load_memories_track` / `load_logic_mesh`. -/
def openWith (loadFirst : Bool) (env : Env M B) (d : Disk B) : Option (Store M B) :=
  if loadFirst then
    match loadCards env d.tocCards, loadMesh env d.tocMesh with
    | some mem, some mesh =>
      if d.pending > 0 then
        some { mem := mem, mesh := mesh, tocCards := persistCards env mem, tocMesh := persistMesh env mesh,
               dirty := false, pending := 0 }
      else
        some { mem := mem, mesh := mesh, tocCards := d.tocCards, tocMesh := d.tocMesh, dirty := false, pending := 0 }
    | _, _ => none
  else
    let tc := if d.pending > 0 then persistCards env Track.empty else d.tocCards
    let tm := if d.pending > 0 then persistMesh env env.meshNew else d.tocMesh
    match loadCards env tc, loadMesh env tm with
    | some mem, some mesh =>
      some { mem := mem, mesh := mesh, tocCards := tc, tocMesh := tm, dirty := false, pending := 0 }
    | _, _ => none

/-- orderly close (`Drop for Memvid`: commit when dirty) followed by `open` -/
def Store.reopenWith (guardEmpty loadFirst : Bool) (env : Env M B) (s : Store M B) : Option (Store M B) :=
  openWith loadFirst env (if s.dirty then s.commitWith guardEmpty env else s).disk

/-- the process dies (no `Drop`); the file keeps the last written TOC and the WAL records -/
def Store.crashWith (loadFirst : Bool) (env : Env M B) (s : Store M B) : Option (Store M B) :=
  openWith loadFirst env s.disk

/-- repaired behaviour -/
def Store.commit (env : Env M B) (s : Store M B) : Store M B := s.commitWith false env
def Store.reopen (env : Env M B) (s : Store M B) : Option (Store M B) := s.reopenWith false true env
def Store.crash (env : Env M B) (s : Store M B) : Option (Store M B) := s.crashWith true env

inductive Op (M : Type) where
  | put (c : Card)
  | clear
  | mesh (f : M → M)
  | frame
  | commit
  | reopen
  | crash

def stepWith (guardEmpty loadFirst : Bool) (env : Env M B) (s : Store M B) : Op M → Option (Store M B)
  | .put c => some (s.putCard env c).1
  | .clear => some s.clearCards
  | .mesh f => some (s.updMesh f)
  | .frame => some s.putFrame
  | .commit => some (s.commitWith guardEmpty env)
  | .reopen => s.reopenWith guardEmpty loadFirst env
  | .crash => s.crashWith loadFirst env

def runWith (guardEmpty loadFirst : Bool) (env : Env M B) : Store M B → List (Op M) → Option (Store M B)
  | s, [] => some s
  | s, op :: ops =>
    match stepWith guardEmpty loadFirst env s op with
    | some s' => runWith guardEmpty loadFirst env s' ops
    | none => none

def run (env : Env M B) : Store M B → List (Op M) → Option (Store M B) := runWith false true env

end Mv.Cards
