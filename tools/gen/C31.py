#!/usr/bin/env python3
"""C31/C30-footer: footer magic and size from src/footer.rs."""
from common import *

def run():
    src = read("src/footer.rs")
    magic = const_bytes(src, "FOOTER_MAGIC")
    size = const_int(src, "FOOTER_SIZE", {"FOOTER_MAGIC.len()": len(magic)})
    body = f"def FOOTER_MAGIC : List UInt8 := {lean_bytes(magic)}\ndef FOOTER_SIZE : Nat := {size}\n"
    return emit("C31", body)

main(run)
