/-
  Definitions the C37 theorems are stated with (no proofs here):
  the observable order `le`/`eqv` of an arithmetic, the `Laws` assumed of it by the normalisation
  clause, exact extended rationals `ERat`/`eratOps` (an arithmetic satisfying the laws), and the
  effective scores / threshold of the absolute and relative strategies.
-/
import MvModel.Adaptive
namespace Mv.Adaptive
variable {α : Type} (o : Ops α)

/-- `a ≤ b` as the code observes it: not `b < a` -/
def Ops.le (a b : α) : Prop := o.lt b a = false
/-- numerically equal (`-0` and `+0` are) -/
def Ops.eqv (a b : α) : Prop := o.le a b ∧ o.le b a

/-- a value the folds can hold: a regular value or one of the two start values -/
def Ext (o : Ops α) (R : α → Prop) (a : α) : Prop := R a ∨ a = o.negInf ∨ a = o.inf

/-- What the proof of the normalisation clause assumes of the arithmetic.  `R` singles out the
    regular (finite, non-NaN) values.  Two instances are proved: exact rational arithmetic
    (`eratLaws`, MvProps/C37Lemmas.lean) and IEEE binary32 with `R` = finite (`Mv.F32.f32Laws`,
    MvProps/C37F32.lean: comparison is a strict weak order on non-NaN values, correctly rounded
    subtraction is monotone, `x - x = 0`, `x / x = 1`, and `0 ≤ a ≤ r` gives `0 ≤ a / r ≤ 1`
    because rounding is monotone and 0, 1 are representable). -/
structure Laws (R : α → Prop) : Prop where
  not_nan : ∀ a, R a → o.isNaN a = false
  inf_not_nan : o.isNaN o.inf = false ∧ o.isNaN o.negInf = false
  asymm : ∀ a b, o.lt a b = true → o.lt b a = false
  le_trans : ∀ a b c, Ext o R a → Ext o R b → Ext o R c → o.le a b → o.le b c → o.le a c
  below : ∀ a, R a → o.lt o.negInf a = true
  above : ∀ a, R a → o.lt a o.inf = true
  R_zero : R o.zero
  R_one : R o.one
  R_eps : R o.eps
  eps_pos : o.lt o.zero o.eps = true
  zero_le_one : o.le o.zero o.one
  sub_mono : ∀ a b m, R a → R b → R m → o.le a b → o.le (o.sub a m) (o.sub b m)
  sub_self : ∀ m, R m → o.eqv (o.sub m m) o.zero
  div_unit : ∀ a r, R a → R r → o.lt o.zero r = true → o.le o.zero a → o.le a r →
    o.isNaN (o.div a r) = false ∧ o.le o.zero (o.div a r) ∧ o.le (o.div a r) o.one
  div_eqv_self : ∀ a r, R a → R r → o.lt o.zero r = true → o.eqv a r → o.eqv (o.div a r) o.one

/-- exact rationals extended with the two infinities the folds of `normalize_scores` start from -/
inductive ERat where
  | ninf
  | fin (q : Rat)
  | pinf
deriving DecidableEq

namespace ERat
def lt : ERat → ERat → Bool
  | .ninf, .ninf => false
  | .ninf, _ => true
  | .fin _, .ninf => false
  | .fin a, .fin b => decide (a < b)
  | .fin _, .pinf => true
  | .pinf, _ => false

/-- a field operation on finite values; on an infinity the first argument is returned (never used
    by the theorems: they only apply the operations to finite values) -/
def lift2 (f : Rat → Rat → Rat) : ERat → ERat → ERat
  | .fin a, .fin b => .fin (f a b)
  | a, _ => a

def IsFin : ERat → Prop
  | .fin _ => True
  | _ => False
end ERat

/-- exact arithmetic (no rounding, no NaN, no overflow).  `sqrt` is a placeholder (identity): no
    theorem stated over `eratOps` involves the elbow strategy's `sqrt`. -/
def eratOps : Ops ERat where
  lt := ERat.lt
  isNaN := fun _ => false
  add := ERat.lift2 (· + ·)
  sub := ERat.lift2 (· - ·)
  mul := ERat.lift2 (· * ·)
  div := ERat.lift2 (· / ·)
  abs := fun a => match a with | .fin q => .fin (if q < 0 then -q else q) | _ => .pinf
  sqrt := id
  ofNat := fun n => .fin n
  eps := .fin (1 / 8388608)
  inf := .pinf
  negInf := .ninf

/-- the scores the strategies see -/
def effective (cfg : Config α) (s : List α) : List α := if cfg.normalize then normalize o s else s

/-- the threshold of the absolute / relative strategies (`top_score * min_ratio` for the latter,
    `top_score` being the first effective score) -/
def threshold (cfg : Config α) (s : List α) : Option α :=
  match cfg.strategy with
  | .absolute t => some t
  | .relative r => (effective o cfg s).head?.map (fun top => o.mul top r)
  | _ => none

/-- which of the three tests of `find_combined_cutoff` fires on score `x` with predecessor `prev`
    (tested in the code's order: absolute minimum, relative threshold, cliff) -/
def combHit (relMin maxDrop absMin : α) (prev : Option α) (x : α) : Option Trigger :=
  if o.lt x absMin then some .absoluteMin
  else if o.lt x relMin then some .relativeThreshold
  else match prev with
    | some p => if isCliff o maxDrop p x then some .scoreCliff else none
    | none => none

/-- the element before position `k` of `l`, `prev` standing before the head -/
def prevOf (prev : Option α) (l : List α) (k : Nat) : Option α :=
  match k with
  | 0 => prev
  | k + 1 => l[k]?

end Mv.Adaptive
