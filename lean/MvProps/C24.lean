/-
  C24 — the capacity limit is never exceeded by committed payloads.

  Subject: the `Memvid` handle as the shared Core model describes it (`step`), which since the repair ed05539
  (`/verif/fixes/C24.diff`) contains the exact capacity check `Mem.overCap`: it counts the bytes pending in the
  WAL, the stored size of every chunk and the position `data_end` where the next commit really appends.

  Results
  -------
    C24_full / C24_counterexample        the statement over ALL histories is false even after the repair:
                                         WAL growth moves the payload region without a capacity test
                                         (finding, not repaired).  C24_crash_replay_exceeds and
                                         C24_rejected_embedded_put_changes_handle are the two other findings.
    C24_unrepaired_counterexample        the defect that IS repaired, on the handle before ed05539 (`stepU`, Capacity.lean):
                                         two pending 2000-byte puts under a 3000-byte grant, commit → 4000.
    C24_capacity_never_exceeded_partial  every history without WAL growth / crash with payloads pending /
                                         vacuum / doctor / under-granting ticket keeps
                                         `cached_payload_end ≤ capacity_limit` (and the pending bytes covered).
    C24_step_partial                     the same as a one-step invariant (`CapInv`).
    C24_rejected_keeps_contents          a put / update answered with any error (CapacityExceeded included)
                                         leaves frames, pending records, sequence, payload end, data end, WAL size
                                         and ticket as they were.
    C24_rejected_put_unchanged           a put without embeddings answered CapacityExceeded leaves the handle
                                         exactly as it was; with embeddings it is `prePut` (vector index enabled).
-/
import MvProps.C24Lemmas
namespace Mv.Core

/-! ## The invariant -/

/-- the numeric part of the invariant -/
structure CapNum (m : Mem) : Prop where
  /-- the payload region ends within the limit -/
  bound : m.absEnd ≤ m.capacityLimit
  /-- and so will it once the pending records are committed (they are appended at `data_end`) -/
  pend : hasFresh m.pending = true →
    m.base + max m.payloadEnd m.dataEnd + pendingPayloadBytes m.pending ≤ m.capacityLimit
  /-- every stored payload lies inside the payload region -/
  within : Within m.frames m.payloadEnd
  /-- payloads are pending only in a dirty handle (so `Drop` commits them) -/
  dirty : hasFresh m.pending = true → m.dirty = true

/-- Core's invariant (pending records refer to committed frames) plus the capacity invariant -/
structure CapInv (m : Mem) : Prop where
  core : Inv m
  num : CapNum m

/-- `m'` differs from `m` only in parts the capacity argument never looks at -/
structure Light (m' m : Mem) : Prop where
  keeps : Keeps m' m
  pending : m'.pending = m.pending
  dataEnd : m'.dataEnd = m.dataEnd
  seq : m'.seq = m.seq
  pi : m'.pendingInserts = m.pendingInserts
  dirty : m.dirty = true → m'.dirty = true

theorem Light.refl (m : Mem) : Light m m := ⟨Keeps.refl m, rfl, rfl, rfl, rfl, id⟩

theorem Light.trans {a b c : Mem} (h1 : Light a b) (h2 : Light b c) : Light a c :=
  ⟨h1.keeps.trans h2.keeps, h1.pending.trans h2.pending, h1.dataEnd.trans h2.dataEnd, h1.seq.trans h2.seq,
   h1.pi.trans h2.pi, fun h => h1.dirty (h2.dirty h)⟩

theorem Light.capnum {m' m : Mem} (l : Light m' m) (h : CapNum m) : CapNum m' := by
  constructor
  · unfold Mem.absEnd; rw [l.keeps.base, l.keeps.pe, l.keeps.cap]; exact h.bound
  · rw [l.pending, l.keeps.base, l.keeps.pe, l.keeps.cap, l.dataEnd]; exact h.pend
  · rw [l.keeps.frames, l.keeps.pe]; exact h.within
  · rw [l.pending]; exact fun hf => l.dirty (h.dirty hf)

theorem Light.inv {m' m : Mem} (l : Light m' m) (h : Inv m) : Inv m' := by
  constructor
  · rw [l.keeps.frames, l.pending]; exact h.ok
  · rw [l.pi, l.pending]; exact h.pi

theorem Light.overCap {m' m : Mem} (l : Light m' m) (a : PutArgs) (r : Option Nat) :
    m'.overCap a r = m.overCap a r := by
  unfold Mem.overCap
  rw [l.keeps.base, l.keeps.pe, l.dataEnd, l.pending, l.keeps.cap]

theorem enableVec_light (m : Mem) : Light m.enableVec m := by
  unfold Mem.enableVec
  split
  · exact Light.refl m
  · exact ⟨⟨rfl, rfl, rfl, rfl⟩, rfl, rfl, rfl, rfl, fun _ => rfl⟩

theorem noteDim_light (m : Mem) (d : Nat) : Light (m.noteDim d) m := by
  unfold Mem.noteDim
  split
  · exact ⟨⟨rfl, rfl, rfl, rfl⟩, rfl, rfl, rfl, rfl, id⟩
  · exact Light.refl m

theorem loadVec_light (m : Mem) : Light m.loadVec m := by
  unfold Mem.loadVec
  split
  · exact ⟨⟨rfl, rfl, rfl, rfl⟩, rfl, rfl, rfl, rfl, id⟩
  · exact Light.refl m

theorem addCards_light (m : Mem) (nc k : Nat) : Light (m.addCards nc k) m := by
  unfold Mem.addCards
  split
  · exact Light.refl m
  · exact ⟨⟨rfl, rfl, rfl, rfl⟩, rfl, rfl, rfl, rfl, id⟩

theorem prePut_light (m : Mem) (a : PutArgs) : Light (m.prePut a) m := by
  unfold Mem.prePut
  split
  · exact (noteDim_light _ _).trans (enableVec_light m)
  · exact Light.refl m

/-! ## Commit -/

/-- the state after the records of `m` were applied (`m1`) and the rest of a commit / recovery ran (`R`) -/
theorem capnum_after_apply (m m1 R : Mem) (h : CapNum m)
    (p : m1.payloadEnd ≤ (if hasFresh m.pending then max m.payloadEnd (m.dataEnd + pendingPayloadBytes m.pending) else m.payloadEnd))
    (w : Within m1.frames m1.payloadEnd) (ws : m1.walSize = m.walSize) (tc : m1.ticketCap = m.ticketCap)
    (hk : Keeps R m1) (hp : hasFresh R.pending = false) : CapNum R := by
  have hcap : R.capacityLimit = m.capacityLimit := hk.cap.trans (capacityLimit_congr tc ws)
  have hbase : R.base = m.base := hk.base.trans (by unfold Mem.base; rw [ws])
  constructor
  · unfold Mem.absEnd
    rw [hbase, hk.pe, hcap]
    have hb := h.bound
    unfold Mem.absEnd at hb
    cases hf : hasFresh m.pending
    · simp [hf] at p; omega
    · have hpd := h.pend hf
      simp [hf] at p; omega
  · intro hf; rw [hp] at hf; cases hf
  · rw [hk.frames, hk.pe]; exact w
  · intro hf; rw [hp] at hf; cases hf

theorem commitFromRecords_capnum (m : Mem) (ft : Nat) (m' : Mem) (hc : m.commitFromRecords ft = some m')
    (h : CapNum m) : CapNum m' ∧ m'.pending = [] := by
  unfold Mem.commitFromRecords at hc
  split at hc
  · cases hc
  · rename_i m1 δ h1
    obtain ⟨p, w, ws, tc, _, _⟩ := applyRecords_cap m m.pending true m1 δ h1 h.within
    by_cases hd : δ.nonEmpty = true
    · simp only [hd, if_true, Option.some.injEq] at hc
      subst hc
      exact ⟨capnum_after_apply m m1 _ h p w ws tc
        (Keeps.trans (b := m1.rebuildIndexes δ.embs δ.inserted ft) ⟨rfl, rfl, rfl, rfl⟩ (rebuildIndexes_keeps ..)) rfl, rfl⟩
    · simp only [hd, Bool.false_eq_true, if_false, Option.some.injEq] at hc
      subst hc
      exact ⟨capnum_after_apply m m1 _ h p w ws tc
        (Keeps.trans (b := m1.flushTantivy ft) ⟨rfl, rfl, rfl, rfl⟩ (flushTantivy_keeps ..)) rfl, rfl⟩

/-- `commit()` keeps the capacity invariant (whether or not it succeeds) -/
theorem commit_capnum (m : Mem) (ft : Nat) (h : CapNum m) : CapNum (m.commit ft).1 := by
  unfold Mem.commit
  split
  · exact h
  · split
    · rename_i m' hc
      exact (commitFromRecords_capnum m ft m' hc h).1
    · exact h

/-- after a `commit()` of a handle satisfying Core's invariant no payload is pending -/
theorem commit_nofresh (m : Mem) (ft : Nat) (hi : Inv m) : hasFresh (m.commit ft).1.pending = false := by
  unfold Mem.commit
  split
  · rename_i hcond
    have he : m.pending = [] := by
      cases hp : m.pending with
      | nil => rfl
      | cons r rs => simp [hp] at hcond
    show hasFresh m.pending = false
    rw [he]; rfl
  · obtain ⟨m', hc, hcl⟩ := commitFromRecords_clean m ft hi
    simp only [hc]
    rw [hcl.pending]; rfl

theorem autoCommit_capnum (m : Mem) (t : Trace) (h : CapNum m) : CapNum (m.autoCommit t) := by
  unfold Mem.autoCommit
  split
  · exact commit_capnum m t.ft h
  · exact h

/-- the tail of put / delete when the WAL did not grow -/
theorem afterAppend_capnum (m : Mem) (t : Trace) (hws : t.ws = m.walSize) (h : CapNum m) :
    CapNum (m.afterAppend t) := by
  unfold Mem.afterAppend
  rw [hws, setWalSize_self]
  split
  · exact h
  · exact autoCommit_capnum m t h

/-! ## put / update / delete -/

/-- the handle after an accepted put on `m0` (the handle at the capacity tests): the exact test passed
    and the WAL appends, the automatic checkpoint and the card bookkeeping ran -/
def Accepted (r m0 : Mem) (a : PutArgs) (sup reuse : Option Nat) (t : Trace) : Prop :=
  m0.overCap a reuse = false ∧ ∃ k, r = ((m0.appendPut a sup reuse).afterAppend t).addCards a.nc k

theorem putTail_shape (m : Mem) (a : PutArgs) (sup reuse : Option Nat) (t : Trace) :
    ((m.putTail a sup reuse t).2.isAck = false ∧ (m.putTail a sup reuse t).1 = m) ∨
    ((m.putTail a sup reuse t).2.isAck = true ∧ Accepted (m.putTail a sup reuse t).1 m a sup reuse t) := by
  unfold Mem.putTail
  by_cases h1 : m.base + m.payloadEnd + a.plen > m.capacityLimit
  · rw [if_pos h1]; left; exact ⟨rfl, rfl⟩
  · rw [if_neg h1]
    by_cases h2 : m.overCap a reuse = true
    · rw [if_pos h2]; left; exact ⟨rfl, rfl⟩
    · rw [if_neg h2]; right; exact ⟨rfl, by simpa using h2, _, rfl⟩

/-- `put_internal`: either an error that leaves everything the capacity argument looks at alone, or an
    accepted put on the handle `prePut` -/
theorem putCore_shape (m : Mem) (a : PutArgs) (sup reuse : Option Nat) (t : Trace) :
    ((m.putCore a sup reuse t).2.isAck = false ∧ Light (m.putCore a sup reuse t).1 m) ∨
    ((m.putCore a sup reuse t).2.isAck = true ∧ Accepted (m.putCore a sup reuse t).1 (m.prePut a) a sup reuse t) := by
  cases hd : embDims a with
  | nil =>
    have hp : m.prePut a = m := by simp only [Mem.prePut, hd]
    rw [hp]
    simp only [Mem.putCore, hd]
    split
    · left; exact ⟨rfl, Light.refl m⟩
    · rcases putTail_shape m a sup reuse t with ⟨h1, h2⟩ | ⟨h1, h2⟩
      · left; exact ⟨h1, by rw [h2]; exact Light.refl m⟩
      · right; exact ⟨h1, h2⟩
  | cons d rest =>
    have hp : m.prePut a = m.enableVec.noteDim d := by simp only [Mem.prePut, hd]
    rw [hp]
    simp only [Mem.putCore, hd]
    split
    · left; exact ⟨rfl, Light.refl m⟩
    · split
      · left; exact ⟨rfl, Light.refl m⟩
      · split
        · left; exact ⟨rfl, enableVec_light m⟩
        · rcases putTail_shape (m.enableVec.noteDim d) a sup reuse t with ⟨h1, h2⟩ | ⟨h1, h2⟩
          · left; exact ⟨h1, by rw [h2]; exact (noteDim_light _ _).trans (enableVec_light m)⟩
          · right; exact ⟨h1, h2⟩

/-- an accepted put whose exact check passed: the invariant survives the appends, the automatic
    checkpoint and the card bookkeeping -/
theorem accepted_capnum (m0 : Mem) (a : PutArgs) (sup reuse : Option Nat) (t : Trace) (k : Nat) (h : CapNum m0)
    (hws : t.ws = m0.walSize) (hchk : m0.overCap a reuse = false) :
    CapNum (((m0.appendPut a sup reuse).afterAppend t).addCards a.nc k) := by
  have h1 : CapNum (m0.appendPut a sup reuse) := by
    constructor
    · exact h.bound
    · intro hf
      show m0.base + max m0.payloadEnd m0.dataEnd + pendingPayloadBytes (m0.pending ++ putRecords m0.seq a sup reuse) ≤ m0.capacityLimit
      have hf' : hasFresh (m0.pending ++ putRecords m0.seq a sup reuse) = true := hf
      rw [hasFresh_append, hasFresh_putRecords] at hf'
      rw [freshBytes_append, freshBytes_putRecords]
      cases hap : appendsPayload a reuse
      · rw [incomingBytes_of_not_appends a reuse hap]
        rw [hap] at hf'
        have := h.pend (by simpa using hf')
        omega
      · have hdef : m0.overCap a reuse = (appendsPayload a reuse &&
            decide (m0.base + max m0.payloadEnd m0.dataEnd + pendingPayloadBytes m0.pending + incomingBytes a reuse > m0.capacityLimit)) := rfl
        rw [hdef, hap] at hchk
        simp at hchk
        omega
    · exact h.within
    · exact fun _ => rfl
  exact (addCards_light _ _ _).capnum (afterAppend_capnum _ t hws h1)

theorem putCore_capnum (m : Mem) (a : PutArgs) (sup reuse : Option Nat) (t : Trace) (h : CapNum m)
    (hws : t.ws = m.walSize) : CapNum (m.putCore a sup reuse t).1 := by
  rcases putCore_shape m a sup reuse t with ⟨_, hl⟩ | ⟨_, hchk, k, he⟩
  · exact hl.capnum h
  · rw [he]
    have hl := prePut_light m a
    exact accepted_capnum (m.prePut a) a sup reuse t k (hl.capnum h) (by rw [hl.keeps.ws]; exact hws) hchk

/-- `update_frame`, in the same two shapes -/
theorem update_shape (m : Mem) (id : Nat) (u : UpdArgs) (t : Trace) :
    ((m.update id u t).2.isAck = false ∧ Light (m.update id u t).1 m) ∨
    (∃ old, m.frames[id]? = some old ∧ (m.update id u t).2.isAck = true ∧
      Accepted (m.update id u t).1 (m.loadVec.prePut (inheritArgs old u (m.carriedEmb id u.emb)))
        (inheritArgs old u (m.carriedEmb id u.emb)) (some id) (updReuse u id) t) := by
  unfold Mem.update
  split
  · left; exact ⟨rfl, Light.refl m⟩
  · split
    · left; exact ⟨rfl, Light.refl m⟩
    · rename_i old hold
      split
      · left; exact ⟨rfl, Light.refl m⟩
      · split
        · left; exact ⟨rfl, loadVec_light m⟩
        · rcases putCore_shape m.loadVec (inheritArgs old u (m.carriedEmb id u.emb)) (some id)
            (updReuse u id) t with ⟨h1, h2⟩ | ⟨h1, h2⟩
          · left; exact ⟨h1, h2.trans (loadVec_light m)⟩
          · right; exact ⟨old, hold, h1, h2⟩

theorem update_capnum (m : Mem) (id : Nat) (u : UpdArgs) (t : Trace) (h : CapNum m) (hws : t.ws = m.walSize) :
    CapNum (m.update id u t).1 := by
  rcases update_shape m id u t with ⟨_, hl⟩ | ⟨old, _, _, hchk, k, he⟩
  · exact hl.capnum h
  · rw [he]
    have hl : Light (m.loadVec.prePut (inheritArgs old u (m.carriedEmb id u.emb))) m :=
      (prePut_light _ _).trans (loadVec_light m)
    exact accepted_capnum _ _ (some id) _ t k (hl.capnum h) (by rw [hl.keeps.ws]; exact hws) hchk

theorem delete_capnum (m : Mem) (id : Nat) (t : Trace) (h : CapNum m) (hws : t.ws = m.walSize) :
    CapNum (m.delete id t).1 := by
  unfold Mem.delete
  split
  · exact h
  · split
    · exact h
    · refine afterAppend_capnum ({ m with pending := m.pending ++ [(m.seq + 1, .tombstone id)], seq := m.seq + 1, dirty := true } : Mem) t hws ?_
      constructor
      · exact h.bound
      · intro hf
        show m.base + max m.payloadEnd m.dataEnd + pendingPayloadBytes (m.pending ++ [(m.seq + 1, Entry.tombstone id)]) ≤ m.capacityLimit
        have hf' : hasFresh (m.pending ++ [(m.seq + 1, Entry.tombstone id)]) = true := hf
        rw [hasFresh_append] at hf'
        rw [freshBytes_append]
        have := h.pend (by simpa [hasFresh_cons, Entry.isFresh] using hf')
        simp [freshBytes_cons, Entry.freshLen]
        omega
      · exact h.within
      · exact fun _ => rfl

/-! ## The other operations -/

theorem foldEmbs_keeps (m : Mem) (embs : List VecEnt) : Keeps (m.foldEmbs embs) m := by
  unfold Mem.foldEmbs
  split
  · exact Keeps.refl m
  · exact ⟨rfl, rfl, rfl, rfl⟩

theorem commitSkip_capnum (m : Mem) (h : CapNum m) : CapNum m.commitSkipIndexes.1 := by
  unfold Mem.commitSkipIndexes
  split
  · exact h
  · split
    · exact (⟨⟨rfl, rfl, rfl, rfl⟩, rfl, rfl, rfl, rfl, id⟩ : Light { m with tantivyDirty := false } m).capnum h
    · rename_i m1 δ h1
      obtain ⟨p, w, ws, tc, _, _⟩ := applyRecords_cap m m.pending false m1 δ h1 h.within
      exact capnum_after_apply m m1 _ h p w ws tc
        (Keeps.trans (b := m1.foldEmbs δ.embs) ⟨rfl, rfl, rfl, rfl⟩ (foldEmbs_keeps ..)) rfl

theorem finalize_capnum (m : Mem) (ft : Nat) (h : CapNum m) : CapNum (m.finalizeIndexes ft).1 := by
  have hk := rebuildIndexes_keeps m [] [] ft
  obtain ⟨l, ol, pl⟩ := (rebuildIndexes_skel m [] [] ft).pending
  have hde := rebuildIndexes_dataEnd m [] [] ft
  have hfr : hasFresh (m.rebuildIndexes [] [] ft).pending = hasFresh m.pending := by
    rw [pl, hasFresh_append, hasFresh_onlyLex l ol, Bool.or_false]
  have hfb : pendingPayloadBytes (m.rebuildIndexes [] [] ft).pending = pendingPayloadBytes m.pending := by
    rw [pl, freshBytes_append, freshBytes_onlyLex l ol]; omega
  have hR : CapNum (m.rebuildIndexes [] [] ft) := by
    constructor
    · unfold Mem.absEnd; rw [hk.base, hk.pe, hk.cap]; exact h.bound
    · rw [hfr, hfb, hk.base, hk.pe, hk.cap]
      intro hf
      have := h.pend hf
      rcases hde with hde | hde <;> rw [hde] <;> omega
    · rw [hk.frames, hk.pe]; exact h.within
    · rw [hfr, rebuildIndexes_dirty]; exact h.dirty
  -- the sketch back-fill of `finalize_indexes` touches only the sketch track
  exact (⟨⟨rfl, rfl, rfl, rfl⟩, rfl, rfl, rfl, rfl, id⟩ : Light (m.finalizeIndexes ft).1 (m.rebuildIndexes [] [] ft)).capnum hR

/-- `recover_wal` when no payload is pending: the payload end does not move -/
theorem recoverWal_cap (m0 : Mem) (ft : Nat) (w : Within m0.frames m0.payloadEnd) (hf : hasFresh m0.pending = false) :
    (m0.recoverWal ft).payloadEnd ≤ m0.payloadEnd ∧ Within (m0.recoverWal ft).frames (m0.recoverWal ft).payloadEnd ∧
    (m0.recoverWal ft).walSize = m0.walSize ∧ (m0.recoverWal ft).ticketCap = m0.ticketCap ∧
    hasFresh (m0.recoverWal ft).pending = false := by
  unfold Mem.recoverWal
  split
  · have hk := flushTantivy_keeps m0 ft
    obtain ⟨l, ol, pl⟩ := (flushTantivy_skel m0 ft).pending
    refine ⟨Nat.le_of_eq hk.pe, by rw [hk.frames, hk.pe]; exact w, hk.ws, hk.tc, ?_⟩
    rw [pl, hasFresh_append, hf, hasFresh_onlyLex l ol]; rfl
  · split
    · exact ⟨Nat.le_refl _, w, rfl, rfl, hf⟩
    · rename_i ma δ h1
      obtain ⟨p, w1, ws, tc, _, _⟩ := applyRecords_cap m0 m0.pending true ma δ h1 w
      simp only [hf, Bool.false_eq_true, if_false] at p
      -- whatever bookkeeping wraps the rebuilt / flushed handle (sketch persist, footer, checkpoint) touches
      -- none of the four fields: the goals are definitionally about the `if … then rebuild else flush` handle
      have hE : Keeps (ma.enableVecForEmbs δ.embs) ma := by
        unfold Mem.enableVecForEmbs
        split
        · exact ⟨rfl, rfl, rfl, rfl⟩
        · exact Keeps.refl ma
      have hX := (rebuildOrFlush_keeps (ma.enableVecForEmbs δ.embs) δ ft).trans hE
      refine ⟨?_, ?_, ?_, ?_, rfl⟩
      · exact Nat.le_trans (Nat.le_of_eq hX.pe) p
      · exact hX.within w1
      · exact hX.ws.trans ws
      · exact hX.tc.trans tc

/-- `open_locked` when no payload is pending -/
theorem openFrom_capnum (m : Mem) (ft : Nat) (h : CapNum m) (hf : hasFresh m.pending = false) :
    CapNum (m.openFrom ft) ∧ hasFresh (m.openFrom ft).pending = false := by
  have hpe : m.openLoad.payloadEnd ≤ m.payloadEnd := payloadRegionEnd_le m.frames m.payloadEnd h.within
  have hw0 : Within m.openLoad.frames m.openLoad.payloadEnd := within_payloadRegionEnd m.frames
  have hl : Light m.openLoad.loadTracks m.openLoad := ⟨⟨rfl, rfl, rfl, rfl⟩, rfl, rfl, rfl, rfl, id⟩
  obtain ⟨p, w, ws, tc, nf⟩ := recoverWal_cap m.openLoad.loadTracks ft (hl.keeps.within hw0) hf
  have hnf : hasFresh (m.openFrom ft).pending = false := nf
  have hws : (m.openFrom ft).walSize = m.walSize := ws
  have htc : (m.openFrom ft).ticketCap = m.ticketCap := tc
  have hp' : (m.openFrom ft).payloadEnd ≤ m.payloadEnd := Nat.le_trans p hpe
  refine ⟨?_, hnf⟩
  constructor
  · have hb := h.bound
    unfold Mem.absEnd Mem.base at hb ⊢
    rw [capacityLimit_congr htc hws, hws]
    omega
  · intro hx; rw [hnf] at hx; cases hx
  · exact w
  · intro hx; rw [hnf] at hx; cases hx

theorem dropHandle_capnum (m : Mem) (ft : Nat) (hi : Inv m) (h : CapNum m) :
    CapNum (m.dropHandle ft) ∧ hasFresh (m.dropHandle ft).pending = false := by
  unfold Mem.dropHandle
  split
  · exact ⟨commit_capnum m ft h, commit_nofresh m ft hi⟩
  · rename_i hd
    refine ⟨h, ?_⟩
    cases hf : hasFresh m.pending
    · rfl
    · exact absurd (h.dirty hf) hd

theorem create_capnum : CapNum Mem.create := by
  constructor
  · decide
  · intro hf; cases hf
  · exact within_nil _
  · intro hf; cases hf

/-- the new grant covers what is already stored and what is already pending -/
def GrantCovers (m : Mem) (limit : Nat) : Prop :=
  m.absEnd ≤ limit ∧
  (hasFresh m.pending = true → m.base + max m.payloadEnd m.dataEnd + pendingPayloadBytes m.pending ≤ limit)

theorem applyTicket_capnum (m : Mem) (s : Int) (c : Nat) (b f : Bool) (h : CapNum m)
    (hg : GrantCovers m (m.applyTicket s c b f).1.capacityLimit) : CapNum (m.applyTicket s c b f).1 := by
  unfold Mem.applyTicket at hg ⊢
  split
  · exact h
  · rename_i hs
    simp only [hs, if_false] at hg
    exact ⟨hg.1, hg.2, h.within, h.dirty⟩

/-! ## The histories the theorem covers, and the theorem -/

/-- operations inside the scope of the partial theorem (`m` = the handle before the operation) -/
def Scoped (m : Mem) : Op → Prop
  | .put _ t => t.ws = m.walSize
  | .update _ _ t => t.ws = m.walSize
  | .delete _ t => t.ws = m.walSize
  | .beginBatch _ ws => ws = m.walSize
  | .crash _ => hasFresh m.pending = false
  | .ticket s c b f => GrantCovers m (m.applyTicket s c b f).1.capacityLimit
  | .vacuum _ _ => False
  | .doctor _ _ _ _ _ _ _ _ => False
  | _ => True

def ScopedRun (m : Mem) : List Op → Prop
  | [] => True
  | op :: ops => Scoped m op ∧ ScopedRun (step m op).1 ops

/-- C24, one step: inside the scope every operation keeps the payload region (and what is pending
    for it) within the capacity limit -/
theorem C24_step_partial (m : Mem) (op : Op) (h : CapInv m) (hs : Scoped m op) : CapInv (step m op).1 := by
  refine ⟨inv_step m op h.core, ?_⟩
  have hn := h.num
  cases op with
  | create => exact create_capnum
  | put a t => exact putCore_capnum m a none none t hn hs
  | update id u t => exact update_capnum m id u t hn hs
  | delete id t => exact delete_capnum m id t hn hs
  | commit ft => exact commit_capnum m ft hn
  | reopen a b =>
    obtain ⟨h1, h2⟩ := dropHandle_capnum m a h.core hn
    exact (openFrom_capnum (m.dropHandle a) b h1 h2).1
  | crash ft =>
    have hl : Light { m with queue := m.pQueue } m := ⟨⟨rfl, rfl, rfl, rfl⟩, rfl, rfl, rfl, rfl, id⟩
    exact (openFrom_capnum _ ft (hl.capnum hn) hs).1
  | beginBatch d ws =>
    have hs' : ws = m.walSize := hs
    show CapNum { m.setWalSize ws with batch := some d }
    rw [hs', setWalSize_self]
    exact (⟨⟨rfl, rfl, rfl, rfl⟩, rfl, rfl, rfl, rfl, id⟩ : Light { m with batch := some d } m).capnum hn
  | endBatch => exact (⟨⟨rfl, rfl, rfl, rfl⟩, rfl, rfl, rfl, rfl, id⟩ : Light { m with batch := none } m).capnum hn
  | commitSkipIndexes => exact commitSkip_capnum m hn
  | finalizeIndexes ft => exact finalize_capnum m ft hn
  | vacuum a b => exact absurd hs id
  | doctor v rt rl rv a b c d => exact absurd hs id
  | ticket s c b f => exact applyTicket_capnum m s c b f hn hs

theorem C24_run_partial (m : Mem) (ops : List Op) (h : CapInv m) (hs : ScopedRun m ops) : CapInv (run m ops) := by
  induction ops generalizing m with
  | nil => exact h
  | cons op ops ih => exact ih _ (C24_step_partial m op h hs.1) hs.2

/-- C24 (partial): in every history without WAL growth, without a crash while payloads are pending,
    without vacuum / doctor and without a ticket that grants less than is in use, the payload region
    never ends beyond the capacity limit — and the bytes pending in the WAL are covered as well, so the
    next commit cannot exceed it either. -/
theorem C24_capacity_never_exceeded_partial (ops : List Op) (hs : ScopedRun Mem.create ops) :
    (run Mem.create ops).absEnd ≤ (run Mem.create ops).capacityLimit ∧
    (hasFresh (run Mem.create ops).pending = true →
      (run Mem.create ops).base + max (run Mem.create ops).payloadEnd (run Mem.create ops).dataEnd
        + pendingPayloadBytes (run Mem.create ops).pending ≤ (run Mem.create ops).capacityLimit) :=
  let h := C24_run_partial Mem.create ops ⟨create_inv, create_capnum⟩ hs
  ⟨h.num.bound, h.num.pend⟩

/-! ## Rejected puts -/

/-- a put / update answered with an error (CapacityExceeded included) leaves frames, pending records,
    WAL sequence, payload end, data end, WAL size and ticket as they were -/
theorem C24_rejected_keeps_contents (m : Mem) (op : Op) (hop : (∃ a t, op = .put a t) ∨ (∃ id u t, op = .update id u t))
    (hrej : (step m op).2.isAck = false) : Light (step m op).1 m := by
  rcases hop with ⟨a, t, rfl⟩ | ⟨id, u, t, rfl⟩
  · have hrej' : (m.putCore a none none t).2.isAck = false := hrej
    show Light (m.putCore a none none t).1 m
    rcases putCore_shape m a none none t with ⟨_, hl⟩ | ⟨hy, _⟩
    · exact hl
    · rw [hy] at hrej'; cases hrej'
  · have hrej' : (m.update id u t).2.isAck = false := hrej
    show Light (m.update id u t).1 m
    rcases update_shape m id u t with ⟨_, hl⟩ | ⟨_, _, hy, _⟩
    · exact hl
    · rw [hy] at hrej'; cases hrej'

theorem putTail_capacity (m : Mem) (a : PutArgs) (sup reuse : Option Nat) (t : Trace)
    (h : (m.putTail a sup reuse t).2 = .err "capacity") : (m.putTail a sup reuse t).1 = m := by
  rcases putTail_shape m a sup reuse t with ⟨_, h2⟩ | ⟨h1, _⟩
  · exact h2
  · rw [h] at h1; cases h1

/-- `put_internal` of the current code answers CapacityExceeded only from the two tests in `putTail` -/
theorem putCore_capacity (m : Mem) (a : PutArgs) (sup reuse : Option Nat) (t : Trace)
    (h : (m.putCore a sup reuse t).2 = .err "capacity") : (m.putCore a sup reuse t).1 = m.prePut a := by
  cases hd : embDims a with
  | nil =>
    have hp : m.prePut a = m := by simp only [Mem.prePut, hd]
    rw [hp]
    simp only [Mem.putCore, hd] at h ⊢
    by_cases hm : (!m.mutationAllowed) = true
    · simp only [hm, if_true] at h; exact absurd h (by decide)
    · simp only [hm, Bool.false_eq_true, if_false] at h ⊢
      exact putTail_capacity m a sup reuse t h
  | cons d rest =>
    have hp : m.prePut a = m.enableVec.noteDim d := by simp only [Mem.prePut, hd]
    rw [hp]
    simp only [Mem.putCore, hd] at h ⊢
    by_cases hm : (!m.mutationAllowed) = true
    · simp only [hm, if_true] at h; exact absurd h (by decide)
    · simp only [hm, Bool.false_eq_true, if_false] at h ⊢
      by_cases hr : (rest.any fun x => x != d) = true
      · simp only [hr, if_true] at h; exact absurd h (by decide)
      · simp only [hr, Bool.false_eq_true, if_false] at h ⊢
        by_cases hx : m.enableVec.vecDim ≠ 0 ∧ m.enableVec.vecDim ≠ d
        · rw [if_pos hx] at h; simp at h
        · rw [if_neg hx] at h ⊢
          exact putTail_capacity _ a sup reuse t h

/-- a put answered CapacityExceeded leaves the handle as `put_internal` found it after the dimension
    contract: unchanged, except that a put carrying an embedding has already enabled the vector index -/
theorem C24_rejected_put_is_prePut (m : Mem) (a : PutArgs) (t : Trace)
    (h : (step m (.put a t)).2 = .err "capacity") : (step m (.put a t)).1 = m.prePut a :=
  putCore_capacity m a none none t h

/-- C24, second clause: a put WITHOUT embeddings answered CapacityExceeded leaves the memory unchanged -/
theorem C24_rejected_put_unchanged (m : Mem) (a : PutArgs) (t : Trace) (hemb : embDims a = [])
    (h : (step m (.put a t)).2 = .err "capacity") : (step m (.put a t)).1 = m := by
  rw [C24_rejected_put_is_prePut m a t h]
  unfold Mem.prePut
  rw [hemb]

/-! ## Witnesses -/

def DATA_START : Nat := 4096 + 65536

/-- a whole (unchunked, binary) put of `len` stored bytes -/
def binPut (len : Nat) (tok : String) (ts : Int) (ws : Nat := 65536) : Op :=
  .put { ts := ts, content := tok, len := len, plen := len } { ws := ws }

/-- the confirmed defect: a 3000-byte grant, two uncommitted 2000-byte puts, commit -/
def witnessPending : List Op :=
  [.ticket 2 (DATA_START + 3000) false false, binPut 2000 "a" 100, binPut 2000 "b" 101, .commit 8424]

/-- on the handle as it was BEFORE the repair ed05539 (`stepU`: only the early test against the committed
    payload end) both puts are accepted and the commit leaves 4000 payload bytes under a 3000-byte grant -/
theorem C24_unrepaired_counterexample :
    (traceU Mem.create witnessPending).map (·.2) = [.ok, .seq 1, .seq 2, .ok] ∧
    (runU Mem.create witnessPending).payloadEnd = 4000 ∧
    (runU Mem.create witnessPending).absEnd > (runU Mem.create witnessPending).capacityLimit := by
  decide

/-- with the repair the second put is rejected and the commit stays inside the grant (non-vacuity of
    the partial theorem: the history is in scope) -/
example : (trace Mem.create witnessPending).map (·.2) = [.ok, .seq 1, .err "capacity", .ok] ∧
    (run Mem.create witnessPending).payloadEnd = 2000 ∧
    (run Mem.create witnessPending).absEnd ≤ (run Mem.create witnessPending).capacityLimit := by decide

/-- non-vacuity of the rejection theorems: the third operation of the witness IS answered
    CapacityExceeded by the repaired handle, carries no embedding, and leaves one record pending -/
example : (step (run Mem.create (witnessPending.take 2)) (binPut 2000 "b" 101)).2 = .err "capacity" ∧
    embDims ({ ts := 101, content := "b", len := 2000, plen := 2000 } : PutArgs) = [] ∧
    pendingPayloadBytes (run Mem.create (witnessPending.take 2)).pending = 2000 := by decide

example : ScopedRun Mem.create witnessPending :=
  ⟨⟨by decide, by decide⟩, rfl, rfl, trivial, trivial⟩

/-- the property at full strength, for the repaired handle: whatever the history, an operation never
    moves the end of the payload region beyond the limit (it may leave it where it was), and a put or
    update answered CapacityExceeded leaves the handle as it was -/
def C24_full : Prop :=
  ∀ (ops : List Op) (op : Op),
    ((step (run Mem.create ops) op).1.absEnd ≤ (run Mem.create ops).absEnd ∨
     (step (run Mem.create ops) op).1.absEnd ≤ (step (run Mem.create ops) op).1.capacityLimit) ∧
    ((step (run Mem.create ops) op).2 = .err "capacity" → (step (run Mem.create ops) op).1 = run Mem.create ops)

/-- finding (not repaired): the WAL grows inside the put that was just admitted; everything behind the
    WAL moves by the growth and the commit lands beyond the limit -/
def witnessWalGrowth : List Op :=
  [.ticket 2 (DATA_START + 100000) false false, binPut 90000 "a" 100 131072]

theorem C24_counterexample : ¬ C24_full := by
  intro h
  have h1 := (h witnessWalGrowth (.commit 94076)).1
  revert h1
  decide

/-- finding (not repaired): a crash between put and commit; the replay at open appends the payload after
    the index region the previous commit wrote (`data_end` = footer after an open) -/
def witnessCrashReplay : List Op :=
  [binPut 1000 "a" 100, .commit 5076, .ticket 2 (DATA_START + 1100) false false, binPut 50 "b" 101]

theorem C24_crash_replay_exceeds :
    (trace Mem.create witnessCrashReplay).map (·.2) = [.seq 1, .ok, .ok, .seq 3] ∧
    (step (run Mem.create witnessCrashReplay) (.crash 9462)).1.payloadEnd = 5126 ∧
    (step (run Mem.create witnessCrashReplay) (.crash 9462)).1.absEnd >
      (step (run Mem.create witnessCrashReplay) (.crash 9462)).1.capacityLimit := by
  decide

/-- finding (not repaired): a put with an embedding answered CapacityExceeded has already enabled the
    vector index (`enable_vec` runs before the capacity tests) -/
theorem C24_rejected_embedded_put_changes_handle :
    let m := run Mem.create [.ticket 2 (DATA_START + 100) false false]
    let op : Op := .put { ts := 105, content := "a", len := 500, plen := 500, emb := some (3, "e") } {}
    (step m op).2 = .err "capacity" ∧ m.vecEnabled = false ∧ (step m op).1.vecEnabled = true ∧
    m.dirty = false ∧ (step m op).1.dirty = true := by
  decide

end Mv.Core
