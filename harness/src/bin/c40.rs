//! C40 — bulk-ingestion paths are equivalent to plain puts.
//!
//! One CASE = a document set (+ an optional prefix that is ingested plainly and committed first),
//! batch options (`disable_auto_checkpoint`, `skip_sync`, `compression_level`, `wal_pre_size_bytes`)
//! and the positions of the skip-index commits.  The case is ingested three times into fresh files:
//!   plain : puts; commit                                   ; reopen
//!   batch : begin_batch; puts; end_batch; commit           ; reopen
//!   skip  : (puts; commit_skip_indexes)*; finalize_indexes ; reopen   (optionally inside a batch)
//! impl  : real `Memvid` (shared history runner `mvh::hist::run_history`), observed after the settling
//!         op and after the reopen: frame table (logical fields + canonical content), timeline,
//!         persisted time index, vector index entries, `search_vec`, sketch ids, engine document count,
//!         `search` (with and without the sketch pre-filter).
//! model : drv_c40 = the Lean Core model with the REPAIRED skip/finalize (MvModel/Bulk.lean); full
//!         observation compared after every op of every path, engine document count at the end.
//! oracle: (independent of the model) the three paths give the same answers to every query above.
use memvid_core::{AclEnforcementMode, SearchRequest, TimelineQuery};
use mvh::hist::*;
use mvh::*;
use serde::{Deserialize, Serialize};
use serde_json::{json, Value};
use std::num::NonZeroU64;

#[derive(Clone, Debug, PartialEq, Serialize, Deserialize)]
struct Doc {
    put: PutSpec,
    /// a `commit_skip_indexes` follows this document in the skip path (always after the last one)
    cut: bool,
}

#[derive(Clone, Debug, PartialEq, Serialize, Deserialize)]
struct Case {
    prefix: Vec<PutSpec>,
    docs: Vec<Doc>,
    dis: bool,
    skip_sync: bool,
    level: i32,
    presize: u64,
    /// the skip path runs inside begin_batch/end_batch too
    skip_in_batch: bool,
}

#[derive(Clone, Copy, Debug, PartialEq)]
enum Path { Plain, Batch, Skip }

fn path_ops(c: &Case, path: Path) -> Vec<Op> {
    let mut ops: Vec<Op> = c.prefix.iter().cloned().map(Op::Put).collect();
    if !c.prefix.is_empty() { ops.push(Op::Commit); }
    let begin = Op::BeginBatch { disable_auto_checkpoint: c.dis, skip_sync: c.skip_sync, compression_level: c.level, presize: c.presize };
    match path {
        Path::Plain => {
            ops.extend(c.docs.iter().map(|d| Op::Put(d.put.clone())));
            ops.push(Op::Commit);
        }
        Path::Batch => {
            ops.push(begin);
            ops.extend(c.docs.iter().map(|d| Op::Put(d.put.clone())));
            ops.push(Op::EndBatch);
            ops.push(Op::Commit);
        }
        Path::Skip => {
            if c.skip_in_batch { ops.push(begin); }
            let n = c.docs.len();
            for (i, d) in c.docs.iter().enumerate() {
                ops.push(Op::Put(d.put.clone()));
                if d.cut || i + 1 == n { ops.push(Op::CommitSkip); }
            }
            if c.skip_in_batch { ops.push(Op::EndBatch); }
            ops.push(Op::Finalize);
        }
    }
    ops.push(Op::Reopen);
    ops
}

/// everything a client can ask about the ingested documents
#[derive(Clone, Debug, Default, PartialEq)]
struct Snap {
    frames: Vec<String>,
    timeline: String,
    time_index: String,
    vec: String,
    vec_search: Vec<String>,
    sketch: String,
    lex_docs: String,
    search_nosketch: Vec<String>,
    search: Vec<String>,
    search_order: Vec<String>,
}

const QUERY_WORDS: &[&str] = &["alpha", "memory", "Paris", "quartz", "tea", "vector", "Report", "hello", "café", "zzzabsent", "alpha memory", "river signal"];

fn logical_frame(f: &FrameObs) -> String {
    // FrameObs::line() without the placement (`off`) and stored length (`len`), which legitimately depend
    // on compression level and commit points
    let l = f.line();
    let parts: Vec<&str> = l.split(',').collect();
    parts[..parts.len().saturating_sub(2)].join(",")
}

fn ids(v: &[u64]) -> String { if v.is_empty() { "-".into() } else { v.iter().map(|x| x.to_string()).collect::<Vec<_>>().join(",") } }

fn do_search(v: &mut StepView, q: &str, no_sketch: bool) -> (String, String) {
    let req = SearchRequest {
        query: q.to_string(), top_k: 500, snippet_chars: 80, uri: None, scope: None, cursor: None, as_of_frame: None,
        as_of_ts: None, no_sketch, acl_context: None, acl_enforcement_mode: AclEnforcementMode::Audit,
    };
    match guarded(std::panic::AssertUnwindSafe(|| v.world.mem().search(req))) {
        Ok(Ok(r)) => {
            let order: Vec<u64> = r.hits.iter().map(|h| h.frame_id).collect();
            let mut set = order.clone();
            set.sort_unstable();
            (format!("{q}: total={} hits={}", r.total_hits, ids(&set)), format!("{q}: {}", ids(&order)))
        }
        Ok(Err(e)) => (format!("{q}: error {e}"), format!("{q}: error")),
        Err(p) => (format!("{q}: panic {p}"), format!("{q}: panic")),
    }
}

fn snap(v: &mut StepView, vec_queries: &[Vec<f32>]) -> Snap {
    let o = v.after;
    let mut s = Snap::default();
    s.frames = o.frames.iter().map(logical_frame).collect();
    s.time_index = match &o.time { None => "none".into(), Some(t) => t.iter().map(|(a, b)| format!("{a}:{b}")).collect::<Vec<_>>().join(",") };
    s.vec = match &o.vec { None => "none".into(), Some(e) => e.iter().map(|(i, _, t)| format!("{i}:{t}")).collect::<Vec<_>>().join(",") };
    s.sketch = ids(&o.sketch);
    s.lex_docs = format!("{:?}", o.index.lex_num_docs);
    let tq = TimelineQuery { limit: NonZeroU64::new(100_000), since: None, until: None, reverse: false };
    s.timeline = match guarded(std::panic::AssertUnwindSafe(|| v.world.mem().timeline(tq))) {
        Ok(Ok(es)) => es.iter().map(|e| format!("{}@{}[{}]", e.frame_id, e.timestamp, ids(&e.child_frames))).collect::<Vec<_>>().join(","),
        Ok(Err(e)) => format!("error {e}"),
        Err(p) => format!("panic {p}"),
    };
    for q in vec_queries {
        let r = guarded(std::panic::AssertUnwindSafe(|| v.world.mem().search_vec(q, 10_000)));
        s.vec_search.push(match r {
            Ok(Ok(h)) => h.iter().map(|x| format!("{}:{:08x}", x.frame_id, x.distance.to_bits())).collect::<Vec<_>>().join(","),
            Ok(Err(e)) => format!("error {e}"),
            Err(p) => format!("panic {p}"),
        });
    }
    for q in QUERY_WORDS {
        let (a, _) = do_search(v, q, true);
        s.search_nosketch.push(a);
        let (a, b) = do_search(v, q, false);
        s.search.push(a);
        s.search_order.push(b);
    }
    s
}

fn first_diff_list(a: &[String], b: &[String]) -> String {
    for i in 0..a.len().max(b.len()) {
        let x = a.get(i).map(|s| s.as_str()).unwrap_or("<missing>");
        let y = b.get(i).map(|s| s.as_str()).unwrap_or("<missing>");
        if x != y { return format!("[{i}] `{}` vs `{}`", x.chars().take(300).collect::<String>(), y.chars().take(300).collect::<String>()); }
    }
    "equal".into()
}

/// the property: path `b` answers like the plain path `a`
fn compare(an: &str, a: &Snap, bn: &str, b: &Snap, at: &str) -> Option<(String, String)> {
    let pre = format!("{at}: {an} vs {bn}");
    if a.frames != b.frames { return Some(("bulk-path-frames-differ".into(), format!("{pre}: frame table / contents {}", first_diff_list(&a.frames, &b.frames)))); }
    if a.timeline != b.timeline { return Some(("bulk-path-timeline-differs".into(), format!("{pre}: timeline `{}` vs `{}`", a.timeline, b.timeline))); }
    if a.time_index != b.time_index { return Some(("bulk-path-timeline-differs".into(), format!("{pre}: persisted time index `{}` vs `{}`", a.time_index, b.time_index))); }
    if a.vec != b.vec { return Some(("bulk-path-loses-embeddings".into(), format!("{pre}: vector index entries `{}` vs `{}`", a.vec, b.vec))); }
    if a.vec_search != b.vec_search { return Some(("bulk-path-loses-embeddings".into(), format!("{pre}: search_vec {}", first_diff_list(&a.vec_search, &b.vec_search)))); }
    if a.lex_docs != b.lex_docs { return Some(("bulk-path-search-differs".into(), format!("{pre}: lexical engine holds {} vs {} documents", a.lex_docs, b.lex_docs))); }
    if a.search_nosketch != b.search_nosketch { return Some(("bulk-path-search-differs".into(), format!("{pre}: search (no_sketch) {}", first_diff_list(&a.search_nosketch, &b.search_nosketch)))); }
    if a.sketch != b.sketch { return Some(("bulk-path-missing-sketches".into(), format!("{pre}: sketch track frame ids `{}` vs `{}`", a.sketch, b.sketch))); }
    if a.search != b.search { return Some(("bulk-path-search-differs".into(), format!("{pre}: search {}", first_diff_list(&a.search, &b.search)))); }
    if a.search_order != b.search_order { return Some(("bulk-path-search-order-differs".into(), format!("{pre}: search hit order {}", first_diff_list(&a.search_order, &b.search_order)))); }
    None
}

struct PathRun {
    acks: Vec<bool>,
    live: Option<Snap>,
    reopened: Option<Snap>,
    out: Outcome,
    model_lexn: Option<String>,
}

fn vec_queries(c: &Case) -> Vec<Vec<f32>> {
    let mut qs: Vec<Vec<f32>> = vec![];
    let all = c.prefix.iter().chain(c.docs.iter().map(|d| &d.put));
    for p in all {
        if let Some(e) = &p.emb { if qs.len() < 2 { qs.push(e.vector()); } }
        if let Some(ce) = &p.chunk_embs { if let Some(e) = ce.first() { if qs.len() < 3 { qs.push(e.vector()); } } }
    }
    if let Some(d) = qs.first().map(|q| q.len()) { qs.push(EmbSpec { dim: d, seed: 0xC40 }.vector()); }
    qs
}

fn run_path(c: &Case, path: Path, drv: Option<&mut Driver>, verbose: bool) -> PathRun {
    let ops = path_ops(c, path);
    let settle = ops.len() - 2;
    let last = ops.len() - 1;
    let vq = vec_queries(c);
    let mut drv = drv;
    let once = |drv: Option<&mut Driver>| -> (Vec<bool>, Option<Snap>, Option<Snap>, Outcome) {
        let mut acks: Vec<bool> = vec![];
        let mut live: Option<Snap> = None;
        let mut reopened: Option<Snap> = None;
        let out = {
            let mut oracle = |v: &mut StepView| -> Option<(String, String)> {
                if matches!(v.op, Op::Put(_)) { acks.push(v.ack.is_ok()); }
                if !v.ack.is_ok() && !matches!(v.op, Op::Put(_)) {
                    return Some(("bulk-path-call-failed".into(), format!("{:?} path: {} answered {}", path, v.op.name(), v.ack.line())));
                }
                if v.index == settle { live = Some(snap(v, &vq)); }
                if v.index == last { reopened = Some(snap(v, &vq)); }
                None
            };
            run_history(Source::Fixed(&ops), drv, &mut oracle, verbose)
        };
        (acks, live, reopened, out)
    };
    let (mut acks, mut live, mut reopened, mut out) = once(drv.as_deref_mut());
    // the model's engine contents at the end of the path (the shared observation has no lexical part)
    let model_lexn = match drv.as_deref_mut() { Some(d) if out.disagree.is_none() && out.dead.is_none() && out.oracle.is_none() => Some(d.ask("lexn")), _ => None };
    if out.disagree.is_some() && out.dead.is_none() && out.oracle.is_none() {
        // the shared runner stops a history at the first model/implementation difference: run the
        // path again without the model so that the property oracle still sees the whole path
        let (a2, l2, r2, o2) = once(None);
        acks = a2; live = l2; reopened = r2;
        out.oracle = o2.oracle; out.dead = o2.dead; out.branches = o2.branches;
    }
    if verbose {
        println!("=== {:?} path: acks {:?}", path, acks);
        if let Some(s) = &reopened { println!("    reopened: vec={} sketch={} lex={} timeline={}", s.vec, s.sketch, s.lex_docs, s.timeline); }
    }
    PathRun { acks, live, reopened, out, model_lexn }
}

/// run one case on the three paths; report into `sum`; returns the oracle failure (if any)
fn run_case(c: &Case, drv: &mut Option<Driver>, verbose: bool) -> (Vec<PathRun>, Option<(String, String)>) {
    let runs: Vec<PathRun> = [Path::Plain, Path::Batch, Path::Skip].iter().map(|p| run_path(c, *p, drv.as_mut(), verbose)).collect();
    let names = ["plain", "batch", "skip"];
    let mut early: Option<(String, String)> = None;
    for (r, n) in runs.iter().zip(names) {
        if early.is_some() { break; }
        if let Some(d) = &r.out.dead { early = Some(("implementation-failed".into(), format!("{n} path: {d}"))); }
        else if let Some((sig, what, _, _)) = &r.out.oracle { early = Some((sig.clone(), what.clone())); }
    }
    if early.is_some() { return (runs, early); }
    let mut fail = None;
    for k in 1..3 {
        if runs[0].acks != runs[k].acks {
            fail = Some(("bulk-path-acks-differ".into(), format!("plain vs {}: acknowledged puts {:?} vs {:?}", names[k], runs[0].acks, runs[k].acks)));
            break;
        }
        if let (Some(a), Some(b)) = (&runs[0].live, &runs[k].live) { if let Some(x) = compare("plain", a, names[k], b, "after commit/finalize") { fail = Some(x); break; } }
        if let (Some(a), Some(b)) = (&runs[0].reopened, &runs[k].reopened) { if let Some(x) = compare("plain", a, names[k], b, "after reopen") { fail = Some(x); break; } }
    }
    (runs, fail)
}

// ---------------------------------------------------------------------------------------
// generator

fn gen_doc_payload(rng: &mut Rng, big_ok: bool) -> PayloadSpec {
    let seed = rng.u64();
    let r = rng.below(100);
    let (kind, len) = match r {
        0..=2 => (PayloadKind::Empty, 0),
        3..=9 => (PayloadKind::Bin, rng.usize(1, 16)),
        10..=15 => (PayloadKind::Rand, rng.usize(17, 3000)),
        16..=19 => (PayloadKind::Zero, rng.usize(1, 2000)),
        20..=49 => (PayloadKind::Ascii, rng.usize(1, 700)),
        50..=57 => (PayloadKind::Ascii, *rng.pick(&[2399usize, 2400, 2401])),
        58..=69 => (PayloadKind::Ascii, rng.usize(2400, 9000)),
        70..=81 => (PayloadKind::Utf8, rng.usize(1, 600)),
        82..=88 => (PayloadKind::Utf8, rng.usize(2380, 6000)),
        89..=95 => (PayloadKind::Table, rng.usize(300, 5000)),
        _ => if big_ok { (PayloadKind::Rand, rng.usize(66_000, 90_000)) } else { (PayloadKind::Ascii, rng.usize(5000, 12000)) },
    };
    PayloadSpec { kind, len, seed }
}

fn word(rng: &mut Rng) -> String { (*rng.pick(&["news", "note", "log", "doc", "mail", "wiki", "alpha", "beta", "red", "blue"])).to_string() }

fn gen_doc(rng: &mut Rng, n: usize, ts: &mut i64, dim: usize, emb_percent: u64, big_ok: bool) -> PutSpec {
    // timestamps: mostly increasing, sometimes equal or going back (ties and disorder in the timeline)
    *ts += match rng.below(10) { 0 | 1 => 0, 2 => -rng.i64(1, 500), _ => rng.i64(1, 400) };
    let mut p = PutSpec::simple(gen_doc_payload(rng, big_ok), *ts);
    if rng.chance(55, 100) { p.uri = Some(format!("mv2://{}/{}-{}.txt", word(rng), word(rng), n)); }
    if rng.chance(30, 100) { p.kind = Some(word(rng)); }
    if rng.chance(30, 100) { p.track = Some(word(rng)); }
    if rng.chance(35, 100) { p.tags = (0..rng.usize(1, 3)).map(|_| word(rng)).collect(); p.tags.dedup(); }
    if rng.chance(25, 100) { p.labels = vec![word(rng)]; }
    if matches!(p.payload.kind, PayloadKind::Bin | PayloadKind::Rand | PayloadKind::Zero) && rng.chance(8, 100) { p.role = 2; }
    if rng.chance(emb_percent, 100) {
        let d = if rng.chance(3, 100) { dim % 8 + 1 } else { dim };
        p.emb = Some(EmbSpec { dim: d, seed: rng.u64() });
        if rng.chance(35, 100) {
            let k = rng.usize(0, 4);
            p.chunk_embs = Some((0..k).map(|_| EmbSpec { dim: d, seed: rng.u64() }).collect());
            if rng.chance(30, 100) { p.emb = None; }
        }
    }
    p.instant_index = rng.chance(12, 100);
    p
}

fn gen_case(rng: &mut Rng, thorough: bool, long: bool) -> Case {
    let dim = rng.usize(1, 8);
    let mut ts = rng.i64(1_600_000_000, 1_700_000_000);
    let emb_percent = *rng.pick(&[0u64, 40, 60, 100]);
    let n_prefix = if rng.chance(45, 100) { rng.usize(1, 3) } else { 0 };
    let n_docs = if long { rng.usize(14, if thorough { 40 } else { 22 }) } else { rng.usize(1, if thorough { 12 } else { 7 }) };
    let mut n = 0;
    let prefix: Vec<PutSpec> = (0..n_prefix).map(|_| { n += 1; gen_doc(rng, n, &mut ts, dim, emb_percent, false) }).collect();
    let cut_percent = *rng.pick(&[0u64, 25, 50, 100]);
    let docs: Vec<Doc> = (0..n_docs).map(|_| { n += 1; Doc { put: gen_doc(rng, n, &mut ts, dim, emb_percent, long), cut: rng.chance(cut_percent, 100) } }).collect();
    Case {
        prefix, docs,
        dis: rng.chance(70, 100), skip_sync: rng.bool(), level: *rng.pick(&[0, 1, 3, 3, 9, -1]),
        presize: if rng.chance(40, 100) { *rng.pick(&[1u64, 65_536, 100_000, 131_072, 200_000, 1_000_000]) } else { 0 },
        skip_in_batch: rng.chance(40, 100),
    }
}

fn emb_put(kind: PayloadKind, len: usize, seed: u64, ts: i64, dim: usize, eseed: u64) -> PutSpec {
    let mut p = PutSpec::simple(PayloadSpec::new(kind, len, seed), ts);
    p.emb = Some(EmbSpec { dim, seed: eseed });
    p
}

/// fixed cases that run first; the first two are the witnesses of the defect repaired by fixes/C40.diff (7cd4b84),
/// `witness-sketch-order-…` the one repaired by fixes/C40b.diff
fn corpus() -> Vec<(String, Case)> {
    let plain = |kind, len, seed, ts| PutSpec::simple(PayloadSpec::new(kind, len, seed), ts);
    let base = Case { prefix: vec![], docs: vec![], dis: true, skip_sync: true, level: 3, presize: 0, skip_in_batch: false };
    vec![
        ("witness-embeddings-dropped-by-skip-commit".into(), Case {
            docs: vec![Doc { put: emb_put(PayloadKind::Ascii, 60, 1, 100, 4, 11), cut: true }, Doc { put: emb_put(PayloadKind::Ascii, 80, 2, 101, 4, 12), cut: true }],
            ..base.clone() }),
        ("witness-no-sketch-after-skip-commit".into(), Case {
            prefix: vec![plain(PayloadKind::Ascii, 300, 3, 90)],
            docs: vec![Doc { put: plain(PayloadKind::Ascii, 300, 4, 100), cut: false }, Doc { put: plain(PayloadKind::Ascii, 400, 5, 101), cut: true }],
            ..base.clone() }),
        ("chunked-with-chunk-embeddings".into(), Case {
            prefix: vec![emb_put(PayloadKind::Ascii, 50, 6, 50, 3, 21)],
            docs: vec![
                Doc { put: { let mut p = emb_put(PayloadKind::Ascii, 6000, 7, 100, 3, 22); p.chunk_embs = Some((0..3).map(|i| EmbSpec { dim: 3, seed: 30 + i }).collect()); p.uri = Some("mv2://doc/big.txt".into()); p }, cut: false },
                Doc { put: plain(PayloadKind::Bin, 9, 8, 100), cut: true },
                Doc { put: emb_put(PayloadKind::Utf8, 3000, 9, 99, 3, 23), cut: false }],
            dis: false, skip_sync: false, level: 0, presize: 200_000, skip_in_batch: true }),
        // 14 incompressible 4 KB documents: the plain path (and the batch path, which keeps the automatic
        // checkpoint on) crosses 75 % of the 64 KiB WAL and checkpoints by itself in the middle of the set;
        // the skip path commits every 5 documents and never does
        ("auto-checkpoint-mid-ingestion".into(), Case {
            docs: (0..14u64).map(|i| Doc {
                put: if i % 3 == 0 { emb_put(PayloadKind::Rand, 4000, 40 + i, 300 + i as i64, 2, 60 + i) } else { plain(PayloadKind::Rand, 4000, 40 + i, 300 + i as i64) },
                cut: i % 5 == 4 }).collect(),
            dis: false, skip_sync: true, level: 3, presize: 0, skip_in_batch: false, prefix: vec![] }),
        // found by the generator (seed 7920): without a batch the 87 KB put of the second group grows the WAL and
        // checkpoints by itself (a FULL commit inside the skip path), so frames 1..13 are sketched before
        // finalize_indexes sketches frame 0; the persisted track stores no frame ids, so unless the track is kept
        // in frame-id order (fixes/C40b.diff) every sketch is attached to the wrong frame after a reopen
        ("witness-sketch-order-after-interleaved-full-commit".into(),
            serde_json::from_str(r#"{"dis":true,"docs":[{"cut":true,"put":{"auto_tag":false,"chunk_embs":null,"emb":null,"enable_embedding":false,"extract_dates":false,"extract_triplets":false,"instant_index":false,"kind":null,"labels":[],"payload":{"kind":"Utf8","len":254,"seed":2296911577701294223},"role":0,"tags":[],"track":"wiki","ts":1678387991,"uri":"mv2://alpha/log-6.txt"}},{"cut":false,"put":{"auto_tag":false,"chunk_embs":null,"emb":null,"enable_embedding":false,"extract_dates":false,"extract_triplets":false,"instant_index":false,"kind":null,"labels":["note"],"payload":{"kind":"Table","len":4861,"seed":10215474513998253626},"role":0,"tags":[],"track":"doc","ts":1678388067,"uri":null}},{"cut":false,"put":{"auto_tag":false,"chunk_embs":null,"emb":{"dim":7,"seed":6702228096582250742},"enable_embedding":false,"extract_dates":false,"extract_triplets":false,"instant_index":false,"kind":null,"labels":[],"payload":{"kind":"Ascii","len":433,"seed":512859987766093692},"role":0,"tags":["news"],"track":"log","ts":1678387926,"uri":"mv2://mail/beta-9.txt"}},{"cut":false,"put":{"auto_tag":false,"chunk_embs":null,"emb":null,"enable_embedding":false,"extract_dates":false,"extract_triplets":false,"instant_index":false,"kind":null,"labels":["note"],"payload":{"kind":"Rand","len":87488,"seed":14829412634278599891},"role":0,"tags":["alpha"],"track":null,"ts":1678388021,"uri":"mv2://doc/doc-10.txt"}}],"level":3,"prefix":[],"presize":0,"skip_in_batch":false,"skip_sync":false}"#).expect("corpus case")),
        ("empty-and-tiny".into(), Case {
            docs: vec![Doc { put: plain(PayloadKind::Empty, 0, 1, 5), cut: true }, Doc { put: plain(PayloadKind::Bin, 1, 2, 5), cut: false }, Doc { put: emb_put(PayloadKind::Zero, 100, 3, 4, 1, 5), cut: false }],
            level: 9, presize: 1, ..base.clone() }),
    ]
}

// ---------------------------------------------------------------------------------------

fn case_json(c: &Case) -> Value { json!({"case": serde_json::to_value(c).unwrap_or(Value::Null)}) }

fn shrink_case(c: &Case, sig: &str, drv: &mut Option<Driver>, budget_s: u64) -> Case {
    let t0 = std::time::Instant::now();
    let mut cur = c.clone();
    let fails = |cand: &Case, drv: &mut Option<Driver>| -> bool {
        if t0.elapsed().as_secs() > budget_s || cand.docs.is_empty() { return false; }
        let (_, f) = run_case(cand, drv, false);
        f.map(|x| x.0 == sig).unwrap_or(false)
    };
    // drop the prefix, then documents, then simplify options
    if !cur.prefix.is_empty() { let mut k = cur.clone(); k.prefix.clear(); if fails(&k, drv) { cur = k; } }
    let docs = cur.docs.clone();
    let small = { let base = cur.clone(); shrink_list(&docs, &mut |cand: &[Doc]| { let mut k = base.clone(); k.docs = cand.to_vec(); fails(&k, drv) }) };
    cur.docs = small;
    for f in [|k: &mut Case| k.skip_in_batch = false, |k: &mut Case| k.presize = 0, |k: &mut Case| k.level = 3, |k: &mut Case| k.dis = true,
              |k: &mut Case| k.skip_sync = false, |k: &mut Case| for d in k.docs.iter_mut() { d.cut = false; }] {
        let mut k = cur.clone(); f(&mut k);
        if k != cur && fails(&k, drv) { cur = k; }
    }
    cur
}

fn record(sum: &mut Summary, label: &str, c: &Case, runs: &[PathRun], fail: Option<(String, String)>, drv: &mut Option<Driver>, budget_s: u64) {
    for r in runs { for b in &r.out.branches { sum.branch(b); } }
    let n_emb = c.docs.iter().filter(|d| d.put.emb.is_some() || d.put.chunk_embs.as_ref().map(|v| !v.is_empty()).unwrap_or(false)).count();
    let n_cuts = c.docs.iter().filter(|d| d.cut).count();
    if n_emb > 0 { sum.branch("embedded-docs"); }
    if n_cuts > 1 { sum.branch("several-skip-commits"); }
    if !c.prefix.is_empty() { sum.branch("prefix-committed-plainly"); }
    if c.skip_in_batch { sum.branch("skip-inside-batch"); }
    if c.presize > 65_536 { sum.branch("wal-presized"); }
    if c.level == 0 { sum.branch("compression-off"); }
    if !c.dis { sum.branch("batch-with-auto-checkpoint"); }
    let acked: usize = runs.first().map(|r| r.acks.iter().filter(|a| **a).count()).unwrap_or(0);
    let canon = format!("{:?}", c);
    sum.case(&canon, acked >= 1, || json!({"label": label, "prefix": c.prefix.len(), "docs": c.docs.len(), "embedded": n_emb, "skip_commits": n_cuts + 1,
        "batch": {"disable_auto_checkpoint": c.dis, "skip_sync": c.skip_sync, "compression_level": c.level, "wal_pre_size_bytes": c.presize},
        "frames": runs.first().and_then(|r| r.reopened.as_ref()).map(|s| s.frames.len())}));
    // model vs implementation (per-op observation of each path, engine document count at the end)
    let names = ["plain", "batch", "skip"];
    for (r, n) in runs.iter().zip(names) {
        if let Some((what, m, i)) = &r.out.disagree {
            let cut = |s: &str| s.chars().take(1500).collect::<String>();
            sum.disagreement(&format!("{n} path: {what}"), case_json(c), &cut(m), &cut(i));
            break;
        }
        if let (Some(ml), Some(s)) = (&r.model_lexn, &r.reopened) {
            let il = s.lex_docs.trim_start_matches("Some(").trim_end_matches(')').to_string();
            if s.lex_docs != "None" && *ml != il {
                sum.disagreement(&format!("{n} path: engine document count after reopen"), case_json(c), ml, &il);
                break;
            }
        }
    }
    if let Some((sig, what)) = fail {
        let small = if budget_s > 0 { shrink_case(c, &sig, drv, budget_s) } else { c.clone() };
        let (_, f2) = run_case(&small, drv, false);
        let (sig2, what2) = f2.unwrap_or((sig, what));
        sum.oracle_violation(&sig2, &what2, case_json(&small));
    }
}

fn main() {
    let args = parse_args();
    let mut drv: Option<Driver> = if args.driver.as_os_str() == "none" { None } else { Some(Driver::spawn(&args.driver).expect("spawn driver")) };
    let mut sum = Summary::new("C40", &args,
        "cases = (optional prefix ingested plainly and committed, document set, batch options disable_auto_checkpoint / skip_sync / \
         compression_level / wal_pre_size_bytes, positions of the skip-index commits); every case is ingested into three fresh .mv2 files: \
         puts+commit, begin_batch+puts+end_batch+commit, (puts+commit_skip_indexes)*+finalize_indexes (optionally inside a batch), each followed \
         by drop+open; after the settling op and after the reopen the oracle compares, against the plain path: acknowledgements, frame table \
         (logical fields, canonical contents), timeline(), persisted time index, vector index entries, search_vec() for document embeddings and a \
         random query, sketch ids, engine document count, search() for 12 queries with and without the sketch pre-filter (hit sets, totals and \
         order). Every op of every path is also run on the Lean Core model with the repaired skip/finalize and the full observation compared. \
         non-trivial = at least one document acknowledged; distinct = the case");
    sum.expect_branches(&["embedded-docs", "several-skip-commits", "prefix-committed-plainly", "skip-inside-batch", "wal-presized",
        "compression-off", "batch-with-auto-checkpoint", "chunked-put", "auto-commit", "op-skip", "op-finalize", "op-batch", "op-endbatch"]);
    if args.mode == "replay" {
        let case = load_replay(args.replay_file.as_ref().expect("replay file"));
        let input = case.get("input").unwrap_or(&case);
        let c: Case = serde_json::from_value(input["case"].clone()).expect("case in replay file");
        println!("case: {}", serde_json::to_string(&c).unwrap_or_default());
        let (runs, fail) = run_case(&c, &mut drv, true);
        for (r, n) in runs.iter().zip(["plain", "batch", "skip"]) {
            if let Some((w, m, i)) = &r.out.disagree { println!("DISAGREE {n} path: {w}\n  model: {}\n  impl : {}", m.chars().take(700).collect::<String>(), i.chars().take(700).collect::<String>()); }
            if let Some(d) = &r.out.dead { println!("DEAD {n} path: {d}"); }
        }
        if let Some((sig, what)) = &fail { println!("ORACLE {sig}: {what}"); }
        record(&mut sum, "replay", &c, &runs, fail, &mut drv, 0);
        sum.model_requests = drv.as_ref().map(|d| d.requests).unwrap_or(0);
        sum.finish(&args);
    }
    let n_short: usize = args.extra.get("nshort").and_then(|s| s.parse().ok()).unwrap_or(if args.thorough { 120 } else { 9 });
    let n_long: usize = args.extra.get("nlong").and_then(|s| s.parse().ok()).unwrap_or(if args.thorough { 16 } else { 2 });
    let max_fail: usize = args.extra.get("maxfail").and_then(|s| s.parse().ok()).unwrap_or(3);
    let budget: u64 = args.extra.get("shrink").and_then(|s| s.parse().ok()).unwrap_or(if args.thorough { 180 } else { 40 });
    for (label, c) in corpus() {
        let (runs, fail) = run_case(&c, &mut drv, false);
        sum.branch("corpus");
        record(&mut sum, &label, &c, &runs, fail, &mut drv, budget);
    }
    let mut rng = Rng::new(args.seed);
    for k in 0..(n_short + n_long) {
        if sum.oracle_violations.len() + sum.disagreements.len() >= max_fail { break; }
        let mut r = rng.fork();
        let long = k >= n_short;
        let c = gen_case(&mut r, args.thorough, long);
        let (runs, fail) = run_case(&c, &mut drv, false);
        if long { sum.branch("long-case"); }
        record(&mut sum, &format!("{}-{k}", if long { "long" } else { "short" }), &c, &runs, fail, &mut drv, budget);
    }
    sum.model_requests = drv.as_ref().map(|d| d.requests).unwrap_or(0);
    sum.finish(&args);
}
