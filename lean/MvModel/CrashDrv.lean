/-
  Line-protocol driver shared by C02 / C03 / C04 (MvDrv/C02.lean … only call `crashMain`).

  requests
    obj <id> hdr <footerOff> <walSize> <walSeq>
    obj <id> rec <seq> <size> ins <sum> <len> <sup|-> <need> <parentSeq|->   |  obj <id> rec <seq> <size> tomb <target>  |  obj <id> rec <seq> <size> lex
    obj <id> toc <len> <frames off:len:sum:status[:need:parent+1],…|-> <segs off:len:id,…|->
    obj <id> foot <tocId> <tocLen>
        → "ok"                       (the environment is append-only, state of the driver)
    recover <hdrSize> <footSize> <recHdr> <zeroProbe> <rle>
        rle = comma-separated runs  z:<n>  (n zero cells)  |  <id>:<start>:<n>  (cells (id,start)…(id,start+n-1))
        → "fail <stage>"  |  "ok <replayed> <viaScan 0|1> <frames status:sum:R|E|?,…|->"   (? = replayed frame, readability not modelled)
    emit staged <kinds w|t|f,…> → canonical token list of the copy-and-rename protocol around the given
                                 inner pwrite/ftruncate/fsync sequence on the temp file (tie #1)
    emit put | putfixed      → canonical token list of the put protocol
    reset                    → "ok"
-/
import MvModel.Crash
import MvModel.Emit
import MvModel.DrvUtil
namespace Mv.Crash
open Mv

def parseTriples (s : String) : Option (List (List Nat)) :=
  if s == "-" then some [] else (s.splitOn ",").mapM (fun t => (t.splitOn ":").mapM (·.toNat?))

def parseObj (ws : List String) : Option Obj :=
  match ws with
  | ["hdr", a, b, c] => do pure (.hdr { footerOff := ← a.toNat?, walSize := ← b.toNat?, walSeq := ← c.toNat? })
  | ["rec", sq, sz, "ins", sm, ln, sup, need, par] => do
      let sup' ← if sup == "-" then some none else sup.toNat?.map some
      let par' ← if par == "-" then some none else par.toNat?.map some
      pure (.wrec (← sq.toNat?) (← sz.toNat?)
        (.insert { sum := ← sm.toNat?, len := ← ln.toNat?, supersedes := sup', need := ← need.toNat?, parentSeq := par' }))
  | ["rec", sq, sz, "tomb", t] => do pure (.wrec (← sq.toNat?) (← sz.toNat?) (.tomb (← t.toNat?)))
  | ["rec", sq, sz, "lex"] => do pure (.wrec (← sq.toNat?) (← sz.toNat?) .lex)
  | ["toc", ln, fr, sg] => do
      let frs ← parseTriples fr
      let sgs ← parseTriples sg
      let frames ← frs.mapM (fun l => match l with
        | [o, n, sm, st] => some ({ off := o, len := n, sum := sm, status := st } : FrameS)
        | [o, n, sm, st, need, par] =>
          some ({ off := o, len := n, sum := sm, status := st, need := need,
                  parent := if par = 0 then none else some (par - 1) } : FrameS)
        | _ => none)
      let segs ← sgs.mapM (fun l => match l with
        | [o, n, i] => some (o, n, i)
        | _ => none)
      pure (.toc { len := ← ln.toNat?, frames := frames, segs := segs })
  | ["foot", a, b] => do pure (.foot (← a.toNat?) (← b.toNat?))
  | _ => none

def parseRun (run : String) : Option (List Cell) :=
  match run.splitOn ":" with
  | ["z", n] => n.toNat?.map zeroCells
  | [i, st, n] => do
      let i ← i.toNat?; let st ← st.toNat?; let n ← n.toNat?
      pure ((List.range n).map (fun k => (i, st + k)))
  | _ => none

def parseRle (s : String) : Option (List Cell) :=
  if s == "-" then some [] else ((s.splitOn ",").mapM parseRun).map List.flatten

def showFail : Fail → String
  | .header => "header" | .toc => "toc" | .overlap => "overlap" | .wal o => s!"wal@{o}"
  | .segment => "segment" | .frameRef => "frameref"

def showOutcome : Outcome → String
  | .fail f => s!"fail {showFail f}"
  | .ok fs n v c =>
    let items := fs.mapIdx (fun i f =>
      s!"{f.status}:{f.sum}:{if !f.readable then "E" else if i ≥ c ∧ f.status = 0 then "?" else "R"}")
    s!"ok {n} {if v then 1 else 0} {if items.isEmpty then "-" else ",".intercalate items}"

structure DState where
  env : List (Nat × Obj)

def DState.lookup (s : DState) (i : Nat) : Option Obj := (s.env.find? (·.1 == i)).map (·.2)

/-- canonical tokens of a syscall list (tie #1): kind.target with target o = original inode 0, t = staging inode 1 -/
def tok (s : Disk.Sys Nat) : String :=
  let t := fun (i : Nat) => if i = 0 then "o" else "t"
  match s with
  | .create _ i => s!"create.{t i}"
  | .pwrite i _ _ => s!"pwrite.{t i}"
  | .ftruncate i _ => s!"ftruncate.{t i}"
  | .fsync i => s!"fsync.{t i}"
  | .rename _ _ => "rename"
  | .unlink _ => "unlink"
  | .fsyncDir => "fsyncdir"

def crashStep (s : DState) (ws : List String) : DState × String :=
  match ws with
  | "obj" :: id :: rest =>
    match id.toNat?, parseObj rest with
    | some i, some o => ({ s with env := (i, o) :: s.env }, "ok")
    | _, _ => (s, "bad-op")
  | ["recover", a, b, c, d, rle] =>
    match a.toNat?, b.toNat?, c.toNat?, d.toNat?, parseRle rle with
    | some hs, some fs, some rh, some zp, some img =>
      (s, showOutcome (recover s.lookup { hdrSize := hs, footSize := fs, recHdr := rh, zeroProbe := zp } img))
    | _, _, _, _, _ => (s, "bad-op")
  | ["emit", "staged", kinds] =>
    let ks := if kinds == "-" then [] else kinds.splitOn ","
    let inner : List (Disk.Sys Nat) := ks.map (fun k =>
      if k == "w" then Disk.Sys.pwrite 1 0 [] else if k == "t" then Disk.Sys.ftruncate 1 0 else Disk.Sys.fsync 1)
    (s, " ".intercalate ((Emit.stagedCommit "t" "p" 0 1 0 [] [] inner 0 []).map tok))
  | ["emit", "put"] => (s, " ".intercalate ((Emit.putProto 0 0 ([] : List Nat) []).map tok))
  | ["emit", "putfixed"] => (s, " ".intercalate ((Emit.putProtoFixed 0 0 ([] : List Nat) []).map tok))
  | ["reset"] => ({ env := [] }, "ok")
  | _ => (s, "bad-op")

def crashMain : IO Unit := runDriver ({ env := [] } : DState) crashStep

end Mv.Crash
