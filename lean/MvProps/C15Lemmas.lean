/-
  Helper lemmas for C15 (timeline): insertion sort facts, dense frame tables, the normal form of the
  repaired `buildTimelineFixed`.
-/
import MvModel.Timeline
namespace Mv.Timeline

/-! ### the sort key order -/

theorem Entry.le_iff (a b : Entry) : a.le b = true ↔ (a.ts < b.ts ∨ (a.ts = b.ts ∧ a.id ≤ b.id)) := by
  simp [Entry.le]

theorem Entry.le_total (a b : Entry) : a.le b = true ∨ b.le a = true := by
  rw [Entry.le_iff, Entry.le_iff]; omega

theorem Entry.le_trans {a b c : Entry} (h1 : a.le b = true) (h2 : b.le c = true) : a.le c = true := by
  rw [Entry.le_iff] at *; omega

theorem Entry.le_antisymm {a b : Entry} (h1 : a.le b = true) (h2 : b.le a = true) : a = b := by
  rw [Entry.le_iff] at *
  cases a; cases b
  simp only [Entry.mk.injEq] at *
  omega

theorem Entry.lt_iff_le_ne (a b : Entry) : a.lt b ↔ (a.le b = true ∧ a ≠ b) := by
  rw [Entry.le_iff]
  cases a; cases b
  simp only [Entry.lt, ne_eq, Entry.mk.injEq]
  omega

/-! ### insertion sort -/

theorem insertE_perm (e : Entry) (l : List Entry) : (insertE e l).Perm (e :: l) := by
  induction l with
  | nil => exact List.Perm.refl _
  | cons x xs ih =>
    unfold insertE
    split
    · exact List.Perm.refl _
    · exact (List.Perm.cons x ih).trans (List.Perm.swap e x xs)

theorem insertE_sorted (e : Entry) (l : List Entry) (h : l.Pairwise (fun a b => a.le b = true)) :
    (insertE e l).Pairwise (fun a b => a.le b = true) := by
  induction l with
  | nil => simp [insertE]
  | cons x xs ih =>
    rw [List.pairwise_cons] at h
    unfold insertE
    split
    · rename_i hle
      refine List.pairwise_cons.mpr ⟨?_, List.pairwise_cons.mpr h⟩
      intro y hy
      rcases List.mem_cons.mp hy with rfl | hy
      · exact hle
      · exact Entry.le_trans hle (h.1 y hy)
    · rename_i hnle
      refine List.pairwise_cons.mpr ⟨?_, ih h.2⟩
      intro y hy
      have : y ∈ e :: xs := (insertE_perm e xs).mem_iff.mp hy
      rcases List.mem_cons.mp this with rfl | hy
      · rcases Entry.le_total y x with h' | h'
        · exact absurd h' hnle
        · exact h'
      · exact h.1 y hy

theorem sortE_cons (x : Entry) (xs : List Entry) : sortE (x :: xs) = insertE x (sortE xs) := rfl

theorem sortE_perm (l : List Entry) : (sortE l).Perm l := by
  induction l with
  | nil => exact List.Perm.refl _
  | cons x xs ih => rw [sortE_cons]; exact (insertE_perm x _).trans (List.Perm.cons x ih)

theorem sortE_sorted (l : List Entry) : (sortE l).Pairwise (fun a b => a.le b = true) := by
  induction l with
  | nil => simp [sortE]
  | cons x xs ih => rw [sortE_cons]; exact insertE_sorted x _ ih

/-- the sorted arrangement is unique: the result does not depend on the order of the input -/
theorem sortE_eq_of_perm {l₁ l₂ : List Entry} (h : l₁.Perm l₂) : sortE l₁ = sortE l₂ :=
  List.Perm.eq_of_pairwise (fun _ _ _ _ h1 h2 => Entry.le_antisymm h1 h2) (sortE_sorted l₁) (sortE_sorted l₂)
    ((sortE_perm l₁).trans (h.trans (sortE_perm l₂).symm))

theorem mem_sortE {e : Entry} {l : List Entry} : e ∈ sortE l ↔ e ∈ l := (sortE_perm l).mem_iff

/-- a list that passes `read_track`'s check -/
theorem sortedChain_of_sorted (l : List Entry) (h : l.Pairwise (fun a b => a.le b = true)) : sortedChain l = true := by
  induction l with
  | nil => rfl
  | cons a t ih =>
    cases t with
    | nil => rfl
    | cons b rest =>
      rw [List.pairwise_cons] at h
      have hab := (Entry.le_iff a b).mp (h.1 b (List.mem_cons_self ..))
      have : (decide (b.ts < a.ts) || (decide (b.ts = a.ts) && decide (b.id < a.id))) = false := by
        simp only [Bool.or_eq_false_iff, Bool.and_eq_false_iff, decide_eq_false_iff_not]
        omega
      simp only [sortedChain, this, Bool.false_eq_true, if_false]
      exact ih h.2

theorem readTrack_sortE (l : List Entry) : readTrack (sortE l) = some (sortE l) := by
  simp [readTrack, sortedChain_of_sorted _ (sortE_sorted l)]

/-! ### dense frame tables -/

theorem DenseIds.lookup_mem {frames : List Frame} (hd : DenseIds frames) {f : Frame} (hf : f ∈ frames) :
    frames[f.id]? = some f := by
  obtain ⟨i, hi, rfl⟩ := List.mem_iff_getElem.mp hf
  rw [hd i hi]
  exact List.getElem?_eq_getElem hi

theorem DenseIds.id_inj {frames : List Frame} (hd : DenseIds frames) {f g : Frame} (hf : f ∈ frames) (hg : g ∈ frames)
    (h : f.id = g.id) : f = g := by
  have h1 := hd.lookup_mem hf
  have h2 := hd.lookup_mem hg
  rw [h] at h1
  exact Option.some.inj (h1.symm.trans h2)

theorem DenseIds.pairwise_id_ne {frames : List Frame} (hd : DenseIds frames) :
    frames.Pairwise (fun a b => a.id ≠ b.id) := by
  rw [List.pairwise_iff_getElem]
  intro i j hi hj hij
  rw [hd i hi, hd j hj]
  omega

/-- the entries of distinct frames are distinct -/
theorem DenseIds.nodup_entries {frames : List Frame} (hd : DenseIds frames) (p : Frame → Bool) :
    ((frames.filter p).map entryOf).Nodup := by
  rw [List.nodup_iff_pairwise_ne, List.pairwise_map]
  refine List.Pairwise.sublist List.filter_sublist ?_
  refine hd.pairwise_id_ne.imp ?_
  intro a b hab h
  exact hab (congrArg Entry.id h)

/-- the loop body keeps an entry that was made from an active frame of the table -/
theorem lookup_entryOf {frames : List Frame} (hd : DenseIds frames) {f : Frame} (hf : f ∈ frames)
    (ha : f.status = .active) : lookup frames (entryOf f) = some (entryOf f) := by
  simp [lookup, entryOf, hd.lookup_mem hf, ha]

theorem filterMap_eq_self {α : Type} (g : α → Option α) (l : List α) (h : ∀ a ∈ l, g a = some a) :
    l.filterMap g = l := by
  induction l with
  | nil => rfl
  | cons x xs ih =>
    rw [List.filterMap_cons, h x (List.mem_cons_self ..)]
    simp only
    rw [ih (fun a ha => h a (List.mem_cons_of_mem _ ha))]

/-- entries that come from active frames of the table -/
def FromActive (frames : List Frame) (e : Entry) : Prop := ∃ f ∈ frames, f.status = .active ∧ entryOf f = e

/-- when every entry comes from an active frame the final loop drops nothing: the limit is a plain `take` -/
theorem finish_eq {frames : List Frame} (hd : DenseIds frames) (q : Query) (entries : List Entry)
    (hall : ∀ e ∈ entries, FromActive frames e) :
    finish frames q entries =
      let es := entries.filter (inRange q)
      let es := if q.reverse then es.reverse else es
      match q.limit with
      | none => es
      | some n => es.take n := by
  unfold finish
  simp only
  have key : ∀ (l : List Entry), (∀ e ∈ l, e ∈ entries) → l.filterMap (lookup frames) = l := by
    intro l hl
    apply filterMap_eq_self
    intro e he
    obtain ⟨f, hf, ha, rfl⟩ := hall e (hl e he)
    exact lookup_entryOf hd hf ha
  have sub : ∀ e ∈ (if q.reverse then (entries.filter (inRange q)).reverse else entries.filter (inRange q)), e ∈ entries := by
    intro e he
    split at he
    · exact (List.mem_filter.mp (List.mem_reverse.mp he)).1
    · exact (List.mem_filter.mp he).1
  cases q.limit with
  | none =>
    simp only [List.take_length]
    exact key _ sub
  | some n =>
    simp only
    exact key _ (fun e he => sub e (List.mem_of_mem_take he))

/-! ### the raw entry lists are permutations of `listedEntries` -/

theorem split_perm {α β : Type} (g : α → β) (p q r : α → Bool) (l : List α)
    (hr : ∀ x ∈ l, r x = (p x || q x)) (hdisj : ∀ x ∈ l, ¬ (p x = true ∧ q x = true)) :
    ((l.filter p).map g ++ (l.filter q).map g).Perm ((l.filter r).map g) := by
  induction l with
  | nil => exact List.Perm.refl _
  | cons x xs ih =>
    have ih := ih (fun y hy => hr y (List.mem_cons_of_mem _ hy)) (fun y hy => hdisj y (List.mem_cons_of_mem _ hy))
    have hrx := hr x (List.mem_cons_self ..)
    have hdx := hdisj x (List.mem_cons_self ..)
    cases hp : p x <;> cases hq : q x <;> simp only [hp, hq, Bool.or_self, Bool.or_true, Bool.or_false] at hrx
    · simpa [List.filter_cons, hp, hq, hrx] using ih
    · simp only [List.filter_cons, hp, hq, hrx, if_true, List.map_cons, Bool.false_eq_true, if_false]
      exact List.perm_middle.trans (List.Perm.cons _ ih)
    · simp only [List.filter_cons, hp, hq, hrx, if_true, List.map_cons, Bool.false_eq_true, if_false, List.cons_append]
      exact List.Perm.cons _ ih
    · exact absurd ⟨hp, hq⟩ hdx

theorem mem_timeIndexOf {frames : List Frame} {e : Entry} :
    e ∈ timeIndexOf frames ↔ ∃ f ∈ frames, indexedAtCommit f = true ∧ entryOf f = e := by
  unfold timeIndexOf
  rw [mem_sortE, List.mem_map]
  constructor
  · rintro ⟨f, hf, rfl⟩
    exact ⟨f, (List.mem_filter.mp hf).1, (List.mem_filter.mp hf).2, rfl⟩
  · rintro ⟨f, hf, hi, rfl⟩
    exact ⟨f, List.mem_filter.mpr ⟨hf, hi⟩, rfl⟩

/-- with the index that commit writes, no extracted-image frame is already indexed -/
theorem image_filter_eq {frames : List Frame} (hd : DenseIds frames) :
    frames.filter (fun f => f.status == .active && f.role == .image &&
        !((timeIndexOf frames).any (fun e => e.id == f.id))) =
    frames.filter (fun f => f.status == .active && f.role == .image) := by
  apply List.filter_congr
  intro f hf
  cases hrole : (f.status == .active && f.role == .image)
  · simp
  · simp only [Bool.true_and, Bool.not_eq_true', List.any_eq_false]
    intro e he
    obtain ⟨g, hg, hi, rfl⟩ := mem_timeIndexOf.mp he
    intro hid
    have hid' : g.id = f.id := by simpa [entryOf] using hid
    have : g = f := hd.id_inj hg hf hid'
    subst this
    simp [indexedAtCommit] at hi hrole
    rw [hi.2] at hrole
    exact absurd hrole.2 (by decide)

theorem rawIndexed_perm {frames : List Frame} (hd : DenseIds frames) :
    (timeIndexOf frames ++ ((frames.filter (fun f => f.status == .active && f.role == .image &&
        !((timeIndexOf frames).any (fun e => e.id == f.id)))).map entryOf)).Perm (listedEntries frames) := by
  rw [image_filter_eq hd]
  refine (List.Perm.append_right _ (sortE_perm _)).trans ?_
  unfold listedEntries
  apply split_perm
  · intro f _
    rcases f with ⟨_, _, role, status⟩
    cases status <;> cases role <;> rfl
  · intro f _
    rcases f with ⟨_, _, role, status⟩
    cases status <;> cases role <;> simp [indexedAtCommit]

/-- `rawEntriesFixed` does not depend on whether the index is present -/
theorem rawEntriesFixed_eq {frames : List Frame} (hd : DenseIds frames) (ti : Option (List Entry))
    (hti : ti = some (timeIndexOf frames) ∨ ti = none) :
    rawEntriesFixed frames ti = sortE (listedEntries frames) := by
  rcases hti with rfl | rfl
  · exact sortE_eq_of_perm (rawIndexed_perm hd)
  · rfl

theorem listedEntries_fromActive {frames : List Frame} : ∀ e ∈ listedEntries frames, FromActive frames e := by
  intro e he
  obtain ⟨f, hf, rfl⟩ := List.mem_map.mp he
  have h := List.mem_filter.mp hf
  refine ⟨f, h.1, ?_, rfl⟩
  have := h.2
  simp only [listedRole, Bool.and_eq_true, beq_iff_eq] at this
  exact this.1

/-! ### consequences of the normal form, for any entry list made of active frames -/

/-- retain + reverse -/
def shaped (q : Query) (entries : List Entry) : List Entry :=
  if q.reverse then (entries.filter (inRange q)).reverse else entries.filter (inRange q)

theorem finish_unlimited {frames : List Frame} (hd : DenseIds frames) (q : Query) (entries : List Entry)
    (hall : ∀ e ∈ entries, FromActive frames e) : finish frames q.unlimited entries = shaped q entries := by
  rw [finish_eq hd _ _ hall]
  rfl

theorem finish_limit {frames : List Frame} (hd : DenseIds frames) (q : Query) (n : Nat) (entries : List Entry)
    (hall : ∀ e ∈ entries, FromActive frames e) :
    finish frames { q with limit := some n } entries = (shaped q entries).take n := by
  rw [finish_eq hd _ _ hall]
  rfl

theorem finish_cases {frames : List Frame} (hd : DenseIds frames) (q : Query) (entries : List Entry)
    (hall : ∀ e ∈ entries, FromActive frames e) :
    finish frames q entries = shaped q entries ∨ ∃ n, finish frames q entries = (shaped q entries).take n := by
  rw [finish_eq hd _ _ hall]
  cases h : q.limit with
  | none => left; rfl
  | some n => right; exact ⟨n, rfl⟩

theorem shaped_perm (q : Query) {entries L : List Entry} (h : entries.Perm L) :
    (shaped q entries).Perm (L.filter (inRange q)) := by
  unfold shaped
  split
  · exact (List.reverse_perm _).trans (h.filter _)
  · exact h.filter _

theorem mem_shaped {q : Query} {entries : List Entry} {e : Entry} (h : e ∈ shaped q entries) :
    e ∈ entries ∧ inRange q e = true := by
  unfold shaped at h
  split at h
  · exact List.mem_filter.mp (List.mem_reverse.mp h)
  · exact List.mem_filter.mp h

theorem inRange_bounds {q : Query} {e : Entry} (h : inRange q e = true) :
    (∀ s, q.since = some s → s ≤ e.ts) ∧ (∀ u, q.until = some u → e.ts ≤ u) := by
  unfold inRange at h
  rw [Bool.and_eq_true] at h
  constructor
  · intro s hs; rw [hs] at h; simpa using h.1
  · intro u hu; rw [hu] at h; simpa using h.2

theorem strict_of_sorted_nodup {l : List Entry} (hs : l.Pairwise (fun a b => a.le b = true)) (hn : l.Nodup) :
    l.Pairwise Entry.lt := by
  rw [List.nodup_iff_pairwise_ne] at hn
  exact (hs.and hn).imp (fun h => (Entry.lt_iff_le_ne _ _).mpr h)

theorem shaped_chrono (q : Query) {entries : List Entry} (hs : entries.Pairwise Entry.lt) :
    Chrono q.reverse (shaped q entries) := by
  unfold Chrono shaped
  split
  · rw [List.pairwise_reverse]; exact hs.filter _
  · exact hs.filter _

theorem chrono_take {r : Bool} {l : List Entry} (n : Nat) (h : Chrono r l) : Chrono r (l.take n) := by
  unfold Chrono at *
  split <;> rename_i hr <;> simp only [hr, if_true, Bool.false_eq_true, if_false] at h
  · exact h.sublist (List.take_sublist n l)
  · exact h.sublist (List.take_sublist n l)

end Mv.Timeline
