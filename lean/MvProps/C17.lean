/-
  C17 — at most one writer: the exclusive lock holds for the handle's lifetime.

  Model: MvModel/Lock.lean (flock table keyed by open file description, directory, handles as
  system-call-granular state machines, arbitrary interleaving of any number of handles).
  The OS assumptions A1–A6 are stated in that file's header.  `Proto.current` is the protocol of the
  code as it is; `Proto.swapOnly` / `Proto.repaired` are second model definitions (a half repair and
  the repair of /verif/fixes/C17-not-applicable.diff, not applied because an existing test of the
  repository encodes the defective behaviour).

  PART I — theorems about the CURRENT code
    C17_full pr                        the property for protocol `pr` (every reachable state, any interleaving)
    C17_counterexample                 ¬ C17_full .current   (create; put; commit; second open succeeds)
    C17_inv_partial                    what does hold, for unbounded handles and steps: the flock table is
                                       consistent, every writable handle keeps an exclusive flock on the
                                       inode it OPENED for its whole lifetime, so two live writers never
                                       share a lock inode, and per path at most one writer is "anchored"
                                       (its lock inode is the inode the path names)
    C17_partial_exclusion              an anchored writer excludes everyone: probe refused, open / create /
                                       try_open fail
    C17_partial_until_first_rename     in every trace without a rename step (no commit has replaced a file
                                       yet) and without a timed-out downgrade the full property holds
    C17_mode_belief                    lock mode switching: FileLock::mode() never over-claims — a handle
                                       that says Exclusive (outside a downgrade call, no switch timed out)
                                       holds the exclusive flock; a handle inside or after an upgrade that
                                       was not granted still says Shared; writes (put, stage) are steps of
                                       `live` handles only
    C17_counterexample_downgrade_timeout   a timed-out DOWNGRADE leaves a writable handle without any
                                       lock next to a second writer — before any commit (model only: the
                                       window is the few microseconds between LOCK_UN and the first
                                       try_lock_shared; not reproduced on the real code)
  PART II — theorems about the REPAIR (second model definition; show the repair is sound and that
  half of it is not)
    C17_repaired_inv, C17_repaired, C17_counterexample_swap_only
-/
import MvProps.C17Steps
import MvProps.C17Cur
namespace Mv.Lock

/-- The property in one state: (1) per path at most one live writable handle, (2) every writable
    handle holds, through a description of its own, an exclusive flock on the inode its path names
    NOW, (3) outside a commit, that description is the one in `Memvid.lock` and `Memvid.file` is on
    the same inode. -/
def OneWriter (s : State) : Prop :=
  (∀ a b ha hb, s.hnd a = some ha → s.hnd b = some hb → ha.phase.writer = true →
      hb.phase.writer = true → ha.path = hb.path → a = b) ∧
  (∀ a ha, s.hnd a = some ha → ha.phase.writer = true →
      ∃ e ∈ s.locks, e.owner = a ∧ e.mode = .ex ∧ s.dir ha.path = some e.ino) ∧
  (∀ a ha, s.hnd a = some ha → ha.phase = .live →
      ⟨a, ha.lockSer, ha.lockIno, .ex⟩ ∈ s.locks ∧ s.dir ha.path = some ha.lockIno ∧
      ha.fileIno = ha.lockIno)

/-- full-strength statement: in every state reachable under ANY interleaving of the steps of ANY
    number of handles -/
def C17_full (pr : Proto) : Prop := ∀ t : List Step, OneWriter (run pr init t)

theorem Inv.oneWriter {s : State} (inv : Inv s) : OneWriter s := by
  refine ⟨fun a b ha hb h1 h2 w1 w2 hp => inv.uniqueWriter h1 h2 w1 w2 hp,
    fun a ha h1 w => (inv.hOk a ha h1).writerLock w, ?_⟩
  intro a ha h1 hp
  obtain ⟨_, _, ok⟩ := inv.hOk a ha h1
  simp only [hp] at ok
  exact ok

/-- PART II.  C17_repaired_inv: the REPAIRED protocol (second model definition, not the code as it
    is) keeps the one-writer invariant in every reachable state (unbounded number of processes,
    handles and steps). -/
theorem C17_repaired_inv : C17_full .repaired := fun t => (run_inv init_inv t).oneWriter

theorem isWriter_iff {s : State} {a p : Nat} :
    isWriter s a p = true ↔ ∃ h, s.hnd a = some h ∧ h.phase.writer = true ∧ h.path = p := by
  unfold isWriter
  cases s.hnd a <;> simp

theorem OneWriter.unique {s : State} (ow : OneWriter s) {a b p : Nat}
    (ha : isWriter s a p = true) (hb : isWriter s b p = true) : a = b := by
  obtain ⟨x, hx, wx, px⟩ := isWriter_iff.mp ha
  obtain ⟨y, hy, wy, py⟩ := isWriter_iff.mp hb
  exact ow.1 a b x y hx hy wx wy (px.trans py.symm)

-- ------------------------------------------------------------------ the defect, as theorems
/-- create; put; commit; then a second open of the same path -/
def witnessUnfixed : List Step :=
  .mkfile 7 :: openSteps 0 7 ++ [.put 0] ++ commitSteps 0 ++ openSteps 1 7

/-- PART I.  The code as it is: after its first commit the writer's flock is on the unlinked old
    inode, and a second `Memvid::open` of the path succeeds while the first handle is alive. -/
theorem C17_counterexample : ¬ C17_full .current := by
  intro h
  have h0 : isWriter (run .current init witnessUnfixed) 0 7 = true := by decide
  have h1 : isWriter (run .current init witnessUnfixed) 1 7 = true := by decide
  exact absurd ((h witnessUnfixed).unique h0 h1) (by decide)

/-- before the first commit the same second open is refused, also in the unrepaired protocol -/
example : isWriter (run .current init (.mkfile 7 :: openSteps 0 7 ++ [.put 0] ++ openSteps 1 7)) 1 7 = false := by
  decide

/-- a second opener that got its descriptor BEFORE the commit and is still in the lock retry loop -/
def witnessWaiting : List Step :=
  .mkfile 7 :: openSteps 0 7 ++ [.openFd 1 7 false, .flockEx 1, .put 0] ++ commitSteps 0 ++
    [.flockEx 1, .validate 1]

/-- Moving the lock at commit is not enough: the waiting opener is granted the lock of the old
    inode the moment the committing handle lets go of it. -/
theorem C17_counterexample_swap_only : ¬ C17_full .swapOnly := by
  intro h
  have h0 : isWriter (run .swapOnly init witnessWaiting) 0 7 = true := by decide
  have h1 : isWriter (run .swapOnly init witnessWaiting) 1 7 = true := by decide
  exact absurd ((h witnessWaiting).unique h0 h1) (by decide)

/-- the repaired protocol on both witnesses: the second opener does not become a writer -/
example : isWriter (run .repaired init witnessUnfixed) 0 7 = true ∧
    isWriter (run .repaired init witnessUnfixed) 1 7 = false := by decide
example : isWriter (run .repaired init witnessWaiting) 0 7 = true ∧
    isWriter (run .repaired init witnessWaiting) 1 7 = false ∧
    (run .repaired init witnessWaiting).hnd 1 = none := by decide

-- ------------------------------------------------------------------ "every open fails"
theorem run_append (pr : Proto) (s : State) (t t' : List Step) :
    run pr s (t ++ t') = run pr (run pr s t) t' := by
  simp [run, List.foldl_append]

theorem not_grantable {L : List Ent} {o n i : Nat} {m : Mode} {e : Ent} (he : e ∈ L)
    (ho : e.owner ≠ o) (hi : e.ino = i) (hm : e.mode = .ex) : grantable L o n i m = false := by
  cases hg : grantable L o n i m
  · rfl
  · rcases grantable_spec hg he with h1 | h1 | h1
    · exact absurd h1.1 ho
    · exact absurd hi h1
    · rw [hm] at h1; exact absurd h1.1 (by decide)

/-- with the lock refused, `Memvid::open` fails (in every protocol) -/
theorem apiOpen_refused (pr : Proto) {s : State} {b p i : Nat} (hb : s.hnd b = none)
    (hd : s.dir p = some i) (hng : grantable s.locks b 0 i .ex = false) :
    (apiOpen pr s b p).2 = false := by
  simp [apiOpen, openSteps, run, step, hb, hd, updHnd, hng, settleOpen, opened]

/-- with the lock refused, `Memvid::create` on the existing path fails -/
theorem apiCreate_refused (pr : Proto) {s : State} {b p i : Nat} (hb : s.hnd b = none)
    (hd : s.dir p = some i) (hng : grantable s.locks b 0 i .ex = false) :
    (apiCreate pr s b p).2 = false := by
  simp [apiCreate, openSteps, run, step, hb, hd, updHnd, hng, settleOpen, opened]

/-- with the lock refused, `Memvid::try_open` (doctor) fails -/
theorem apiTryOpen_refused (pr : Proto) {s : State} {b p i : Nat} (hb : s.hnd b = none)
    (hd : s.dir p = some i) (hng : grantable s.locks b 1 i .ex = false) :
    (apiTryOpen pr s b p).2 = false := by
  simp [apiTryOpen, tryOpenSteps, run, step, hb, hd, updHnd, hng, settleOpen, opened]

/-- PART II.  C17_repaired (about the REPAIRED protocol, not the code as it is):
    while a writable handle `a` for path `p` is alive (whatever it has done: puts, commits,
    vacuum, aborted commits, and whatever anyone else has done),
    (1) a non-blocking exclusive flock on a fresh descriptor of the path is refused,
    (2) `Memvid::open`, `Memvid::create` and doctor's `try_open` of the path by anyone else fail,
    (3) under any further interleaving `t'`, in every state in which `a` is still a writable handle
        for `p` no other handle is one. -/
theorem C17_repaired (t : List Step) (a p : Nat) (hw : isWriter (run .repaired init t) a p = true) :
    let s := run .repaired init t
    probeEx s p = some false ∧
    (∀ b, s.hnd b = none →
      (apiOpen .repaired s b p).2 = false ∧ (apiCreate .repaired s b p).2 = false ∧
      (apiTryOpen .repaired s b p).2 = false) ∧
    (∀ t' b, b ≠ a → isWriter (run .repaired s t') a p = true →
      isWriter (run .repaired s t') b p = false) := by
  intro s
  have inv : Inv s := run_inv init_inv t
  obtain ⟨h, hh, wh, ph⟩ := isWriter_iff.mp hw
  obtain ⟨e, he, eo, em, ed⟩ := (inv.hOk a h hh).writerLock wh
  rw [ph] at ed
  refine ⟨?_, ?_, ?_⟩
  · simp only [probeEx, ed, Option.map_some, Option.some.injEq]
    cases hall : s.locks.all fun e' => e'.ino != e.ino
    · rfl
    · have := (List.all_eq_true.mp hall) e he
      simp at this
  · intro b hb
    have hne : e.owner ≠ b := by
      intro hc
      rw [eo] at hc
      rw [hc] at hh
      rw [hb] at hh
      cases hh
    exact ⟨apiOpen_refused _ hb ed (not_grantable he hne rfl em),
      apiCreate_refused _ hb ed (not_grantable he hne rfl em),
      apiTryOpen_refused _ hb ed (not_grantable he hne rfl em)⟩
  · intro t' b hba hwa
    have inv' : Inv (run .repaired s t') := run_inv inv t'
    cases hwb : isWriter (run .repaired s t') b p
    · rfl
    · exact absurd (inv'.oneWriter.unique hwb hwa) hba

/-- non-vacuity of C17_repaired's hypothesis: a handle that created the file, wrote and committed twice is a
    writer of its path, and the lock probe of that state is refused -/
example : isWriter (run .repaired init
    (.mkfile 7 :: openSteps 0 7 ++ [.put 0] ++ commitSteps 0 ++ [.put 0] ++ commitSteps 0)) 0 7 = true := by
  decide
example : probeEx (run .repaired init (.mkfile 7 :: openSteps 0 7 ++ [.put 0] ++ commitSteps 0)) 7
    = some false := by decide
/-- … and once that handle is dropped the path can be opened again -/
example : (apiOpen .repaired (run .repaired init
    (.mkfile 7 :: openSteps 0 7 ++ [.put 0] ++ commitSteps 0 ++ [.drop 0])) 1 7).2 = true := by decide
/-- in the unrepaired protocol the probe of the same history is GRANTED (the harness' fast oracle) -/
example : probeEx (run .current init (.mkfile 7 :: openSteps 0 7 ++ [.put 0] ++ commitSteps 0)) 7
    = some true := by decide

-- ------------------------------------------------------------------ PART I: what holds for the current code
/-- the handle's lock inode is the inode its path names now -/
def anchored (s : State) (h : Handle) : Prop := s.dir h.path = some h.lockIno

/-- C17_inv_partial (current code, every reachable state, any number of handles and steps):
    (1) the flock table is consistent (A2 as an invariant),
    (2) every live writable handle (no lock mode switch of which timed out, `lost = false`) holds an
        exclusive flock, through its own `Memvid.lock` description, on the inode it opened — the lock
        DOES hold for the handle's lifetime, but on the inode, not on the path,
    (3) two live writable handles never have the same lock inode,
    (4) per path at most one live writable handle is anchored. -/
theorem C17_inv_partial (t : List Step) :
    let s := run .current init t
    Compat s.locks ∧
    (∀ a ha, s.hnd a = some ha → ha.phase.writer = true → ha.lost = false →
      ⟨a, ha.lockSer, ha.lockIno, .ex⟩ ∈ s.locks) ∧
    (∀ a b ha hb, s.hnd a = some ha → s.hnd b = some hb → ha.phase.writer = true →
      hb.phase.writer = true → ha.lost = false → hb.lost = false → a ≠ b → ha.lockIno ≠ hb.lockIno) ∧
    (∀ a b ha hb, s.hnd a = some ha → s.hnd b = some hb → ha.phase.writer = true →
      hb.phase.writer = true → ha.lost = false → hb.lost = false → ha.path = hb.path →
      anchored s ha → anchored s hb → a = b) := by
  intro s
  have inv : InvC s := runC_inv init_invC t
  refine ⟨inv.compat, fun a ha h1 w l => (inv.hOk a ha h1).writerLock w l,
    fun a b ha hb h1 h2 w1 w2 l1 l2 hne => inv.lockInoDistinct h1 h2 w1 w2 l1 l2 hne, ?_⟩
  intro a b ha hb h1 h2 w1 w2 l1 l2 hp an1 an2
  by_cases hab : a = b
  · exact hab
  · have hd := inv.lockInoDistinct h1 h2 w1 w2 l1 l2 hab
    unfold anchored at an1 an2
    rw [hp, an2] at an1
    exact absurd (Option.some.inj an1).symm hd

/-- C17_partial_exclusion (current code): while an ANCHORED writable handle `a` for path `p` is
    alive, a flock probe of the path is refused and `Memvid::open`, `create` and `try_open` of the
    path by anyone else fail. -/
theorem C17_partial_exclusion (t : List Step) (a p : Nat) (ha : Handle)
    (h1 : (run .current init t).hnd a = some ha) (w : ha.phase.writer = true) (hl : ha.lost = false)
    (hp : ha.path = p) (an : anchored (run .current init t) ha) :
    let s := run .current init t
    probeEx s p = some false ∧
    ∀ b, s.hnd b = none →
      (apiOpen .current s b p).2 = false ∧ (apiCreate .current s b p).2 = false ∧
      (apiTryOpen .current s b p).2 = false := by
  intro s
  have inv : InvC s := runC_inv init_invC t
  have he := (inv.hOk a ha h1).writerLock w hl
  unfold anchored at an
  rw [hp] at an
  refine ⟨?_, ?_⟩
  · have an' : s.dir p = some ha.lockIno := an
    have hall : (s.locks.all fun e' => e'.ino != ha.lockIno) = false := by
      cases hall : s.locks.all fun e' => e'.ino != ha.lockIno
      · rfl
      · have := (List.all_eq_true.mp hall) _ he
        simp at this
    simp only [probeEx, an', Option.map_some, hall]
  · intro b hb
    have hne : a ≠ b := by
      intro hc
      rw [hc] at h1
      rw [hb] at h1
      cases h1
    exact ⟨apiOpen_refused _ hb an (not_grantable he hne rfl rfl),
      apiCreate_refused _ hb an (not_grantable he hne rfl rfl),
      apiTryOpen_refused _ hb an (not_grantable he hne rfl rfl)⟩

/-- C17_partial_until_first_rename (current code): in every trace in which no rename step occurs
    (no commit has replaced a file yet) and no downgrade times out — puts, opens, downgrades, upgrades
    (granted or timed out), failed or aborted commits and drops in any interleaving are allowed — the
    FULL property holds. -/
theorem C17_partial_until_first_rename (t : List Step)
    (ht : ∀ st ∈ t, st.isRename = false ∧ st.isDgFail = false) :
    OneWriter (run .current init t) := by
  have inv : InvC (run .current init t) := runC_inv init_invC t
  have nr : NR (run .current init t) := runNR init_NR t ht
  have nl : ∀ {a : Nat} {h : Handle}, (run .current init t).hnd a = some h → h.phase.writer = true →
      h.lost = false := by
    intro a h h1 w
    cases hl : h.lost
    · rfl
    · rcases (nr a h h1).2.2.2 hl with hp | hp <;> rw [hp] at w <;> simp [Phase.writer] at w
  have wr : ∀ {a : Nat} {h : Handle}, (run .current init t).hnd a = some h → h.phase.writer = true →
      h.phase ≠ .opening := by
    intro a h _ w hc
    rw [hc] at w
    simp [Phase.writer] at w
  refine ⟨?_, ?_, ?_⟩
  · intro a b ha hb h1 h2 w1 w2 hp
    by_cases hab : a = b
    · exact hab
    · obtain ⟨d1, l1, _⟩ := nr a ha h1
      obtain ⟨d2, l2, _⟩ := nr b hb h2
      have := inv.lockInoDistinct h1 h2 w1 w2 (nl h1 w1) (nl h2 w2) hab
      rw [l1 (wr h1 w1), l2 (wr h2 w2)] at this
      rw [hp, d2] at d1
      exact absurd (Option.some.inj d1).symm this
  · intro a ha h1 w
    obtain ⟨d1, l1, _⟩ := nr a ha h1
    refine ⟨_, (inv.hOk a ha h1).writerLock w (nl h1 w), rfl, rfl, ?_⟩
    rw [d1, l1 (wr h1 w)]
  · intro a ha h1 hp
    obtain ⟨d1, l1, _⟩ := nr a ha h1
    have w : ha.phase.writer = true := by rw [hp]; rfl
    refine ⟨(inv.hOk a ha h1).writerLock w (nl h1 w), ?_, (l1 (wr h1 w)).symm⟩
    rw [d1, l1 (wr h1 w)]

/-- C17_mode_belief (current code, every reachable state): `FileLock::mode()` never over-claims.
    (1) A handle whose mode says Exclusive — outside a downgrade call and with no timed-out switch —
        holds the exclusive flock on its lock inode.
    (2) A handle inside an upgrade attempt, or after one that timed out, still says Shared (`mode` is
        assigned only after the lock was granted), so a retried mutation attempts the lock again.
    (3) The steps that write (`put`, `stage`) change nothing unless the handle is in phase `live`. -/
theorem C17_mode_belief (t : List Step) :
    let s := run .current init t
    (∀ a h, s.hnd a = some h →
      (h.mode = some .ex → h.phase ≠ .downgrading → h.lost = false →
        ⟨a, h.lockSer, h.lockIno, .ex⟩ ∈ s.locks) ∧
      (h.phase = .upgrading ∨ h.phase = .reader → h.mode = some .sh)) ∧
    (∀ a h, s.hnd a = some h → h.phase ≠ .live →
      step .current s (.put a) = s ∧ step .current s (.stage a) = s) := by
  intro s
  have inv : InvC s := runC_inv init_invC t
  refine ⟨fun a h h1 => (inv.hOk a h h1).belief, ?_⟩
  intro a h h1 hp
  constructor <;> simp [step, h1, hp]

/-- a second opener waits in its retry loop while the first handle downgrades: the opener's attempt
    lands between the downgrade's LOCK_UN and its first try_lock_shared, the downgrade times out -/
def witnessDowngrade : List Step :=
  .mkfile 7 :: openSteps 0 7 ++ [.openFd 1 7 false, .flockEx 1, .dgUnlock 0, .flockEx 1, .dgLock 0, .dgFail 0]

/-- C17_counterexample_downgrade_timeout (current code, model only): without any rename, a timed-out
    downgrade returns Err with `mode` = Exclusive and `read_only` = false but no lock held — two
    writable handles for one path. -/
theorem C17_counterexample_downgrade_timeout :
    (∀ st ∈ witnessDowngrade, st.isRename = false) ∧
    isWriter (run .current init witnessDowngrade) 0 7 = true ∧
    isWriter (run .current init witnessDowngrade) 1 7 = true := by decide

/-- an upgrade that times out because a reader holds the shared lock: the handle stays read-only,
    says Shared, and the retry after the reader left takes the lock before the put -/
example :
    let s1 := (apiPut .current (apiOpenRO .current (apiDowngrade .current
      (run .current init (.mkfile 7 :: openSteps 0 7)) 0) 3 7).1 0)
    s1.2 = false ∧ (∃ h, s1.1.hnd 0 = some h ∧ h.mode = some .sh ∧ h.phase = .reader) ∧
    (apiPut .current (step .current s1.1 (.drop 3)) 0).2 = true ∧
    probeEx (apiPut .current (step .current s1.1 (.drop 3)) 0).1 7 = some false := by
  refine ⟨by decide, ⟨_, rfl, by decide, by decide⟩, by decide, by decide⟩

/-- non-vacuity: the handle that created the file and wrote to it is an anchored writer before its
    first commit, and no longer anchored after it -/
example : (∃ h, (run .current init (.mkfile 7 :: openSteps 0 7 ++ [.put 0])).hnd 0 = some h ∧
    h.phase.writer = true ∧ (run .current init (.mkfile 7 :: openSteps 0 7 ++ [.put 0])).dir h.path = some h.lockIno) :=
  ⟨_, rfl, by decide, by decide⟩
example : (∃ h, (run .current init (.mkfile 7 :: openSteps 0 7 ++ [.put 0] ++ commitSteps 0)).hnd 0 = some h ∧
    h.phase.writer = true ∧
    (run .current init (.mkfile 7 :: openSteps 0 7 ++ [.put 0] ++ commitSteps 0)).dir h.path ≠ some h.lockIno) :=
  ⟨_, rfl, by decide, by decide⟩

end Mv.Lock
