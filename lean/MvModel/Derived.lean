/-
  Derived — the put path of the Core model with the id of DERIVED DATA made explicit (property C26).

  `put_internal` (src/memvid/mutation.rs) attaches one frame id to everything it derives from the
  document it stores:
    * the temporary frame handed to Tantivy by the instant index        (`lexDocs`),
    * the entry pushed on `toc.enrichment_queue`                        (`queue`),
    * `source_frame_id` of every memory card the triplet extractor made (`cards`),
    * the enrichment record filed in the memories track                 (`enrRecs`).
  Which id that is, is the `IdPolicy`:
    * `walSeq`  — `parent_seq as FrameId`, the sequence number `append_wal_entry` returned.  This is
                  the code before /verif/fixes/C26.diff and exactly what `MvModel/Core.lean` models
                  (`stepG_walSeq : stepG .walSeq = step`).
    * `frameId` — `self.next_frame_id()` read before the WAL append (fixes/C26.diff): the id the
                  document receives when its record is applied.
  Everything else is the shared Core model: the definitions below only re-thread the id through
  `appendPut` / `putTail` / `putCore` / `update` (same branches, same order).

    appendPutG / putTailG / putCoreG / putG   mutation.rs put_internal (second half) / put_*
    updateG                                   mutation.rs update_frame
    stepG / runG / traceG                     Core.step / run / trace with the policy
    drvStepG                                  the Core line protocol (CoreDrv.drvStep) over `stepG`
-/
import MvModel.Core
import MvModel.CoreDrv
namespace Mv.Core

inductive IdPolicy where
  /-- `parent_seq as FrameId` (the code as it was) -/
  | walSeq
  /-- `next_frame_id()` before the append (the repaired code) -/
  | frameId
deriving DecidableEq, Repr, Inhabited

/-- the id `put_internal` attaches to derived data, evaluated on the handle BEFORE the WAL append -/
def IdPolicy.id : IdPolicy → Mem → Nat
  | .walSeq, m => m.seq + 1
  | .frameId, m => m.nextFrameId

/-- `appendPut` with the instant-index document and the queue entry carrying `fid` -/
def Mem.appendPutG (fid : Nat) (m : Mem) (a : PutArgs) (supersedes reuse : Option Nat) : Mem :=
  let instant := a.ii && m.engine && a.st
  { m.appendPut a supersedes reuse with
    lexDocs := if instant then m.lexDocs ++ [fid] else m.lexDocs
    queue := if a.q then m.queue ++ [fid] else m.queue }

/-- second half of `put_internal` -/
def Mem.putTailG (p : IdPolicy) (m : Mem) (a : PutArgs) (supersedes reuse : Option Nat) (t : Trace) : Mem × Out :=
  if m.base + m.payloadEnd + a.plen > m.capacityLimit then (m, .err "capacity") else
  ((((m.appendPutG (p.id m) a supersedes reuse).afterAppend t).addCards a.nc (p.id m)), .seq (m.seq + 1))

/-- `put_internal` -/
def Mem.putCoreG (p : IdPolicy) (m : Mem) (a : PutArgs) (supersedes reuse : Option Nat) (t : Trace) : Mem × Out :=
  if !m.mutationAllowed then (m, .err "ticket-required") else
  match embDims a with
  | d :: rest =>
    if rest.any (· != d) then (m, .err "dim-mismatch") else
    if m.enableVec.vecDim ≠ 0 ∧ m.enableVec.vecDim ≠ d then (m.enableVec, .err "dim-mismatch") else
    (m.enableVec.noteDim d).putTailG p a supersedes reuse t
  | [] => m.putTailG p a supersedes reuse t

def Mem.putG (p : IdPolicy) (m : Mem) (a : PutArgs) (t : Trace) : Mem × Out := m.putCoreG p a none none t

/-- `update_frame` -/
def Mem.updateG (p : IdPolicy) (m : Mem) (id : Nat) (u : UpdArgs) (t : Trace) : Mem × Out :=
  if !m.mutationAllowed then (m, .err "ticket-required") else
  match m.frames[id]? with
  | none => (m, .err "not-found")
  | some old =>
    if old.status != .active then (m, .err "inactive") else
    if u.payload.isNone && canon m.frames old == "err" then (m.loadVec, .err "canon-error") else
    m.loadVec.putCoreG p (inheritArgs old u (m.carriedEmb id u.emb)) (some id)
      (if u.payload.isNone then some id else none) t

def stepG (p : IdPolicy) (m : Mem) : Op → Mem × Out
  | .put a t => m.putG p a t
  | .update id u t => m.updateG p id u t
  | op => step m op

def runG (p : IdPolicy) (m : Mem) : List Op → Mem
  | [] => m
  | op :: ops => runG p (stepG p m op).1 ops

def traceG (p : IdPolicy) (m : Mem) : List Op → List (Op × Out)
  | [] => []
  | op :: ops => (op, (stepG p m op).2) :: traceG p (stepG p m op).1 ops

/-! ## Line protocol: `CoreDrv.drvStep`, with `put` / `update` executed under the policy.
    The request syntax is the shared one (see MvModel/CoreDrv.lean). -/

def drvStepG (p : IdPolicy) (m : Mem) (ws : List String) : Mem × String :=
  match ws with
  | "put" :: rest =>
    let kv := kvs rest
    match getI kv "ts" with
    | none => (m, "bad-op")
    | some ts =>
      let a : PutArgs :=
        { ts := ts, uri := getS kv "uri", kind := getS kv "kind", track := getS kv "track",
          tags := getL kv "tags", labels := getL kv "labels", role := getRole kv,
          content := (getS kv "ct").getD "E", len := getN kv "len", plen := getN kv "plen",
          emb := getEmb kv "emb", chunks := getChunks kv "chunks", ii := getB kv "ii",
          st := getB kv "st" true, q := getB kv "q", nc := getN kv "nc", zstd := getB kv "z",
          cdims := (getL kv "cdims").filterMap (·.toNat?) }
      let r := stepG p m (.put a (getTrace m kv))
      (r.1.setWalSize (getN kv "ws" r.1.walSize), showOut r.2)
  | "update" :: rest =>
    let kv := kvs rest
    let pl : Option (String × Nat × Nat × List ChunkArg) :=
      if getB kv "pl" then some ((getS kv "ct").getD "E", getN kv "len", getN kv "plen", getChunks kv "chunks")
      else none
    let u : UpdArgs :=
      { ts := getI kv "ts", uri := getS kv "uri", kind := getS kv "kind", track := getS kv "track",
        tags := getL kv "tags", labels := getL kv "labels", role := getRole kv, payload := pl,
        emb := getEmb kv "emb", ii := getB kv "ii", st := getB kv "st" true, q := getB kv "q",
        nc := getN kv "nc", zstd := getB kv "z" }
    let r := stepG p m (.update (getN kv "id") u (getTrace m kv))
    (r.1.setWalSize (getN kv "ws" r.1.walSize), showOut r.2)
  | _ => drvStep m ws

end Mv.Core
