/-
  C37 — Adaptive retrieval cut-off respects its bounds.
  Property theorems only.  Model: MvModel/Adaptive.lean (mirror of /repo/src/types/adaptive.rs) with
  the arithmetic as a parameter `Ops α`; statement vocabulary: MvModel/AdaptiveLaws.lean; software
  binary32 `f32Ops`: MvModel/AdaptiveF32.lean; helper lemmas: MvProps/C37Lemmas.lean.
-/
import MvModel.Adaptive
import MvModel.AdaptiveLaws
import MvModel.AdaptiveF32
import MvProps.C37Lemmas
namespace Mv.Adaptive

variable {α : Type} (o : Ops α)

/-! ## C37, first clause: the cut-off lies between `min(min_results, n)` and `n` -/

/-- **C37_bounds** — for EVERY arithmetic (`Ops`, so including IEEE f32 with NaN, ±∞, rounding and
    overflow), every score list and every configuration, the cut-off returned by the model of
    `find_adaptive_cutoff` lies between `min(min_results, n)` and `n`. -/
theorem C37_bounds (scores : List α) (cfg : Config α) :
    min cfg.minResults scores.length ≤ (findAdaptiveCutoff o scores cfg).1 ∧
    (findAdaptiveCutoff o scores cfg).1 ≤ scores.length := by
  unfold findAdaptiveCutoff
  split
  · rename_i h0; simp at h0; simp [h0]
  · split
    · simp only; omega
    · rename_i hne hlen
      dsimp only
      generalize hN : (if cfg.normalize = true then normalize o scores else scores) = nz
      have hl : nz.length = scores.length := by
        rw [← hN]; split
        · exact normalize_length o scores
        · rfl
      split
      · simp at hl; omega
      · rename_i top tl
        rw [← hl]
        split
        · exact findAbsoluteCutoff_bounds o _ _ _
        · exact findAbsoluteCutoff_bounds o _ _ _
        · exact findCliffCutoff_bounds o _ _ _
        · have h := findElbowCutoff_bounds o (top :: tl) ‹_› cfg.minResults (by omega)
          omega
        · exact findCombinedCutoff_bounds o _ _ _ _ _ _

/-- when there are no more results than `min_results`, all of them are kept -/
theorem C37_all_kept_below_min (scores : List α) (cfg : Config α) (h : scores.length ≤ cfg.minResults) :
    (findAdaptiveCutoff o scores cfg).1 = scores.length := by
  unfold findAdaptiveCutoff
  split
  · rename_i h0; simp at h0; simp [h0]
  · simp

/-! ## C37, third clause: absolute / relative threshold -/

/-- **C37_threshold** — for EVERY arithmetic: with an absolute or relative threshold strategy, every
    result kept at an index `≥ min_results` has an (effective) score that is NOT below the threshold,
    and the result just after the cut-off, if any, IS below it.  (`lt x thr = false` is `x ≥ thr`
    as soon as neither is NaN, see `C37_threshold_exact`.) -/
theorem C37_threshold (scores : List α) (cfg : Config α) (thr : α) (h : threshold o cfg scores = some thr) :
    (∀ j x, cfg.minResults ≤ j → j < (findAdaptiveCutoff o scores cfg).1 →
        (effective o cfg scores)[j]? = some x → o.lt x thr = false) ∧
    (∀ x, (effective o cfg scores)[(findAdaptiveCutoff o scores cfg).1]? = some x → o.lt x thr = true) := by
  have hlen : (effective o cfg scores).length = scores.length := by
    unfold effective; split
    · exact normalize_length o scores
    · rfl
  by_cases hsmall : scores.length ≤ cfg.minResults
  · rw [C37_all_kept_below_min o scores cfg hsmall]
    refine ⟨fun j x h1 h2 => by omega, fun x hx => ?_⟩
    rw [List.getElem?_eq_none (by omega)] at hx; cases hx
  · unfold findAdaptiveCutoff
    have hne : scores.isEmpty = false := by
      cases scores with
      | nil => simp at hsmall
      | cons a b => rfl
    simp only [hne, hsmall, if_false, Bool.false_eq_true]
    unfold threshold at h
    unfold effective at h ⊢
    generalize (if cfg.normalize = true then normalize o scores else scores) = nz at h ⊢
    split
    · refine ⟨fun j x _ h2 => by simp at h2, fun x hx => by simp at hx⟩
    · rename_i top rest
      cases hs : cfg.strategy with
      | absolute t =>
        rw [hs] at h; simp only [Option.some.injEq] at h; subst h
        exact findAbsoluteCutoff_spec o _ _ _
      | relative r =>
        rw [hs] at h; simp only [List.head?_cons, Option.map_some, Option.some.injEq] at h; subst h
        exact findAbsoluteCutoff_spec o _ _ _
      | cliff d => rw [hs] at h; cases h
      | elbow d => rw [hs] at h; cases h
      | combined a b c => rw [hs] at h; cases h

/-! ## C37, second clause: normalised scores lie in [0, 1], the maximum is mapped to 1 -/

section norm
variable {o} {R : α → Prop} (L : Laws o R)
include L

/-- **C37_norm** — for every arithmetic satisfying `Laws` (exact rationals: `eratLaws`), every
    non-overflowing list of regular scores: `normalize_scores` keeps the length, every normalised
    score is a non-NaN value in `[0, 1]`, and every maximal score is mapped to (a value numerically
    equal to) `1`. -/
theorem C37_norm (s : List α) (hs : ∀ x ∈ s, R x) (hov : ∀ x ∈ s, ∀ m ∈ s, R (o.sub x m)) :
    (normalize o s).length = s.length ∧
    (∀ y ∈ normalize o s, o.isNaN y = false ∧ o.le o.zero y ∧ o.le y o.one) ∧
    (∀ (i : Nat) x y, s[i]? = some x → (normalize o s)[i]? = some y → (∀ z ∈ s, o.le z x) → o.eqv y o.one) := by
  refine ⟨normalize_length o s, ?_⟩
  cases hsl : s with
  | nil => simp [normalize]
  | cons a t =>
    rw [← hsl]
    have hne : s ≠ [] := by rw [hsl]; exact List.cons_ne_nil _ _
    have hemp : s.isEmpty = false := by rw [hsl]; rfl
    obtain ⟨rmx, rmn, rr, hx⟩ := L.range_facts s hne hs hov
    obtain ⟨hmx, hmxb⟩ := L.max_spec s hne hs
    have one_ok : o.isNaN o.one = false ∧ o.le o.zero o.one ∧ o.le o.one o.one :=
      ⟨L.not_nan _ L.R_one, L.zero_le_one, L.le_refl _⟩
    unfold normalize
    simp only [hemp, Bool.false_eq_true, if_false]
    split
    · -- range < EPSILON: everything becomes 1.0
      refine ⟨fun y hy => ?_, fun i x y _ hy _ => ?_⟩
      · obtain ⟨_, _, rfl⟩ := List.mem_map.mp hy; exact one_ok
      · rw [List.getElem?_map] at hy
        cases hsi : s[i]? with
        | none => rw [hsi] at hy; cases hy
        | some v => rw [hsi] at hy; cases hy; exact ⟨L.le_refl _, L.le_refl _⟩
    · rename_i hnlt
      have hpos : o.lt o.zero (o.sub (s.foldl o.fmax o.negInf) (s.foldl o.fmin o.inf)) = true :=
        L.lt_of_lt_of_le (Or.inl L.R_zero) (Or.inl L.R_eps) (Or.inl rr) L.eps_pos
          (by unfold Ops.le; simpa using hnlt)
      refine ⟨fun y hy => ?_, fun i x y hxi hy hmax => ?_⟩
      · obtain ⟨x, hxs, rfl⟩ := List.mem_map.mp hy
        obtain ⟨r1, h0, h1, _⟩ := hx x hxs
        exact L.div_unit _ _ r1 rr hpos h0 h1
      · rw [List.getElem?_map, hxi] at hy
        cases hy
        have hxs : x ∈ s := List.mem_of_getElem? hxi
        obtain ⟨r1, _, _, he⟩ := hx x hxs
        exact L.div_eqv_self _ _ r1 rr hpos (he (hmax _ hmx))

/-- the all-equal case "as the code does it": when all scores are numerically equal the range is
    below `EPSILON` and every score becomes `1.0` -/
theorem C37_norm_all_equal (s : List α) (hs : ∀ x ∈ s, R x) (hov : ∀ x ∈ s, ∀ m ∈ s, R (o.sub x m))
    (heq : ∀ x ∈ s, ∀ y ∈ s, o.le x y) : normalize o s = s.map (fun _ => o.one) := by
  cases hsl : s with
  | nil => simp [normalize]
  | cons a t =>
    rw [← hsl]
    have hne : s ≠ [] := by rw [hsl]; exact List.cons_ne_nil _ _
    have hemp : s.isEmpty = false := by rw [hsl]; rfl
    obtain ⟨rmx, rmn, rr, hx⟩ := L.range_facts s hne hs hov
    obtain ⟨hmx, hmxb⟩ := L.max_spec s hne hs
    obtain ⟨hmn, hmnb⟩ := L.min_spec s hne hs
    unfold normalize
    simp only [hemp, Bool.false_eq_true, if_false]
    have r0 : R (o.sub (s.foldl o.fmin o.inf) (s.foldl o.fmin o.inf)) := hov _ hmn _ hmn
    have hle : o.le (o.sub (s.foldl o.fmax o.negInf) (s.foldl o.fmin o.inf)) o.zero :=
      L.le_trans _ _ _ (Or.inl rr) (Or.inl r0) (Or.inl L.R_zero)
        (L.sub_mono _ _ _ rmx rmn rmn (heq _ hmx _ hmn)) (L.sub_self _ rmn).1
    have hlt := L.lt_of_le_of_lt (Or.inl rr) (Or.inl L.R_zero) (Or.inl L.R_eps) hle L.eps_pos
    simp only [hlt, if_true]

end norm

end Mv.Adaptive
