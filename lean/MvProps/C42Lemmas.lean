/-
  C42 — helper lemmas: what the compaction loop of `vacuum` does to the frame table (reads, layout) and
  what the index rebuild that follows leaves in the handle.
-/
import MvProps.CoreLemmas
import MvModel.Vacuum
namespace Mv.Core

/-! ## A. sorting commutes with key-preserving maps -/

theorem insertBy_map {α β : Type} (le : α → α → Bool) (le' : β → β → Bool) (g : α → β)
    (hle : ∀ a b, le' (g a) (g b) = le a b) (x : α) (l : List α) :
    insertBy le' (g x) (l.map g) = (insertBy le x l).map g := by
  induction l with
  | nil => rfl
  | cons y ys ih =>
    simp only [List.map_cons, insertBy, hle]
    split
    · rfl
    · simp only [List.map_cons, ih]

theorem sortBy_map {α β : Type} (le : α → α → Bool) (le' : β → β → Bool) (g : α → β)
    (hle : ∀ a b, le' (g a) (g b) = le a b) (l : List α) :
    sortBy le' (l.map g) = (sortBy le l).map g := by
  induction l with
  | nil => rfl
  | cons y ys ih => simp only [List.map_cons, sortBy, ih, insertBy_map le le' g hle]

theorem mem_insertBy {α : Type} (le : α → α → Bool) (x y : α) (l : List α) :
    y ∈ insertBy le x l ↔ y = x ∨ y ∈ l := by
  induction l with
  | nil => simp [insertBy]
  | cons z zs ih =>
    unfold insertBy
    split
    · simp
    · simp only [List.mem_cons, ih]
      constructor
      · rintro (h | h | h)
        · exact Or.inr (Or.inl h)
        · exact Or.inl h
        · exact Or.inr (Or.inr h)
      · rintro (h | h | h)
        · exact Or.inr (Or.inl h)
        · exact Or.inl h
        · exact Or.inr (Or.inr h)

theorem mem_sortBy {α : Type} (le : α → α → Bool) (y : α) (l : List α) : y ∈ sortBy le l ↔ y ∈ l := by
  induction l with
  | nil => simp [sortBy]
  | cons z zs ih => simp only [sortBy, mem_insertBy, ih, List.mem_cons]

/-! ## B. `frame_canonical_bytes` only looks at what a read-preserving map keeps -/

/-- the active chunk children of document `id`, in `(chunk_index, id)` order -/
def kids (frames : List Frame) (id : Nat) : List Frame :=
  sortBy chunkLe (frames.filter (fun c => c.status == .active && c.role == .chunk && c.parent == some id))

/-- the manifest branch of `canon` on the children's own contents / content tokens -/
def canonKids (man : Option Nat) (owns conts : List String) : String :=
  if owns.isEmpty then "err"
  else if some owns.length != man then "err"
  else if owns.any (· == "err") then "err"
  else "cat:" ++ "+".intercalate conts

theorem canon_eq (frames : List Frame) (f : Frame) :
    canon frames f = if isManifestDoc f then
        canonKids f.manifest ((kids frames f.id).map ownContent) ((kids frames f.id).map (·.content))
      else ownContent f := by
  unfold canon canonKids kids
  simp only [List.isEmpty_map, List.length_map, List.any_map]
  rfl

/-- a map on frames that keeps everything a read looks at -/
structure ReadPres (g : Frame → Frame) : Prop where
  view : ∀ c, view (g c) = view c
  parent : ∀ c, (g c).parent = c.parent
  own : ∀ c, c.status = .active → ownContent (g c) = ownContent c

theorem view_status {a b : Frame} (h : view a = view b) : a.status = b.status := congrArg SFrame.status h
theorem view_role {a b : Frame} (h : view a = view b) : a.role = b.role := congrArg SFrame.role h
theorem view_id {a b : Frame} (h : view a = view b) : a.id = b.id := congrArg SFrame.id h
theorem view_ci {a b : Frame} (h : view a = view b) : a.chunkIndex = b.chunkIndex := congrArg SFrame.chunkIndex h
theorem view_manifest {a b : Frame} (h : view a = view b) : a.manifest = b.manifest := congrArg SFrame.manifest h
theorem view_content {a b : Frame} (h : view a = view b) : a.content = b.content := congrArg SFrame.content h

theorem view_isManifestDoc {a b : Frame} (h : view a = view b) : isManifestDoc a = isManifestDoc b := by
  unfold isManifestDoc; rw [view_role h, view_manifest h]

theorem readPres_chunkLe {g : Frame → Frame} (hg : ReadPres g) (a b : Frame) : chunkLe (g a) (g b) = chunkLe a b := by
  unfold chunkLe chunkKey
  rw [view_ci (hg.view a), view_ci (hg.view b), view_id (hg.view a), view_id (hg.view b)]

theorem readPres_kids {g : Frame → Frame} (hg : ReadPres g) (l : List Frame) (id : Nat) :
    kids (l.map g) id = (kids l id).map g := by
  unfold kids
  rw [List.filter_map, sortBy_map chunkLe chunkLe g (readPres_chunkLe hg)]
  congr 2
  apply List.filter_congr
  intro c _
  simp only [Function.comp, view_status (hg.view c), view_role (hg.view c), hg.parent c]

theorem kids_active (l : List Frame) (id : Nat) : ∀ c ∈ kids l id, c.status = .active := by
  intro c hc
  unfold kids at hc
  rw [mem_sortBy] at hc
  have := (List.mem_filter.mp hc).2
  simp only [Bool.and_eq_true, beq_iff_eq] at this
  exact this.1.1

/-- a read through a read-preserving map of the table gives the same bytes -/
theorem canon_map {g : Frame → Frame} (hg : ReadPres g) (l : List Frame) (f : Frame)
    (hf : isManifestDoc f = false → ownContent (g f) = ownContent f) :
    canon (l.map g) (g f) = canon l f := by
  rw [canon_eq, canon_eq, view_isManifestDoc (hg.view f), view_manifest (hg.view f), view_id (hg.view f), readPres_kids hg]
  cases hm : isManifestDoc f
  · simp only [Bool.false_eq_true, if_false]; exact hf hm
  · simp only [if_true, List.map_map]
    have h1 : (kids l f.id).map (ownContent ∘ g) = (kids l f.id).map ownContent :=
      List.map_congr_left (fun c hc => hg.own c (kids_active l f.id c hc))
    have h2 : (kids l f.id).map ((fun x => x.content) ∘ g) = (kids l f.id).map (fun x => x.content) :=
      List.map_congr_left (fun c _ => view_content (hg.view c))
    rw [h1, h2]

/-! ## C. the compaction loop -/

/-- forget where the payload is stored -/
def Frame.eo (f : Frame) : Frame := { f with off := 0 }
/-- what compaction does to a frame, offsets aside: an inactive frame loses its stored bytes -/
def Frame.hc (f : Frame) : Frame := if f.status == .active then f.eo else { f.eo with len := 0 }

theorem readPres_eo : ReadPres Frame.eo := ⟨fun _ => rfl, fun _ => rfl, fun _ _ => rfl⟩

theorem readPres_hc : ReadPres Frame.hc := by
  refine ⟨?_, ?_, ?_⟩
  · intro c; unfold Frame.hc; split <;> rfl
  · intro c; unfold Frame.hc; split <;> rfl
  · intro c hc; unfold Frame.hc; simp [hc]; rfl

theorem compact_map_eo (fs : List Frame) (c : Nat) : (compact fs c).1.map Frame.eo = fs.map Frame.hc := by
  induction fs generalizing c with
  | nil => rfl
  | cons f fs ih =>
    unfold compact
    split
    · rename_i h
      simp only [List.map_cons, ih]
      simp only [Frame.hc, h, if_true]; rfl
    · rename_i h
      simp only [List.map_cons, ih]
      simp only [Frame.hc, h]; rfl

theorem compact_length (fs : List Frame) (c : Nat) : (compact fs c).1.length = fs.length := by
  have := congrArg List.length (compact_map_eo fs c)
  simpa using this

/-- position by position: the compacted frame is the old one up to storage -/
theorem compact_getElem (fs : List Frame) (c i : Nat) (f : Frame) (h : fs[i]? = some f) :
    ∃ f', (compact fs c).1[i]? = some f' ∧ f'.eo = f.hc := by
  have hm := congrArg (fun l => l[i]?) (compact_map_eo fs c)
  simp only [List.getElem?_map, h, Option.map_some] at hm
  cases hf : (compact fs c).1[i]? with
  | none => rw [hf] at hm; cases hm
  | some f' => rw [hf] at hm; exact ⟨f', rfl, by simpa using hm⟩

/-- **reads survive compaction**: an active frame — and any chunked document, whose bytes live in its
    active chunks — reads back exactly what it read before -/
theorem compact_canon (fs : List Frame) (c i : Nat) (f f' : Frame) (h : fs[i]? = some f)
    (h' : (compact fs c).1[i]? = some f') (hf : f.status = .active ∨ isManifestDoc f = true) :
    canon (compact fs c).1 f' = canon fs f := by
  obtain ⟨f'', h2, he⟩ := compact_getElem fs c i f h
  rw [h'] at h2
  cases h2
  have e1 : canon ((compact fs c).1.map Frame.eo) f'.eo = canon (compact fs c).1 f' :=
    canon_map readPres_eo _ f' (fun _ => rfl)
  have e2 : canon (fs.map Frame.hc) f.hc = canon fs f := by
    apply canon_map readPres_hc
    intro hm
    rcases hf with ha | hd
    · exact readPres_hc.own f ha
    · rw [hd] at hm; cases hm
  rw [← e1, compact_map_eo, he, e2]

theorem compact_view_at (fs : List Frame) (c i : Nat) (f f' : Frame) (h : fs[i]? = some f)
    (h' : (compact fs c).1[i]? = some f') :
    view f' = view f ∧ f'.parent = f.parent ∧ f'.idx = f.idx ∧ f'.zstd = f.zstd ∧
      (f.status = .active → f'.len = f.len) ∧ (f.status ≠ .active → f'.len = 0 ∧ f'.off = 0) := by
  induction fs generalizing c i with
  | nil => simp at h
  | cons g gs ih =>
    unfold compact at h'
    cases i with
    | zero =>
      simp only [List.getElem?_cons_zero, Option.some.injEq] at h
      subst h
      split at h'
      · rename_i ha
        simp only [List.getElem?_cons_zero, Option.some.injEq] at h'
        subst h'
        exact ⟨rfl, rfl, rfl, rfl, fun _ => rfl, fun hn => absurd (by simpa using ha) hn⟩
      · rename_i ha
        simp only [List.getElem?_cons_zero, Option.some.injEq] at h'
        subst h'
        exact ⟨rfl, rfl, rfl, rfl, fun hh => absurd (by simp [hh]) ha, fun _ => ⟨rfl, rfl⟩⟩
    | succ j =>
      simp only [List.getElem?_cons_succ] at h
      split at h'
      · simp only [List.getElem?_cons_succ] at h'
        exact ih _ j h h'
      · simp only [List.getElem?_cons_succ] at h'
        exact ih _ j h h'

/-! ## D. layout after compaction -/

def activeLen (fs : List Frame) : Nat := ((fs.filter (fun f => f.status == .active)).map (·.len)).sum

theorem compact_snd (fs : List Frame) (c : Nat) : (compact fs c).2 = c + activeLen fs := by
  induction fs generalizing c with
  | nil => simp [compact, activeLen]
  | cons f fs ih =>
    unfold compact
    split
    · rename_i h
      show (compact fs (c + f.len)).2 = _
      rw [ih]; simp [activeLen, h]; omega
    · rename_i h
      show (compact fs c).2 = _
      rw [ih]; simp [activeLen, h]

theorem compact_bounds (fs : List Frame) (c : Nat) :
    ∀ f' ∈ (compact fs c).1, f'.status = .active → c ≤ f'.off ∧ f'.off + f'.len ≤ (compact fs c).2 := by
  induction fs generalizing c with
  | nil => intro f' h; simp [compact] at h
  | cons f fs ih =>
    intro f' hm ha
    have hge : ∀ d, d ≤ (compact fs d).2 := fun d => by rw [compact_snd]; omega
    unfold compact at hm ⊢
    split at hm
    · rename_i h
      rw [if_pos h]
      have hm' : f' = { f with off := c } ∨ f' ∈ (compact fs (c + f.len)).1 := by simpa using hm
      show c ≤ f'.off ∧ f'.off + f'.len ≤ (compact fs (c + f.len)).2
      rcases hm' with rfl | hm'
      · exact ⟨Nat.le_refl _, hge _⟩
      · have := ih (c + f.len) f' hm' ha; omega
    · rename_i h
      rw [if_neg h]
      have hm' : f' = { f with off := 0, len := 0 } ∨ f' ∈ (compact fs c).1 := by simpa using hm
      show c ≤ f'.off ∧ f'.off + f'.len ≤ (compact fs c).2
      rcases hm' with rfl | hm'
      · exact absurd (by simpa using ha) h
      · exact ih c f' hm' ha

theorem compact_inactive (fs : List Frame) (c : Nat) :
    ∀ f' ∈ (compact fs c).1, f'.status ≠ .active → f'.off = 0 ∧ f'.len = 0 := by
  induction fs generalizing c with
  | nil => intro f' h; simp [compact] at h
  | cons f fs ih =>
    intro f' hm ha
    unfold compact at hm
    split at hm
    · rename_i h
      have hm' : f' = { f with off := c } ∨ f' ∈ (compact fs (c + f.len)).1 := by simpa using hm
      rcases hm' with rfl | hm'
      · exact absurd (by simpa using h) ha
      · exact ih _ f' hm' ha
    · have hm' : f' = { f with off := 0, len := 0 } ∨ f' ∈ (compact fs c).1 := by simpa using hm
      rcases hm' with rfl | hm'
      · exact ⟨rfl, rfl⟩
      · exact ih _ f' hm' ha

/-- the stored ranges of two active frames never overlap: the later frame starts where the earlier ends, or later -/
theorem compact_disjoint (fs : List Frame) (c : Nat) :
    ((compact fs c).1).Pairwise (fun a b => a.status = .active → b.status = .active → a.off + a.len ≤ b.off) := by
  induction fs generalizing c with
  | nil => simp [compact]
  | cons f fs ih =>
    unfold compact
    split
    · show List.Pairwise _ ({ f with off := c } :: (compact fs (c + f.len)).1)
      refine List.Pairwise.cons ?_ (ih _)
      intro b hb _ hba
      exact (compact_bounds fs (c + f.len) b hb hba).1
    · rename_i h
      show List.Pairwise _ ({ f with off := 0, len := 0 } :: (compact fs c).1)
      refine List.Pairwise.cons ?_ (ih _)
      intro b _ ha _
      exact absurd (by simpa using ha) h

/-! ## E. what the pieces of a commit / rebuild leave in the fields C42 talks about -/

@[simp] theorem persistToc_frames (m : Mem) : m.persistToc.frames = m.frames := rfl
@[simp] theorem persistToc_lexEnabled (m : Mem) : m.persistToc.lexEnabled = m.lexEnabled := rfl

theorem flushTantivy_keeps (m : Mem) (ft : Nat) :
    (m.flushTantivy ft).frames = m.frames ∧ (m.flushTantivy ft).lexEnabled = m.lexEnabled ∧
    (m.flushTantivy ft).payloadEnd = m.payloadEnd ∧ (m.flushTantivy ft).dataEnd = m.dataEnd ∧
    (m.flushTantivy ft).time = m.time ∧ (m.flushTantivy ft).vec = m.vec ∧ (m.flushTantivy ft).pVec = m.pVec ∧
    (m.flushTantivy ft).vecEnabled = m.vecEnabled ∧ (m.flushTantivy ft).lexDocs = m.lexDocs ∧
    (m.flushTantivy ft).dirty = m.dirty ∧ (m.flushTantivy ft).pendingInserts = m.pendingInserts ∧
    (m.flushTantivy ft).sketch = m.sketch ∧ (m.flushTantivy ft).pSketch = m.pSketch := by
  unfold Mem.flushTantivy
  split
  · exact ⟨rfl, rfl, rfl, rfl, rfl, rfl, rfl, rfl, rfl, rfl, rfl, rfl, rfl⟩
  · split <;> exact ⟨rfl, rfl, rfl, rfl, rfl, rfl, rfl, rfl, rfl, rfl, rfl, rfl, rfl⟩

theorem rebuildLex_keeps (m : Mem) (ins : List Nat) (ft : Nat) :
    (m.rebuildLex ins ft).frames = m.frames ∧ (m.rebuildLex ins ft).lexEnabled = m.lexEnabled ∧
    (m.rebuildLex ins ft).payloadEnd = m.payloadEnd ∧ (m.rebuildLex ins ft).dataEnd = m.dataEnd ∧
    (m.rebuildLex ins ft).time = m.time ∧ (m.rebuildLex ins ft).vec = m.vec ∧ (m.rebuildLex ins ft).pVec = m.pVec ∧
    (m.rebuildLex ins ft).vecEnabled = m.vecEnabled ∧
    (m.rebuildLex ins ft).dirty = m.dirty ∧ (m.rebuildLex ins ft).pendingInserts = m.pendingInserts ∧
    (m.rebuildLex ins ft).sketch = m.sketch ∧ (m.rebuildLex ins ft).pSketch = m.pSketch := by
  unfold Mem.rebuildLex
  split
  · obtain ⟨a, b, c, d, e, f, g, h, _, j, k, l, n⟩ := flushTantivy_keeps
      { m with lexDocs := (if m.tantivyDirty then fullLexRebuild m.frames
          else if m.engine && !ins.isEmpty then
            m.lexDocs ++ ins.filter (fun id => match m.frames[id]? with
              | some f => f.status == .active && f.idx
              | none => false)
          else fullLexRebuild m.frames), engine := true, tantivyDirty := true } ft
    exact ⟨a, b, c, d, e, f, g, h, j, k, l, n⟩
  · exact ⟨rfl, rfl, rfl, rfl, rfl, rfl, rfl, rfl, rfl, rfl, rfl, rfl⟩

/-- the engine contents after a rebuild that found no engine (`vacuum` dropped it): every active frame
    with index text, once -/
theorem rebuildLex_docs (m : Mem) (ins : List Nat) (ft : Nat) (hl : m.lexEnabled = true) (he : m.engine = false)
    (hd : m.tantivyDirty = false) : (m.rebuildLex ins ft).lexDocs = fullLexRebuild m.frames := by
  unfold Mem.rebuildLex
  simp only [hl, if_true, hd, he, Bool.false_and, Bool.false_eq_true, if_false]
  exact (flushTantivy_keeps _ ft).2.2.2.2.2.2.2.2.1

theorem rebuildVec_keeps (m : Mem) (embs : List VecEnt) :
    (m.rebuildVec embs).frames = m.frames ∧ (m.rebuildVec embs).lexEnabled = m.lexEnabled ∧
    (m.rebuildVec embs).payloadEnd = m.payloadEnd ∧ (m.rebuildVec embs).dataEnd = m.dataEnd ∧
    (m.rebuildVec embs).time = m.time ∧ (m.rebuildVec embs).vecEnabled = m.vecEnabled ∧
    (m.rebuildVec embs).lexDocs = m.lexDocs ∧
    (m.rebuildVec embs).dirty = m.dirty ∧ (m.rebuildVec embs).pendingInserts = m.pendingInserts ∧
    (m.rebuildVec embs).sketch = m.sketch ∧ (m.rebuildVec embs).pSketch = m.pSketch := by
  unfold Mem.rebuildVec
  split <;> exact ⟨rfl, rfl, rfl, rfl, rfl, rfl, rfl, rfl, rfl, rfl, rfl⟩

/-- the vector index a rebuild without new embeddings leaves: the in-memory entries of active frames -/
def vecAfter (m : Mem) : Option (List VecEnt) :=
  if m.vecEnabled then some ((m.vec.getD []).filter (fun e => isActive m.frames e.id)) else none

theorem rebuildVec_nil (m : Mem) : (m.rebuildVec []).vec = vecAfter m ∧ (m.rebuildVec []).pVec = vecAfter m := by
  unfold Mem.rebuildVec vecAfter
  split <;> simp

/-- `rebuild_indexes(&[], &[])` on a handle with the lexical index enabled -/
theorem rebuildIndexes_nil (m : Mem) (ft : Nat) (hl : m.lexEnabled = true) :
    (m.rebuildIndexes [] [] ft).frames = m.frames ∧ (m.rebuildIndexes [] [] ft).lexEnabled = true ∧
    (m.rebuildIndexes [] [] ft).payloadEnd = m.payloadEnd ∧ (m.rebuildIndexes [] [] ft).dataEnd = m.payloadEnd ∧
    (m.rebuildIndexes [] [] ft).time = some (timeEntries m.frames) ∧
    (m.rebuildIndexes [] [] ft).vec = vecAfter m ∧ (m.rebuildIndexes [] [] ft).pVec = vecAfter m ∧
    (m.rebuildIndexes [] [] ft).dirty = m.dirty ∧ (m.rebuildIndexes [] [] ft).pendingInserts = m.pendingInserts ∧
    (m.rebuildIndexes [] [] ft).sketch = m.sketch ∧ (m.rebuildIndexes [] [] ft).pSketch = m.pSketch ∧
    (m.engine = false → m.tantivyDirty = false → (m.rebuildIndexes [] [] ft).lexDocs = fullLexRebuild m.frames) := by
  have hc : ¬ ((m.frames.isEmpty && !m.lexEnabled && !m.vecEnabled) = true) := by rw [hl]; simp
  unfold Mem.rebuildIndexes
  rw [if_neg hc]
  let m1 : Mem := { m with dataEnd := m.payloadEnd, time := some (timeEntries m.frames) }
  obtain ⟨a1, a2, a3, a4, a5, a6, a7, a8, a9, a10, a11, a12⟩ := rebuildLex_keeps m1 [] ft
  obtain ⟨b1, b2, b3, b4, b5, b6, b7, b8, b9, b10, b11⟩ := rebuildVec_keeps (m1.rebuildLex [] ft) []
  obtain ⟨c1, c2⟩ := rebuildVec_nil (m1.rebuildLex [] ft)
  have hva : vecAfter (m1.rebuildLex [] ft) = vecAfter m := by
    unfold vecAfter; rw [a8, a6, a1]
  refine ⟨?_, ?_, ?_, ?_, ?_, ?_, ?_, ?_, ?_, ?_, ?_, ?_⟩
  · show ((m1.rebuildLex [] ft).rebuildVec []).frames = _; rw [b1, a1]
  · show ((m1.rebuildLex [] ft).rebuildVec []).lexEnabled = _; rw [b2, a2]; exact hl
  · show ((m1.rebuildLex [] ft).rebuildVec []).payloadEnd = _; rw [b3, a3]
  · show ((m1.rebuildLex [] ft).rebuildVec []).dataEnd = _; rw [b4, a4]
  · show ((m1.rebuildLex [] ft).rebuildVec []).time = _; rw [b5, a5]
  · show ((m1.rebuildLex [] ft).rebuildVec []).vec = _; rw [c1, hva]
  · show ((m1.rebuildLex [] ft).rebuildVec []).pVec = _; rw [c2, hva]
  · show ((m1.rebuildLex [] ft).rebuildVec []).dirty = _; rw [b8, a9]
  · show ((m1.rebuildLex [] ft).rebuildVec []).pendingInserts = _; rw [b9, a10]
  · show ((m1.rebuildLex [] ft).rebuildVec []).sketch = _; rw [b10, a11]
  · show ((m1.rebuildLex [] ft).rebuildVec []).pSketch = _; rw [b11, a12]
  · intro he hd
    show ((m1.rebuildLex [] ft).rebuildVec []).lexDocs = _
    rw [b7, rebuildLex_docs m1 [] ft hl he hd]

/-! ## F. the lexical index stays enabled (it is enabled at create and at every open; nothing disables it) -/

theorem rebuildIndexes_lexEnabled (m : Mem) (embs : List VecEnt) (ins : List Nat) (ft : Nat) :
    (m.rebuildIndexes embs ins ft).lexEnabled = m.lexEnabled := by
  unfold Mem.rebuildIndexes
  split
  · rfl
  · show ((Mem.rebuildLex { m with dataEnd := m.payloadEnd, time := some (timeEntries m.frames) } ins ft).rebuildVec embs).lexEnabled = _
    rw [(rebuildVec_keeps _ _).2.1, (rebuildLex_keeps _ _ _).2.1]

theorem applyRecords_lexEnabled (m : Mem) (recs : List (Nat × Entry)) (eng : Bool) (m1 : Mem) (δ : Delta)
    (h : applyRecords m recs eng = some (m1, δ)) : m1.lexEnabled = m.lexEnabled := by
  unfold applyRecords at h
  split at h
  · cases h; rfl
  · dsimp only at h
    split at h
    · cases h
    · cases h; rfl

theorem commitFromRecords_lexEnabled (m : Mem) (ft : Nat) (m' : Mem) (h : m.commitFromRecords ft = some m') :
    m'.lexEnabled = m.lexEnabled := by
  unfold Mem.commitFromRecords at h
  split at h
  · cases h
  · rename_i m1 δ h1
    cases h
    have e1 := applyRecords_lexEnabled m m.pending true m1 δ h1
    split
    · show (m1.rebuildIndexes δ.embs δ.inserted ft).lexEnabled = _
      rw [rebuildIndexes_lexEnabled, e1]
    · show (m1.flushTantivy ft).lexEnabled = _
      rw [(flushTantivy_keeps m1 ft).2.1, e1]

theorem commit_lexEnabled (m : Mem) (ft : Nat) : (m.commit ft).1.lexEnabled = m.lexEnabled := by
  unfold Mem.commit
  split
  · rfl
  · cases h : m.commitFromRecords ft with
    | none => rfl
    | some m' => exact commitFromRecords_lexEnabled m ft m' h

theorem setWalSize_lexEnabled (m : Mem) (ws : Nat) : (m.setWalSize ws).lexEnabled = m.lexEnabled := by
  unfold Mem.setWalSize; split <;> rfl

theorem afterAppend_lexEnabled (m : Mem) (t : Trace) : (m.afterAppend t).lexEnabled = m.lexEnabled := by
  unfold Mem.afterAppend Mem.autoCommit
  split
  · exact setWalSize_lexEnabled m t.ws
  · split
    · rw [commit_lexEnabled, setWalSize_lexEnabled]
    · exact setWalSize_lexEnabled m t.ws

theorem addCards_lexEnabled (m : Mem) (nc pseq : Nat) : (m.addCards nc pseq).lexEnabled = m.lexEnabled := by
  unfold Mem.addCards; split <;> rfl

theorem putTail_lexEnabled (m : Mem) (a : PutArgs) (sup reuse : Option Nat) (t : Trace) :
    (m.putTail a sup reuse t).1.lexEnabled = m.lexEnabled := by
  unfold Mem.putTail
  split
  · rfl
  · split
    · rfl
    · show (Mem.addCards _ _ _).lexEnabled = _
      rw [addCards_lexEnabled, afterAppend_lexEnabled]; rfl

theorem enableVec_lexEnabled (m : Mem) : m.enableVec.lexEnabled = m.lexEnabled := by
  unfold Mem.enableVec; split <;> rfl

theorem noteDim_lexEnabled (m : Mem) (d : Nat) : (m.noteDim d).lexEnabled = m.lexEnabled := by
  unfold Mem.noteDim; split <;> rfl

theorem putCore_lexEnabled (m : Mem) (a : PutArgs) (sup reuse : Option Nat) (t : Trace) :
    (m.putCore a sup reuse t).1.lexEnabled = m.lexEnabled := by
  unfold Mem.putCore
  split
  · rfl
  · split
    · split
      · rfl
      · split
        · exact enableVec_lexEnabled m
        · rw [putTail_lexEnabled, noteDim_lexEnabled, enableVec_lexEnabled]
    · exact putTail_lexEnabled m a sup reuse t

theorem loadVec_lexEnabled (m : Mem) : m.loadVec.lexEnabled = m.lexEnabled := by
  unfold Mem.loadVec; split <;> rfl

theorem update_lexEnabled (m : Mem) (id : Nat) (u : UpdArgs) (t : Trace) :
    (m.update id u t).1.lexEnabled = m.lexEnabled := by
  unfold Mem.update
  split
  · rfl
  · split
    · rfl
    · split
      · rfl
      · split
        · exact loadVec_lexEnabled m
        · rw [putCore_lexEnabled, loadVec_lexEnabled]

theorem delete_lexEnabled (m : Mem) (id : Nat) (t : Trace) : (m.delete id t).1.lexEnabled = m.lexEnabled := by
  unfold Mem.delete
  split
  · rfl
  · split
    · rfl
    · show (Mem.afterAppend _ t).lexEnabled = _
      rw [afterAppend_lexEnabled]

theorem dropHandle_lexEnabled (m : Mem) (ft : Nat) : (m.dropHandle ft).lexEnabled = m.lexEnabled := by
  unfold Mem.dropHandle; split
  · exact commit_lexEnabled m ft
  · rfl

theorem enableVecForEmbs_lexEnabled (m : Mem) (embs : List VecEnt) : (m.enableVecForEmbs embs).lexEnabled = m.lexEnabled := by
  unfold Mem.enableVecForEmbs; split <;> rfl

theorem recoverWal_lexEnabled (m : Mem) (ft : Nat) : (m.recoverWal ft).lexEnabled = m.lexEnabled := by
  unfold Mem.recoverWal
  split
  · exact (flushTantivy_keeps m ft).2.1
  · split
    · rfl
    · rename_i ma δ h1
      have e1 := applyRecords_lexEnabled m m.pending true ma δ h1
      show (if δ.nonEmpty = true then (ma.enableVecForEmbs δ.embs).rebuildIndexes δ.embs δ.inserted ft
        else (ma.enableVecForEmbs δ.embs).flushTantivy ft).lexEnabled = _
      split
      · rw [rebuildIndexes_lexEnabled, enableVecForEmbs_lexEnabled, e1]
      · rw [(flushTantivy_keeps _ ft).2.1, enableVecForEmbs_lexEnabled, e1]

theorem openFrom_lexEnabled (m : Mem) (ft : Nat) : (m.openFrom ft).lexEnabled = true := by
  unfold Mem.openFrom
  rw [recoverWal_lexEnabled]; rfl

theorem commitSkip_lexEnabled (m : Mem) : m.commitSkipIndexes.1.lexEnabled = m.lexEnabled := by
  unfold Mem.commitSkipIndexes
  split
  · rfl
  · split
    · rfl
    · rename_i m1 δ h1
      show (m1.foldEmbs δ.embs).lexEnabled = _
      rw [← applyRecords_lexEnabled m m.pending false m1 δ h1]
      unfold Mem.foldEmbs; split <;> rfl

theorem compactFramesV_lexEnabled (v : VacVariant) (m : Mem) : (m.compactFramesV v).lexEnabled = m.lexEnabled := by
  unfold Mem.compactFramesV; split <;> rfl

theorem vacuumV_lexEnabled (v : VacVariant) (m : Mem) (a b : Nat) : (m.vacuumV v a b).1.lexEnabled = m.lexEnabled := by
  unfold Mem.vacuumV
  split
  · have e : (((m.commit a).1.compactFramesV v).rebuildIndexes [] [] b).lexEnabled = m.lexEnabled := by
      rw [rebuildIndexes_lexEnabled, compactFramesV_lexEnabled, commit_lexEnabled]
    cases v.persistsSketch <;> cases v.checkpoints <;> exact e
  · exact commit_lexEnabled m a

theorem stepV_lexEnabled (v : VacVariant) (m : Mem) (op : Op) (h : m.lexEnabled = true) :
    (stepV v m op).1.lexEnabled = true := by
  cases op with
  | create => rfl
  | put a t => exact (putCore_lexEnabled m a none none t).trans h
  | update id u t => exact (update_lexEnabled m id u t).trans h
  | delete id t => exact (delete_lexEnabled m id t).trans h
  | commit ft => exact (commit_lexEnabled m ft).trans h
  | reopen a b => exact openFrom_lexEnabled _ b
  | crash ft => exact openFrom_lexEnabled _ ft
  | beginBatch d ws => exact (setWalSize_lexEnabled m ws).trans h
  | endBatch => exact h
  | commitSkipIndexes => exact (commitSkip_lexEnabled m).trans h
  | finalizeIndexes ft => exact (rebuildIndexes_lexEnabled m [] [] ft).trans h
  | vacuum a b => exact (vacuumV_lexEnabled v m a b).trans h
  | doctor vac rt rl rv a b c d =>
    show (m.doctorV v vac rt rl rv a b c d).1.lexEnabled = true
    unfold Mem.doctorV
    exact openFrom_lexEnabled _ d
  | ticket s c b f =>
    show (m.applyTicket s c b f).1.lexEnabled = true
    unfold Mem.applyTicket
    split
    · exact h
    · exact h

theorem runV_lexEnabled (v : VacVariant) (m : Mem) (ops : List Op) (h : m.lexEnabled = true) :
    (runV v m ops).lexEnabled = true := by
  induction ops generalizing m with
  | nil => exact h
  | cons op ops ih => exact ih _ (stepV_lexEnabled v m op h)

/-! ## G. commit leaves nothing pending; index contents only depend on what compaction keeps -/

theorem commitFromRecords_dirty (m : Mem) (ft : Nat) (m' : Mem) (h : m.commitFromRecords ft = some m') :
    m'.dirty = false := by
  unfold Mem.commitFromRecords at h
  split at h
  · cases h
  · cases h; rfl

theorem commit_settled (m : Mem) (ft : Nat) (hi : Inv m) :
    (m.commit ft).1.pending = [] ∧ (m.commit ft).1.pendingInserts = 0 ∧ (m.commit ft).1.dirty = false := by
  unfold Mem.commit
  split
  · rename_i h
    simp only [Bool.and_eq_true, Bool.not_eq_true', List.isEmpty_iff] at h
    refine ⟨h.1.1, ?_, h.1.2⟩
    rw [hi.pi, h.1.1]; rfl
  · obtain ⟨m', h, hc⟩ := commitFromRecords_clean m ft hi
    simp only [h]
    exact ⟨hc.pending, hc.pi, commitFromRecords_dirty m ft m' h⟩

theorem commit_quiet (m : Mem) (ft : Nat) (hi : Inv m) : Quiet (m.commit ft).1 := by
  obtain ⟨hp, hpi, _⟩ := commit_settled m ft hi
  exact ⟨(by rw [hp]; intro r hr; cases hr), hpi⟩

theorem isActive_view {a b : List Frame} (h : a.map view = b.map view) (id : Nat) : isActive a id = isActive b id := by
  have hm := congrArg (fun l => l[id]?) h
  simp only [List.getElem?_map] at hm
  unfold isActive
  cases ha : a[id]? <;> cases hb : b[id]? <;> rw [ha, hb] at hm <;> simp at hm
  simp only [view_status hm]

/-- the time index as a function of the reference table: active documents in `(ts, id)` order -/
def specTime (S : Spec) : List (Int × Nat) :=
  sortBy timeLe ((S.filter (fun f => f.status == .active && f.role == .document)).map (fun f => (f.ts, f.id)))

theorem timeEntries_eq_specTime (fs : List Frame) : timeEntries fs = specTime (fs.map view) := by
  unfold timeEntries specTime
  rw [List.filter_map, List.map_map]
  rfl

theorem fullLexRebuild_map (g : Frame → Frame)
    (hg : ∀ c, (g c).status = c.status ∧ (g c).idx = c.idx ∧ (g c).id = c.id) (l : List Frame) :
    fullLexRebuild (l.map g) = fullLexRebuild l := by
  unfold fullLexRebuild
  rw [List.filter_map, List.map_map]
  have e1 : ((fun f : Frame => f.status == Status.active && f.idx) ∘ g) = (fun f => f.status == Status.active && f.idx) := by
    funext c; simp only [Function.comp, (hg c).1, (hg c).2.1]
  have e2 : ((fun x : Frame => x.id) ∘ g) = (fun x => x.id) := by
    funext c; simp only [Function.comp, (hg c).2.2]
  rw [e1, e2]

theorem fullLexRebuild_compact (fs : List Frame) (c : Nat) : fullLexRebuild (compact fs c).1 = fullLexRebuild fs := by
  have h1 := fullLexRebuild_map Frame.eo (fun _ => ⟨rfl, rfl, rfl⟩) (compact fs c).1
  have h2 := fullLexRebuild_map Frame.hc (fun x => by unfold Frame.hc; split <;> exact ⟨rfl, rfl, rfl⟩) fs
  rw [← h1, compact_map_eo, h2]

/-! ## H. `vacuum` (every variant) as a step of the refinement -/

theorem compactFramesV_skel (v : VacVariant) (m : Mem) : SkelLex (m.compactFramesV v) m := by
  unfold Mem.compactFramesV
  split
  · exact compactFrames_skel m
  · exact ⟨view_compact m.frames 0, rfl, [], by simp [OnlyLex], by simp [Mem.compactFrames]⟩

/-- the handle right after the rebuild at the end of `vacuum` -/
def Mem.vacRebuilt (v : VacVariant) (m : Mem) (a b : Nat) : Mem :=
  ((m.commit a).1.compactFramesV v).rebuildIndexes [] [] b

theorem vacuumV_eq (v : VacVariant) (m : Mem) (a b : Nat) (hi : Inv m) :
    m.vacuumV v a b =
      ((if v.checkpoints then (if v.persistsSketch then (m.vacRebuilt v a b).persistSketch.bumpFooter b else m.vacRebuilt v a b).checkpoint
        else (if v.persistsSketch then (m.vacRebuilt v a b).persistSketch.bumpFooter b else m.vacRebuilt v a b)), Out.ok) := by
  unfold Mem.vacuumV
  rw [commit_ok m a hi]
  rfl

/-- with every switch on, the variant IS the Core model's (repaired) function -/
theorem vacuumV_repaired (m : Mem) (a b : Nat) : m.vacuumV .repaired a b = m.vacuum a b := rfl

theorem stepV_repaired (m : Mem) (op : Op) : stepV .repaired m op = step m op := by
  cases op <;> rfl

theorem runV_repaired (m : Mem) (ops : List Op) : runV .repaired m ops = run m ops := by
  induction ops generalizing m with
  | nil => rfl
  | cons op ops ih => show runV .repaired (stepV .repaired m op).1 ops = run (step m op).1 ops; rw [stepV_repaired, ih]

theorem traceV_repaired (m : Mem) (ops : List Op) : traceV .repaired m ops = trace m ops := by
  induction ops generalizing m with
  | nil => rfl
  | cons op ops ih =>
    show (op, (stepV .repaired m op).2) :: traceV .repaired (stepV .repaired m op).1 ops = (op, (step m op).2) :: trace (step m op).1 ops
    rw [stepV_repaired, ih]

theorem vacRebuilt_skel (v : VacVariant) (m : Mem) (a b : Nat) : SkelLex (m.vacRebuilt v a b) (m.commit a).1 :=
  SkelLex.trans (rebuildIndexes_skel _ [] [] b) (compactFramesV_skel v _)

/-- after `vacuum` only `Lex` records can be pending (none in the repaired code) and the committed table is
    the reference table -/
theorem vacuumV_sim (v : VacVariant) (m : Mem) (a b : Nat) (hi : Inv m) :
    Quiet (m.vacuumV v a b).1 ∧ (m.vacuumV v a b).1.frames.map view = abs m ∧ (m.vacuumV v a b).2 = Out.ok := by
  rw [vacuumV_eq v m a b hi]
  have hs := vacRebuilt_skel v m a b
  have hq : Quiet (m.vacRebuilt v a b) := Quiet.of_skel hs (commit_quiet m a hi)
  have hf : (m.vacRebuilt v a b).frames.map view = abs m := hs.frames.trans (commit_frames m a hi)
  refine ⟨?_, ?_, rfl⟩
  · cases v.checkpoints <;> cases v.persistsSketch
    · exact hq
    · exact ⟨hq.lex, hq.pi⟩
    · exact ⟨(by intro r hr; cases hr), rfl⟩
    · exact ⟨(by intro r hr; cases hr), rfl⟩
  · cases v.checkpoints <;> cases v.persistsSketch <;> exact hf

theorem vacuumV_abs (v : VacVariant) (m : Mem) (a b : Nat) (hi : Inv m) : abs (m.vacuumV v a b).1 = abs m := by
  obtain ⟨hq, hf, _⟩ := vacuumV_sim v m a b hi
  rw [hq.abs_eq, hf]

theorem doctorV_sim (v : VacVariant) (m : Mem) (vac rt rl rv : Bool) (a b c d : Nat) (hi : Inv m) :
    Quiet (m.doctorV v vac rt rl rv a b c d).1 ∧ abs (m.doctorV v vac rt rl rv a b c d).1 = abs m := by
  have hd := dropHandle_inv m a hi
  unfold Mem.doctorV
  obtain ⟨hq0, hf0⟩ := openFrom_spec (m.dropHandle a) b hd.ok
  have ha0 : abs ((m.dropHandle a).openFrom b) = abs m := by
    rw [openFrom_abs _ b hd, dropHandle_abs m a hi]
  have h1 : Quiet (m.doctorStage1V v vac a b c) ∧ abs (m.doctorStage1V v vac a b c) = abs m := by
    unfold Mem.doctorStage1V
    split
    · exact ⟨(vacuumV_sim v _ b c hq0.inv).1, (vacuumV_abs v _ b c hq0.inv).trans ha0⟩
    · exact ⟨hq0, ha0⟩
  have h2 : Quiet ((m.doctorStage1V v vac a b c).doctorStage2 (rt || rl || rv) rv c) ∧
      abs ((m.doctorStage1V v vac a b c).doctorStage2 (rt || rl || rv) rv c) = abs m := by
    unfold Mem.doctorStage2
    split
    · obtain ⟨q, e⟩ := doctorRebuild_quiet _ rv c h1.1
      exact ⟨q, e.trans h1.2⟩
    · exact h1
  obtain ⟨hqr, har⟩ := resetWal_quiet _ h2.1
  have hd2 := dropHandle_inv _ c hqr.inv
  obtain ⟨hq3, hf3⟩ := openFrom_spec _ d hd2.ok
  refine ⟨hq3, ?_⟩
  show abs (((((m.doctorStage1V v vac a b c).doctorStage2 (rt || rl || rv) rv c).resetWal).dropHandle c).openFrom d) = _
  rw [openFrom_abs _ d hd2, dropHandle_abs _ c hqr.inv, har, h2.2]

/-- ONE STEP with the variant's vacuum: the invariant is preserved and the abstract state moves exactly as
    the reference says — `vacuum` and `doctor` change nothing -/
theorem core_stepV (v : VacVariant) (m : Mem) (op : Op) (hi : Inv m) :
    Inv (stepV v m op).1 ∧
    abs (stepV v m op).1 = (if (stepV v m op).2.isAck then specStep (abs m) op else abs m) := by
  cases op with
  | vacuum a b =>
    obtain ⟨hq, _, _⟩ := vacuumV_sim v m a b hi
    exact ⟨hq.inv, by simp only [stepV, specStep, vacuumV_abs v m a b hi]; exact (ite_same' _ _).symm⟩
  | doctor vac rt rl rv a b c d =>
    obtain ⟨hq, ha⟩ := doctorV_sim v m vac rt rl rv a b c d hi
    exact ⟨hq.inv, by simp only [stepV, specStep, ha]; exact (ite_same' _ _).symm⟩
  | create => exact core_step m .create hi
  | put a t => exact core_step m (.put a t) hi
  | update id u t => exact core_step m (.update id u t) hi
  | delete id t => exact core_step m (.delete id t) hi
  | commit ft => exact core_step m (.commit ft) hi
  | reopen a b => exact core_step m (.reopen a b) hi
  | crash ft => exact core_step m (.crash ft) hi
  | beginBatch d ws => exact core_step m (.beginBatch d ws) hi
  | endBatch => exact core_step m .endBatch hi
  | commitSkipIndexes => exact core_step m .commitSkipIndexes hi
  | finalizeIndexes ft => exact core_step m (.finalizeIndexes ft) hi
  | ticket s c b f => exact core_step m (.ticket s c b f) hi

theorem runV_refines (v : VacVariant) (m : Mem) (ops : List Op) (hi : Inv m) :
    Inv (runV v m ops) ∧ abs (runV v m ops) = specRun (abs m) (traceV v m ops) := by
  induction ops generalizing m with
  | nil => exact ⟨hi, rfl⟩
  | cons op ops ih =>
    obtain ⟨h1, h2⟩ := core_stepV v m op hi
    obtain ⟨h3, h4⟩ := ih (stepV v m op).1 h1
    refine ⟨h3, ?_⟩
    show abs (runV v (stepV v m op).1 ops) = specRun (if (stepV v m op).2.isAck then specStep (abs m) op else abs m) (traceV v (stepV v m op).1 ops)
    rw [h4, h2]

end Mv.Core
