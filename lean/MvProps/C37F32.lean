/-
  C37 — the normalisation clause for IEEE binary32 itself.
  `roundMag_mono`: the one rounding function of the software binary32 (MvModel/AdaptiveF32.lean) is
  monotone; from it, `f32Laws`: binary32 satisfies every law `C37_norm` assumes of the arithmetic;
  hence `C37_norm_f32`.
-/
import MvModel.Adaptive
import MvModel.AdaptiveLaws
import MvModel.AdaptiveF32
import MvProps.C37Lemmas
import MvProps.C37
namespace Mv.F32

/-! ## rounding is monotone -/

theorem bitLen_lt (m : Nat) : m < 2 ^ bitLen m := by
  unfold bitLen; split
  · rename_i h; subst h; decide
  · exact Nat.lt_log2_self

theorem bitLen_le {m : Nat} (h : m ≠ 0) : 2 ^ (bitLen m - 1) ≤ m := by
  unfold bitLen; rw [if_neg h]; exact Nat.log2_self_le h

theorem bitLen_mono {a b : Nat} (h : a ≤ b) : bitLen a ≤ bitLen b := by
  by_cases ha : a = 0
  · subst ha; simp [bitLen]
  · apply Nat.le_of_not_lt
    intro hlt
    have h1 := bitLen_lt b
    have h2 := bitLen_le ha
    have h3 : 2 ^ bitLen b ≤ 2 ^ (bitLen a - 1) := Nat.pow_le_pow_right (by decide) (by omega)
    omega

theorem floor_mono {N1 D1 N2 D2 : Nat} (hD1 : 0 < D1) (hD2 : 0 < D2) (h : N1 * D2 ≤ N2 * D1) :
    N1 / D1 ≤ N2 / D2 := by
  rw [Nat.le_div_iff_mul_le hD2]
  have h1 : N1 / D1 * D1 ≤ N1 := Nat.div_mul_le_self _ _
  have h2 : N1 / D1 * D1 * D2 ≤ N2 * D1 := Nat.le_trans (Nat.mul_le_mul_right _ h1) h
  have h3 : D1 * (N1 / D1 * D2) ≤ D1 * N2 := by
    calc D1 * (N1 / D1 * D2) = N1 / D1 * D1 * D2 := by rw [Nat.mul_comm D1, Nat.mul_assoc, Nat.mul_comm D2, ← Nat.mul_assoc]
      _ ≤ N2 * D1 := h2
      _ = D1 * N2 := Nat.mul_comm _ _
  exact Nat.le_of_mul_le_mul_left h3 hD1

/-- the round-up decision -/
def upBit (N T : Nat) : Bool := decide (2 * (N % T) > T) || (2 * (N % T) == T && (N / T) % 2 == 1)

/-- quotient rounded to nearest-even -/
def rq (N T : Nat) : Nat := if upBit N T then N / T + 1 else N / T

theorem roundMag_eq (N D : Nat) : roundMag N D = rq N (D * 2 ^ shiftOf (N / D)) * 2 ^ shiftOf (N / D) := rfl

theorem rq_ge (N T : Nat) : N / T ≤ rq N T := by unfold rq; split <;> omega
theorem rq_le (N T : Nat) : rq N T ≤ N / T + 1 := by unfold rq; split <;> omega

theorem rq_mono {N1 T1 N2 T2 : Nat} (hT1 : 0 < T1) (hT2 : 0 < T2) (h : N1 * T2 ≤ N2 * T1) :
    rq N1 T1 ≤ rq N2 T2 := by
  have hq := floor_mono hT1 hT2 h
  by_cases hlt : N1 / T1 < N2 / T2
  · have := rq_le N1 T1; have := rq_ge N2 T2; omega
  · have heq : N1 / T1 = N2 / T2 := by omega
    -- same quotient: the remainders are ordered as fractions
    have e1 := Nat.div_add_mod N1 T1
    have e2 := Nat.div_add_mod N2 T2
    have hr : (N1 % T1) * T2 ≤ (N2 % T2) * T1 := by
      have : (T1 * (N1 / T1) + N1 % T1) * T2 ≤ (T2 * (N2 / T2) + N2 % T2) * T1 := by rw [e1, e2]; exact h
      rw [heq, Nat.add_mul, Nat.add_mul] at this
      have e : T1 * (N2 / T2) * T2 = T2 * (N2 / T2) * T1 := by
        rw [Nat.mul_comm T1, Nat.mul_assoc, Nat.mul_comm T1 T2, ← Nat.mul_assoc, Nat.mul_comm (N2 / T2)]
      omega
    unfold rq
    by_cases hu : upBit N1 T1 = true
    · have hu2 : upBit N2 T2 = true := by
        unfold upBit at hu ⊢
        simp only [Bool.or_eq_true, decide_eq_true_eq, Bool.and_eq_true, beq_iff_eq] at hu ⊢
        rw [← heq]
        -- 2 * r1 * T2 ≤ 2 * r2 * T1
        have hr2 : 2 * (N1 % T1) * T2 ≤ 2 * (N2 % T2) * T1 := by
          rw [Nat.mul_assoc, Nat.mul_assoc]; exact Nat.mul_le_mul_left 2 hr
        rcases hu with hgt | ⟨he, hodd⟩
        · left
          have : T1 * T2 < 2 * (N1 % T1) * T2 := Nat.mul_lt_mul_of_pos_right hgt hT2
          have h3 : T1 * T2 < T1 * (2 * (N2 % T2)) := by
            calc T1 * T2 < 2 * (N1 % T1) * T2 := this
              _ ≤ 2 * (N2 % T2) * T1 := hr2
              _ = T1 * (2 * (N2 % T2)) := Nat.mul_comm _ _
          exact Nat.lt_of_mul_lt_mul_left h3
        · have h3 : T1 * T2 ≤ T1 * (2 * (N2 % T2)) := by
            calc T1 * T2 = 2 * (N1 % T1) * T2 := by rw [he]
              _ ≤ 2 * (N2 % T2) * T1 := hr2
              _ = T1 * (2 * (N2 % T2)) := Nat.mul_comm _ _
          have h4 : T2 ≤ 2 * (N2 % T2) := Nat.le_of_mul_le_mul_left h3 hT1
          by_cases h5 : T2 < 2 * (N2 % T2)
          · left; exact h5
          · right; exact ⟨by omega, hodd⟩
      rw [if_pos hu, if_pos hu2]; omega
    · rw [if_neg hu]; split <;> omega

theorem roundMag_mono {N1 D1 N2 D2 : Nat} (hD1 : 0 < D1) (hD2 : 0 < D2) (h : N1 * D2 ≤ N2 * D1) :
    roundMag N1 D1 ≤ roundMag N2 D2 := by
  rw [roundMag_eq, roundMag_eq]
  have ha := floor_mono hD1 hD2 h
  have hb := bitLen_mono ha
  generalize hs1 : shiftOf (N1 / D1) = sh1
  generalize hs2 : shiftOf (N2 / D2) = sh2
  have hsh : sh1 ≤ sh2 := by rw [← hs1, ← hs2]; unfold shiftOf; omega
  have p1 := Nat.two_pow_pos sh1
  have p2 := Nat.two_pow_pos sh2
  by_cases hsame : sh1 = sh2
  · subst hsame
    apply Nat.mul_le_mul_right
    apply rq_mono (Nat.mul_pos hD1 p1) (Nat.mul_pos hD2 p1)
    calc N1 * (D2 * 2 ^ sh1) = N1 * D2 * 2 ^ sh1 := by rw [Nat.mul_assoc]
      _ ≤ N2 * D1 * 2 ^ sh1 := Nat.mul_le_mul_right _ h
      _ = N2 * (D1 * 2 ^ sh1) := by rw [Nat.mul_assoc]
  · have hlt : sh1 < sh2 := by omega
    -- left side is at most 2^(24+sh1)
    have hq1 : N1 / (D1 * 2 ^ sh1) < 2 ^ P := by
      rw [← Nat.div_div_eq_div_mul, Nat.div_lt_iff_lt_mul p1, ← Nat.pow_add]
      have := bitLen_lt (N1 / D1)
      have hle : bitLen (N1 / D1) ≤ P + sh1 := by rw [← hs1]; unfold shiftOf; omega
      exact Nat.lt_of_lt_of_le this (Nat.pow_le_pow_right (by decide) hle)
    have hl : rq N1 (D1 * 2 ^ sh1) * 2 ^ sh1 ≤ 2 ^ (P + sh1) := by
      rw [Nat.pow_add]
      apply Nat.mul_le_mul_right
      have := rq_le N1 (D1 * 2 ^ sh1); omega
    -- right side is at least 2^(23+sh2)
    have hnb2 : bitLen (N2 / D2) = P + sh2 := by
      have : shiftOf (N2 / D2) = sh2 := hs2
      unfold shiftOf at this; omega
    have hne : N2 / D2 ≠ 0 := by
      intro h0; rw [h0] at hnb2; simp [bitLen, P] at hnb2; omega
    have hq2 : 2 ^ (P - 1) ≤ N2 / (D2 * 2 ^ sh2) := by
      rw [← Nat.div_div_eq_div_mul, Nat.le_div_iff_mul_le p2, ← Nat.pow_add]
      have := bitLen_le hne
      rw [hnb2] at this
      have e : P - 1 + sh2 = P + sh2 - 1 := by simp [P]
      rw [e]; exact this
    have hr : 2 ^ (P - 1 + sh2) ≤ rq N2 (D2 * 2 ^ sh2) * 2 ^ sh2 := by
      rw [Nat.pow_add]
      apply Nat.mul_le_mul_right
      exact Nat.le_trans hq2 (rq_ge _ _)
    have hmid : 2 ^ (P + sh1) ≤ 2 ^ (P - 1 + sh2) := Nat.pow_le_pow_right (by decide) (by simp [P]; omega)
    exact Nat.le_trans hl (Nat.le_trans hmid hr)

theorem roundMag_zero (D : Nat) (hD : 0 < D) : roundMag 0 D = 0 := by
  rw [roundMag_eq]
  simp only [Nat.zero_div]
  have : shiftOf 0 = 0 := by decide
  rw [this]
  simp only [Nat.pow_zero, Nat.mul_one]
  unfold rq upBit
  simp only [Nat.zero_mod, Nat.zero_div, Nat.mul_zero]
  have : ¬ (0 > D) := by omega
  have h2 : (0 == D) = false := by simp; omega
  simp [this, h2]

/-- rounding depends on the rational only -/
theorem roundMag_congr {N1 D1 N2 D2 : Nat} (hD1 : 0 < D1) (hD2 : 0 < D2) (h : N1 * D2 = N2 * D1) :
    roundMag N1 D1 = roundMag N2 D2 :=
  Nat.le_antisymm (roundMag_mono hD1 hD2 (Nat.le_of_eq h)) (roundMag_mono hD2 hD1 (Nat.le_of_eq h.symm))

theorem roundMag_one : roundMag (2 ^ UNIT) 1 = 2 ^ UNIT := by decide
theorem one_lt_ovf : 2 ^ UNIT < OVF := by decide

/-! ## signed rounding: addition and subtraction -/

/-- the exact signed sum `v` units rounded; `z` is the sign given to an exact zero -/
def sr (z : Bool) (v : Int) : F :=
  if v == 0 then .fin z 0 else roundQ (decide (v < 0)) v.natAbs 1

theorem add_fin (sa : Bool) (ka : Nat) (sb : Bool) (kb : Nat) :
    add (.fin sa ka) (.fin sb kb) = sr (sa && sb) (key sa ka + key sb kb) := rfl

theorem key_neg (s : Bool) (k : Nat) : key (!s) k = - key s k := by
  cases s <;> simp [key]

theorem sub_fin (sa : Bool) (ka : Nat) (sb : Bool) (kb : Nat) :
    sub (.fin sa ka) (.fin sb kb) = sr (sa && !sb) (key sa ka - key sb kb) := by
  unfold sub neg; rw [add_fin, key_neg]; rfl

/-- shape of a rounded value -/
theorem roundQ_cases (s : Bool) (N D : Nat) :
    (roundQ s N D = .inf s ∧ OVF ≤ roundMag N D) ∨ (roundQ s N D = .fin s (roundMag N D) ∧ roundMag N D < OVF) := by
  unfold roundQ
  by_cases h : roundMag N D ≥ OVF
  · left; simp [h]
  · right; simp [h]; omega

theorem lt_fin (sa : Bool) (ka : Nat) (sb : Bool) (kb : Nat) :
    lt (.fin sa ka) (.fin sb kb) = decide (key sa ka < key sb kb) := rfl

/-- signed rounding is monotone (as observed by `lt`) -/
theorem sr_mono (z1 z2 : Bool) {v1 v2 : Int} (h : v1 ≤ v2) : lt (sr z2 v2) (sr z1 v1) = false := by
  unfold sr
  by_cases h1 : v1 = 0
  · subst h1
    by_cases h2 : v2 = 0
    · subst h2; simp [lt_fin, key]
    · have hpos : ¬ (v2 < 0) := by omega
      simp only [beq_self_eq_true, if_true, beq_iff_eq, h2, if_false, hpos, decide_false]
      rcases roundQ_cases false v2.natAbs 1 with ⟨e, _⟩ | ⟨e, _⟩ <;> rw [e]
      · rfl
      · simp only [lt_fin, key]; cases z1 <;> simp <;> omega
  · by_cases h2 : v2 = 0
    · subst h2
      have hneg : v1 < 0 := by omega
      simp only [beq_self_eq_true, if_true, beq_iff_eq, h1, if_false, hneg, decide_true]
      rcases roundQ_cases true v1.natAbs 1 with ⟨e, _⟩ | ⟨e, _⟩ <;> rw [e]
      · rfl
      · simp only [lt_fin, key]; cases z2 <;> simp <;> omega
    · simp only [beq_iff_eq, h1, h2, if_false]
      by_cases n1 : v1 < 0
      · by_cases n2 : v2 < 0
        · -- both negative: magnitudes are reversed
          have hm : roundMag v2.natAbs 1 ≤ roundMag v1.natAbs 1 :=
            roundMag_mono (by decide) (by decide) (by omega)
          simp only [n1, n2, decide_true]
          rcases roundQ_cases true v1.natAbs 1 with ⟨e1, b1⟩ | ⟨e1, b1⟩ <;>
            rcases roundQ_cases true v2.natAbs 1 with ⟨e2, b2⟩ | ⟨e2, b2⟩ <;> rw [e1, e2]
          · rfl
          · rfl
          · omega
          · simp only [lt_fin, key]; simp <;> omega
        · simp only [n1, n2, decide_true, decide_false]
          rcases roundQ_cases true v1.natAbs 1 with ⟨e1, b1⟩ | ⟨e1, b1⟩ <;>
            rcases roundQ_cases false v2.natAbs 1 with ⟨e2, b2⟩ | ⟨e2, b2⟩ <;> rw [e1, e2]
          · rfl
          · rfl
          · rfl
          · simp only [lt_fin, key]; simp <;> omega
      · have n2 : ¬ v2 < 0 := by omega
        have hm : roundMag v1.natAbs 1 ≤ roundMag v2.natAbs 1 :=
          roundMag_mono (by decide) (by decide) (by omega)
        simp only [n1, n2, decide_false]
        rcases roundQ_cases false v1.natAbs 1 with ⟨e1, b1⟩ | ⟨e1, b1⟩ <;>
          rcases roundQ_cases false v2.natAbs 1 with ⟨e2, b2⟩ | ⟨e2, b2⟩ <;> rw [e1, e2]
        · rfl
        · omega
        · rfl
        · simp only [lt_fin, key]; simp <;> omega

/-! ## binary32 satisfies the laws -/

open Mv.Adaptive

/-- the regular values: finite ones -/
def Fin (a : F) : Prop := isFinite a = true

theorem fin_cases {a : F} (h : Fin a) : ∃ s k, a = .fin s k := by
  cases a with
  | nan => cases h
  | inf s => cases h
  | fin s k => exact ⟨s, k, rfl⟩

theorem ext_cases {a : F} (h : Ext f32Ops Fin a) : (∃ s k, a = .fin s k) ∨ a = .inf true ∨ a = .inf false := by
  rcases h with h | h | h
  · exact Or.inl (fin_cases h)
  · exact Or.inr (Or.inl h)
  · exact Or.inr (Or.inr h)

theorem f32_zero : f32Ops.zero = .fin false 0 := by decide
theorem f32_one : f32Ops.one = .fin false (2 ^ UNIT) := by decide

theorem key_false (k : Nat) : key false k = (k : Int) := rfl
theorem key_true (k : Nat) : key true k = -(k : Int) := rfl

theorem lt_asymm (a b : F) (h : lt a b = true) : lt b a = false := by
  cases a with
  | nan => simp [lt] at h
  | inf x => cases b with
    | nan => simp [lt] at h
    | inf y => cases x <;> cases y <;> simp_all [lt]
    | fin s k => simp_all [lt]
  | fin s k => cases b with
    | nan => simp [lt] at h
    | inf y => simp_all [lt]
    | fin s' k' =>
      rw [lt_fin] at h ⊢
      simp only [decide_eq_true_eq, decide_eq_false_iff_not] at *; omega

theorem f32_le_trans (a b c : F) (ha : Ext f32Ops Fin a) (hb : Ext f32Ops Fin b) (hc : Ext f32Ops Fin c)
    (h1 : f32Ops.le a b) (h2 : f32Ops.le b c) : f32Ops.le a c := by
  unfold Ops.le at *
  change lt b a = false at h1
  change lt c b = false at h2
  change lt c a = false
  rcases ext_cases ha with ⟨sa, ka, rfl⟩ | rfl | rfl <;>
    rcases ext_cases hb with ⟨sb, kb, rfl⟩ | rfl | rfl <;>
      rcases ext_cases hc with ⟨sc, kc, rfl⟩ | rfl | rfl <;> simp_all [lt]
  omega

theorem f32_eps_pos : f32Ops.lt f32Ops.zero f32Ops.eps = true := by decide

theorem f32_zero_le_one : f32Ops.le f32Ops.zero f32Ops.one := by show f32Ops.lt f32Ops.one f32Ops.zero = false; decide

theorem f32_sub_mono : ∀ a b m, Fin a → Fin b → Fin m → f32Ops.le a b → f32Ops.le (f32Ops.sub a m) (f32Ops.sub b m) := by
    intro a b m ha hb hm h
    obtain ⟨sa, ka, rfl⟩ := fin_cases ha
    obtain ⟨sb, kb, rfl⟩ := fin_cases hb
    obtain ⟨sm, km, rfl⟩ := fin_cases hm
    unfold Ops.le at *
    change lt (.fin sb kb) (.fin sa ka) = false at h
    change lt (sub (.fin sb kb) (.fin sm km)) (sub (.fin sa ka) (.fin sm km)) = false
    rw [sub_fin, sub_fin]
    apply sr_mono
    rw [lt_fin] at h
    simp only [decide_eq_false_iff_not] at h
    omega

theorem f32_sub_self : ∀ m, Fin m → f32Ops.eqv (f32Ops.sub m m) f32Ops.zero := by
    intro m hm
    obtain ⟨s, k, rfl⟩ := fin_cases hm
    unfold Ops.eqv Ops.le
    rw [f32_zero]
    change lt (.fin false 0) (sub (.fin s k) (.fin s k)) = false ∧ lt (sub (.fin s k) (.fin s k)) (.fin false 0) = false
    rw [sub_fin]
    have : key s k - key s k = 0 := by omega
    rw [this]
    simp [sr, lt_fin, key]

theorem lt_fin_le (s : Bool) (U k : Nat) (h : k ≤ U) : lt (.fin false U) (.fin s k) = false := by
  rw [lt_fin, decide_eq_false_iff_not]; cases s <;> simp only [key_false, key_true] <;> omega

theorem lt_zero_false (s : Bool) (k : Nat) (h : s = true → k = 0) : lt (.fin s k) (.fin false 0) = false := by
  rw [lt_fin, decide_eq_false_iff_not]
  cases s
  · simp only [key_false]; omega
  · rw [h rfl]; decide

theorem f32_div_unit : ∀ a r, Fin a → Fin r → f32Ops.lt f32Ops.zero r = true → f32Ops.le f32Ops.zero a → f32Ops.le a r → f32Ops.isNaN (f32Ops.div a r) = false ∧ f32Ops.le f32Ops.zero (f32Ops.div a r) ∧ f32Ops.le (f32Ops.div a r) f32Ops.one := by
    intro a r ha hr hpos h0 h1
    obtain ⟨sa, ka, rfl⟩ := fin_cases ha
    obtain ⟨sr', kr, rfl⟩ := fin_cases hr
    unfold Ops.le at *
    rw [f32_zero] at hpos h0 ⊢
    rw [f32_one]
    change lt (.fin false 0) (.fin sr' kr) = true at hpos
    change lt (.fin sa ka) (.fin false 0) = false at h0
    change lt (.fin sr' kr) (.fin sa ka) = false at h1
    change isNaN (div (.fin sa ka) (.fin sr' kr)) = false ∧ lt (div (.fin sa ka) (.fin sr' kr)) (.fin false 0) = false ∧
      lt (.fin false (2 ^ UNIT)) (div (.fin sa ka) (.fin sr' kr)) = false
    rw [lt_fin] at hpos h0 h1
    simp only [decide_eq_true_eq, decide_eq_false_iff_not] at hpos h0 h1
    have hs : sr' = false := by
      cases sr'
      · rfl
      · simp only [key_false, key_true] at hpos; omega
    subst hs
    simp only [key_false] at hpos
    have hk : 0 < kr := by omega
    have hkb : (kr == 0) = false := by simp; omega
    have hdiv : div (.fin sa ka) (.fin false kr) = roundQ (sa != false) (ka * 2 ^ UNIT) kr := by
      simp [div, hkb]
    rw [hdiv]
    have hka : sa = true → ka = 0 := by
      intro h; subst h; simp only [key_false, key_true] at h0; omega
    have hcross : ka * 2 ^ UNIT * 1 ≤ 2 ^ UNIT * kr := by
      cases sa
      · have : ka ≤ kr := by simp only [key_false] at h1; omega
        rw [Nat.mul_one, Nat.mul_comm]; exact Nat.mul_le_mul_left _ this
      · rw [hka rfl]; simp
    have hmag : roundMag (ka * 2 ^ UNIT) kr ≤ 2 ^ UNIT :=
      Nat.le_trans (roundMag_mono hk (by decide) hcross) (Nat.le_of_eq roundMag_one)
    have hlt := one_lt_ovf
    rcases roundQ_cases (sa != false) (ka * 2 ^ UNIT) kr with ⟨_, b⟩ | ⟨e, _⟩
    · exact absurd (Nat.lt_of_le_of_lt (Nat.le_trans b hmag) hlt) (Nat.lt_irrefl _)
    · rw [e]
      refine ⟨rfl, lt_zero_false _ _ ?_, lt_fin_le _ _ _ hmag⟩
      intro hs
      have hsa : sa = true := by cases sa <;> simp_all
      rw [hka hsa, Nat.zero_mul, roundMag_zero _ hk]

theorem f32_div_eqv_self : ∀ a r, Fin a → Fin r → f32Ops.lt f32Ops.zero r = true → f32Ops.eqv a r → f32Ops.eqv (f32Ops.div a r) f32Ops.one := by
    intro a r ha hr hpos he
    obtain ⟨sa, ka, rfl⟩ := fin_cases ha
    obtain ⟨sr', kr, rfl⟩ := fin_cases hr
    unfold Ops.eqv Ops.le at *
    rw [f32_zero] at hpos
    rw [f32_one]
    change lt (.fin false 0) (.fin sr' kr) = true at hpos
    change lt (.fin sr' kr) (.fin sa ka) = false ∧ lt (.fin sa ka) (.fin sr' kr) = false at he
    change lt (.fin false (2 ^ UNIT)) (div (.fin sa ka) (.fin sr' kr)) = false ∧
      lt (div (.fin sa ka) (.fin sr' kr)) (.fin false (2 ^ UNIT)) = false
    rw [lt_fin] at hpos
    rw [lt_fin, lt_fin] at he
    simp only [decide_eq_true_eq, decide_eq_false_iff_not] at hpos he
    have hs : sr' = false := by
      cases sr'
      · rfl
      · simp only [key_false, key_true] at hpos; omega
    subst hs
    simp only [key_false] at hpos he
    have hk : 0 < kr := by omega
    have hsa : sa = false ∧ ka = kr := by
      cases sa
      · simp only [key_false] at he; exact ⟨rfl, by omega⟩
      · simp only [key_true] at he; omega
    obtain ⟨rfl, rfl⟩ := hsa
    have hkb : (ka == 0) = false := by simp; omega
    have hdiv : div (.fin false ka) (.fin false ka) = roundQ false (ka * 2 ^ UNIT) ka := by
      simp [div, hkb]
    rw [hdiv]
    have hm : roundMag (ka * 2 ^ UNIT) ka = 2 ^ UNIT :=
      (roundMag_congr (N1 := ka * 2 ^ UNIT) (D1 := ka) (N2 := 2 ^ UNIT) (D2 := 1) hk (by decide)
        (by rw [Nat.mul_one, Nat.mul_comm])).trans roundMag_one
    have : roundQ false (ka * 2 ^ UNIT) ka = .fin false (2 ^ UNIT) := by
      unfold roundQ; rw [hm]
      have := one_lt_ovf
      simp; omega
    rw [this, lt_fin]
    simp


/-- **f32Laws** — IEEE binary32 (the software model the driver runs, bit-compared with the hardware
    by the harness) satisfies every law `C37_norm` assumes, the regular values being the finite ones. -/
theorem f32Laws : Laws f32Ops Fin where
  not_nan := by intro a h; obtain ⟨s, k, rfl⟩ := fin_cases h; rfl
  inf_not_nan := ⟨rfl, rfl⟩
  asymm := lt_asymm
  le_trans := f32_le_trans
  below := by intro a h; obtain ⟨s, k, rfl⟩ := fin_cases h; rfl
  above := by intro a h; obtain ⟨s, k, rfl⟩ := fin_cases h; rfl
  R_zero := by rw [f32_zero]; rfl
  R_one := by rw [f32_one]; rfl
  R_eps := rfl
  eps_pos := f32_eps_pos
  zero_le_one := f32_zero_le_one
  sub_mono := f32_sub_mono
  sub_self := f32_sub_self
  div_unit := f32_div_unit
  div_eqv_self := f32_div_eqv_self

/-! ## the normalisation clause for binary32 -/

theorem sr_fin_of_le (z1 z2 : Bool) {v V : Int} (h : v.natAbs ≤ V.natAbs) (hV : Fin (sr z2 V)) : Fin (sr z1 v) := by
  unfold sr at *
  by_cases hv : v = 0
  · subst hv; rfl
  · have hV0 : V ≠ 0 := by omega
    simp only [beq_iff_eq, hv, hV0, if_false] at hV ⊢
    have hm : roundMag v.natAbs 1 ≤ roundMag V.natAbs 1 := roundMag_mono (by decide) (by decide) (by omega)
    rcases roundQ_cases (decide (V < 0)) V.natAbs 1 with ⟨e, _⟩ | ⟨_, b⟩
    · rw [e] at hV; cases hV
    · rcases roundQ_cases (decide (v < 0)) v.natAbs 1 with ⟨_, b'⟩ | ⟨e', _⟩
      · omega
      · rw [e']; rfl

theorem le_fin_iff (sa : Bool) (ka : Nat) (sb : Bool) (kb : Nat) :
    f32Ops.le (.fin sa ka) (.fin sb kb) ↔ key sa ka ≤ key sb kb := by
  unfold Ops.le
  change lt (.fin sb kb) (.fin sa ka) = false ↔ _
  rw [lt_fin, decide_eq_false_iff_not]; omega

/-- if `max - min` does not overflow, no difference of two scores does -/
theorem no_overflow_of_range (s : List F) (hs : ∀ x ∈ s, Fin x)
    (hr : Fin (sub (s.foldl f32Ops.fmax (.inf true)) (s.foldl f32Ops.fmin (.inf false)))) :
    ∀ x ∈ s, ∀ m ∈ s, Fin (sub x m) := by
  intro x hx m hm
  have hne : s ≠ [] := by intro h; rw [h] at hx; cases hx
  obtain ⟨hmx, hmxb⟩ := Laws.max_spec f32Laws s hne hs
  obtain ⟨hmn, hmnb⟩ := Laws.min_spec f32Laws s hne hs
  change s.foldl f32Ops.fmax (.inf true) ∈ s at hmx
  change s.foldl f32Ops.fmin (.inf false) ∈ s at hmn
  change ∀ x ∈ s, f32Ops.le x (s.foldl f32Ops.fmax (.inf true)) at hmxb
  change ∀ x ∈ s, f32Ops.le (s.foldl f32Ops.fmin (.inf false)) x at hmnb
  generalize s.foldl f32Ops.fmax (.inf true) = mx at *
  generalize s.foldl f32Ops.fmin (.inf false) = mn at *
  obtain ⟨sx, kx, rfl⟩ := fin_cases (hs x hx)
  obtain ⟨sm, km, rfl⟩ := fin_cases (hs m hm)
  obtain ⟨s1, k1, rfl⟩ := fin_cases (hs mx hmx)
  obtain ⟨s2, k2, rfl⟩ := fin_cases (hs mn hmn)
  have a1 := (le_fin_iff _ _ _ _).mp (hmxb _ hx)
  have a2 := (le_fin_iff _ _ _ _).mp (hmxb _ hm)
  have a3 := (le_fin_iff _ _ _ _).mp (hmnb _ hx)
  have a4 := (le_fin_iff _ _ _ _).mp (hmnb _ hm)
  rw [sub_fin] at hr ⊢
  exact sr_fin_of_le _ _ (by omega) hr

/-- **C37_norm_f32** — IEEE binary32, every list of finite scores whose range `max - min` does not
    overflow: `normalize_scores` keeps the length, every normalised score is a non-NaN value `v`
    with `¬ v < 0` and `¬ 1 < v`, and every maximal score is mapped to a value numerically equal
    to `1.0`.  (`C37_counterexample` shows the overflow hypothesis cannot be dropped.) -/
theorem C37_norm_f32 (s : List F) (hs : ∀ x ∈ s, isFinite x = true)
    (hr : isFinite (sub (s.foldl f32Ops.fmax (.inf true)) (s.foldl f32Ops.fmin (.inf false))) = true) :
    (normalize f32Ops s).length = s.length ∧
    (∀ y ∈ normalize f32Ops s, isNaN y = false ∧ lt y (.fin false 0) = false ∧ lt (.fin false (2 ^ UNIT)) y = false) ∧
    (∀ (i : Nat) x y, s[i]? = some x → (normalize f32Ops s)[i]? = some y → (∀ z ∈ s, lt x z = false) →
      lt y (.fin false (2 ^ UNIT)) = false ∧ lt (.fin false (2 ^ UNIT)) y = false) := by
  have h := C37_norm f32Laws s hs (no_overflow_of_range s hs hr)
  rw [f32_zero, f32_one] at h
  obtain ⟨h1, h2, h3⟩ := h
  refine ⟨h1, fun y hy => ?_, fun i x y hx hy hmax => ?_⟩
  · exact h2 y hy
  · have := h3 i x y hx hy hmax
    exact ⟨this.2, this.1⟩

end Mv.F32
