/-
  C36 — PII masking leaves no detectable PII and is idempotent.
  Property theorems; the model is MvModel/Pii.lean over MvModel/Regex.lean, patterns from
  MvModel/Gen/C36.lean (generated from /repo/src/pii.rs).  `T : Tables` (Unicode tables) is a parameter
  of every theorem.
-/
import MvModel.Pii
namespace Mv.Pii
open Mv.Regex

/-! ### clause 3: text in which contains_pii detects nothing is returned unchanged -/

theorem replaceGo_noMatch (T : Tables) (r : Re) (tok : List Nat) :
    ∀ (s : List Nat) (p : Option Nat), anyMatch T r p s = false → replaceGo T r tok p s 0 = s
  | [], _, _ => by simp [replaceGo]
  | c :: cs, p, h => by
    simp only [anyMatch, Bool.or_eq_false_iff] at h
    have h1 : matchAt T r p (c :: cs) = none := by
      cases hm : matchAt T r p (c :: cs) with
      | none => rfl
      | some x => rw [hm] at h; simp at h
    simp only [replaceGo, h1]
    rw [replaceGo_noMatch T r tok cs (some c) h.2]

/-- `replace_all` with a pattern that matches nowhere is the identity -/
theorem replaceAll_noMatch (T : Tables) (r : Re) (tok s : List Nat) (h : isMatch T r s = false) :
    replaceAll T r tok s = s :=
  replaceGo_noMatch T r tok s none h

theorem maskWith_noMatch (T : Tables) (s : List Nat) :
    ∀ (passes : List (Re × List Nat)), (∀ p ∈ passes, isMatch T p.1 s = false) → maskWith T passes s = s
  | [], _ => rfl
  | p :: ps, h => by
    have hp : isMatch T p.1 s = false := h p (List.mem_cons_self ..)
    simp only [maskWith, List.foldl_cons, replaceAll_noMatch T p.1 p.2 s hp]
    exact maskWith_noMatch T s ps (fun q hq => h q (List.mem_cons_of_mem _ hq))

/-- every pattern mask_pii applies is one contains_pii tests (re-checked against the generated orders) -/
theorem maskOrder_subset : ∀ p ∈ Gen.C36.maskOrder, p.1 ∈ Gen.C36.containsOrder := by
  simp [Gen.C36.maskOrder, Gen.C36.containsOrder]

/-- **C36, clause 3.** -/
theorem C36_unchanged (T : Tables) (s : List Nat) (h : containsPii T s = false) : maskPii T s = s := by
  apply maskWith_noMatch
  intro p hp
  have hc := maskOrder_subset p hp
  simp only [containsPii, containsWith, List.any_eq_false] at h
  simpa using h p.1 hc

/-! ### clauses 1–2 at full strength: false for the current patterns -/

/-- the full property: masked text has nothing contains_pii detects, and masking again changes nothing -/
def C36_full (T : Tables) : Prop :=
  ∀ s : List Nat, containsPii T (maskPii T s) = false ∧ maskPii T (maskPii T s) = maskPii T s

/-- "1234567890123456789" -/
def witness : List Nat := [49,50,51,52,53,54,55,56,57,48,49,50,51,52,53,54,55,56,57]
/-- "123456789[PHONE]" -/
def witnessMasked : List Nat := [49,50,51,52,53,54,55,56,57,91,80,72,79,78,69,93]
/-- "[SSN][PHONE]" -/
def witnessMasked2 : List Nat := [91,83,83,78,93,91,80,72,79,78,69,93]

example : ofCps witness = "1234567890123456789" ∧ ofCps witnessMasked = "123456789[PHONE]"
    ∧ ofCps witnessMasked2 = "[SSN][PHONE]" := by decide

set_option maxRecDepth 100000 in
theorem witness_masked (T : Tables) : maskPii T witness = witnessMasked := by rfl

set_option maxRecDepth 100000 in
theorem witness_still_detected (T : Tables) : containsPii T witnessMasked = true := by rfl

set_option maxRecDepth 100000 in
theorem witness_masked_twice (T : Tables) : maskPii T witnessMasked = witnessMasked2 := by rfl

/-- **C36 clauses 1 and 2 fail** (for every choice of Unicode tables: the witness is ASCII):
    the PHONE pass eats the last 10 digits of a 19-digit run, leaving an SSN-shaped 9-digit run. -/
theorem C36_counterexample (T : Tables) : ¬ C36_full T := by
  intro h
  have h1 := (h witness).1
  rw [witness_masked, witness_still_detected] at h1
  cases h1

/-- clause 2 fails on its own as well -/
theorem C36_not_idempotent (T : Tables) : maskPii T (maskPii T witness) ≠ maskPii T witness := by
  rw [witness_masked, witness_masked_twice]
  decide

/-! ### what does hold -/

/-- clause 2 follows from clause 1 on any input: if the masked text is clean, masking again is the identity -/
theorem C36_idempotent_of_clean (T : Tables) (s : List Nat) (h : containsPii T (maskPii T s) = false) :
    maskPii T (maskPii T s) = maskPii T s :=
  C36_unchanged T (maskPii T s) h

/-- non-vacuity of `C36_unchanged`: ordinary text with numbers is PII-free and is returned unchanged -/
example : containsPii Gen.C36.tables (cps "Invoice #12345 for $100.00") = false := by decide

end Mv.Pii
