/-
  C40Skip — the skip-index path with the repaired `commit_skip_indexes` / `finalize_indexes`
  (MvModel/Bulk.lean): every operation keeps `Mid` and `SkipInv`; `finalize_indexes` ends in `Done`.
-/
import MvProps.C40Full
namespace Mv.Core

/-- the extra invariant of the skip-index path: the sketch track is untouched until `finalize` -/
structure SkipInv (m0 : Mem) (cd : List PutArgs) (pd : List (Nat × PutArgs)) (m : Mem) : Prop where
  sketch : m.sketch = m0.sketch
  pSk : m.sketch = [] → m.pSketch = []
  dirty : pd = [] → cd ≠ [] → m.dirty = false

theorem Same.skipInv {m' m m0 : Mem} {cd pd} (s : Same m' m) (h : SkipInv m0 cd pd m) : SkipInv m0 cd pd m' :=
  ⟨by rw [s.sketch]; exact h.sketch, by rw [s.sketch, s.pSketch]; exact h.pSk, fun h1 h2 => by rw [s.dirty]; exact h.dirty h1 h2⟩

theorem SkipInv.start {m0 : Mem} (s : Start m0) : SkipInv m0 [] [] m0 :=
  ⟨rfl, s.pSketch, fun _ h => absurd rfl h⟩

/-! ## put without automatic checkpoint -/

theorem afterAppend_noac (m : Mem) (t : Trace) (hac : t.ac = false) : Same (m.afterAppend t) m := by
  unfold Mem.afterAppend Mem.autoCommit
  split
  · exact same_setWalSize m t.ws
  · rw [hac]; exact same_setWalSize m t.ws

theorem put_skip {m0 m : Mem} {cd pd} (h : Mid m0 cd pd m) (hk : SkipInv m0 cd pd m)
    (a : PutArgs) (t : Trace) (hok : DocOk a) (hac : t.ac = false) (hack : (m.put a t).2.isAck = true) :
    Mid m0 cd (pd ++ [(m.seq, a)]) (m.put a t).1 ∧ SkipInv m0 cd (pd ++ [(m.seq, a)]) (m.put a t).1 := by
  rw [put_acked m a t hack]
  obtain ⟨p1, p2, p3, p4, p5, p6, p7, _, _, p10, _, p12⟩ := pre_same m a
  obtain ⟨L, hL, hp⟩ := h.pend
  have hpd : ∀ p ∈ pd ++ [(m.seq, a)], DocOk p.2 := by
    intro p hp'
    rcases List.mem_append.mp hp' with h1 | h1
    · exact h.pdOk p h1
    · simp only [List.mem_singleton] at h1; subst h1; exact hok
  have h1 : Mid m0 cd (pd ++ [(m.seq, a)]) ((pre m a).appendPut a none none) :=
    Mid.mk (by rw [appendPut_frames, p1]; exact h.frames)
      ⟨L, hL, by rw [appendPut_pending, p2, p6, hp, recsOf_snoc, List.append_assoc]⟩ hpd h.cdOk
      (by rw [appendPut_engine, p3]; exact h.engine) (by rw [appendPut_lexEnabled, p4]; exact h.lexEnabled)
      (by rw [appendPut_vec, p5]; exact h.vec)
      (by rw [appendPut_vecEnabled, p12, h.ve]; simp [List.any_append, Bool.or_assoc])
  have hk1 : SkipInv m0 cd (pd ++ [(m.seq, a)]) ((pre m a).appendPut a none none) :=
    ⟨by rw [appendPut_sketch, p7]; exact hk.sketch, by rw [appendPut_sketch, appendPut_pSketch, p7, p10]; exact hk.pSk,
     fun h0 => by simp at h0⟩
  have s1 := afterAppend_noac ((pre m a).appendPut a none none) t hac
  have s2 := same_addCards (((pre m a).appendPut a none none).afterAppend t) a.nc (pre m a).nextFrameId
  exact ⟨s2.mid (s1.mid h1), s2.skipInv (s1.skipInv hk1)⟩

/-- the puts of one group -/
theorem puts_skip {m0 : Mem} (g : List DocCall) (hok : ∀ d ∈ g, DocOk d.1) (hac : ∀ d ∈ g, d.2.ac = false) :
    ∀ (m : Mem) (cd : List PutArgs) (pd : List (Nat × PutArgs)), Mid m0 cd pd m → SkipInv m0 cd pd m →
      AllAcked m (putOps g) →
      ∃ pd', pd'.map (·.2) = pd.map (·.2) ++ g.map (·.1) ∧
        Mid m0 cd pd' (runR m (putOps g)) ∧ SkipInv m0 cd pd' (runR m (putOps g)) := by
  induction g with
  | nil => intro m cd pd h hk _; exact ⟨pd, by simp, h, hk⟩
  | cons d ds ih =>
    intro m cd pd h hk hack
    obtain ⟨h1, h2⟩ := AllAcked.cons (op := Op.put d.1 d.2) (ops := putOps ds) hack
    obtain ⟨hm1, hk1⟩ := put_skip h hk d.1 d.2 (hok d (by simp)) (hac d (by simp)) h1
    obtain ⟨pd2, e2, hm2, hk2⟩ := ih (fun x hx => hok x (by simp [hx])) (fun x hx => hac x (by simp [hx])) _ cd _ hm1 hk1 h2
    exact ⟨pd2, by rw [e2]; simp, hm2, hk2⟩

/-! ## the repaired `commit_skip_indexes` -/

theorem keepEmbs_proj (m : Mem) (embs : List VecEnt) :
    (m.keepEmbs embs).frames = m.frames ∧ (m.keepEmbs embs).engine = m.engine ∧ (m.keepEmbs embs).lexEnabled = m.lexEnabled ∧
    (m.keepEmbs embs).vecEnabled = m.vecEnabled ∧ (m.keepEmbs embs).sketch = m.sketch ∧
    (m.keepEmbs embs).vec = (if embs.isEmpty || !m.vecEnabled then m.vec
      else some ((m.vec.getD []).filter (fun e => isActive m.frames e.id) ++ embs)) := by
  unfold Mem.keepEmbs
  split <;> simp_all

/-- the tail of the repaired `commit_skip_indexes_inner` -/
def skipResult (m2 : Mem) : Mem :=
  { m2 with
    tantivyDirty := false, footer := m2.dataEnd, time := none, pVec := none, tantivySegs := false,
    pCards := none, pSketch := [] }.checkpoint

theorem skipR_inv {m0 m : Mem} {cd pd} (s : Start m0) (h : Mid m0 cd pd m) (hk : SkipInv m0 cd pd m) (hne : pd ≠ []) :
    (m.commitSkipIndexesR).2 = Out.ok ∧ Mid m0 (cd ++ pd.map (·.2)) [] (m.commitSkipIndexesR).1 ∧
      SkipInv m0 (cd ++ pd.map (·.2)) [] (m.commitSkipIndexesR).1 := by
  obtain ⟨L, hL, hp⟩ := h.pend
  obtain ⟨nf, pe, de, hnf, _, happ⟩ := applyRecords_docs m L hL pd h.pdOk hne false (h.noOrphan s)
  obtain ⟨nf0, hf0, hn0⟩ := h.frames
  have hlen := h.length
  have hg : ¬ ((m.pending.isEmpty && !m.dirty) = true) := by
    rw [hp, recsOf_isEmpty L pd hne]; simp
  have hres : m.commitSkipIndexesR =
      (skipResult ((m.applied nf pe de false).keepEmbs (embsOf m.frames.length (pd.map (·.2)))), Out.ok) := by
    unfold Mem.commitSkipIndexesR
    rw [if_neg hg, hp, happ]
    rfl
  rw [hres]
  obtain ⟨k1, k2, k3, k4, k5, k6⟩ := keepEmbs_proj (m.applied nf pe de false) (embsOf m.frames.length (pd.map (·.2)))
  have hnew : NewFrames (nf0 ++ nf) m0.frames.length (cd ++ pd.map (·.2)) := by
    constructor
    · rw [List.map_append, hn0.1, hnf.1, ldocs_append, hlen]
    · intro f hm
      rcases List.mem_append.mp hm with h1 | h1
      · exact hn0.2 f h1
      · exact hnf.2 f h1
  have hcd : ∀ a ∈ cd ++ pd.map (·.2), DocOk a := by
    intro a ha
    rcases List.mem_append.mp ha with h1 | h1
    · exact h.cdOk a h1
    · obtain ⟨p, hp', rfl⟩ := List.mem_map.mp h1
      exact h.pdOk p hp'
  have hvec : ((m.applied nf pe de false).keepEmbs (embsOf m.frames.length (pd.map (·.2)))).vec.getD [] =
      m0.vec.getD [] ++ embsOf m0.frames.length (cd ++ pd.map (·.2)) := by
    rw [k6, applied_vec, applied_vecEnabled, applied_frames, embsOf_append, ← hlen, ← List.append_assoc, ← h.vec]
    by_cases hc : ((embsOf m.frames.length (pd.map (·.2))).isEmpty || !m.vecEnabled) = true
    · rw [if_pos hc]
      have hE : embsOf m.frames.length (pd.map (·.2)) = [] := by
        cases hv : m.vecEnabled with
        | true => simpa [hv] using hc
        | false =>
          have := (h.noVec s hv).2
          rw [embsOf_append, ← hlen] at this
          exact (List.append_eq_nil_iff.mp this).2
      rw [hE, List.append_nil]
    · rw [if_neg hc, Option.getD_some, filter_active_self s h nf]
  have hpdok : ∀ p ∈ ([] : List (Nat × PutArgs)), DocOk p.2 := by intro p hp; cases hp
  refine ⟨rfl, ?_, ?_⟩
  · refine Mid.mk ⟨nf0 ++ nf, ?_, hnew⟩ ⟨[], onlyLex_nil, rfl⟩ hpdok hcd ?_ ?_ hvec ?_
    · show ((m.applied nf pe de false).keepEmbs _).frames = _
      rw [k1, applied_frames, hf0, List.append_assoc]
    · show ((m.applied nf pe de false).keepEmbs _).engine = true
      rw [k2, applied_engine]; exact h.engine
    · show ((m.applied nf pe de false).keepEmbs _).lexEnabled = true
      rw [k3, applied_lexEnabled]; exact h.lexEnabled
    · show ((m.applied nf pe de false).keepEmbs _).vecEnabled = _
      rw [k4, applied_vecEnabled, h.ve]; simp
  · refine ⟨?_, fun _ => rfl, fun _ _ => rfl⟩
    show ((m.applied nf pe de false).keepEmbs _).sketch = _
    rw [k5, applied_sketch]
    simp [hk.sketch]

/-! ## the repaired `finalize_indexes` -/

theorem missingSketches_eq (frames : List Frame) (sk : List Nat) :
    missingSketches frames sk = (fullLexRebuild frames).filter (fun id => !sk.contains id) := rfl

theorem lchunks_id_ge (a : PutArgs) (d n : Nat) (cs : List ChunkArg) (i k : Nat) :
    ∀ x ∈ lchunks a d n cs i k, k ≤ x.v.id := by
  induction cs generalizing i k with
  | nil => intro x hx; simp [lchunks] at hx
  | cons c cs ih =>
    intro x hx
    simp only [lchunks, List.mem_cons] at hx
    rcases hx with rfl | hx
    · exact Nat.le_refl _
    · exact Nat.le_trans (Nat.le_succ k) (ih (i + 1) (k + 1) x hx)

theorem ldocs_id_ge (ds : List PutArgs) (k : Nat) : ∀ x ∈ ldocs k ds, k ≤ x.v.id := by
  induction ds generalizing k with
  | nil => intro x hx; simp [ldocs] at hx
  | cons a as ih =>
    intro x hx
    simp only [ldocs, ldocFrames, List.mem_append, List.mem_cons] at hx
    rcases hx with (rfl | hx) | hx
    · exact Nat.le_refl _
    · exact Nat.le_trans (Nat.le_succ k) (lchunks_id_ge a k a.chunks.length a.chunks 0 (k + 1) x hx)
    · have := ih (k + 1 + a.chunks.length) x hx
      omega

theorem lidx_ldocs_ge (ds : List PutArgs) (k : Nat) : ∀ i ∈ lidx (ldocs k ds), k ≤ i := by
  intro i hi
  unfold lidx at hi
  obtain ⟨x, hx, rfl⟩ := List.mem_map.mp hi
  exact ldocs_id_ge ds k x (List.mem_filter.mp hx).1

/-- what `finalize_indexes` adds to the sketch track: exactly the indexable frames of the ingested documents -/
theorem missing_after_skip {m0 : Mem} (s : Start m0) (nf : List Frame) (docs : List PutArgs)
    (hnf : NewFrames nf m0.frames.length docs) :
    missingSketches (m0.frames ++ nf) m0.sketch = lidx (ldocs m0.frames.length docs) := by
  rw [missingSketches_eq, fullLexRebuild_append, List.filter_append, ← missingSketches_eq, s.sketchComplete,
    List.nil_append, fullLexRebuild_eq_lidx, hnf.1]
  apply List.filter_eq_self.mpr
  intro i hi
  have hge := lidx_ldocs_ge docs m0.frames.length i hi
  have hnm : ¬ i ∈ m0.sketch := by
    intro hmem
    have := s.sketchBound i hmem
    omega
  simpa using hnm

theorem finalizeR_done {m0 m : Mem} {docs} (s : Start m0) (h : Mid m0 docs [] m) (hk : SkipInv m0 docs [] m)
    (hne : docs ≠ []) (ft : Nat) : (m.finalizeIndexesR ft).2 = Out.ok ∧ Done m0 docs (m.finalizeIndexesR ft).1 := by
  have hl := h.lexEnabled
  obtain ⟨nf0, hf0, hn0⟩ := h.frames
  obtain ⟨L, hL, hp⟩ := h.pend
  have hsk0 : m.sketch ++ missingSketches m.frames m.sketch = m0.sketch ++ lidx (ldocs m0.frames.length docs) := by
    rw [hk.sketch, hf0, missing_after_skip s nf0 docs hn0]
  -- projections of the result
  have r_frames : (m.finalizeIndexesR ft).1.frames = m.frames := by
    show (m.rebuildIndexes [] [] ft).frames = _
    exact rebuildIndexes_frames m [] [] ft hl
  have r_sketch : (m.finalizeIndexesR ft).1.sketch = m0.sketch ++ lidx (ldocs m0.frames.length docs) := by
    show (if (m.rebuildIndexes [] [] ft).lexEnabled then
      (m.rebuildIndexes [] [] ft).sketch ++ missingSketches (m.rebuildIndexes [] [] ft).frames (m.rebuildIndexes [] [] ft).sketch
      else (m.rebuildIndexes [] [] ft).sketch) = _
    rw [rebuildIndexes_lexEnabled m [] [] ft hl, rebuildIndexes_sketch m [] [] ft hl, rebuildIndexes_frames m [] [] ft hl, hl, if_pos rfl]
    exact hsk0
  have r_pSketch : (m.finalizeIndexesR ft).1.pSketch = (m.finalizeIndexesR ft).1.sketch := by
    rw [r_sketch]
    show (if (if (m.rebuildIndexes [] [] ft).lexEnabled then
      (m.rebuildIndexes [] [] ft).sketch ++ missingSketches (m.rebuildIndexes [] [] ft).frames (m.rebuildIndexes [] [] ft).sketch
      else (m.rebuildIndexes [] [] ft).sketch).isEmpty then (m.rebuildIndexes [] [] ft).pSketch else _) = _
    rw [rebuildIndexes_lexEnabled m [] [] ft hl, rebuildIndexes_sketch m [] [] ft hl, rebuildIndexes_frames m [] [] ft hl,
      rebuildIndexes_pSketch m [] [] ft hl, hl, if_pos rfl, hsk0]
    cases hx : m0.sketch ++ lidx (ldocs m0.frames.length docs) with
    | nil =>
      have h0 : m0.sketch = [] := (List.append_eq_nil_iff.mp hx).1
      have : m.sketch = [] := by rw [hk.sketch]; exact h0
      simp [hk.pSk this]
    | cons _ _ => simp
  have r_vec : (m.finalizeIndexesR ft).1.vec = if m.vecEnabled then some (m.vec.getD []) else none := by
    show (m.rebuildIndexes [] [] ft).vec = _
    rw [rebuildIndexes_vec m [] [] ft hl]
    unfold vecAfter
    have := filter_active_self s h []
    rw [List.append_nil] at this
    rw [this, List.append_nil]
  have r_lex : (m.finalizeIndexesR ft).1.lexDocs = fullLexRebuild m.frames := by
    show (m.rebuildIndexes [] [] ft).lexDocs = _
    rw [rebuildIndexes_lexDocs m [] [] ft hl]
    unfold lexAfter
    simp
  have r_ve : (m.finalizeIndexesR ft).1.vecEnabled = m.vecEnabled := by
    show (m.rebuildIndexes [] [] ft).vecEnabled = _
    exact rebuildIndexes_vecEnabled m [] [] ft hl
  have hst : Settled (m.finalizeIndexesR ft).1 := by
    refine ⟨?_, by rw [r_lex, r_frames], ?_, ?_, ?_, ?_, ?_, ?_, r_pSketch, ?_⟩
    · rw [r_frames]; show (m.rebuildIndexes [] [] ft).time = _; exact rebuildIndexes_time m [] [] ft hl
    · show (m.rebuildIndexes [] [] ft).tantivyDirty = _; exact rebuildIndexes_tantivyDirty m [] [] ft hl
    · show (m.rebuildIndexes [] [] ft).tantivySegs = _; exact rebuildIndexes_tantivySegs m [] [] ft hl
    · rw [r_ve, r_vec]; cases m.vecEnabled <;> simp
    · show (m.rebuildIndexes [] [] ft).pVec = (m.rebuildIndexes [] [] ft).vec
      rw [rebuildIndexes_pVec m [] [] ft hl, rebuildIndexes_vec m [] [] ft hl]
    · rw [r_ve]; show (m.rebuildIndexes [] [] ft).pVecMan = _; exact rebuildIndexes_pVecMan m [] [] ft hl
    · rw [r_ve]; show (m.rebuildIndexes [] [] ft).vecManifest = _; exact rebuildIndexes_vecManifest m [] [] ft hl
    · show (m.rebuildIndexes [] [] ft).dirty = _
      rw [rebuildIndexes_dirty m [] [] ft hl]; exact hk.dirty rfl hne
  have hvec : (m.finalizeIndexesR ft).1.vec.getD [] = m0.vec.getD [] ++ embsOf m0.frames.length docs := by
    rw [r_vec]
    cases hv : m.vecEnabled with
    | true => simp only [if_true, Option.getD_some]; exact h.vec
    | false =>
      have := h.noVec s hv
      simp at this
      simp [this.1, this.2]
  have hpend : ∃ L', OnlyLexRecs L' ∧ (m.finalizeIndexesR ft).1.pending = L' ++ recsOf [] := by
    refine ⟨L ++ [(m.seq + 1, Entry.lex)], ?_, ?_⟩
    · intro r hr
      rcases List.mem_append.mp hr with h1 | h1
      · exact hL r h1
      · simp only [List.mem_singleton] at h1; rw [h1]
    · show (m.rebuildIndexes [] [] ft).pending = _
      rw [rebuildIndexes_pending m [] [] ft hl, hp]; simp [recsOf]
  refine ⟨rfl, Mid.mk ⟨nf0, by rw [r_frames]; exact hf0, hn0⟩ hpend h.pdOk h.cdOk ?_ ?_ hvec (by rw [r_ve]; exact h.ve), r_sketch, hst⟩
  · show (m.rebuildIndexes [] [] ft).engine = _; exact rebuildIndexes_engine m [] [] ft hl
  · show (m.rebuildIndexes [] [] ft).lexEnabled = _; rw [rebuildIndexes_lexEnabled m [] [] ft hl]; exact hl

/-! ## the skip-index programs -/

/-- the groups of a skip-index run: every `commit_skip_indexes` follows at least one put, every put is
    a well-formed document put during which no automatic checkpoint fires -/
structure GroupsOk (groups : List (List DocCall)) : Prop where
  nonempty : ∀ g ∈ groups, g ≠ []
  ok : ∀ g ∈ groups, ∀ d ∈ g, DocOk d.1
  noac : ∀ g ∈ groups, ∀ d ∈ g, d.2.ac = false

def groupOps (groups : List (List DocCall)) : List Op := groups.flatMap (fun g => putOps g ++ [Op.commitSkipIndexes])

theorem groups_skip {m0 : Mem} (s : Start m0) (groups : List (List DocCall)) (hg : GroupsOk groups) :
    ∀ (m : Mem) (cd : List PutArgs), Mid m0 cd [] m → SkipInv m0 cd [] m → AllAcked m (groupOps groups) →
      Mid m0 (cd ++ groups.flatten.map (·.1)) [] (runR m (groupOps groups)) ∧
      SkipInv m0 (cd ++ groups.flatten.map (·.1)) [] (runR m (groupOps groups)) := by
  induction groups with
  | nil => intro m cd h hk _; simpa [groupOps, runR] using And.intro h hk
  | cons g gs ih =>
    intro m cd h hk hack
    have hg' : GroupsOk gs :=
      ⟨fun x hx => hg.nonempty x (by simp [hx]), fun x hx => hg.ok x (by simp [hx]), fun x hx => hg.noac x (by simp [hx])⟩
    have hops : groupOps (g :: gs) = putOps g ++ (Op.commitSkipIndexes :: groupOps gs) := by
      simp [groupOps, List.flatMap_cons]
    rw [hops] at hack ⊢
    obtain ⟨ha1, ha2⟩ := AllAcked.append hack
    obtain ⟨pd', e, hm1, hk1⟩ := puts_skip g (hg.ok g (by simp)) (hg.noac g (by simp)) m cd [] h hk ha1
    have hpd : pd' ≠ [] := by
      intro h0
      rw [h0] at e
      have hgne := hg.nonempty g (by simp)
      cases g with
      | nil => exact hgne rfl
      | cons _ _ => simp at e
    obtain ⟨_, ha3⟩ := AllAcked.cons ha2
    obtain ⟨_, hm2, hk2⟩ := skipR_inv s hm1 hk1 hpd
    rw [runR_append]
    have hrun : runR (runR m (putOps g)) (Op.commitSkipIndexes :: groupOps gs) =
        runR ((runR m (putOps g)).commitSkipIndexesR).1 (groupOps gs) := rfl
    rw [hrun]
    have := ih hg' _ (cd ++ pd'.map (·.2)) hm2 hk2 ha3
    rw [e] at this
    simpa [List.append_assoc] using this

/-- (puts; `commit_skip_indexes`)*; `finalize_indexes` -/
theorem skip_done {m0 : Mem} (s : Start m0) (groups : List (List DocCall)) (ft : Nat) (hne : groups ≠ [])
    (hg : GroupsOk groups) (hack : AllAcked m0 (skipOps groups ft)) :
    Done m0 (groups.flatten.map (·.1)) (runR m0 (skipOps groups ft)) := by
  have hops : skipOps groups ft = groupOps groups ++ [Op.finalizeIndexes ft] := rfl
  rw [hops] at hack ⊢
  obtain ⟨ha1, _⟩ := AllAcked.append hack
  obtain ⟨h0, _⟩ := Mid.start s
  obtain ⟨hm, hk⟩ := groups_skip s groups hg m0 [] h0 (SkipInv.start s) ha1
  simp only [List.nil_append] at hm hk
  have hdocs : groups.flatten.map (·.1) ≠ [] := by
    cases groups with
    | nil => exact absurd rfl hne
    | cons g gs =>
      have := hg.nonempty g (by simp)
      cases g with
      | nil => exact absurd rfl this
      | cons _ _ => simp
  rw [runR_append]
  exact (finalizeR_done s hm hk hdocs ft).2

/-- `begin_batch`; (puts; `commit_skip_indexes`)*; `end_batch`; `finalize_indexes` -/
theorem skip_batch_done {m0 : Mem} (s : Start m0) (dis : Bool) (ws : Nat) (groups : List (List DocCall)) (ft : Nat)
    (hne : groups ≠ []) (hg : GroupsOk groups) (hack : AllAcked m0 (skipBatchOps dis ws groups ft)) :
    Done m0 (groups.flatten.map (·.1)) (runR m0 (skipBatchOps dis ws groups ft)) := by
  have hops : skipBatchOps dis ws groups ft =
      Op.beginBatch dis ws :: (groupOps groups ++ [Op.endBatch, Op.finalizeIndexes ft]) := rfl
  rw [hops] at hack ⊢
  obtain ⟨_, hack1⟩ := AllAcked.cons hack
  have hack1' : AllAcked (m0.beginBatch dis ws).1 (groupOps groups ++ [Op.endBatch, Op.finalizeIndexes ft]) := hack1
  obtain ⟨ha1, _⟩ := AllAcked.append hack1'
  obtain ⟨h0, _⟩ := Mid.start s
  have hs0 := same_beginBatch m0 dis ws
  obtain ⟨hm, hk⟩ := groups_skip s groups hg _ [] (hs0.mid h0) (hs0.skipInv (SkipInv.start s)) ha1
  simp only [List.nil_append] at hm hk
  have hdocs : groups.flatten.map (·.1) ≠ [] := by
    cases groups with
    | nil => exact absurd rfl hne
    | cons g gs =>
      have := hg.nonempty g (by simp)
      cases g with
      | nil => exact absurd rfl this
      | cons _ _ => simp
  have hs1 := same_endBatch (runR (m0.beginBatch dis ws).1 (groupOps groups))
  show Done m0 _ (runR (m0.beginBatch dis ws).1 (groupOps groups ++ [Op.endBatch, Op.finalizeIndexes ft]))
  rw [runR_append]
  exact (finalizeR_done s (hs1.mid hm) (hs1.skipInv hk) hdocs ft).2

end Mv.Core
