/- Driver for C40: the Core model's line protocol (see MvModel/CoreDrv.lean for the requests; since
   repair 7cd4b84 Core's `skip` / `finalize` are the repaired functions) plus two read-only requests:
     lexn                → number of documents the lexical engine holds (`lexDocs.length`)
     lex                 → the engine's frame ids, sorted (`-` when empty) -/
import MvModel.CoreDrv
open Mv.Core

def c40Step (m : Mem) (ws : List String) : Mem × String :=
  match ws with
  | ["lexn"] => (m, toString m.lexDocs.length)
  | ["lex"] => (m, showNats (sortBy natLe m.lexDocs))
  | _ => drvStep m ws

def main : IO Unit := Mv.runDriver Mem.create c40Step
