//! C20 — corruption is detected, never served silently.
//!
//! impl : real `.mv2` files built through the public API (binary Plain payload, zstd text payload, chunked
//!        document, embedded frame, memory card; two commits; closed), then corrupted (single byte XOR 0xFF /
//!        XOR 0x01, zeroed ranges, truncations at every region boundary ±1).  Every corrupted copy is handled in a
//!        CHILD PROCESS (this binary re-executed as `c20 child <file>`): `Memvid::verify(deep)`,
//!        `open_read_only` + every read, `open` + every read.  A panic/abort/hang of the child is recorded as a
//!        branch (property C22), never as a C20 verdict.
//! model: drv_c20 — `MvModel/Integrity.lean`, the read path as a decision procedure over the file regions
//!        (header, WAL, payloads, index segments, TOC, footer) with the checks the code performs; asked for the
//!        class of every corruption (`detected | harmless | silent | verify-passed-but-differs`) from the same
//!        region facts the harness extracts from the ORIGINAL file through memvid_core's own codecs.
//! oracle: C20 restated on the observations alone: every read of the corrupted file equals the read of the
//!        original or is an error; `verify(deep) = Passed` implies no read differs.
use memvid_core::io::header::HeaderCodec;
use memvid_core::footer::find_last_valid_footer;
use memvid_core::types::{CanonicalEncoding, Frame, FrameRole, FrameStatus, Toc};
use memvid_core::{Memvid, MemoryCard, MemoryKind, PutOptions, SearchRequest, TimelineQuery, VersionRelation};
use mvh::*;
use std::collections::BTreeMap;
use std::io::Read;
use std::path::{Path, PathBuf};
use std::process::{Command, Stdio};
use std::sync::atomic::{AtomicUsize, Ordering};
use std::sync::{Arc, Mutex};
use std::time::{Duration, Instant};

const HEADER_SIZE: usize = 4096;
const FOOTER_SIZE: usize = 56;
const WAL_HDR: usize = 48;

// =======================================================================================
// file builder (real API)
#[derive(Clone, Debug)]
struct Shape {
    /// seed of the payload contents
    seed: u64,
    /// size of the binary (Plain) payload
    bin_len: usize,
    /// number of commits (1 or 2)
    commits: u8,
    with_vec: bool,
    with_card: bool,
    with_chunks: bool,
}

impl Shape {
    fn to_json(&self) -> Value {
        json!({"seed": self.seed, "bin_len": self.bin_len, "commits": self.commits, "with_vec": self.with_vec,
               "with_card": self.with_card, "with_chunks": self.with_chunks})
    }
    fn from_json(v: &Value) -> Shape {
        Shape {
            seed: v["seed"].as_u64().unwrap_or(1), bin_len: v["bin_len"].as_u64().unwrap_or(500) as usize,
            commits: v["commits"].as_u64().unwrap_or(2) as u8, with_vec: v["with_vec"].as_bool().unwrap_or(true),
            with_card: v["with_card"].as_bool().unwrap_or(true), with_chunks: v["with_chunks"].as_bool().unwrap_or(true),
        }
    }
}

fn words(rng: &mut Rng, n: usize) -> String {
    const W: &[&str] = &["quantum", "ledger", "harbor", "violet", "granite", "meadow", "signal", "copper", "lantern",
        "orbit", "thistle", "marble", "cinder", "willow", "anchor", "breeze", "cobalt", "ember", "fjord", "glacier"];
    let mut s = String::new();
    for i in 0..n {
        if i > 0 { s.push(if i % 13 == 0 { '\n' } else { ' ' }); }
        s.push_str(*rng.pick::<&str>(W));
    }
    s
}

fn opts(ts: i64, uri: &str) -> PutOptions {
    let mut o = PutOptions::default();
    o.timestamp = Some(ts);
    o.uri = Some(uri.to_string());
    o.title = Some(format!("title of {uri}"));
    o.extract_triplets = false;
    o.extract_dates = false;
    o
}

fn card(id: u64, frame: u64) -> MemoryCard {
    MemoryCard {
        id, kind: MemoryKind::Fact, entity: "alice".into(), slot: "employer".into(), value: "acme".into(),
        polarity: None, event_date: Some(1_700_000_100), document_date: Some(1_700_000_200), version_key: None,
        version_relation: VersionRelation::Sets, source_frame_id: frame, source_uri: Some("mv2://c20/text".into()),
        source_offset: None, engine: "c20".into(), engine_version: "1".into(), confidence: None, created_at: 1_700_000_300,
    }
}

fn build_file(path: &Path, sh: &Shape) -> Result<(), String> {
    let mut rng = Rng::new(sh.seed ^ 0xC20);
    let mut mem = Memvid::create(path).map_err(|e| format!("create: {e}"))?;
    if sh.with_vec { mem.enable_vec().map_err(|e| format!("enable_vec: {e}"))?; }
    // frame 0: binary payload, stored Plain
    let mut bin = rng.bytes(sh.bin_len);
    if !bin.is_empty() { bin[0] = 0xFF; } // never valid UTF-8
    mem.put_bytes_with_options(&bin, opts(1_700_000_000, "mv2://c20/bin")).map_err(|e| format!("put bin: {e}"))?;
    // frame 1: short text payload, stored zstd
    let text = format!("quantum ledger note. {}", words(&mut rng, 60));
    mem.put_bytes_with_options(text.as_bytes(), opts(1_700_000_010, "mv2://c20/text")).map_err(|e| format!("put text: {e}"))?;
    if sh.with_vec {
        let e: Vec<f32> = (0..4).map(|i| (rng.below(200) as f32) / 8.0 - (i as f32)).collect();
        let t = format!("embedded harbor frame. {}", words(&mut rng, 30));
        mem.put_with_embedding_and_options(t.as_bytes(), e, opts(1_700_000_020, "mv2://c20/emb")).map_err(|e| format!("put emb: {e}"))?;
        let e2: Vec<f32> = (0..4).map(|i| (rng.below(200) as f32) / 8.0 + (i as f32)).collect();
        let t2 = format!("second embedded violet frame. {}", words(&mut rng, 20));
        mem.put_with_embedding_and_options(t2.as_bytes(), e2, opts(1_700_000_021, "mv2://c20/emb2")).map_err(|e| format!("put emb2: {e}"))?;
    }
    if sh.commits >= 2 { mem.commit().map_err(|e| format!("commit 1: {e}"))?; }
    if sh.with_chunks {
        let doc = format!("chunked granite document. {}", words(&mut rng, 700));
        mem.put_bytes_with_options(doc.as_bytes(), opts(1_700_000_030, "mv2://c20/doc")).map_err(|e| format!("put doc: {e}"))?;
    }
    if sh.with_card { mem.put_memory_card(card(0, 1)).map_err(|e| format!("card: {e}"))?; }
    let tail = format!("closing meadow remark. {}", words(&mut rng, 25));
    mem.put_bytes_with_options(tail.as_bytes(), opts(1_700_000_040, "mv2://c20/tail")).map_err(|e| format!("put tail: {e}"))?;
    mem.commit().map_err(|e| format!("commit: {e}"))?;
    drop(mem);
    Ok(())
}

// =======================================================================================
// observations (run in the child)
fn errkind(e: &memvid_core::MemvidError) -> String {
    let d = format!("{e:?}");
    let k: String = d.chars().take_while(|c| c.is_ascii_alphanumeric()).collect();
    format!("err:{k}")
}

fn h(b: &[u8]) -> String { format!("ok:{}:{}", b.len(), b3short(b)) }

fn frame_meta(f: &Frame) -> String {
    // everything a caller can see of the frame except where its bytes are stored
    format!("{}|{}|{:?}|{:?}|{:?}|{:?}|{:?}|{:?}|{:?}|{:?}|{:?}|{:?}|{:?}|{:?}|{:?}|{:?}|{:?}|{:?}|{:?}",
        f.id, f.timestamp, f.kind, f.track, f.uri, f.title, f.status, f.role, f.parent_id, f.chunk_index, f.chunk_count,
        f.tags, f.labels, f.extra_metadata, f.search_text, f.supersedes, f.superseded_by, f.canonical_length, f.metadata)
}

fn observe(mem: &mut Memvid, obs: &mut BTreeMap<String, String>, p: &str) {
    let count = mem.frame_count();
    obs.insert(format!("{p}.count"), format!("ok:{count}"));
    for id in 0..(count.min(64) as u64) {
        match mem.frame_by_id(id) {
            Ok(f) => { obs.insert(format!("{p}.f{id}.meta"), h(frame_meta(&f).as_bytes())); }
            Err(e) => { obs.insert(format!("{p}.f{id}.meta"), errkind(&e)); }
        }
        match mem.frame_canonical_payload(id) {
            Ok(b) => { obs.insert(format!("{p}.f{id}.payload"), h(&b)); }
            Err(e) => { obs.insert(format!("{p}.f{id}.payload"), errkind(&e)); }
        }
        match mem.frame_text_by_id(id) {
            Ok(t) => { obs.insert(format!("{p}.f{id}.text"), h(t.as_bytes())); }
            Err(e) => { obs.insert(format!("{p}.f{id}.text"), errkind(&e)); }
        }
        let blob = mem.blob_reader(id).and_then(|mut r| { let mut v = Vec::new(); r.read_to_end(&mut v).map_err(memvid_core::MemvidError::from)?; Ok(v) });
        match blob {
            Ok(b) => { obs.insert(format!("{p}.f{id}.blob"), h(&b)); }
            Err(e) => { obs.insert(format!("{p}.f{id}.blob"), errkind(&e)); }
        }
        match mem.frame_embedding(id) {
            Ok(Some(e)) => { let b: Vec<u8> = e.iter().flat_map(|x| x.to_le_bytes()).collect(); obs.insert(format!("{p}.f{id}.emb"), h(&b)); }
            Ok(None) => { obs.insert(format!("{p}.f{id}.emb"), "ok:none".into()); }
            Err(e) => { obs.insert(format!("{p}.f{id}.emb"), errkind(&e)); }
        }
    }
    match mem.timeline(TimelineQuery::default()) {
        Ok(es) => {
            let s: Vec<String> = es.iter().map(|e| format!("{}@{}:{}:{:?}", e.frame_id, e.timestamp, b3short(e.preview.as_bytes()), e.uri)).collect();
            obs.insert(format!("{p}.timeline"), format!("ok:{}", s.join(",")));
        }
        Err(e) => { obs.insert(format!("{p}.timeline"), errkind(&e)); }
    }
    for (name, q) in [("search.quantum", "quantum"), ("search.granite", "granite"), ("search.harbor", "harbor")] {
        let req = SearchRequest {
            query: q.into(), top_k: 10, snippet_chars: 80, uri: None, scope: None, cursor: None, as_of_frame: None,
            as_of_ts: None, no_sketch: false, acl_context: None, acl_enforcement_mode: Default::default(),
        };
        match mem.search(req) {
            Ok(r) => {
                let s: Vec<String> = r.hits.iter().map(|x| format!("{}:{}", x.frame_id, b3short(x.text.as_bytes()))).collect();
                obs.insert(format!("{p}.{name}"), format!("ok:{}:{}", r.total_hits, s.join(",")));
            }
            Err(e) => { obs.insert(format!("{p}.{name}"), errkind(&e)); }
        }
    }
    match mem.search_vec(&[1.0, 2.0, 3.0, 4.0], 5) {
        Ok(hs) => {
            let s: Vec<String> = hs.iter().map(|x| format!("{}:{:08x}", x.frame_id, x.distance.to_bits())).collect();
            obs.insert(format!("{p}.vsearch"), format!("ok:{}", s.join(",")));
        }
        Err(e) => { obs.insert(format!("{p}.vsearch"), errkind(&e)); }
    }
    let ix = memvid_core::verif_hooks::verif_index_state(mem);
    obs.insert(format!("aux.{p}.lexdocs"), format!("{:?}", ix.lex_num_docs));
    let cards: Vec<String> = mem.memories().cards().iter()
        .map(|c| format!("{}|{}|{}|{}|{}|{:?}|{:?}", c.id, c.entity, c.slot, c.value, c.source_frame_id, c.event_date, c.source_uri)).collect();
    obs.insert(format!("{p}.cards"), format!("ok:{}", cards.join(",")));
}

fn child_main(file: &str) -> ! {
    std::panic::set_hook(Box::new(|_| {}));
    let src = PathBuf::from(file);
    let mut obs: BTreeMap<String, String> = BTreeMap::new();
    // verify(deep) on its own copy
    let vf = src.with_extension("vf.mv2");
    let _ = std::fs::copy(&src, &vf);
    let r = std::panic::catch_unwind(|| Memvid::verify(&vf, true));
    obs.insert("verify".into(), match r {
        Ok(Ok(rep)) => format!("ok:{:?}", rep.overall_status),
        Ok(Err(e)) => errkind(&e),
        Err(_) => "panic".into(),
    });
    let _ = std::fs::remove_file(&vf);
    for (p, ro) in [("ro", true), ("rw", false)] {
        let cp = src.with_extension(format!("{p}.mv2"));
        let _ = std::fs::copy(&src, &cp);
        let r = std::panic::catch_unwind(std::panic::AssertUnwindSafe(|| {
            let mut local: BTreeMap<String, String> = BTreeMap::new();
            let opened = if ro { Memvid::open_read_only(&cp) } else { Memvid::open(&cp) };
            match opened {
                Ok(mut mem) => {
                    local.insert(format!("{p}.open"), "ok".into());
                    observe(&mut mem, &mut local, p);
                }
                Err(e) => { local.insert(format!("{p}.open"), errkind(&e)); }
            }
            local
        }));
        match r {
            Ok(local) => obs.extend(local),
            Err(_) => { obs.insert(format!("{p}.open"), "panic".into()); }
        }
        let _ = std::fs::remove_file(&cp);
    }
    println!("OBS {}", serde_json::to_string(&obs).unwrap());
    std::process::exit(0);
}

/// seconds before a child is killed (a corrupted TOC + footer sends `recover_toc` into its quadratic trailer scan)
fn child_timeout() -> u64 { std::env::var("C20_CHILD_TIMEOUT").ok().and_then(|s| s.parse().ok()).unwrap_or(25) }

/// run the child on `file`; None = the child died / hung (C22 territory)
fn run_child(file: &Path) -> Result<BTreeMap<String, String>, String> {
    let exe = std::env::current_exe().map_err(|e| e.to_string())?;
    let mut ch = Command::new(exe).arg("child").arg(file).stdin(Stdio::null()).stdout(Stdio::piped()).stderr(Stdio::null())
        .spawn().map_err(|e| e.to_string())?;
    let t0 = Instant::now();
    loop {
        match ch.try_wait() {
            Ok(Some(_)) => break,
            Ok(None) => {
                if t0.elapsed() > Duration::from_secs(child_timeout()) { let _ = ch.kill(); let _ = ch.wait(); return Err("hang".into()); }
                std::thread::sleep(Duration::from_millis(2));
            }
            Err(e) => return Err(e.to_string()),
        }
    }
    let mut out = String::new();
    if let Some(mut so) = ch.stdout.take() { let _ = so.read_to_string(&mut out); }
    for line in out.lines() {
        if let Some(j) = line.strip_prefix("OBS ") {
            return serde_json::from_str(j).map_err(|e| e.to_string());
        }
    }
    Err("died".into())
}

// =======================================================================================
// region map of the ORIGINAL file (through memvid_core's own codecs)
#[derive(Clone, Debug)]
struct Span { start: usize, end: usize, region: String, sub: String }

struct Layout {
    len: usize,
    toc_off: usize,
    wal_off: usize,
    wal_size: usize,
    wal_seq: u64,
    spans: Vec<Span>, // sorted, non-overlapping, covering [0,len)
    toc: Toc,
}

fn layout(bytes: &[u8]) -> Result<Layout, String> {
    let hb: &[u8; HEADER_SIZE] = bytes[..HEADER_SIZE].try_into().map_err(|_| "short file")?;
    let hdr = HeaderCodec::decode(hb).map_err(|e| format!("header: {e}"))?;
    let len = bytes.len();
    let toc_off = hdr.footer_offset as usize;
    let toc = Toc::decode(&bytes[toc_off..len - FOOTER_SIZE]).map_err(|e| format!("toc: {e}"))?;
    let wal_off = hdr.wal_offset as usize;
    let wal_size = hdr.wal_size as usize;
    let mut marks: Vec<Span> = Vec::new();
    let mut add = |s: usize, e: usize, r: &str, sub: String| { if e > s { marks.push(Span { start: s, end: e, region: r.into(), sub }); } };
    // header fields
    for (s, e, n) in [(0, 4, "magic"), (4, 6, "version"), (6, 8, "spec"), (8, 16, "footer_offset"), (16, 24, "wal_offset"),
        (24, 32, "wal_size"), (32, 40, "wal_checkpoint_pos"), (40, 48, "wal_sequence"), (48, 80, "toc_checksum"),
        (80, 140, "legacy_lock"), (140, HEADER_SIZE, "padding")] {
        add(s, e, "header", n.to_string());
    }
    // WAL records
    let mut cur = 0usize;
    let mut idx = 0;
    while cur + WAL_HDR <= wal_size {
        let b = &bytes[wal_off + cur..];
        let seq = u64::from_le_bytes(b[..8].try_into().unwrap());
        let l = u32::from_le_bytes(b[8..12].try_into().unwrap()) as usize;
        if seq == 0 && l == 0 {
            add(wal_off + cur, wal_off + cur + 12, "wal", "sentinel_seqlen".into());
            add(wal_off + cur + 12, wal_off + cur + WAL_HDR, "wal", "sentinel_rest".into());
            cur += WAL_HDR;
            break;
        }
        if l == 0 || cur + WAL_HDR + l > wal_size { return Err("original WAL does not scan".into()); }
        let tag = if seq > hdr.wal_sequence { "pending" } else { "applied" };
        add(wal_off + cur, wal_off + cur + 8, "wal", format!("{tag}_seq"));
        add(wal_off + cur + 8, wal_off + cur + 12, "wal", format!("{tag}_len"));
        add(wal_off + cur + 12, wal_off + cur + 16, "wal", format!("{tag}_reserved"));
        add(wal_off + cur + 16, wal_off + cur + 48, "wal", format!("{tag}_hash"));
        add(wal_off + cur + 48, wal_off + cur + 48 + l, "wal", format!("{tag}_payload"));
        cur += WAL_HDR + l;
        idx += 1;
    }
    let _ = idx;
    add(wal_off + cur, wal_off + wal_size, "wal", "slack".into());
    // payloads
    for f in &toc.frames {
        if f.payload_length > 0 {
            let enc = match f.canonical_encoding { CanonicalEncoding::Plain => "plain", CanonicalEncoding::Zstd => "zstd" };
            let role = match f.role { FrameRole::DocumentChunk => "chunk", _ => "doc" };
            add(f.payload_offset as usize, (f.payload_offset + f.payload_length) as usize, "payload", format!("{enc}_{role}"));
        }
    }
    // index segments
    if let Some(m) = &toc.time_index { add(m.bytes_offset as usize, (m.bytes_offset + m.bytes_length) as usize, "index", "time".into()); }
    if let Some(m) = &toc.indexes.lex { add(m.bytes_offset as usize, (m.bytes_offset + m.bytes_length) as usize, "index", "lex_legacy".into()); }
    if let Some(m) = &toc.indexes.vec { add(m.bytes_offset as usize, (m.bytes_offset + m.bytes_length) as usize, "index", "vec".into()); }
    if let Some(m) = &toc.memories_track { add(m.bytes_offset as usize, (m.bytes_offset + m.bytes_length) as usize, "index", "memories".into()); }
    if let Some(m) = &toc.logic_mesh { add(m.bytes_offset as usize, (m.bytes_offset + m.bytes_length) as usize, "index", "mesh".into()); }
    if let Some(m) = &toc.sketch_track { add(m.bytes_offset as usize, (m.bytes_offset + m.bytes_length) as usize, "index", "sketch".into()); }
    for s in &toc.segment_catalog.tantivy_segments {
        add(s.common.bytes_offset as usize, (s.common.bytes_offset + s.common.bytes_length) as usize, "index", "tantivy".into());
    }
    for s in &toc.segment_catalog.vec_segments {
        add(s.common.bytes_offset as usize, (s.common.bytes_offset + s.common.bytes_length) as usize, "index", "vec_segment".into());
    }
    for s in &toc.segment_catalog.time_segments {
        add(s.common.bytes_offset as usize, (s.common.bytes_offset + s.common.bytes_length) as usize, "index", "time_segment".into());
    }
    for s in &toc.segment_catalog.lex_segments {
        add(s.common.bytes_offset as usize, (s.common.bytes_offset + s.common.bytes_length) as usize, "index", "lex_segment".into());
    }
    for s in &toc.indexes.lex_segments {
        add(s.bytes_offset as usize, (s.bytes_offset + s.bytes_length) as usize, "index", "lex_manifest_segment".into());
    }
    add(toc_off, len - FOOTER_SIZE, "toc", "toc".into());
    let fo = len - FOOTER_SIZE;
    add(fo, fo + 8, "footer", "magic".into());
    add(fo + 8, fo + 16, "footer", "toc_len".into());
    add(fo + 16, fo + 48, "footer", "toc_hash".into());
    add(fo + 48, fo + 56, "footer", "generation".into());
    // first mark wins per byte (reused payloads / nested segment descriptions overlap); gaps = unreferenced
    let mut owner: Vec<u32> = vec![u32::MAX; len];
    for (i, m) in marks.iter().enumerate() {
        for o in m.start..m.end.min(len) { if owner[o] == u32::MAX { owner[o] = i as u32; } }
    }
    let mut spans: Vec<Span> = Vec::new();
    let mut s = 0usize;
    while s < len {
        let o = owner[s];
        let mut e = s + 1;
        while e < len && owner[e] == o { e += 1; }
        if o == u32::MAX { spans.push(Span { start: s, end: e, region: "gap".into(), sub: "unreferenced".into() }); }
        else { let m = &marks[o as usize]; spans.push(Span { start: s, end: e, region: m.region.clone(), sub: m.sub.clone() }); }
        s = e;
    }
    Ok(Layout { len, toc_off, wal_off, wal_size, wal_seq: hdr.wal_sequence, spans, toc })
}

impl Layout {
    fn span_of(&self, off: usize) -> &Span {
        let i = self.spans.partition_point(|s| s.end <= off);
        &self.spans[i.min(self.spans.len() - 1)]
    }
}

// =======================================================================================
// corruptions
#[derive(Clone, Debug, PartialEq)]
enum Mutn { Xor(usize, u8), Zero(usize, usize), Trunc(usize) }

impl Mutn {
    fn apply(&self, orig: &[u8]) -> Vec<u8> {
        let mut b = orig.to_vec();
        match *self {
            Mutn::Xor(o, m) => { b[o] ^= m; }
            Mutn::Zero(s, l) => { for x in &mut b[s..(s + l).min(orig.len())] { *x = 0; } }
            Mutn::Trunc(n) => { b.truncate(n); }
        }
        b
    }
    fn to_json(&self) -> Value {
        match *self {
            Mutn::Xor(o, m) => json!({"k": "xor", "off": o, "mask": m}),
            Mutn::Zero(s, l) => json!({"k": "zero", "off": s, "len": l}),
            Mutn::Trunc(n) => json!({"k": "trunc", "len": n}),
        }
    }
    fn from_json(v: &Value) -> Mutn {
        match v["k"].as_str().unwrap_or("") {
            "xor" => Mutn::Xor(v["off"].as_u64().unwrap() as usize, v["mask"].as_u64().unwrap() as u8),
            "zero" => Mutn::Zero(v["off"].as_u64().unwrap() as usize, v["len"].as_u64().unwrap() as usize),
            _ => Mutn::Trunc(v["len"].as_u64().unwrap() as usize),
        }
    }
    fn kind(&self) -> &'static str {
        match self { Mutn::Xor(_, 0xFF) => "xorFF", Mutn::Xor(_, _) => "xor01", Mutn::Zero(..) => "zero", Mutn::Trunc(_) => "trunc" }
    }
}

// =======================================================================================
// classification of one corrupted file against the original's observations (the oracle's view)
#[derive(Clone, Debug)]
struct Verdict {
    class: String, // detected | harmless | silent | verify-passed-but-differs | crash
    /// reads that returned different data without an error
    differs: Vec<String>,
    errors: Vec<String>,
    verify: String,
    panics: Vec<String>,
}

fn classify(orig: &BTreeMap<String, String>, got: &BTreeMap<String, String>) -> Verdict {
    let mut differs = Vec::new();
    let mut errors = Vec::new();
    let mut panics = Vec::new();
    for p in ["ro", "rw"] {
        let open = got.get(&format!("{p}.open")).cloned().unwrap_or_else(|| "missing".into());
        if open == "panic" { panics.push(format!("{p}.open")); continue; }
        if open != "ok" { errors.push(format!("{p}.open={open}")); continue; }
        // every read of the original must be reproduced or fail
        for (k, v) in orig.iter().filter(|(k, _)| k.starts_with(&format!("{p}.")) && !k.ends_with(".open")) {
            match got.get(k) {
                Some(g) if g == v => {}
                Some(g) if g.starts_with("err:") => errors.push(format!("{k}={g}")),
                Some(g) => differs.push(format!("{k}: {v} -> {g}")),
                None => differs.push(format!("{k}: {v} -> (absent)")),
            }
        }
        // reads that exist only on the corrupted file (extra frames)
        for (k, g) in got.iter().filter(|(k, _)| k.starts_with(&format!("{p}."))) {
            if !orig.contains_key(k) && !g.starts_with("err:") { differs.push(format!("{k}: (absent) -> {g}")); }
        }
    }
    let verify = got.get("verify").cloned().unwrap_or_else(|| "missing".into());
    if verify == "panic" { panics.push("verify".into()); }
    let class = if !differs.is_empty() {
        if verify == "ok:Passed" { "verify-passed-but-differs" } else { "silent" }
    } else if !errors.is_empty() || (verify != "ok:Passed" && verify != "panic") { "detected" }
    else if !panics.is_empty() { "crash" }
    else { "harmless" };
    Verdict { class: class.into(), differs, errors, verify, panics }
}

// =======================================================================================
// black-box facts for the model (computed with memvid_core's own codecs)
fn frame_desc(f: &Frame) -> String {
    let on = |v: Option<u64>| v.map(|x| x.to_string()).unwrap_or_else(|| "-".into());
    let manifest = if f.role == FrameRole::Document { f.chunk_manifest.as_ref().map(|m| m.chunks.len() as u64) } else { None };
    format!("{},{},{},{},{},{},{},{},{},{},{}",
        f.payload_offset, f.payload_length, hex::encode(f.checksum),
        if f.canonical_encoding == CanonicalEncoding::Zstd { 1 } else { 0 }, on(f.canonical_length),
        if f.status == FrameStatus::Active { 1 } else { 0 }, on(manifest),
        if f.role == FrameRole::DocumentChunk { 1 } else { 0 }, on(f.parent_id), on(f.chunk_index.map(u64::from)),
        b3short(frame_meta(f).as_bytes()))
}

/// (kind, offset, length, checksum) of every embedded segment, in the order the loaders use them
fn toc_segs(t: &Toc) -> Vec<(&'static str, u64, u64, [u8; 32])> {
    let mut v = Vec::new();
    if let Some(m) = &t.time_index { v.push(("time", m.bytes_offset, m.bytes_length, m.checksum)); }
    for s in &t.segment_catalog.tantivy_segments { v.push(("lex", s.common.bytes_offset, s.common.bytes_length, s.common.checksum)); }
    if let Some(m) = &t.indexes.vec { v.push(("vec", m.bytes_offset, m.bytes_length, m.checksum)); }
    if let Some(m) = &t.memories_track { v.push(("memories", m.bytes_offset, m.bytes_length, m.checksum)); }
    if let Some(m) = &t.logic_mesh { v.push(("mesh", m.bytes_offset, m.bytes_length, m.checksum)); }
    if let Some(m) = &t.sketch_track { v.push(("sketch", m.bytes_offset, m.bytes_length, m.checksum)); }
    v
}

fn toc_desc(t: &Toc) -> String {
    let ok = guarded(std::panic::AssertUnwindSafe(|| t.verify_checksum().is_ok())).unwrap_or(false);
    let frames: Vec<String> = t.frames.iter().map(frame_desc).collect();
    let segs: Vec<String> = toc_segs(t).iter().map(|(k, o, l, c)| format!("{k},{o},{l},{}", hex::encode(c))).collect();
    format!("{};{};{};{}", if ok { 1 } else { 0 }, b3short(format!("{t:?}").as_bytes()),
        if frames.is_empty() { "-".into() } else { frames.join("|") }, if segs.is_empty() { "-".into() } else { segs.join("|") })
}

fn decode_toc(b: &[u8]) -> Option<Toc> {
    guarded(std::panic::AssertUnwindSafe(|| Toc::decode(b).ok())).unwrap_or(None)
}

/// fingerprint of what an index segment decodes to (None = it does not decode)
fn view_of(kind: &str, b: &[u8]) -> Option<String> {
    let r = guarded(std::panic::AssertUnwindSafe(|| -> Option<String> {
        match kind {
            "time" => memvid_core::io::time_index::read_track(&mut std::io::Cursor::new(b), 0, b.len() as u64).ok()
                .map(|es| b3short(format!("{:?}", es.iter().map(|e| (e.timestamp, e.frame_id)).collect::<Vec<_>>()).as_bytes())),
            "vec" => memvid_core::vec::VecIndex::decode(b).ok().map(|ix| {
                let mut es: Vec<(u64, Vec<u32>)> = ix.entries().map(|(id, e)| (id, e.iter().map(|x| x.to_bits()).collect())).collect();
                es.sort();
                b3short(format!("{es:?}").as_bytes())
            }),
            "memories" => memvid_core::MemoriesTrack::deserialize(b).ok().map(|t| b3short(format!("{:?}", t.cards()).as_bytes())),
            "mesh" => memvid_core::LogicMesh::deserialize(b).ok().map(|t| b3short(format!("{t:?}").as_bytes())),
            "sketch" => memvid_core::types::read_sketch_track(&mut std::io::Cursor::new(b), 0, b.len() as u64).ok()
                .map(|t| b3short(format!("{:?}", t.iter().collect::<Vec<_>>()).as_bytes())),
            _ => None,
        }
    }));
    r.unwrap_or(None)
}

/// tolerant re-scan of the WAL region: (absolute payload offset, length, sequence) of every record header
/// that can be followed from the region start
fn wal_records(b: &[u8], off: usize, size: usize) -> Vec<(usize, usize, u64)> {
    let mut v = Vec::new();
    let mut cur = 0usize;
    while cur + WAL_HDR <= size && off + cur + WAL_HDR <= b.len() {
        let hb = &b[off + cur..];
        let seq = u64::from_le_bytes(hb[..8].try_into().unwrap());
        let l = u32::from_le_bytes(hb[8..12].try_into().unwrap()) as usize;
        if (seq == 0 && l == 0) || l == 0 || cur + WAL_HDR + l > size || off + cur + WAL_HDR + l > b.len() { break; }
        v.push((off + cur + WAL_HDR, l, seq));
        cur += WAL_HDR + l;
    }
    v
}

fn ranges_key(rs: &[(u64, u64)]) -> String { rs.iter().map(|(o, l)| format!("{o}+{l}")).collect::<Vec<_>>().join(",") }

/// facts about file `b`; `base` = (original bytes, original TOC description) or None when `b` IS the original
fn facts(b: &[u8], base: Option<(&[u8], &str)>) -> Vec<String> {
    let mut out: Vec<String> = Vec::new();
    let len = b.len();
    let foot = find_last_valid_footer(b);
    if base.is_some() { out.push(format!("footer={}", foot.as_ref().map(|s| s.footer_offset.to_string()).unwrap_or_else(|| "none".into()))); }
    let hdr = if len >= HEADER_SIZE { HeaderCodec::decode(b[..HEADER_SIZE].try_into().unwrap()).ok() } else { None };
    // TOC candidates
    let mut cands: Vec<(usize, usize)> = Vec::new();
    if let Some(h) = &hdr {
        let fo = h.footer_offset as usize;
        if len >= FOOTER_SIZE && fo < len - FOOTER_SIZE { cands.push((fo, len - FOOTER_SIZE - fo)); }
    }
    if let Some(s) = &foot { if !cands.contains(&(s.toc_offset, s.toc_bytes.len())) { cands.push((s.toc_offset, s.toc_bytes.len())); } }
    for (o, l) in cands {
        let t = decode_toc(&b[o..o + l]);
        let desc = t.as_ref().map(toc_desc);
        let same = match (&desc, base) { (Some(d), Some((_, bd))) => d == bd, _ => false };
        out.push(format!("toc@{o}+{l}={}", match &desc { None => "err".into(), Some(_) if same => "same".into(), Some(d) => d.clone() }));
        let Some(t) = t else { continue };
        let unchanged = |o: u64, l: u64| -> bool {
            match base { Some((ob, _)) => same && (o + l) as usize <= ob.len().min(len) && ob[o as usize..(o + l) as usize] == b[o as usize..(o + l) as usize], None => false }
        };
        for f in &t.frames {
            if f.canonical_encoding == CanonicalEncoding::Zstd && f.payload_length > 0 && f.payload_length < 1 << 24
                && (f.payload_offset.saturating_add(f.payload_length) as usize) <= len && !unchanged(f.payload_offset, f.payload_length) {
                let raw = &b[f.payload_offset as usize..(f.payload_offset + f.payload_length) as usize];
                let key = format!("uz@{}+{}=", f.payload_offset, f.payload_length);
                if out.iter().any(|x| x.starts_with(&key)) { continue; }
                out.push(format!("{key}{}", match memvid_core::verif_decode_zstd_payload(raw) { Some(d) if !d.is_empty() => hex::encode(d), Some(_) => "-".into(), None => "err".into() }));
            }
        }
        let segs = toc_segs(&t);
        for kind in ["time", "vec", "memories", "mesh", "sketch"] {
            let rs: Vec<(u64, u64)> = segs.iter().filter(|s| s.0 == kind && s.2 > 0).map(|s| (s.1, s.2)).collect();
            if rs.is_empty() || rs.iter().any(|(o, l)| o.saturating_add(*l) as usize > len || *l > 1 << 26) { continue; }
            if rs.iter().all(|(o, l)| unchanged(*o, *l)) { continue; }
            let bytes: Vec<u8> = rs.iter().flat_map(|(o, l)| b[*o as usize..(*o + *l) as usize].to_vec()).collect();
            let key = format!("view:{kind}@{}=", ranges_key(&rs));
            if out.iter().any(|x| x.starts_with(&key)) { continue; }
            out.push(format!("{key}{}", view_of(kind, &bytes).unwrap_or_else(|| "err".into())));
        }
    }
    // pre-footer TOC image (`scan_range_for_toc`): the trailing 32 bytes are blake3(body ++ 32 zero bytes); tested at the
    // offsets where a TOC can start (the header's hint and the original TOC offset) instead of every offset
    if let (Some((ob, bd)), true) = (base, foot.is_none()) {
        let mut offs: Vec<usize> = Vec::new();
        if let Some(h) = &hdr { offs.push(h.footer_offset as usize); }
        if ob.len() >= HEADER_SIZE { if let Ok(h0) = HeaderCodec::decode(ob[..HEADER_SIZE].try_into().unwrap()) { offs.push(h0.footer_offset as usize); } }
        offs.dedup();
        for o in offs {
            if o + 32 + 24 > len { continue; }
            let (body, stored) = b[o..].split_at(len - o - 32);
            let mut hsh = blake3::Hasher::new();
            hsh.update(body); hsh.update(&[0u8; 32]);
            if hsh.finalize().as_bytes() != stored { continue; }
            if let Some(t) = decode_toc(&b[o..]) {
                let d = toc_desc(&t);
                out.push(format!("legacy@{o}={}", if d == bd { "same".to_string() } else { d }));
                break;
            }
        }
    }
    // WAL entries (all of them for the original, the pending ones otherwise)
    if let Some(h) = &hdr {
        for (po, l, seq) in wal_records(b, h.wal_offset as usize, h.wal_size.min(1 << 32) as usize) {
            if base.is_some() && seq <= h.wal_sequence { continue; }
            let k = match memvid_core::memvid::mutation::verif_wal_entry_kind(&b[po..po + l]) { Some(1) => "ins", Some(_) => "other", None => "err" };
            out.push(format!("we@{po}+{l}={k}"));
        }
    }
    out
}

// =======================================================================================
// corruption plan
fn plan(lay: &Layout, orig: &[u8], rng: &mut Rng, thorough: bool) -> Vec<Mutn> {
    let mut v: Vec<Mutn> = Vec::new();
    // quick: (random positions besides the first and last byte of the span, probability of also flipping one bit)
    let samples = |sp: &Span| -> (usize, u64) {
        match (sp.region.as_str(), sp.sub.as_str()) {
            ("header", "padding") | ("header", "legacy_lock") => (0, 0),
            ("header", "toc_checksum") => (0, 4),
            ("header", "magic") | ("header", "version") | ("header", "spec") => (0, 4),
            ("header", _) => (2, 2),                 // the five u64 fields: 4 of 8 bytes
            ("footer", "toc_hash") => (1, 4),
            ("footer", _) => (0, 3),
            ("wal", "slack") => (1, 0),
            ("wal", s) if s.ends_with("_seq") => (1, 3),
            ("wal", _) => (0, 4),
            ("toc", _) => (12, 3),
            ("payload", "zstd_chunk") => (0, 4),
            ("payload", _) => (1, 3),
            ("index", "tantivy") => (0, 4),
            ("index", _) => (2, 3),
            _ => (0, 0),
        }
    };
    let mut wal_records_seen = 0;
    for sp in &lay.spans {
        let n = sp.end - sp.start;
        // quick tier: only the first and the last WAL record get the full treatment, plus the sequence of a few others
        if !thorough && sp.region == "wal" && sp.sub.starts_with("applied") {
            if sp.sub.ends_with("_seq") { wal_records_seen += 1; }
            let last = lay.spans.iter().filter(|s| s.sub == "applied_seq").count();
            if wal_records_seen != 1 && wal_records_seen != last && !(sp.sub.ends_with("_seq") && rng.chance(1, 4)) { continue; }
        }
        let (k, p01) = if thorough {
            // thorough: every byte of the header fields, the footer and the WAL record headers; dense samples elsewhere
            let cap = match (sp.region.as_str(), sp.sub.as_str()) {
                ("header", "padding") => 24, ("header", _) => n, ("footer", _) => n,
                ("wal", "slack") => 24, ("wal", x) if x.ends_with("_payload") => 12, ("wal", _) => n,
                ("toc", _) => 700, ("payload", _) => 48, ("index", _) => 48, _ => 8,
            };
            (cap, 1)
        } else { samples(sp) };
        let mut offs: Vec<usize> = if k >= n { (sp.start..sp.end).collect() } else {
            let mut o = vec![sp.start, sp.end - 1];
            for _ in 0..k { o.push(rng.usize(sp.start, sp.end - 1)); }
            o
        };
        offs.sort(); offs.dedup();
        for o in offs {
            v.push(Mutn::Xor(o, 0xFF));
            if thorough || (p01 > 0 && rng.chance(1, p01)) { v.push(Mutn::Xor(o, 0x01)); }
        }
    }
    // truncations at region boundaries ±1 (quick: the coarse regions, one offset each side)
    let mut bounds: Vec<usize> = if thorough { lay.spans.iter().map(|s| s.start).collect() } else {
        let mut b = vec![HEADER_SIZE, lay.wal_off + lay.wal_size, lay.toc_off, lay.len - FOOTER_SIZE];
        if let Some(s) = lay.spans.iter().find(|s| s.region == "index") { b.push(s.start); }
        b
    };
    bounds.push(lay.len);
    bounds.sort(); bounds.dedup();
    for &b in &bounds {
        for d in [-1i64, 0, 1] {
            let t = b as i64 + d;
            if !thorough && d == 1 && b != lay.len - FOOTER_SIZE { continue; }
            if t >= 0 && (t as usize) < lay.len { v.push(Mutn::Trunc(t as usize)); }
        }
    }
    // zeroed ranges: every span whole (quick: one per distinct label), and a short range straddling its start
    let mut seen: std::collections::BTreeSet<String> = Default::default();
    for sp in &lay.spans {
        if sp.region == "wal" && sp.sub == "slack" { continue; }
        let label = format!("{}/{}", sp.region, sp.sub);
        if !thorough && (!seen.insert(label) || sp.sub == "padding" || sp.sub == "legacy_lock") { continue; }
        if orig[sp.start..sp.end].iter().any(|&x| x != 0) { v.push(Mutn::Zero(sp.start, sp.end - sp.start)); }
        let s = sp.start.saturating_sub(1);
        let l = (sp.end - s).min(9);
        if orig[s..s + l].iter().any(|&x| x != 0) && (thorough || rng.chance(1, 6)) { v.push(Mutn::Zero(s, l)); }
    }
    v
}

/// hand-written corpus: the witnesses of every mechanism (located through the layout)
fn corpus(lay: &Layout, orig: &[u8]) -> Vec<Mutn> {
    let mut v = Vec::new();
    let first = |r: &str, s: &str| lay.spans.iter().find(|x| x.region == r && x.sub == s).map(|x| x.start);
    if let Some(o) = first("payload", "plain_doc") { v.push(Mutn::Xor(o + 11, 0x01)); }       // (a) the probe's witness
    if let Some(o) = first("payload", "zstd_chunk") { v.push(Mutn::Xor(o, 0xFF)); }
    v.push(Mutn::Zero(40, 8));                                                               // header.wal_sequence := 0
    v.push(Mutn::Xor(25, 0xFF));                                                             // header.wal_size
    if let Some(o) = first("wal", "applied_seq") { v.push(Mutn::Xor(o, 0xFF)); }             // first record's sequence
    if let Some(o) = first("index", "time") { v.push(Mutn::Xor(o + 12 + 16 + 8, 0x01)); }    // frame id of the 2nd entry
    if let Some(o) = first("index", "vec") { v.push(Mutn::Xor(o, 0x01)); }
    if let Some(o) = first("index", "sketch") { v.push(Mutn::Xor(o + 93237 - 93144, 0xFF)); }
    if let Some(o) = first("index", "tantivy") { v.push(Mutn::Xor(o, 0x01)); }
    if let Some(o) = first("index", "memories") { v.push(Mutn::Xor(o + 5, 0x01)); }
    // a Tantivy segment descriptor inside the TOC: byte 1 of the `bytes_length` of the last segment (its end moves past
    // the TOC offset → align_footer_with_catalog rewrites TOC + footer during a writable open)
    if let Some(seg) = lay.toc.segment_catalog.tantivy_segments.last() {
        let mut pat = seg.common.bytes_offset.to_le_bytes().to_vec();
        pat.extend_from_slice(&seg.common.bytes_length.to_le_bytes());
        let toc_end = lay.len - FOOTER_SIZE;
        if let Some(i) = (lay.toc_off..toc_end.saturating_sub(16)).rev().find(|&i| orig[i..i + 16] == pat[..]) {
            v.push(Mutn::Xor(i + 9, 0xFF));
        }
    }
    v.push(Mutn::Xor(lay.toc_off + 40, 0x01));
    v.push(Mutn::Xor(lay.len - FOOTER_SIZE + 20, 0x01));
    v.push(Mutn::Trunc(lay.len - 1));
    v
}

// =======================================================================================
// model prediction vs observation
fn parse_pred(line: &str) -> Option<BTreeMap<String, String>> {
    let rest = line.strip_prefix("pred ")?;
    Some(rest.split(' ').filter_map(|t| t.split_once('=').map(|(a, b)| (a.to_string(), b.to_string()))).collect())
}

fn status(orig: Option<&String>, got: Option<&String>) -> &'static str {
    match (orig, got) {
        (_, Some(g)) if g.starts_with("err:") => "err",
        (Some(o), Some(g)) if o == g => "same",
        _ => "diff",
    }
}

fn agg(sts: &[&'static str]) -> &'static str {
    if sts.iter().all(|s| *s == "same") { "same" } else if sts.iter().any(|s| *s == "diff") { "diff" } else { "err" }
}

/// compare the model's per-group statuses with what the implementation did; returns mismatches
fn compare_pred(pred: &BTreeMap<String, String>, base: &BTreeMap<String, String>, got: &BTreeMap<String, String>, n0: usize) -> Vec<String> {
    let mut bad = Vec::new();
    for p in ["ro", "rw"] {
        let open = got.get(&format!("{p}.open")).cloned().unwrap_or_default();
        if open == "panic" || open.is_empty() { continue; }
        let mo = pred.get(&format!("{p}.open")).cloned().unwrap_or_default();
        let impl_open = if open == "ok" { "ok" } else { "err" };
        let model_open = if mo == "ok" { "ok" } else { "err" };
        if impl_open != model_open { bad.push(format!("{p}.open impl={open} model={mo}")); continue; }
        if impl_open != "ok" { continue; }
        let mut chk = |name: &str, want: &str, have: &str| { if want != "any" && want != have { bad.push(format!("{p}.{name} impl={have} model={want}")); } };
        chk("count", pred.get(&format!("{p}.count")).map(|s| s.as_str()).unwrap_or("?"), status(base.get(&format!("{p}.count")), got.get(&format!("{p}.count"))));
        for (grp, key) in [("meta", "meta"), ("payload", "payload"), ("text", "text")] {
            let l: Vec<&str> = pred.get(&format!("{p}.{grp}")).map(|s| s.split(',').collect()).unwrap_or_default();
            for i in 0..n0 {
                let k = format!("{p}.f{i}.{key}");
                chk(&format!("f{i}.{key}"), l.get(i).copied().unwrap_or("?"), status(base.get(&k), got.get(&k)));
            }
        }
        let embs: Vec<&'static str> = (0..n0).map(|i| { let k = format!("{p}.f{i}.emb"); status(base.get(&k), got.get(&k)) }).collect();
        chk("emb", pred.get(&format!("{p}.emb")).map(|s| s.as_str()).unwrap_or("?"), agg(&embs));
        for g in ["timeline", "vsearch", "cards"] {
            let k = format!("{p}.{g}");
            chk(g, pred.get(&k).map(|s| s.as_str()).unwrap_or("?"), status(base.get(&k), got.get(&k)));
        }
        let ss: Vec<&'static str> = ["search.quantum", "search.granite", "search.harbor"].iter().map(|q| { let k = format!("{p}.{q}"); status(base.get(&k), got.get(&k)) }).collect();
        chk("search", pred.get(&format!("{p}.search")).map(|s| s.as_str()).unwrap_or("?"), agg(&ss));
    }
    let v = got.get("verify").cloned().unwrap_or_default();
    if v != "panic" && !v.is_empty() {
        let have = if v == "ok:Passed" { "passed" } else if v.starts_with("ok:") { "failed" } else { "err" };
        let mv = pred.get("verify").cloned().unwrap_or_default();
        let want = if mv.starts_with("err") { "err" } else { mv.as_str() };
        if have != want { bad.push(format!("verify impl={v} model={mv}")); }
    }
    if pred.get("xfooter").map(|s| s.as_str()) != Some("ok") { bad.push("find_last_valid_footer differs from the model's finder".into()); }
    if pred.get("tags").map(|s| s.contains("MISSING-FACT")).unwrap_or(false) { bad.push("model needed a black-box fact the harness did not supply".into()); }
    bad
}

/// oracle side: name the failure class of every silently differing read (independent of the model)
/// → (signature, model tag that must vouch for it when the signature is a listed finding)
fn signatures(v: &Verdict, touched: &[Span], n0: usize) -> Vec<(String, &'static str)> {
    let mut out: Vec<(String, &'static str)> = Vec::new();
    let mut push = |s: &str, t: &'static str| { if !out.iter().any(|(x, _)| x == s) { out.push((s.to_string(), t)); } };
    let hit = |r: &str, s: &str| touched.iter().any(|x| x.region == r && (s.is_empty() || x.sub == s));
    let sp = &touched[0];
    for p in ["ro", "rw"] {
        let mine: Vec<&String> = v.differs.iter().filter(|d| d.starts_with(&format!("{p}."))).collect();
        if mine.is_empty() { continue; }
        let replay = mine.iter().any(|d| d.starts_with(&format!("{p}.count:")));
        let read_errors = v.errors.iter().any(|e| e.starts_with(&format!("{p}.f")) && e.contains(".payload="));
        let payload_diff = mine.iter().any(|d| { let k = d.split(':').next().unwrap_or(""); k.ends_with(".payload") || k.ends_with(".blob") });
        for d in mine {
            let key = d.split(':').next().unwrap_or("");
            let fidx: Option<usize> = key.split('.').nth(1).and_then(|s| s.strip_prefix('f')).and_then(|s| s.parse().ok());
            if replay {
                if hit("header", "") { push("header-wal-sequence-lowered-replays-applied-records", "wal-replay"); }
                else if hit("wal", "") { push("wal-record-sequence-not-covered-by-record-hash", "wal-replay"); }
                else { push("unexpected-wal-replay", "wal-replay"); }
                continue;
            }
            if key.ends_with(".payload") || key.ends_with(".blob") || (key.ends_with(".text") && fidx.map(|i| i < n0).unwrap_or(false)) {
                push("payload-checksum-not-compared", "payload-unchecked");
            }
            else if key.ends_with(".timeline") && hit("index", "time") { push("time-index-checksum-not-compared", "time-unchecked"); }
            else if key.ends_with(".emb") || key.ends_with(".vsearch") { push("vec-index-load-failure-swallowed", "vec-unchecked"); }
            else if key.contains(".search.") || key.ends_with(".timeline") {
                if payload_diff { push("payload-checksum-not-compared", "payload-unchecked"); }
                else if hit("index", "tantivy") { push("lex-index-open-failure-falls-back-to-empty-index", "lex-unchecked|lex-swallowed"); }
                else if hit("index", "sketch") { push("sketch-track-checksum-not-compared", "sketch-unchecked"); }
                else if hit("toc", "") && p == "rw" { push("toc-corruption-laundered-by-footer-realign", "toc-laundered"); }
                else if read_errors { push("search-drops-hits-of-unreadable-frames", "search-swallows-read-errors"); }
                else { push(&format!("silent-change-{}-{}-search", sp.region, sp.sub), ""); }
            }
            else { push(&format!("silent-change-{}-{}-{}", sp.region, sp.sub, key.rsplit('.').next().unwrap_or("")), ""); }
        }
    }
    out
}

struct Ctx<'a> { orig: &'a [u8], lay: &'a Layout, base: &'a BTreeMap<String, String>, base_desc: String, sh: Shape, n0: usize, known: Vec<String>, use_model: bool, verbose: bool }

fn mut_wire(m: &Mutn) -> String {
    match *m { Mutn::Xor(o, k) => format!("xor:{o}:{k}"), Mutn::Zero(o, l) => format!("zero:{o}:{l}"), Mutn::Trunc(n) => format!("trunc:{n}") }
}

fn mut_offset(m: &Mutn, len: usize) -> usize { match *m { Mutn::Xor(o, _) => o, Mutn::Zero(s, _) => s, Mutn::Trunc(n) => n.min(len - 1) } }

fn evaluate(cx: &Ctx, m: &Mutn, got: &Result<BTreeMap<String, String>, String>, drv: &mut Driver, sum: &mut Summary) {
    let sp = cx.lay.span_of(mut_offset(m, cx.lay.len)).clone();
    let rel = mut_offset(m, cx.lay.len) - sp.start;
    let ordinal = cx.lay.spans.iter().filter(|s| s.region == sp.region && s.sub == sp.sub && s.start < sp.start).count();
    let case = json!({"shape": cx.sh.to_json(), "mutation": m.to_json(), "region": sp.region, "sub": sp.sub, "rel": rel, "ordinal": ordinal});
    let label = format!("{}/{} {}", sp.region, sp.sub, m.kind());
    let got = match got {
        Ok(g) => g,
        Err(e) => { sum.branch(&format!("child-{e}")); sum.case(&format!("{label}|child-{e}"), false, || json!({})); return; }
    };
    let v = classify(cx.base, got);
    sum.branch(&format!("class-{}", v.class));
    sum.branch(&format!("region-{}", sp.region));
    if !v.panics.is_empty() { sum.branch("child-panic-caught"); }
    // model
    let mut model_line = String::from("(no model)");
    let mut tags: Vec<String> = Vec::new();
    if cx.use_model {
        let mutated = m.apply(cx.orig);
        let mut fx = facts(&mutated, Some((cx.orig, &cx.base_desc)));
        let docs0 = |p: &str| cx.base.get(&format!("aux.{p}.lexdocs")).cloned().unwrap_or_default();
        for p in ["ro", "rw"] {
            let d = got.get(&format!("aux.{p}.lexdocs")).cloned().unwrap_or_default();
            if d == "Some(0)" && docs0(p) != "Some(0)" { fx.push(format!("lex{p}=fallback")); }
        }
        model_line = drv.ask(&format!("case src {} {}", mut_wire(m), fx.join(" ")));
        match parse_pred(&model_line) {
            Some(pred) => {
                tags = pred.get("tags").map(|t| t.split(',').map(|s| s.to_string()).collect()).unwrap_or_default();
                for t in &tags { if t != "-" { sum.branch(&format!("model-tag-{t}")); } }
                let bad = compare_pred(&pred, cx.base, got, cx.n0);
                if !bad.is_empty() {
                    sum.disagreement(&format!("{label}: {}", bad.join("; ")), case.clone(), &model_line, &format!("{:?}", v));
                }
            }
            None => sum.disagreement(&format!("{label}: driver answered {model_line}"), case.clone(), &model_line, ""),
        }
    }
    if cx.verbose {
        println!("mutation {:?} in {}/{} (+{rel})", m, sp.region, sp.sub);
        println!("impl : class={} verify={} differs={:?} errors={:?} panics={:?}", v.class, v.verify, v.differs, v.errors, v.panics);
        println!("model: {model_line}");
    }
    // oracle (independent of the model)
    let touched: Vec<Span> = match *m {
        Mutn::Zero(s0, l) => { let mut t = vec![sp.clone()]; for x in &cx.lay.spans { if x.start < s0 + l && s0 < x.end && x.start != sp.start { t.push(x.clone()); } } t }
        _ => vec![sp.clone()],
    };
    let sigs = signatures(&v, &touched, cx.n0);
    for (sig, tag) in &sigs {
        let what = format!("{label} at {}: {} read(s) differ without an error, e.g. {}; verify(deep)={}", mut_offset(m, cx.lay.len), v.differs.len(),
            v.differs.iter().find(|_| true).map(|s| s.chars().take(160).collect::<String>()).unwrap_or_default(), v.verify);
        if cx.known.contains(sig) && !tag.is_empty() && tags.iter().any(|t| tag.split('|').any(|x| x == t)) { sum.known_finding(sig, &what, case.clone()); }
        else { sum.oracle_violation(sig, &what, case.clone()); }
    }
    if v.class == "verify-passed-but-differs" {
        sum.oracle_violation("verify-deep-passes-on-a-file-whose-reads-differ", &format!("{label}: verify(deep)=Passed but {}", v.differs.iter().take(2).cloned().collect::<Vec<_>>().join(" | ").chars().take(300).collect::<String>()), case.clone());
    }
    let canon = format!("{label}|{}|{}|{:?}", mut_offset(m, cx.lay.len), v.class, v.errors.first());
    sum.case(&canon, v.class != "harmless", || json!({"mutation": m.to_json(), "region": sp.region, "sub": sp.sub, "class": v.class, "verify": v.verify,
        "first_error": v.errors.first(), "first_difference": v.differs.first().map(|s| s.chars().take(120).collect::<String>()), "model_tags": tags}));
}

fn run_all(cx: &Ctx, muts: &[Mutn], dir: &Path, jobs: usize, drv: &mut Driver, sum: &mut Summary) {
    let next = Arc::new(AtomicUsize::new(0));
    let results: Arc<Mutex<Vec<Option<Result<BTreeMap<String, String>, String>>>>> = Arc::new(Mutex::new(vec![None; muts.len()]));
    let muts_a = Arc::new(muts.to_vec());
    let orig = Arc::new(cx.orig.to_vec());
    let mut hs = Vec::new();
    for t in 0..jobs {
        let (next, results, muts_a, orig) = (next.clone(), results.clone(), muts_a.clone(), orig.clone());
        let p = dir.join(format!("w{t}.mv2"));
        hs.push(std::thread::spawn(move || loop {
            let i = next.fetch_add(1, Ordering::SeqCst);
            if i >= muts_a.len() { break; }
            let b = muts_a[i].apply(&orig);
            if std::fs::write(&p, &b).is_err() { results.lock().unwrap()[i] = Some(Err("write-failed".into())); continue; }
            let r = run_child(&p);
            results.lock().unwrap()[i] = Some(r);
        }));
    }
    // evaluate (facts, model, oracle) in plan order while the children of later cases are still running
    let t0 = Instant::now();
    let mut t_eval = 0.0f64;
    for (i, m) in muts.iter().enumerate() {
        let r = loop {
            if let Some(r) = results.lock().unwrap()[i].take() { break r; }
            std::thread::sleep(Duration::from_millis(5));
        };
        let t1 = Instant::now();
        evaluate(cx, m, &r, drv, sum);
        t_eval += t1.elapsed().as_secs_f64();
    }
    for h in hs { let _ = h.join(); }
    let t_children = t0.elapsed().as_secs_f64();
    sum.notes.push(format!("{} corrupted files: {:.0} s wall ({jobs} child jobs), of which facts + model + oracle {:.0} s (overlapped)", muts.len(), t_children, t_eval));
}

fn main() {
    let argv: Vec<String> = std::env::args().collect();
    if argv.get(1).map(|s| s.as_str()) == Some("child") { child_main(&argv[2]); }
    let args = parse_args();
    let use_model = args.driver.to_str() != Some("none");
    let mut drv = Driver::spawn(if use_model { &args.driver } else { Path::new("/bin/cat") }).expect("spawn driver");
    let mut sum = Summary::new("C20", &args,
        "committed closed .mv2 files built through the API (binary Plain payload, zstd text, chunked document, two embedded frames, \
         memory card; two commits; ~110 KiB incl. the 64 KiB WAL region) corrupted by single-byte XOR 0xFF / 0x01 at every header and \
         footer byte and at sampled positions of every other span (quick: 1-14 per span; thorough: 3 files, every byte of header fields, \
         footer and WAL record headers, 48 positions per payload / index span, 700 in the TOC), zeroed spans, truncations at region \
         boundaries ±1; each corrupted copy handled in a child process (verify(deep), open_read_only + all reads, open + all reads); \
         non-trivial = not classified harmless; distinct = region/sub + mutation kind + offset + class");
    sum.expect_branches(&["class-detected", "class-harmless", "region-header", "region-wal", "region-payload", "region-index", "region-toc", "region-footer"]);
    let known: Vec<String> = args.extra.get("known").map(|s| s.split(',').map(|x| x.to_string()).collect()).unwrap_or_default();
    let jobs = args.extra.get("jobs").and_then(|s| s.parse().ok()).unwrap_or(4usize);
    // scratch copies are rewritten thousands of times: keep them in memory-backed storage when there is one
    let dir = if std::env::var_os("TMPDIR").is_some() { tempfile::tempdir() }
        else { tempfile::Builder::new().prefix("c20-").tempdir_in("/dev/shm").or_else(|_| tempfile::tempdir()) }.expect("tempdir");
    let shapes: Vec<Shape> = if args.mode == "replay" {
        let case = load_replay(args.replay_file.as_ref().expect("replay file"));
        let input = case.get("input").unwrap_or(&case).clone();
        vec![Shape::from_json(&input["shape"])]
    } else if args.thorough {
        vec![Shape { seed: args.seed, bin_len: 500, commits: 2, with_vec: true, with_card: true, with_chunks: true },
             Shape { seed: args.seed + 1, bin_len: 64, commits: 1, with_vec: false, with_card: false, with_chunks: false },
             Shape { seed: args.seed + 2, bin_len: 2000, commits: 2, with_vec: true, with_card: true, with_chunks: false }]
    } else {
        vec![Shape { seed: args.seed, bin_len: 500, commits: 2, with_vec: true, with_card: true, with_chunks: true }]
    };
    for (si, sh) in shapes.iter().enumerate() {
        let path = dir.path().join(format!("orig{si}.mv2"));
        if let Err(e) = build_file(&path, sh) { sum.notes.push(format!("building the file failed: {e}")); sum.oracle_violation("file-build-failed", &e, sh.to_json()); continue; }
        let orig = std::fs::read(&path).unwrap();
        let lay = match layout(&orig) { Ok(l) => l, Err(e) => { sum.oracle_violation("layout-failed", &e, sh.to_json()); continue; } };
        let base = match run_child(&path) { Ok(b) => b, Err(e) => { sum.oracle_violation("original-file-kills-the-child", &e, sh.to_json()); continue; } };
        if base.get("verify").map(|s| s.as_str()) != Some("ok:Passed") || base.get("ro.open").map(|s| s.as_str()) != Some("ok") || base.get("rw.open").map(|s| s.as_str()) != Some("ok") {
            sum.oracle_violation("original-file-does-not-verify", &format!("verify={:?} ro={:?} rw={:?}", base.get("verify"), base.get("ro.open"), base.get("rw.open")), sh.to_json());
            continue;
        }
        let n0 = lay.toc.frames.len();
        let base_desc = toc_desc(&lay.toc);
        if use_model {
            let fx = facts(&orig, None);
            let a = drv.ask(&format!("load {} {}", hexw(&orig), fx.join(" ")));
            let want = format!("ok {} {}", orig.len(), orig.len() - FOOTER_SIZE);
            if a != want { sum.disagreement("driver load of the original file", sh.to_json(), &a, &want); continue; }
            // the uncorrupted file: the model must predict `same` everywhere and verify = passed
            let a = drv.ask(&format!("case src none footer={}", orig.len() - FOOTER_SIZE));
            let okp = parse_pred(&a).map(|p| p.iter().all(|(k, v)| match k.as_str() { "verify" => v == "passed", "tags" => v == "-", "xfooter" => v == "ok",
                _ if k.ends_with(".open") => v == "ok", _ => v.split(',').all(|x| x == "same") })).unwrap_or(false);
            if !okp { sum.disagreement("model on the uncorrupted file", sh.to_json(), &a, "all same, verify=passed"); continue; }
        }
        let cx = Ctx { orig: &orig, lay: &lay, base: &base, base_desc, sh: sh.clone(), n0, known: known.clone(), use_model, verbose: args.mode == "replay" };
        if args.mode == "replay" {
            let case = load_replay(args.replay_file.as_ref().unwrap());
            let input = case.get("input").unwrap_or(&case).clone();
            let mut m = Mutn::from_json(&input["mutation"]);
            // the file is rebuilt: if the span under the recorded offset is not the recorded one, relocate
            let (r, s) = (input["region"].as_str().unwrap_or(""), input["sub"].as_str().unwrap_or(""));
            let sp = lay.span_of(mut_offset(&m, lay.len));
            if !r.is_empty() && (sp.region != r || sp.sub != s) {
                let ord = input["ordinal"].as_u64().unwrap_or(0) as usize;
                if let Some(t) = lay.spans.iter().filter(|x| x.region == r && x.sub == s).nth(ord) {
                    let o = t.start + (input["rel"].as_u64().unwrap_or(0) as usize).min(t.end - t.start - 1);
                    m = match m { Mutn::Xor(_, k) => Mutn::Xor(o, k), Mutn::Zero(_, l) => Mutn::Zero(o, l), Mutn::Trunc(_) => Mutn::Trunc(o) };
                }
            }
            println!("file: {} bytes, {} frames; spans:", lay.len, n0);
            let p = dir.path().join("replay.mv2");
            std::fs::write(&p, m.apply(&orig)).unwrap();
            let r = run_child(&p);
            evaluate(&cx, &m, &r, &mut drv, &mut sum);
            sum.model_requests = drv.requests;
            sum.finish(&args);
        }
        let mut rng = Rng::new(args.seed.wrapping_add(si as u64));
        let mut muts = corpus(&lay, &orig);
        for m in plan(&lay, &orig, &mut rng, args.thorough) { if !muts.contains(&m) { muts.push(m); } }
        sum.notes.push(format!("file {si}: {} bytes, {} frames, {} spans, {} corruptions", lay.len, n0, lay.spans.len(), muts.len()));
        run_all(&cx, &muts, dir.path(), jobs, &mut drv, &mut sum);
    }
    let panics = sum.branches.get("child-panic-caught").copied().unwrap_or(0) + sum.branches.get("child-died").copied().unwrap_or(0) + sum.branches.get("child-hang").copied().unwrap_or(0);
    if panics > 0 { sum.notes.push(format!("{panics} corrupted files made the implementation panic/abort/hang in the child process (property C22, not a C20 verdict)")); }
    sum.model_requests = drv.requests;
    sum.finish(&args);
}
