/-
  Vacuum — `Memvid::vacuum` (src/memvid/mutation.rs) and the doctor's vacuum phase as VARIANTS over the
  shared Core model (property C42).

  Property C42 found three defects in `vacuum`; the repair (/verif/fixes/C42.diff) is in /repo as 0e33b6e and the
  shared model `MvModel/Core.lean` mirrors the repaired function.  This file states the function with the three
  repaired statements as switches, built from the SAME building blocks of the Core model:

    setsPayloadEnd   after the compaction loop:  `self.cached_payload_end = cursor;`
                     (without it `rebuild_indexes` starts the index region at the stale payload end; when two
                     active frames shared one stored range the rewritten payloads are LONGER than the old
                     region and the time index is written over the last payload)
    persistsSketch   after `rebuild_indexes`:  `if !sketch_track.is_empty() { persist_sketch_track; rewrite_toc_footer }`
                     (without it the rebuilt indexes may cover the bytes the sketch manifest points to)
    checkpoints      after `rebuild_indexes`:  `self.wal.record_checkpoint(&mut self.header)?; persist_header`
                     (without it the Lex record of the rebuild's Tantivy flush stays pending: `verify` = Failed)

  With all switches ON (`VacVariant.repaired`) `vacuumV` / `stepV` / `runV` ARE Core's `vacuum` / `step` / `run`
  (MvProps/C42Lemmas.lean: `vacuumV_repaired`, `stepV_repaired`, `runV_repaired`, by `rfl`); the property theorems
  are stated over Core's functions.  The pre-repair variant is kept for the counterexample theorems only.
  `codeVacuum` = the variant the translator `tools/gen/C42.py` reads off /repo's `fn vacuum`
  (`C42_code_is_repaired : codeVacuum = .repaired` breaks the build if the repair is ever reverted).
-/
import MvModel.Core
import MvModel.Gen.C42
namespace Mv.Core

structure VacVariant where
  setsPayloadEnd : Bool
  persistsSketch : Bool
  checkpoints : Bool
deriving DecidableEq, Repr, Inhabited

/-- the code with `/verif/fixes/C42.diff` applied (= /repo since 0e33b6e = the Core model) -/
def VacVariant.repaired : VacVariant := ⟨true, true, true⟩
/-- the code before 0e33b6e (counterexample theorems only) -/
def VacVariant.unrepaired : VacVariant := ⟨false, false, false⟩
/-- what /repo's `fn vacuum` looks like right now (generated) -/
def codeVacuum : VacVariant := ⟨Mv.Gen.C42.VACUUM_SETS_PAYLOAD_END, Mv.Gen.C42.VACUUM_PERSISTS_SKETCH, Mv.Gen.C42.VACUUM_CHECKPOINTS_WAL⟩

/-- compaction step: payload pointers rewritten, `data_end = cursor`, Tantivy state cleared, and
    `cached_payload_end = cursor` (Core's `compactFrames`); the pre-repair code left the payload end where it was -/
def Mem.compactFramesV (v : VacVariant) (m1 : Mem) : Mem :=
  if v.setsPayloadEnd then m1.compactFrames else { m1.compactFrames with payloadEnd := m1.payloadEnd }

/-- `vacuum()` -/
def Mem.vacuumV (v : VacVariant) (m : Mem) (ftCommit ftRebuild : Nat) : Mem × Out :=
  if (m.commit ftCommit).2.isAck then
    let r := ((m.commit ftCommit).1.compactFramesV v).rebuildIndexes [] [] ftRebuild
    let r1 := if v.persistsSketch then r.persistSketch.bumpFooter ftRebuild else r
    (if v.checkpoints then r1.checkpoint else r1, .ok)
  else m.commit ftCommit

/-- doctor, first stage: the file is opened (WAL replay) and optionally vacuumed -/
def Mem.doctorStage1V (v : VacVariant) (m : Mem) (vac : Bool) (ftDrop ftA ftB : Nat) : Mem :=
  if vac then (((m.dropHandle ftDrop).openFrom ftA).vacuumV v ftA ftB).1 else (m.dropHandle ftDrop).openFrom ftA

/-- `Memvid::doctor(path, opts)` (see `Mem.doctor` in Core.lean) with the variant's vacuum -/
def Mem.doctorV (v : VacVariant) (m : Mem) (vac rt rl rv : Bool) (ftDrop ftA ftB ftOpen : Nat) : Mem × Out :=
  (((((m.doctorStage1V v vac ftDrop ftA ftB).doctorStage2 (rt || rl || rv) rv ftB).resetWal).dropHandle ftB).openFrom ftOpen, .ok)

def stepV (v : VacVariant) (m : Mem) : Op → Mem × Out
  | .vacuum a b => m.vacuumV v a b
  | .doctor vac rt rl rv a b c d => m.doctorV v vac rt rl rv a b c d
  | op => step m op

def runV (v : VacVariant) (m : Mem) : List Op → Mem
  | [] => m
  | op :: ops => runV v (stepV v m op).1 ops

def traceV (v : VacVariant) (m : Mem) : List Op → List (Op × Out)
  | [] => []
  | op :: ops => (op, (stepV v m op).2) :: traceV v (stepV v m op).1 ops

end Mv.Core
