//! C39 — sketch term filter has no false negatives; sketch track round-trips.
//! impl: memvid_core::{build_term_filter, term_filter_maybe_contains, tokenize_for_sketch,
//! generate_sketch, QuerySketch, SketchTrack, write_sketch_track, read_sketch_track};
//! model: drv_c39; oracle: the two clauses restated over the implementation's own outputs.
use std::collections::HashMap;
use std::io::{Cursor, Seek, SeekFrom, Write};

use memvid_core::{
    Memvid, MemvidError, QuerySketch, SketchEntry, SketchFlags, SketchTrack, SketchVariant, build_term_filter,
    generate_sketch, hash_token, read_sketch_track, term_filter_maybe_contains, tokenize_for_sketch,
    write_sketch_track,
};
use mvh::*;

const SIG_IDS: &str = "sketch-track-frame-ids-not-stored";
const SIG_SMALL: &str = "sketch-track-small-variant-drops-fields";
const SIG_SHAPE: &str = "sketch-track-entry-shape-normalised";
static KNOWN: std::sync::OnceLock<Vec<String>> = std::sync::OnceLock::new();

// ------------------------------------------------------------------------------------------
// wire helpers
fn vname(v: SketchVariant) -> &'static str {
    match v { SketchVariant::Small => "small", SketchVariant::Medium => "medium", SketchVariant::Large => "large" }
}
fn vparse(s: &str) -> SketchVariant {
    match s { "small" => SketchVariant::Small, "medium" => SketchVariant::Medium, _ => SketchVariant::Large }
}
fn nats<T: ToString>(xs: &[T]) -> String {
    if xs.is_empty() { "-".into() } else { xs.iter().map(|x| x.to_string()).collect::<Vec<_>>().join(",") }
}
fn entry_line(e: &SketchEntry) -> String {
    format!("{}:{}:{}:{}:{}:{}:{}", e.frame_id, e.simhash, hexw(&e.term_filter), nats(&e.top_terms),
        e.term_weight_sum, e.flags.bits(), e.length_hint)
}
fn entries_line(es: &[SketchEntry]) -> String {
    if es.is_empty() { "-".into() } else { es.iter().map(entry_line).collect::<Vec<_>>().join(";") }
}
fn parse_entry(s: &str) -> SketchEntry {
    let p: Vec<&str> = s.split(':').collect();
    SketchEntry {
        frame_id: p[0].parse().unwrap(),
        simhash: p[1].parse().unwrap(),
        term_filter: unhexw(p[2]).unwrap(),
        top_terms: if p[3] == "-" { vec![] } else { p[3].split(',').map(|x| x.parse().unwrap()).collect() },
        term_weight_sum: p[4].parse().unwrap(),
        flags: SketchFlags::from_bits(p[5].parse().unwrap()),
        length_hint: p[6].parse().unwrap(),
    }
}
fn parse_entries(s: &str) -> Vec<SketchEntry> {
    if s == "-" { vec![] } else { s.split(';').map(parse_entry).collect() }
}
fn track_line(t: &SketchTrack) -> String {
    let es: Vec<SketchEntry> = t.iter().cloned().collect();
    format!("{} {} {}", vname(t.variant), t.len(), entries_line(&es))
}
fn tokens_line(ts: &[String]) -> String {
    if ts.is_empty() { "-".into() } else { ts.iter().map(|t| hex::encode(t.as_bytes())).collect::<Vec<_>>().join(",") }
}
fn stored_filter(v: SketchVariant) -> usize {
    match v { SketchVariant::Small => 16, _ => 32 }
}
fn stored_tops(v: SketchVariant) -> usize {
    match v { SketchVariant::Small => 2, _ => 4 }
}

// ------------------------------------------------------------------------------------------
// stream A: the bare filter
fn run_filter_case(size: usize, hashes: &[u64], probes: &[u64], drv: &mut Option<Driver>, sum: &mut Summary) {
    let hs = hashes.to_vec();
    let built = guarded(move || build_term_filter(&hs, size));
    let imp = match &built { Ok(f) => format!("ok {}", hexw(f)), Err(_) => "panic".to_string() };
    let case = json!({"kind": "filter", "size": size, "hashes": hashes.iter().map(|h| h.to_string()).collect::<Vec<_>>(),
                      "probes": probes.iter().map(|h| h.to_string()).collect::<Vec<_>>()});
    sum.branch(match size { 16 => "filter-size-16", 32 => "filter-size-32", 64 => "filter-size-64", 0 => "filter-size-0", _ => "filter-size-other" });
    if built.is_err() { sum.branch("filter-build-panic-size0"); }
    if let Some(d) = drv {
        let model = d.ask(&format!("filter {} {}", size, nats(hashes)));
        if model != imp { sum.disagreement("build_term_filter vs model", case.clone(), &model, &imp); }
    }
    if let Ok(f) = &built {
        // clause 1 on the implementation alone: every inserted hash is reported as possibly present
        for &h in hashes {
            let ff = f.clone();
            match guarded(move || term_filter_maybe_contains(&ff, h)) {
                Ok(true) => {}
                other => sum.oracle_violation("filter-false-negative",
                    &format!("hash {h} was inserted into a {size}-byte filter but term_filter_maybe_contains gives {other:?}"), case.clone()),
            }
        }
        // correspondence of the membership test on hashes that were not inserted (false positives allowed)
        for &p in probes {
            let ff = f.clone();
            let r = guarded(move || term_filter_maybe_contains(&ff, p));
            let imp_c = match r { Ok(b) => b.to_string(), Err(_) => "panic".into() };
            if imp_c == "panic" { sum.branch("contains-panic-empty-filter"); }
            if imp_c == "false" { sum.branch("contains-false"); }
            if let Some(d) = drv {
                let model = d.ask(&format!("contains {} {}", hexw(f), p));
                if model != imp_c { sum.disagreement("term_filter_maybe_contains vs model", case.clone(), &model, &imp_c); }
            }
        }
    }
    let canon = format!("F|{}|{}|{}", size, nats(hashes), imp);
    sum.case(&canon, size > 0 && !hashes.is_empty(), || json!({"kind": "filter", "size": size, "n_hashes": hashes.len(), "impl": imp}));
}

fn gen_hash(rng: &mut Rng) -> u64 {
    match rng.below(10) {
        0 => *rng.pick(&[0u64, 1, 127, 128, 255, 256, 511, 512, 65535, 65536, u32::MAX as u64, 1 << 32, u64::MAX, u64::MAX - 1, 1 << 63]),
        1 => rng.below(1024),
        2 => (rng.below(512) << 32) | (rng.below(512) << 16) | rng.below(512),
        3 => rng.u64() & 0xFFFF_FFFF,
        _ => rng.u64(),
    }
}

fn gen_filter_case(rng: &mut Rng, drv: &mut Option<Driver>, sum: &mut Summary) {
    let size = match rng.below(12) {
        0 => 0, 1 => 1, 2 => rng.usize(2, 15), 3 => rng.usize(17, 130),
        4 | 5 | 6 => 16, 7 | 8 => 32, _ => 64,
    };
    let n = if rng.chance(1, 10) { 0 } else { rng.usize(1, 24) };
    let hashes: Vec<u64> = (0..n).map(|_| gen_hash(rng)).collect();
    let probes: Vec<u64> = (0..rng.usize(0, 3)).map(|_| gen_hash(rng)).collect();
    run_filter_case(size, &hashes, &probes, drv, sum);
}

// ------------------------------------------------------------------------------------------
// stream B: sketch generation (tokenizer → weights → simhash/filter/top terms)
fn weights_for(tokens: &[String], idf: &HashMap<String, f32>) -> Vec<i32> {
    // the weight formula of compute_token_weights, per distinct token in first-occurrence order
    let mut seen: Vec<&str> = vec![];
    for t in tokens { if !seen.contains(&t.as_str()) { seen.push(t); } }
    seen.iter().map(|t| {
        let count = tokens.iter().filter(|x| x.as_str() == *t).count() as u32;
        let capped = count.min(3) as f32;
        let i = idf.get(*t).copied().unwrap_or(1.0).max(0.1);
        let w = (capped * i * 100.0) as i32;
        w.max(1)
    }).collect()
}

fn run_sketch_case(text: &str, variant: SketchVariant, frame_id: u64, idf: &[(String, u32)], query_extra: &str,
                   drv: &mut Option<Driver>, sum: &mut Summary) {
    let case = json!({"kind": "sketch", "variant": vname(variant), "id": frame_id.to_string(), "text": hexw(text.as_bytes()),
                      "idf": idf.iter().map(|(t, b)| json!([hexw(t.as_bytes()), b])).collect::<Vec<_>>(),
                      "query_extra": hexw(query_extra.as_bytes())});
    let tokens = tokenize_for_sketch(text);
    let idf_map: HashMap<String, f32> = idf.iter().map(|(t, b)| (t.clone(), f32::from_bits(*b))).collect();
    let use_idf = !idf.is_empty();
    let (t2, m2) = (text.to_string(), idf_map.clone());
    let made = guarded(move || generate_sketch(frame_id, &t2, variant, if use_idf { Some(&m2) } else { None }));
    let imp = match &made { Ok(e) => format!("ok {}", entry_line(e)), Err(_) => "panic".to_string() };
    sum.branch(match variant { SketchVariant::Small => "sketch-small", SketchVariant::Medium => "sketch-medium", SketchVariant::Large => "sketch-large" });
    if tokens.is_empty() { sum.branch("sketch-no-tokens"); }
    if tokens.len() >= 50 { sum.branch("sketch-50-or-more-tokens"); }
    if use_idf { sum.branch("sketch-with-idf"); }
    if made.is_err() { sum.branch("sketch-weight-sum-overflow-panic"); }
    let ascii = text.is_ascii();
    sum.branch(if ascii { "sketch-ascii-text" } else { "sketch-non-ascii-text" });
    if let Some(d) = drv {
        if ascii {
            let mt = d.ask(&format!("tok {}", hexw(text.as_bytes())));
            let it = tokens_line(&tokens);
            if mt != it { sum.disagreement("tokenize_for_sketch (ASCII) vs model", case.clone(), &mt, &it); }
        }
        let model = if ascii && !use_idf {
            d.ask(&format!("sketch {} {} {}", vname(variant), frame_id, hexw(text.as_bytes())))
        } else {
            let ws = if use_idf { nats(&weights_for(&tokens, &idf_map)) } else { "-".to_string() };
            d.ask(&format!("sketcht {} {} {} {}", vname(variant), frame_id, tokens_line(&tokens), ws))
        };
        if model != imp { sum.disagreement("generate_sketch vs model", case.clone(), &model, &imp); }
    }
    if let Ok(e) = &made {
        // clause 1: every token the tokenizer produced is possibly present in the text's filter
        for t in &tokens {
            let (f, h) = (e.term_filter.clone(), hash_token(t));
            match guarded(move || term_filter_maybe_contains(&f, h)) {
                Ok(true) => {}
                other => sum.oracle_violation("sketch-filter-false-negative",
                    &format!("token {t:?} of the text is not reported by its sketch filter ({other:?})"), case.clone()),
            }
        }
        if e.term_filter.len() != variant.term_filter_size() {
            sum.oracle_violation("sketch-filter-wrong-size", &format!("filter has {} bytes", e.term_filter.len()), case.clone());
        }
        // consequence used by candidate search: a query sharing a token overlaps the text's filter
        if !tokens.is_empty() {
            let shared = &tokens[(frame_id as usize) % tokens.len()];
            let query = format!("{shared} {query_extra}");
            let q = QuerySketch::from_query(&query, variant);
            if !e.term_filter_maybe_overlaps(&q.term_filter) {
                sum.oracle_violation("query-sharing-a-token-does-not-overlap",
                    &format!("query {query:?} shares token {shared:?} but term_filter_maybe_overlaps is false"), case.clone());
            }
            if let Some(d) = drv {
                let qt = tokenize_for_sketch(&query);
                let mq = d.ask(&format!("qfilter {} {}", vname(variant), tokens_line(&qt)));
                let iq = format!("ok {}", hexw(&q.term_filter));
                if mq != iq { sum.disagreement("QuerySketch::from_query filter vs model", case.clone(), &mq, &iq); }
                let mo = d.ask(&format!("overlaps {} {}", hexw(&e.term_filter), hexw(&q.term_filter)));
                if mo != "true" { sum.disagreement("term_filter_maybe_overlaps vs model", case.clone(), &mo, "true"); }
            }
        }
    }
    let canon = format!("S|{}|{}|{}|{:?}|{}", vname(variant), frame_id, text, idf, imp);
    sum.case(&canon, !tokens.is_empty(), || json!({"kind": "sketch", "variant": vname(variant), "tokens": tokens.len(), "ascii": ascii, "impl": imp}));
}

const WORDS: &[&str] = &["cats", "Dogs", "are", "a", "I", "wonderful", "PETS", "x1", "42", "7", "rust", "memory", "safety", "the",
    "Quick", "brown", "fox", "jumps", "over", "lazy", "dog", "naïve", "café", "Ünïcödé", "ﬁne", "ＡＢＣ", "İstanbul", "straße",
    "ΣΊΣΥΦΟΣ", "日本語", "한국어", "e\u{301}", "x²", "½", "🙂", "a_b", "don't", "co-op", "3.14", "ǅ", "ß", "ab", "zz", "q"];
const SEPS: &[&str] = &[" ", "  ", ", ", ".", "\n", "\t", "-", "_", "!?", "/", "'", "\u{a0}", "—", "·"];

fn gen_text(rng: &mut Rng, ascii_only: bool) -> String {
    let n = match rng.below(12) { 0 => 0, 1 => 1, 2 => rng.usize(45, 55), 3 => rng.usize(95, 130), _ => rng.usize(2, 30) };
    let mut s = String::new();
    if rng.chance(1, 8) { s.push_str(*rng.pick(SEPS)); }
    let mut prev: Vec<String> = vec![];
    for _ in 0..n {
        let w: String = if !prev.is_empty() && rng.chance(1, 3) {
            rng.pick(&prev).clone()       // repeats: term frequency 2, 3, more than the cap
        } else if rng.chance(1, 4) {
            let l = rng.usize(1, 9);
            (0..l).map(|_| *rng.pick(&[b'a', b'b', b'Z', b'0', b'9', b'q', b'M'] ) as char).collect()
        } else {
            rng.pick(WORDS).to_string()
        };
        if ascii_only && !w.is_ascii() { continue; }
        prev.push(w.clone());
        s.push_str(&w);
        let sep: &str = *rng.pick(SEPS);
        if ascii_only && !sep.is_ascii() { s.push(' '); } else { s.push_str(sep); }
    }
    if ascii_only && rng.chance(1, 10) { s.push(rng.range(0, 127) as u8 as char); }
    s
}

fn gen_sketch_case(rng: &mut Rng, drv: &mut Option<Driver>, sum: &mut Summary) {
    let ascii_only = rng.chance(3, 5);
    let text = gen_text(rng, ascii_only);
    let variant = *rng.pick(&[SketchVariant::Small, SketchVariant::Small, SketchVariant::Medium, SketchVariant::Large]);
    let id = match rng.below(6) { 0 => u64::MAX, 1 => rng.u64(), _ => rng.below(1000) };
    let mut idf: Vec<(String, u32)> = vec![];
    if rng.chance(1, 4) {
        let toks = tokenize_for_sketch(&text);
        for t in toks.iter() {
            if rng.chance(1, 2) && !idf.iter().any(|(x, _)| x == t) {
                let v: f32 = *rng.pick(&[0.0f32, 0.05, 0.1, 0.5, 1.0, 1.5, 2.5, 7.3, 0.013, 655.36, 3.0e7, 1.0e9, f32::NAN, -1.0, f32::INFINITY]);
                idf.push((t.clone(), v.to_bits()));
            }
        }
        if idf.is_empty() { idf.push(("absent".into(), 2.0f32.to_bits())); }
    }
    let extra = gen_text(rng, ascii_only);
    run_sketch_case(&text, variant, id, &idf, &extra, drv, sum);
    if rng.chance(1, 4) { run_reload_filter_case(&text, variant, drv, sum); }
}

// ------------------------------------------------------------------------------------------
// stream C: track write → read
fn err_line(e: &MemvidError) -> String {
    match e {
        MemvidError::InvalidSketchTrack { reason } => {
            if reason.starts_with("Invalid sketch track magic") { "err magic".into() }
            else if reason.starts_with("Unknown sketch entry size") { "err entry-size".into() }
            else if reason.contains("less than expected") { "err length".into() }
            else if reason.contains("overflow") { "err overflow".into() }
            else { format!("err other-invalid:{reason}") }
        }
        MemvidError::Io { .. } => "err io".into(),
        other => format!("err other:{other:?}").replace(' ', "_"),
    }
}
fn panic_line(msg: &str) -> String {
    if msg.contains("multiply with overflow") { "panic mul".into() }
    else if msg.contains("add with overflow") { "panic add".into() }
    else { format!("panic other:{}", msg.replace(' ', "_")) }
}
fn read_impl(file: &[u8], offset: u64, length: u64) -> String {
    let f = file.to_vec();
    match guarded(move || { let mut c = Cursor::new(f); read_sketch_track(&mut c, offset, length) }) {
        Ok(Ok(t)) => format!("ok {}", track_line(&t)),
        Ok(Err(e)) => err_line(&e),
        Err(m) => panic_line(&m),
    }
}

/// the independent restatement of the part of clause 2 that is expected to hold for EVERY track:
/// position i keeps simhash; the filter when it has the stored size; the top terms up to zero padding
fn partial_ok(v: SketchVariant, before: &[SketchEntry], after: &[SketchEntry]) -> Result<(), String> {
    if before.len() != after.len() { return Err(format!("entry count {} -> {}", before.len(), after.len())); }
    let (fs, ts) = (stored_filter(v), stored_tops(v));
    for (i, (b, a)) in before.iter().zip(after).enumerate() {
        if a.simhash != b.simhash { return Err(format!("position {i}: simhash changed")); }
        if b.term_filter.len() == fs && a.term_filter != b.term_filter { return Err(format!("position {i}: filter changed")); }
        let mut want: Vec<u32> = b.top_terms.iter().take(ts).copied().collect();
        want.resize(ts, 0);
        if a.top_terms != want { return Err(format!("position {i}: top terms {:?} -> {:?}", b.top_terms, a.top_terms)); }
        if v != SketchVariant::Small && (a.term_weight_sum != b.term_weight_sum || a.flags != b.flags || a.length_hint != b.length_hint) {
            return Err(format!("position {i}: weight sum / flags / length hint changed in a {} track", vname(v)));
        }
        if a.frame_id != i as u64 { return Err(format!("position {i}: reader assigned id {}", a.frame_id)); }
    }
    Ok(())
}

fn run_track_case(variant: SketchVariant, inserts: &[SketchEntry], pre: usize, post: &[u8], drv: &mut Option<Driver>, sum: &mut Summary) {
    let wire = entries_line(inserts);
    let case = json!({"kind": "track", "variant": vname(variant), "entries": wire, "pre": pre, "post": hexw(post)});
    let mut track = SketchTrack::new(variant);
    let mut replaced = false;
    for e in inserts {
        if track.get(e.frame_id).is_some() { replaced = true; }
        track.insert(e.clone());
    }
    if replaced { sum.branch("track-insert-replaces-existing-id"); }
    let before: Vec<SketchEntry> = track.iter().cloned().collect();
    // write after `pre` bytes of unrelated data, then append `post`
    let mut cur = Cursor::new(vec![0xA5u8; pre]);
    cur.seek(SeekFrom::End(0)).unwrap();
    let (offset, length, checksum) = match write_sketch_track(&mut cur, &track) {
        Ok(x) => x,
        Err(e) => { sum.oracle_violation("write-failed", &format!("{e:?}"), case); return; }
    };
    cur.seek(SeekFrom::End(0)).unwrap();
    cur.write_all(post).unwrap();
    let file = cur.into_inner();
    let written = &file[offset as usize..(offset + length) as usize];
    let imp_write = format!("{} {} {}", hexw(written), length, hex::encode(checksum));
    let imp_read = read_impl(&file, offset, length);
    sum.branch(match variant { SketchVariant::Small => "track-small", SketchVariant::Medium => "track-medium", SketchVariant::Large => "track-large" });
    if before.is_empty() { sum.branch("track-empty"); }
    let mut model_read = None;
    if let Some(d) = drv {
        let mt = d.ask(&format!("track {} {}", vname(variant), wire));
        let it = track_line(&track);
        if mt != it { sum.disagreement("SketchTrack::insert/iter vs model", case.clone(), &mt, &it); }
        let mw = d.ask(&format!("write {} {}", vname(variant), wire));
        if mw != imp_write { sum.disagreement("write_sketch_track vs model", case.clone(), &mw, &imp_write); }
        let mr = d.ask(&format!("read {} {} {}", hexw(&file), offset, length));
        if mr != imp_read { sum.disagreement("read_sketch_track vs model", case.clone(), &mr, &imp_read); }
        let mn = d.ask(&format!("norm {} {}", vname(variant), wire));
        if format!("ok {mn}") != imp_read { sum.disagreement("read-back track vs the model's normal form (theorem C39_track_normal_form)", case.clone(), &mn, &imp_read); }
        model_read = Some(mr);
    }
    // clause 2 on the implementation alone
    let f2 = file.clone();
    let back = guarded(move || { let mut c = Cursor::new(f2); read_sketch_track(&mut c, offset, length) });
    let canon = format!("T|{}|{}|{}|{}", vname(variant), wire, pre, imp_read);
    let n = before.len();
    match back {
        Ok(Ok(t2)) => {
            let after: Vec<SketchEntry> = t2.iter().cloned().collect();
            let identical = t2.variant == track.variant && t2.len() == track.len() && after == before
                && before.iter().all(|e| t2.get(e.frame_id) == track.get(e.frame_id));
            if let Err(why) = partial_ok(variant, &before, &after) {
                sum.oracle_violation("track-partial-round-trip-broken", &why, case.clone());
            } else if t2.variant != track.variant {
                sum.oracle_violation("track-variant-changed", &format!("{} -> {}", vname(track.variant), vname(t2.variant)), case.clone());
            } else if identical {
                sum.branch("track-round-trip-identical");
                // identical filters: clause 1 carries over to the re-read entries (nothing more to check)
            } else {
                // which recorded failure class explains the difference?
                let ids_dense = before.iter().enumerate().all(|(i, e)| e.frame_id == i as u64);
                let small_fields = variant == SketchVariant::Small
                    && before.iter().any(|e| e.term_weight_sum != 0 || e.flags.bits() != 7 || e.length_hint != 0);
                let shape = before.iter().any(|e| e.term_filter.len() != stored_filter(variant) || e.top_terms.len() != stored_tops(variant));
                let sig = if !ids_dense { Some(SIG_IDS) } else if small_fields { Some(SIG_SMALL) } else if shape { Some(SIG_SHAPE) } else { None };
                let first = before.iter().zip(&after).find(|(b, a)| b != a).map(|(b, a)| format!("{} -> {}", entry_line(b), entry_line(a))).unwrap_or_default();
                let what = format!("track of {n} entries is not identical after write+read; first difference: {first}");
                let known = KNOWN.get().cloned().unwrap_or_default();
                let predicted = model_read.as_deref().map(|m| m == imp_read).unwrap_or(false);
                match sig {
                    Some(s) if predicted && known.iter().any(|k| k == s) => {
                        sum.branch(match s { SIG_IDS => "known-ids-not-stored", SIG_SMALL => "known-small-drops-fields", _ => "known-shape-normalised" });
                        sum.known_finding(s, &what, case.clone());
                    }
                    Some(s) => sum.oracle_violation(s, &what, case.clone()),
                    None => sum.oracle_violation("track-round-trip-differs-unclassified", &what, case.clone()),
                }
            }
        }
        Ok(Err(e)) => sum.oracle_violation("track-read-back-failed", &format!("reading back a written track failed: {e:?}"), case.clone()),
        Err(m) => sum.oracle_violation("track-read-back-panicked", &format!("reading back a written track panicked: {m}"), case.clone()),
    }
    sum.case(&canon, n > 0, || json!({"kind": "track", "variant": vname(variant), "entries": n, "pre": pre, "post": post.len()}));
}

fn gen_u16(rng: &mut Rng) -> u16 {
    match rng.below(5) { 0 => 0, 1 => u16::MAX, 2 => rng.below(256) as u16, _ => rng.u64() as u16 }
}
fn gen_u32(rng: &mut Rng) -> u32 {
    match rng.below(6) { 0 => 0, 1 => u32::MAX, 2 => rng.below(256) as u32, _ => rng.u64() as u32 }
}
fn gen_u64(rng: &mut Rng) -> u64 {
    match rng.below(6) { 0 => 0, 1 => u64::MAX, 2 => rng.below(256), _ => rng.u64() }
}

/// style 0: canonical for the variant (round-trips exactly when ids are dense); 1: generate_sketch output;
/// 2: arbitrary shape
fn gen_entry(rng: &mut Rng, id: u64, variant: SketchVariant, style: u64) -> SketchEntry {
    match style {
        0 => {
            let small = variant == SketchVariant::Small;
            SketchEntry {
                frame_id: id, simhash: gen_u64(rng),
                term_filter: if rng.chance(1, 8) { vec![0xFF; stored_filter(variant)] } else { rng.bytes(stored_filter(variant)) },
                top_terms: (0..stored_tops(variant)).map(|_| gen_u32(rng)).collect(),
                term_weight_sum: if small { 0 } else { gen_u16(rng) },
                flags: SketchFlags::from_bits(if small { 7 } else { gen_u16(rng) }),
                length_hint: if small { 0 } else { gen_u16(rng) },
            }
        }
        1 => {
            let v = if rng.chance(1, 5) { *rng.pick(&[SketchVariant::Small, SketchVariant::Medium, SketchVariant::Large]) } else { variant };
            let text = gen_text(rng, false);
            generate_sketch(id, &text, v, None)
        }
        _ => {
            let fl = *rng.pick(&[0usize, 1, 5, 15, 16, 17, 31, 32, 33, 63, 64, 65, 100]);
            let tl = rng.usize(0, 8);
            SketchEntry {
                frame_id: id, simhash: gen_u64(rng), term_filter: rng.bytes(fl),
                top_terms: (0..tl).map(|_| gen_u32(rng)).collect(),
                term_weight_sum: gen_u16(rng), flags: SketchFlags::from_bits(gen_u16(rng)), length_hint: gen_u16(rng),
            }
        }
    }
}

fn gen_track_case(rng: &mut Rng, thorough: bool, drv: &mut Option<Driver>, sum: &mut Summary) {
    let variant = *rng.pick(&[SketchVariant::Small, SketchVariant::Medium, SketchVariant::Large]);
    let maxn = if thorough { 60 } else { 24 };
    let n = match rng.below(10) { 0 => 0, 1 => 1, _ => rng.usize(2, maxn) };
    // frame ids: dense in order (the only layout the format can represent) / shuffled / gaps / huge / repeats
    let id_style = rng.below(10);
    let mut ids: Vec<u64> = (0..n as u64).collect();
    match id_style {
        0..=4 => {}
        5 => rng.shuffle(&mut ids),
        6 => { let mut next = rng.below(3); for x in ids.iter_mut() { *x = next; next += 1 + rng.below(3); } }
        7 => { for x in ids.iter_mut() { *x = gen_u64(rng); } }
        8 => { for x in ids.iter_mut() { *x = rng.below((n as u64 / 2).max(1)); } }
        _ => { for x in ids.iter_mut() { *x += 1; } }
    }
    let entry_style = match rng.below(10) { 0..=5 => 0, 6 | 7 => 1, _ => 2 };
    let inserts: Vec<SketchEntry> = ids.iter().map(|&id| {
        let st = if rng.chance(1, 12) { rng.below(3) } else { entry_style };
        gen_entry(rng, id, variant, st)
    }).collect();
    let pre = if rng.chance(1, 2) { 0 } else { rng.usize(1, 200) };
    let post = if rng.chance(1, 2) { vec![] } else { let k = rng.usize(1, 120); rng.bytes(k) };
    run_track_case(variant, &inserts, pre, &post, drv, sum);
}

// ------------------------------------------------------------------------------------------
// stream D: the reader on arbitrary / damaged bytes (correspondence; reader panics are reported as notes —
// they concern property C22, not C39)
fn run_read_case(file: &[u8], offset: u64, length: u64, drv: &mut Option<Driver>, sum: &mut Summary) {
    let case = json!({"kind": "read", "file": hexw(file), "offset": offset.to_string(), "length": length.to_string()});
    let imp = read_impl(file, offset, length);
    let b = if imp.starts_with("ok") { "read-ok".to_string() } else { format!("read-{}", imp.split(' ').take(2).collect::<Vec<_>>().join("-")) };
    sum.branch(&b);
    if imp.starts_with("panic") {
        let note = format!("read_sketch_track panics ({imp}) on a crafted header: file={} offset={offset} length={length} (witness for C22)", hexw(&file[..file.len().min(64)]));
        if sum.notes.len() < 3 { sum.notes.push(note); }
    }
    if let Some(d) = drv {
        let model = d.ask(&format!("read {} {} {}", hexw(file), offset, length));
        if model != imp { sum.disagreement("read_sketch_track (damaged input) vs model", case.clone(), &model, &imp); }
    }
    let canon = format!("R|{}|{}|{}|{}", b3short(file), offset, length, imp);
    sum.case(&canon, !imp.starts_with("err io") || file.len() >= 24, || json!({"kind": "read", "file_len": file.len(), "offset": offset.to_string(), "length": length.to_string(), "impl": imp}));
}

fn gen_read_case(rng: &mut Rng, drv: &mut Option<Driver>, sum: &mut Summary) {
    // start from a genuine written track
    let variant = *rng.pick(&[SketchVariant::Small, SketchVariant::Medium, SketchVariant::Large]);
    let n = rng.usize(0, 6);
    let mut track = SketchTrack::new(variant);
    for i in 0..n { let st = rng.below(3); track.insert(gen_entry(rng, i as u64, variant, st)); }
    let pre = if rng.chance(1, 2) { 0 } else { rng.usize(1, 40) };
    let mut cur = Cursor::new(rng.bytes(pre));
    cur.seek(SeekFrom::End(0)).unwrap();
    let (mut offset, mut length, _) = write_sketch_track(&mut cur, &track).unwrap();
    let mut file = cur.into_inner();
    let h = offset as usize;
    let esz = variant.entry_size() as u64;
    match rng.below(16) {
        0 => { file[h + rng.usize(0, 3)] ^= 1 << rng.below(8); }                                    // magic
        1 => { let v = *rng.pick(&[0u16, 1, 31, 33, 63, 65, 95, 97, 128, u16::MAX]); file[h + 6..h + 8].copy_from_slice(&v.to_le_bytes()); }
        2 => { let v = *rng.pick(&[32u16, 64, 96]); file[h + 6..h + 8].copy_from_slice(&v.to_le_bytes()); }   // other valid size
        3 => { // entry_count * entry_size overflows u64
            let r = rng.below(1000);
            let c = *rng.pick(&[u64::MAX, 1 << 63, 1 << 60, 1 << 59, (u64::MAX / esz) + 1, (u64::MAX / esz) + r + 1]);
            file[h + 8..h + 16].copy_from_slice(&c.to_le_bytes()); }
        4 => { // product fits, + 24 overflows (or just fits)
            let c = (u64::MAX / esz) - rng.below(2);
            file[h + 8..h + 16].copy_from_slice(&c.to_le_bytes()); }
        5 => { let c = n as u64 + 1 + rng.below(3); file[h + 8..h + 16].copy_from_slice(&c.to_le_bytes()); length = u64::MAX; }  // more entries than data
        6 => { let c = (n as u64).saturating_sub(1); file[h + 8..h + 16].copy_from_slice(&c.to_le_bytes()); }
        7 => { let c = rng.u64() >> rng.below(64); file[h + 8..h + 16].copy_from_slice(&c.to_le_bytes()); if rng.bool() { length = u64::MAX; } }
        8 => { let cut = rng.usize(0, file.len()); file.truncate(cut); }
        9 => { length = length.saturating_sub(1 + rng.below(30)); }
        10 => { length = rng.below(30); }
        11 => { offset = offset.wrapping_add(rng.below(5)).wrapping_sub(rng.below(5).min(offset)); }
        12 => { offset = *rng.pick(&[file.len() as u64, file.len() as u64 + 1, u64::MAX, 1 << 40]); }
        13 => { file[h + 4..h + 6].copy_from_slice(&(rng.u64() as u16).to_le_bytes()); file[h + 16..h + 24].copy_from_slice(&rng.u64().to_le_bytes()); } // version/flags/reserved are ignored
        14 => { let k = rng.usize(0, 80); file = rng.bytes(k); offset = rng.below(8); length = rng.below(100); }
        _ => { if !file.is_empty() { let i = rng.usize(0, file.len() - 1); file[i] ^= 1 << rng.below(8); } }
    }
    run_read_case(&file, offset, length, drv, sum);
}


/// clause 1 after clause 2: do the tokens of a text still test true in the filter that is read back?
/// (Small/Medium: yes, proved; Large: the 64-byte filter comes back as 32 bytes — part of the shape finding)
fn run_reload_filter_case(text: &str, variant: SketchVariant, drv: &mut Option<Driver>, sum: &mut Summary) {
    let tokens = tokenize_for_sketch(text);
    let e = generate_sketch(0, text, variant, None);
    let mut track = SketchTrack::new(variant);
    track.insert(e.clone());
    let mut cur = Cursor::new(Vec::new());
    let (o, l, _) = write_sketch_track(&mut cur, &track).unwrap();
    let back = read_sketch_track(&mut cur, o, l).unwrap();
    let e2 = back.iter().next().cloned().unwrap();
    let lost: Vec<&String> = tokens.iter().filter(|t| {
        let (f, h) = (e2.term_filter.clone(), hash_token(t));
        !guarded(move || term_filter_maybe_contains(&f, h)).unwrap_or(false)
    }).collect();
    let case = json!({"kind": "reload", "variant": vname(variant), "text": hexw(text.as_bytes())});
    if lost.is_empty() {
        sum.branch("reload-filter-keeps-all-tokens");
    } else if variant == SketchVariant::Large && e2.term_filter.len() == 32 && e.term_filter.len() == 64 {
        let known = KNOWN.get().cloned().unwrap_or_default();
        let predicted = match drv { Some(d) => d.ask(&format!("norm large {}", entry_line(&e))) == track_line(&back), None => false };
        let what = format!("Large sketch of {text:?}: after write+read the 32-byte filter no longer reports token(s) {lost:?}");
        if predicted && known.iter().any(|k| k == SIG_SHAPE) {
            sum.branch("reload-large-filter-false-negative");
            sum.known_finding(SIG_SHAPE, &what, case.clone());
        } else {
            sum.oracle_violation(SIG_SHAPE, &what, case.clone());
        }
    } else {
        sum.oracle_violation("reload-filter-false-negative", &format!("{} sketch of {text:?}: tokens {lost:?} are not reported by the re-read filter", vname(variant)), case.clone());
    }
    let canon = format!("L|{}|{}|{}", vname(variant), text, lost.len());
    sum.case(&canon, !tokens.is_empty(), || json!({"kind": "reload", "variant": vname(variant), "tokens": tokens.len(), "lost_after_reload": lost.len()}));
}

// ------------------------------------------------------------------------------------------
// stream E: the same round trip through the public Memvid API (create → put → insert_sketch → commit → reopen)
fn run_memvid_case(texts: &[&str], manual: &[(u64, &str)], drv: &mut Option<Driver>, sum: &mut Summary) {
    // commit generates a Small sketch for every frame with non-blank text (mutation.rs, lex feature)
    // `manual` = extra calls of the public Memvid::insert_sketch(frame_id, text, Small) before the commit
    let case = json!({"kind": "memvid", "texts": texts, "manual": manual.iter().map(|(i, t)| json!([i.to_string(), t])).collect::<Vec<_>>()});
    let dir = tempfile::tempdir().expect("tempdir");
    let path = dir.path().join("c39.mv2");
    let run = || -> Result<(String, String, Vec<SketchEntry>), String> {
        let mut mem = Memvid::create(&path).map_err(|e| format!("create: {e}"))?;
        for t in texts.iter() {
            mem.put_bytes(t.as_bytes()).map_err(|e| format!("put: {e}"))?;
        }
        mem.commit().map_err(|e| format!("commit: {e}"))?;
        if !manual.is_empty() {
            for (id, t) in manual { mem.insert_sketch(*id, t, SketchVariant::Small); }
            mem.commit().map_err(|e| format!("commit 2: {e}"))?;
        }
        let before_entries: Vec<SketchEntry> = mem.sketches().iter().cloned().collect();
        let before = track_line(mem.sketches());
        drop(mem);
        let mem2 = Memvid::open(&path).map_err(|e| format!("open: {e}"))?;
        Ok((before, track_line(mem2.sketches()), before_entries))
    };
    sum.branch("memvid-reopen");
    match run() {
        Err(e) => sum.oracle_violation("memvid-sketch-persist-failed", &e, case.clone()),
        Ok((before, after, entries)) => {
            let canon = format!("M|{before}|{after}");
            let n = entries.len();
            if before == after {
                sum.branch("memvid-reopen-identical");
            } else {
                let predicted = match drv {
                    Some(d) => d.ask(&format!("norm small {}", entries_line(&entries))) == after,
                    None => false,
                };
                let ids_dense = entries.iter().enumerate().all(|(i, e)| e.frame_id == i as u64);
                let sig = if !ids_dense { SIG_IDS } else { SIG_SMALL };
                let what = format!("sketch track of a memory differs after commit + reopen: before {before} / after {after}");
                let known = KNOWN.get().cloned().unwrap_or_default();
                if predicted && known.iter().any(|k| k == sig) {
                    sum.branch(if ids_dense { "memvid-known-small-drops-fields" } else { "memvid-known-ids-not-stored" });
                    sum.known_finding(sig, &what, case.clone());
                } else {
                    sum.oracle_violation(sig, &what, case.clone());
                }
            }
            sum.case(&canon, n > 0, || json!({"kind": "memvid", "frames": texts.len(), "sketches": n, "before": before, "after": after}));
        }
    }
}

// ------------------------------------------------------------------------------------------
fn canonical_small(id: u64) -> SketchEntry {
    SketchEntry { frame_id: id, simhash: 0, term_filter: vec![0; 16], top_terms: vec![0, 0], term_weight_sum: 0, flags: SketchFlags::from_bits(7), length_hint: 0 }
}
fn canonical_medium(id: u64) -> SketchEntry {
    SketchEntry { frame_id: id, simhash: 0, term_filter: vec![0; 32], top_terms: vec![0, 0, 0, 0], term_weight_sum: 0, flags: SketchFlags::from_bits(0), length_hint: 0 }
}

fn header(entry_size: u16, count: u64) -> Vec<u8> {
    let mut v = b"MVSK".to_vec();
    v.extend_from_slice(&1u16.to_le_bytes());
    v.extend_from_slice(&entry_size.to_le_bytes());
    v.extend_from_slice(&count.to_le_bytes());
    v.extend_from_slice(&[0u8; 8]);
    v
}

fn corpus(drv: &mut Option<Driver>, sum: &mut Summary) {
    use SketchVariant::*;
    // filter
    run_filter_case(16, &[0, u64::MAX, 300, (300u64 << 32) | (300 << 16) | 300], &[1, 44, 301], drv, sum);
    run_filter_case(64, &[300], &[300 + 512, 44], drv, sum);
    run_filter_case(0, &[], &[5], drv, sum);
    run_filter_case(0, &[7], &[], drv, sum);
    run_filter_case(1, &[8, 9, 1 << 16, 1 << 32], &[3], drv, sum);
    run_filter_case(3, &[23, 24, 25], &[], drv, sum);
    // sketches
    for v in [Small, Medium, Large] {
        run_sketch_case("", v, 0, &[], "", drv, sum);
        run_sketch_case("a b c ! ?", v, 1, &[], "zz", drv, sum);
        run_sketch_case("hello", v, 2, &[], "world", drv, sum);
        run_sketch_case("Hello, World! hello HELLO hello x1 42 a", v, 3, &[], "other words", drv, sum);
        run_sketch_case("This is a test document with some content for sketching", v, 42, &[], "test", drv, sum);
        run_sketch_case("naïve café ﬁne ＡＢＣ İstanbul straße ΣΊΣΥΦΟΣ 日本語 e\u{301} ½ x²", v, 4, &[], "cafe", drv, sum);
        let long: String = (0..2600).map(|i| format!("w{} ", i % 700)).collect();
        run_sketch_case(&long, v, 5, &[], "w1", drv, sum);
        let fifty: String = (0..50).map(|i| format!("t{i} ")).collect();
        run_sketch_case(&fifty, v, 6, &[], "t1", drv, sum);
        run_sketch_case(&fifty[..fifty.len() - 4], v, 7, &[], "t2", drv, sum);
        // absurd IDF values: the u32 weight sum saturates / overflows
        let big = 1.0e9f32.to_bits();
        run_sketch_case("aa bb cc dd", v, 8, &[("aa".into(), big), ("bb".into(), big), ("cc".into(), big)], "aa", drv, sum);
        run_sketch_case("aa bb cc dd", v, 9, &[("aa".into(), 655.36f32.to_bits()), ("bb".into(), 0.0f32.to_bits()), ("cc".into(), f32::NAN.to_bits())], "bb", drv, sum);
    }
    // tracks: exact round trips
    run_track_case(Small, &[], 0, &[], drv, sum);
    run_track_case(Small, &[canonical_small(0), canonical_small(1)], 0, &[], drv, sum);
    run_track_case(Medium, &[canonical_medium(0), generate_sketch(1, "one two three four five", Medium, None)], 7, &[1, 2, 3], drv, sum);
    // tracks: the recorded findings (minimal witnesses, see /verif/known_findings.jsonl)
    run_track_case(Small, &[canonical_small(5)], 0, &[], drv, sum);
    run_track_case(Small, &[SketchEntry { term_weight_sum: 1, ..canonical_small(0) }], 0, &[], drv, sum);
    run_track_case(Medium, &[SketchEntry { top_terms: vec![1, 2], ..canonical_medium(0) }], 0, &[], drv, sum);
    // the same through the public generator
    run_track_case(Small, &[generate_sketch(0, "first document about cats", Small, None)], 0, &[], drv, sum);
    run_track_case(Medium, &[generate_sketch(0, "hello world", Medium, None)], 0, &[], drv, sum);
    run_track_case(Large, &[generate_sketch(0, "one two three four five six seven", Large, None)], 0, &[], drv, sum);
    run_track_case(Small, &[generate_sketch(0, "alpha beta gamma delta", Medium, None)], 0, &[], drv, sum);
    run_track_case(Small, &[canonical_small(1), canonical_small(0)], 3, &[9], drv, sum);
    run_track_case(Medium, &[canonical_medium(0), canonical_medium(1), SketchEntry { simhash: 9, ..canonical_medium(0) }], 0, &[], drv, sum);
    for v in [Small, Medium, Large] {
        run_reload_filter_case("one two three four five six seven eight nine ten eleven twelve", v, drv, sum);
        run_reload_filter_case("cats are wonderful pets that love to sleep and play", v, drv, sum);
    }
    // through the public API: commit sketches every frame (Small); a sketch inserted for frame 7 comes back on frame 2
    run_memvid_case(&["first document about cats", "second document about dogs"], &[], drv, sum);
    run_memvid_case(&["first document about cats", "second document about dogs"], &[(7, "a sketch for frame seven")], drv, sum);
    // reader on crafted headers
    for (es, cnt, len) in [(32u16, 1u64 << 59, 100u64), (64, 1 << 58, 0), (96, u64::MAX, u64::MAX), (32, (u64::MAX / 32), u64::MAX),
                           (32, (u64::MAX / 32) - 1, u64::MAX), (32, 1 << 40, u64::MAX), (32, 0, 24), (32, 0, 23), (31, 0, 24), (0, 5, 24)] {
        let mut f = header(es, cnt);
        f.extend_from_slice(&[0x11; 40]);
        run_read_case(&f, 0, len, drv, sum);
    }
    run_read_case(b"MVSK", 0, 24, drv, sum);
    run_read_case(b"XVSK\x01\x00\x20\x00\x00\x00\x00\x00\x00\x00\x00\x00\x00\x00\x00\x00\x00\x00\x00\x00", 0, 24, drv, sum);
}

fn replay_one(input: &Value, drv: &mut Option<Driver>, sum: &mut Summary) {
    let u = |k: &str| -> u64 { input[k].as_str().map(|s| s.parse().unwrap()).or(input[k].as_u64()).unwrap_or(0) };
    match input["kind"].as_str().unwrap_or("") {
        "filter" => {
            let hs: Vec<u64> = input["hashes"].as_array().unwrap().iter().map(|x| x.as_str().unwrap().parse().unwrap()).collect();
            let ps: Vec<u64> = input["probes"].as_array().map(|a| a.iter().map(|x| x.as_str().unwrap().parse().unwrap()).collect()).unwrap_or_default();
            run_filter_case(u("size") as usize, &hs, &ps, drv, sum);
        }
        "sketch" => {
            let text = String::from_utf8(unhexw(input["text"].as_str().unwrap()).unwrap()).unwrap();
            let extra = String::from_utf8(unhexw(input["query_extra"].as_str().unwrap_or("-")).unwrap()).unwrap();
            let idf: Vec<(String, u32)> = input["idf"].as_array().map(|a| a.iter().map(|p| {
                (String::from_utf8(unhexw(p[0].as_str().unwrap()).unwrap()).unwrap(), p[1].as_u64().unwrap() as u32)
            }).collect()).unwrap_or_default();
            let v = vparse(input["variant"].as_str().unwrap());
            let t = text.clone();
            println!("impl : tokens={:?}", tokenize_for_sketch(&text));
            println!("impl : {:?}", guarded(move || generate_sketch(0, &t, v, None)).map(|e| entry_line(&e)));
            run_sketch_case(&text, v, u("id"), &idf, &extra, drv, sum);
        }
        "track" => {
            let v = vparse(input["variant"].as_str().unwrap());
            let es = parse_entries(input["entries"].as_str().unwrap());
            let post = unhexw(input["post"].as_str().unwrap_or("-")).unwrap();
            let pre = u("pre") as usize;
            let mut t = SketchTrack::new(v);
            for e in &es { t.insert(e.clone()); }
            let mut cur = Cursor::new(vec![0xA5u8; pre]);
            cur.seek(SeekFrom::End(0)).unwrap();
            let (o, l, _) = write_sketch_track(&mut cur, &t).unwrap();
            println!("impl : before  {}", track_line(&t));
            println!("impl : after   {}", read_impl(&cur.clone().into_inner(), o, l));
            if let Some(d) = drv {
                println!("model: before  {}", d.ask(&format!("track {} {}", vname(v), entries_line(&es))));
                println!("model: after   ok {}", d.ask(&format!("norm {} {}", vname(v), entries_line(&es))));
            }
            run_track_case(v, &es, pre, &post, drv, sum);
        }
        "read" => {
            let f = unhexw(input["file"].as_str().unwrap()).unwrap();
            println!("impl : {}", read_impl(&f, u("offset"), u("length")));
            if let Some(d) = drv { println!("model: {}", d.ask(&format!("read {} {} {}", hexw(&f), u("offset"), u("length")))); }
            run_read_case(&f, u("offset"), u("length"), drv, sum);
        }
        "reload" => {
            let text = String::from_utf8(unhexw(input["text"].as_str().unwrap()).unwrap()).unwrap();
            run_reload_filter_case(&text, vparse(input["variant"].as_str().unwrap()), drv, sum);
        }
        "memvid" => {
            let owned: Vec<String> = input["texts"].as_array().unwrap().iter().map(|t| t.as_str().unwrap_or("").to_string()).collect();
            let texts: Vec<&str> = owned.iter().map(|t| t.as_str()).collect();
            let mown: Vec<(u64, String)> = input["manual"].as_array().map(|a| a.iter().map(|p| (p[0].as_str().unwrap().parse().unwrap(), p[1].as_str().unwrap().to_string())).collect()).unwrap_or_default();
            let manual: Vec<(u64, &str)> = mown.iter().map(|(i, t)| (*i, t.as_str())).collect();
            run_memvid_case(&texts, &manual, drv, sum);
        }
        k => { eprintln!("unknown replay kind {k:?}"); std::process::exit(EXIT_ERROR); }
    }
}

fn main() {
    let args = parse_args();
    let _ = KNOWN.set(args.extra.get("known").map(|k| k.split(',').map(String::from).collect()).unwrap_or_default());
    let mut drv: Option<Driver> = if args.driver.as_os_str() == "none" { None } else { Some(Driver::spawn(&args.driver).expect("spawn driver")) };
    let mut sum = Summary::new("C39", &args,
        "four streams: (A) build_term_filter/term_filter_maybe_contains on random hash lists (sizes 16/32/64 mostly, also 0,1,odd sizes; \
         boundary hashes) — every inserted hash must test true; (B) generate_sketch on generated texts (ASCII: tokenizer modelled; \
         non-ASCII incl. NFKC/case-folding specials: tokens passed to the model), all variants, optional IDF maps — every token of the \
         text must test true in the text's filter and a query sharing a token must overlap; (C) SketchTrack insert → write_sketch_track \
         → read_sketch_track on a cursor (canonical / generated / arbitrary-shape entries; dense, shuffled, gapped, huge, repeated ids; \
         leading and trailing unrelated bytes) — read-back must be identical (recorded findings classify the rest) and the per-position \
         partial round trip must hold for all; (D) reader on damaged/crafted bytes (correspondence only). \
         non-trivial = at least one hash / token / entry / a full header; distinct = canonical text of input+output");
    sum.expect_branches(&["filter-size-16", "filter-size-32", "filter-size-64", "filter-size-other", "filter-build-panic-size0",
        "contains-false", "sketch-small", "sketch-medium", "sketch-large", "sketch-no-tokens", "sketch-50-or-more-tokens",
        "sketch-with-idf", "sketch-ascii-text", "sketch-non-ascii-text", "track-small", "track-medium", "track-large",
        "track-round-trip-identical", "track-insert-replaces-existing-id", "track-empty", "reload-filter-keeps-all-tokens", "memvid-reopen",
        "read-ok", "read-err-magic", "read-err-entry-size", "read-err-length", "read-err-io"]);
    if args.mode == "replay" {
        let case = load_replay(args.replay_file.as_ref().expect("replay file"));
        let input = case.get("input").unwrap_or(&case).clone();
        replay_one(&input, &mut drv, &mut sum);
        sum.finish(&args);
    }
    corpus(&mut drv, &mut sum);
    let mut rng = Rng::new(args.seed);
    let n = if args.thorough { 12000 } else { 1500 };
    for i in 0..n {
        match i % 4 {
            0 => gen_filter_case(&mut rng, &mut drv, &mut sum),
            1 => gen_sketch_case(&mut rng, &mut drv, &mut sum),
            2 => gen_track_case(&mut rng, args.thorough, &mut drv, &mut sum),
            _ => gen_read_case(&mut rng, &mut drv, &mut sum),
        }
    }
    if let Some(d) = &drv { sum.model_requests = d.requests; }
    sum.finish(&args);
}
