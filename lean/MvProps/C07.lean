/-
  C07 — content fidelity: reads return exactly what was stored.

  Statements over the byte-level store model MvModel/Content.lean (put / automatic checkpoint / commit /
  drop+open / crash+open, arbitrary histories), for EVERY codec with the round-trip property (A-zstd),
  EVERY hash function `H`, EVERY payload, compression level, chunk plan and footer position:

    C07_prepare_roundtrip   decode(stored p) = p and canonical_length = |p|
    C07_whole               a committed put that is stored whole reads back exactly: frame_canonical_payload = P,
                            blob_reader = P, checksum = H(stored bytes), stored bytes decode to P
    C07_chunked             a committed put whose UTF-8 text was split: canonical(document) = concatenation of
                            the chunk texts, its chunk frames are exactly its chunks in (chunk_index, id) order and
                            each reads back its chunk text
    C07_chunks_cover_normalized   (with C34) for unstructured text the concatenation IS the normalized text
    C07_reader              blob_reader = frame_canonical_payload on frames stored whole
    C07_history             after ANY history every put is either committed (and then reads back as above, for
                            ever: blocks are never moved or overwritten) or still pending in the WAL, in put order
    C07_commit_total        with the repair of fixes/C07.diff, commit / open never fail on records put_internal
                            produced (payloads up to MAX_FRAME_BYTES; a chunked document has search text)
    C07_commit_drains       after a successful commit nothing is pending
    C07_unrepaired_commit_fails   the code BEFORE the repair: a put without search text and mime makes commit fail
-/
import MvProps.C07Lemmas
import MvProps.C34
namespace Mv.Content
open Mv

/-- **C07 (canonical encoding).**  What `prepare_canonical_payload_with_level` stores decodes back to the
    payload, and the recorded canonical length is the payload's length — for every payload, every level,
    every codec with the round-trip property (A-zstd). -/
theorem C07_prepare_roundtrip (c : Codec) (hc : c.RoundTrip) (level : Int) (p : Bytes) :
    decodeCanonical c (prepare c level p).bytes (prepare c level p).enc = some p ∧
    (prepare c level p).canonLen = p.length := decode_prepare c hc level p

/-- what a client reads from a frame stored whole -/
structure ReadsBack (c : Codec) (H : Bytes → Bytes) (s : Store) (f : Frame) (p : Bytes) : Prop where
  canonical : canonicalBytes c H s f = .ok p
  blob : blobReader c H s f = .ok p
  checksum : f.checksum = H (slice s.file f.off f.len)
  decodes : decodeCanonical c (slice s.file f.off f.len) f.enc = some p

/-- **C07 (whole).**  In every state that satisfies the store invariant (every reachable state does:
    `C07_history`), a committed put of `P` without a chunk plan — binary data, text below the threshold, any
    compression level — whose stored form is not larger than `MAX_FRAME_BYTES` reads back EXACTLY: its
    frame is at the index the put order gives it, `frame_canonical_payload` and `blob_reader` return `P`,
    the checksum is the hash of the stored bytes, and those bytes decode to `P`. -/
theorem C07_whole (c : Codec) (hc : c.RoundTrip) (H : Bytes → Bytes) (s : Store)
    (pre post : List (Nat × PutArgs)) (cur : Nat) (a : PutArgs) (pend : List PutArgs)
    (hi : Inv c H s (pre ++ (cur, a) :: post) pend) (hplan : a.plan = none)
    (hsmall : (prepare c a.level a.payload).bytes.length ≤ MAX_FRAME_BYTES) :
    ∃ f, s.frames[tableLen pre]? = some f ∧ f.id = tableLen pre ∧ ReadsBack c H s f a.payload := by
  refine ⟨mkFrame H (tableLen pre) cur none (parentEntry c a), frames_doc hi, rfl, ?_⟩
  have hg : Holds H s (mkFrame H (tableLen pre) cur none (parentEntry c a), (parentEntry c a).payload) :=
    hi.stored _ (mem_tableG_block (by simp [blockG]))
  have hpe : parentEntry c a =
      { payload := (prepare c a.level a.payload).bytes, enc := (prepare c a.level a.payload).enc,
        canonLen := (prepare c a.level a.payload).canonLen, role := a.role, manifest := none, parentSeq := none,
        chunkIndex := none, search := a.search, mime := a.mime } := by
    simp [parentEntry, parentStored, hplan]
  have hd := decode_prepare c hc a.level a.payload
  have hown : ownCanonical c H s (mkFrame H (tableLen pre) cur none (parentEntry c a)) = .ok a.payload := by
    apply ownCanonical_of_holds hg hi.pe_de hi.pe_file
    · show (parentEntry c a).payload.length ≤ MAX_FRAME_BYTES
      rw [hpe]; exact hsmall
    · show decodeCanonical c (parentEntry c a).payload (parentEntry c a).enc = some a.payload
      rw [hpe]; exact hd.1
    · show a.payload.length = (parentEntry c a).canonLen
      rw [hpe]; exact hd.2.symm
  have hnm : isManifestDoc (mkFrame H (tableLen pre) cur none (parentEntry c a)) = false := by
    simp [isManifestDoc, mkFrame, hpe]
  have hcan : canonicalBytes c H s (mkFrame H (tableLen pre) cur none (parentEntry c a)) = .ok a.payload := by
    unfold canonicalBytes; rw [hnm]; simpa using hown
  have hbytes : slice s.file cur (parentEntry c a).payload.length = (parentEntry c a).payload := hg.bytes
  refine ⟨hcan, ?_, ?_, ?_⟩
  · cases henc : (mkFrame H (tableLen pre) cur none (parentEntry c a)).enc with
    | zstd => unfold blobReader; rw [henc]; exact hcan
    | plain =>
      have hpl : (prepare c a.level a.payload).enc = .plain := by
        have : (parentEntry c a).enc = .plain := henc
        rw [hpe] at this; exact this
      have hb : blobReader c H s (mkFrame H (tableLen pre) cur none (parentEntry c a)) = .ok (parentEntry c a).payload :=
        blobReader_plain_of_holds (c := c) hg henc
      rw [hb, hpe]
      show Except.ok (prepare c a.level a.payload).bytes = Except.ok a.payload
      rw [prepare_plain_bytes c a.level a.payload hpl]
  · show H (parentEntry c a).payload = H (slice s.file cur (parentEntry c a).payload.length)
    rw [hbytes]
  · show decodeCanonical c (slice s.file cur (parentEntry c a).payload.length) (parentEntry c a).enc = some a.payload
    rw [hbytes, hpe]; exact hd.1

/-- **C07 (reader).**  On a frame stored whole the blob reader and the canonical payload agree. -/
theorem C07_reader (c : Codec) (hc : c.RoundTrip) (H : Bytes → Bytes) (s : Store)
    (pre post : List (Nat × PutArgs)) (cur : Nat) (a : PutArgs) (pend : List PutArgs)
    (hi : Inv c H s (pre ++ (cur, a) :: post) pend) (hplan : a.plan = none)
    (hsmall : (prepare c a.level a.payload).bytes.length ≤ MAX_FRAME_BYTES) :
    ∃ f, s.frames[tableLen pre]? = some f ∧ blobReader c H s f = canonicalBytes c H s f := by
  obtain ⟨f, h1, _, h2⟩ := C07_whole c hc H s pre post cur a pend hi hplan hsmall
  exact ⟨f, h1, by rw [h2.canonical, h2.blob]⟩

/-- **C07 (chunked).**  A committed put whose UTF-8 text the planner split into `ts` (the parent stores
    nothing): the document frame is at the index the put order gives it, `document_chunk_frames` finds
    exactly its `|ts|` chunk frames, in `(chunk_index, id)` order, chunk `k` reads back `ts[k]`, and the
    document's canonical payload is the concatenation `ts[0] ++ ts[1] ++ …` — nothing lost, nothing
    duplicated, nothing from another document. -/
theorem C07_chunked (c : Codec) (hc : c.RoundTrip) (H : Bytes → Bytes) (s : Store)
    (pre post : List (Nat × PutArgs)) (cur : Nat) (a : PutArgs) (pend : List PutArgs) (ts : List Bytes)
    (hi : Inv c H s (pre ++ (cur, a) :: post) pend) (hplan : a.plan = some ts) (hts : ts ≠ [])
    (hrole : a.role = .document)
    (hsmall : ∀ t ∈ ts, (prepare c DEFAULT_LEVEL t).bytes.length ≤ MAX_FRAME_BYTES) :
    ∃ f, s.frames[tableLen pre]? = some f ∧ f.id = tableLen pre ∧
      (children s f.id).length = ts.length ∧
      childPayloads c H s (children s f.id) = .ok ts ∧
      canonicalBytes c H s f = .ok ts.flatten := by
  refine ⟨mkFrame H (tableLen pre) cur none (parentEntry c a), frames_doc hi, rfl, ?_⟩
  have hchunks : a.chunks = ts := by simp [PutArgs.chunks, hplan]
  have hkids : children s (tableLen pre) =
      (chunkG c H a (tableLen pre) ts 0 (cur + (parentEntry c a).payload.length)).map Prod.fst := by
    unfold children
    rw [filter_children hi, hchunks, sortBy_chunkG]
  have hlen : (children s (tableLen pre)).length = ts.length := by
    rw [hkids, List.length_map, chunkG_length]
  have hpay : childPayloads c H s (children s (tableLen pre)) = .ok ts := by
    rw [hkids]
    apply childPayloads_chunkG hc a (tableLen pre) hi.pe_de hi.pe_file ts 0 _ _ hsmall
    intro g hg
    apply hi.stored g
    apply mem_tableG_block
    simp only [blockG, hchunks]
    exact List.mem_cons_of_mem _ hg
  refine ⟨hlen, hpay, ?_⟩
  have hm : isManifestDoc (mkFrame H (tableLen pre) cur none (parentEntry c a)) = true := by
    simp [isManifestDoc, mkFrame, parentEntry, hplan, hrole]
  have hman : (mkFrame H (tableLen pre) cur none (parentEntry c a)).manifest = some ts.length := by
    simp [mkFrame, parentEntry, hplan]
  unfold canonicalBytes
  rw [hm]
  simp only [if_true]
  show (if (children s (tableLen pre)).isEmpty = true then Except.error Err.noChildren
    else if some (children s (tableLen pre)).length ≠ (mkFrame H (tableLen pre) cur none (parentEntry c a)).manifest
      then Except.error Err.manifestLen
    else match childPayloads c H s (children s (tableLen pre)) with
      | .error e => .error e
      | .ok bs => .ok bs.flatten) = _
  have hne : (children s (tableLen pre)).isEmpty = false := by
    cases hk : children s (tableLen pre) with
    | nil => rw [hk] at hlen; exact absurd (List.eq_nil_of_length_eq_zero hlen.symm) hts
    | cons _ _ => rfl
  rw [hne, hman, hlen, hpay]
  simp

/-- **C07 (chunks = normalized text), with C34.**  When the chunk texts are the UTF-8 encodings of the
    chunks the naive planner made of the normalized text (`enc` = the UTF-8 encoding of one character,
    any function will do), their concatenation is the encoding of the whole normalized text: together
    with `C07_chunked`, the document's canonical payload is `normalize_text(P)` — nothing lost or duplicated. -/
theorem C07_chunks_cover_normalized (enc : Char → Bytes) (text : List Char) (p : Mv.Chunk.Plan)
    (h : Mv.Chunk.planNaive text = some p) :
    (p.chunks.map (fun ch => ch.flatMap enc)).flatten = text.flatMap enc := by
  have hcat : p.chunks.flatten = text := (Mv.Chunk.C34_partition text p h).2.2.2.1
  rw [← hcat]
  generalize p.chunks = L
  induction L with
  | nil => rfl
  | cons x xs ih => simp [List.flatMap_append, ih]

/-- **C07 (histories).**  After ANY history of puts (whole or chunked, any options, any automatic
    checkpoints), commits, drop+open and crash+open — whatever failed on the way — there is a layout
    `bl` of committed puts and a list `pend` of pending ones such that: together they are exactly the puts
    of the history in order; the store invariant holds (so `C07_whole` / `C07_chunked` apply to every
    committed put); and the pending WAL records are empty exactly when no put is pending. -/
theorem C07_history (c : Codec) (H : Bytes → Bytes) (early : Bool) (ops : List Op) :
    ∃ bl pend, Inv c H (run c H early {} ops) bl pend ∧ bl.map Prod.snd ++ pend = putsOf ops ∧
      ((run c H early {} ops).pending = [] ↔ pend = []) := by
  obtain ⟨bl, pend, h1, h2, _⟩ := run_inv early ops {} [] [] (inv_init c H)
  refine ⟨bl, pend, h1, by simpa using h2, ?_⟩
  obtain ⟨q, hq, _⟩ := h1.pending
  rw [hq]
  exact pendRecs_nil_iff c q pend

/-- **C07 (stability).**  Later operations never move, overwrite or re-index a committed block: the layout
    after `more` extends the layout before as a prefix (same cursors, same order), so a put that read back
    once reads back the same after every later commit, reopen or crash. -/
theorem C07_stable (c : Codec) (H : Bytes → Bytes) (early : Bool) (s : Store) (bl : List (Nat × PutArgs))
    (pend : List PutArgs) (hi : Inv c H s bl pend) (more : List Op) :
    ∃ bl' pend', Inv c H (run c H early s more) bl' pend' ∧ bl <+: bl' ∧
      bl'.map Prod.snd ++ pend' = bl.map Prod.snd ++ pend ++ putsOf more := by
  obtain ⟨bl', pend', h1, h2, h3⟩ := run_inv early more s bl pend hi
  exact ⟨bl', pend', h1, h3, h2⟩

/-- **C07 (commit drains).**  A commit that answers Ok leaves no Insert record pending. -/
theorem C07_commit_drains (c : Codec) (H : Bytes → Bytes) (early : Bool) (s : Store)
    (h : (commit c H early s).2 = .ok) : (commit c H early s).1.pending = [] := by
  unfold commit at h ⊢
  split at h
  · rename_i he; rw [if_pos he]; simpa using he
  · rename_i he
    rw [if_neg he]
    split at h
    · simp at h
    · rfl


/-- **C07 (commit is total — repaired code).**  With `data_end` advanced right after each payload write
    (fixes/C07.diff), `commit` answers Ok in every reachable state whose pending puts are well formed
    (stored pieces ≤ MAX_FRAME_BYTES, a chunked document carries search text) — in particular for puts
    WITHOUT search text and mime, the case in which `apply_records` reads the payload it just wrote. -/
theorem C07_commit_total (c : Codec) (hc : c.RoundTrip) (H : Bytes → Bytes) (s : Store)
    (bl : List (Nat × PutArgs)) (pend : List PutArgs) (hi : Inv c H s bl pend) (hok : ∀ a ∈ pend, PutOk c a) :
    (commit c H true s).2 = .ok ∧ (commit c H true s).1.pending = [] := by
  have h : (commit c H true s).2 = .ok := by
    unfold commit
    split
    · rfl
    · obtain ⟨s', hs⟩ := applyRecords_total hc hi hok
      rw [hs]
  exact ⟨h, C07_commit_drains c H true s h⟩

/-- **C07 (open is total — repaired code).**  The WAL replay of `open` accepts the same records. -/
theorem C07_open_total (c : Codec) (hc : c.RoundTrip) (H : Bytes → Bytes) (s : Store) (ft : Nat)
    (bl : List (Nat × PutArgs)) (pend : List PutArgs) (hi : Inv c H s bl pend) (hok : ∀ a ∈ pend, PutOk c a) :
    (openStore c H true s ft).2 = .ok := by
  have hbound : ∀ f ∈ s.frames, f.len ≠ 0 → f.off + f.len ≤ s.payloadEnd := by
    intro f hf hz
    rw [hi.frames] at hf
    obtain ⟨g, hg, rfl⟩ := List.mem_map.mp hf
    exact (hi.stored g hg).bound hz
  have hfe : frameEnds s.frames ≤ s.payloadEnd := by
    rw [frameEnds_eq]; exact foldl_endStep_le _ _ _ (Nat.zero_le _) hbound
  have hi1 : Inv c H { s with dataEnd := max ft (frameEnds s.frames), payloadEnd := frameEnds s.frames } bl pend := by
    refine ⟨hi.frames, ?_, Nat.le_max_right _ _, Nat.le_trans hfe hi.pe_file, hi.pending⟩
    intro g hg
    have hg' := hi.stored g hg
    refine ⟨hg'.cksum, hg'.len, hg'.bytes, ?_⟩
    intro hz
    show g.1.off + g.1.len ≤ frameEnds s.frames
    rw [frameEnds_eq]
    apply foldl_endStep_ge_mem _ _ _ _ hz
    rw [hi.frames]
    exact List.mem_map.mpr ⟨g, hg, rfl⟩
  unfold openStore
  dsimp only
  split
  · rfl
  · obtain ⟨s', hs⟩ := applyRecords_total hc hi1 hok
    have hs' : applyRecords c H true { s with dataEnd := max ft (frameEnds s.frames), payloadEnd := frameEnds s.frames } s.pending = .ok s' := hs
    rw [hs']

/-- **C07 (end to end, repaired code).**  Any history of well-formed puts, commits, reopens and crashes,
    followed by a commit: the commit answers Ok, nothing is pending, and the committed layout lists
    EVERY put of the history in order — so each of them reads back by `C07_whole` / `C07_chunked`. -/
theorem C07_fidelity (c : Codec) (hc : c.RoundTrip) (H : Bytes → Bytes) (ops : List Op)
    (hok : ∀ a ∈ putsOf ops, PutOk c a) :
    (commit c H true (run c H true {} ops)).2 = .ok ∧
    ∃ bl, Inv c H (commit c H true (run c H true {} ops)).1 bl [] ∧ bl.map Prod.snd = putsOf ops := by
  obtain ⟨bl, pend, h1, h2, _⟩ := C07_history c H true ops
  have hpend : ∀ a ∈ pend, PutOk c a := fun a ha => hok a (by rw [← h2]; exact List.mem_append_right _ ha)
  obtain ⟨hc1, hc2⟩ := C07_commit_total c hc H _ bl pend h1 hpend
  refine ⟨hc1, ?_⟩
  obtain ⟨bl', pend', k1, k2, _⟩ := commit_inv true h1
  obtain ⟨q, hq, _⟩ := k1.pending
  have hp' : pend' = [] := (pendRecs_nil_iff c q pend').mp (by rw [← hq]; exact hc2)
  subst hp'
  exact ⟨bl', k1, by rw [← h2, ← k2]; simp⟩

/-! ## The code before the repair, and non-vacuity -/

/-- a trivial codec with the round-trip property: "compression" prefixes a marker byte -/
def markCodec : Codec :=
  { enc := fun _ p => 0x28 :: p
    dec := fun s => match s with | 0x28 :: p => some p | _ => none }

theorem markCodec_roundTrip : markCodec.RoundTrip := fun _ _ => rfl

def h0 : Bytes → Bytes := fun b => [UInt8.ofNat b.length]

/-- the witness: library defaults with `auto_tag(false)`, three control bytes — no search text, no mime -/
def witnessPut : PutArgs := { payload := [1, 2, 3], search := none, mime := none }

/-- **C07 (the code before the repair).**  With `data_end` advanced only after the whole batch, the put of
    three bytes without search text and mime is acknowledged, the commit fails with "payload extends past
    data region", the record stays pending, and every later open (WAL replay) fails the same way. -/
theorem C07_unrepaired_commit_fails :
    (step markCodec h0 false {} (.put witnessPut false)).2 = .ok ∧
    (step markCodec h0 false (step markCodec h0 false {} (.put witnessPut false)).1 .commit).2 = .err .pastData ∧
    (step markCodec h0 false (step markCodec h0 false {} (.put witnessPut false)).1 (.crash 0)).2 = .err .pastData ∧
    (step markCodec h0 false (step markCodec h0 false {} (.put witnessPut false)).1 .commit).1.pending ≠ [] := by
  decide

def readOpt : Except Err Bytes → Option Bytes
  | .ok b => some b
  | .error _ => none

def exFixed : Store := run markCodec h0 true {} [.put witnessPut false, .commit, .reopen 40]

/-- the same history on the repaired code: committed, read back exactly -/
example :
    exFixed.pending = [] ∧ exFixed.frames.map (fun f => readOpt (canonicalBytes markCodec h0 exFixed f)) = [some [1, 2, 3]] ∧
      exFixed.frames.map (fun f => readOpt (blobReader markCodec h0 exFixed f)) = [some [1, 2, 3]] := by
  decide

/-- non-vacuity of `C07_whole` / `C07_chunked` / `C07_fidelity`: a history with a whole binary put, a
    whole text put (stored "compressed"), a chunked put and a put after a reopen satisfies the
    hypotheses, and evaluation agrees with the theorems -/
def exChunked : PutArgs :=
  { payload := [0x61, 0x62, 0x63, 0x64], plan := some [[0x61, 0x62], [0x63, 0x64]], rawPlan := true }
def exHistory : List Op :=
  [.put { payload := [0xff, 0x00], mime := some false } false, .put { payload := [0x68, 0x69] } false, .commit,
   .put exChunked true, .reopen 50, .put witnessPut false, .crash 60]

example : ∀ a ∈ putsOf exHistory, PutOk markCodec a := by
  intro a ha
  simp only [exHistory, putsOf, List.mem_cons, List.not_mem_nil, or_false] at ha
  rcases ha with rfl | rfl | rfl | rfl <;> exact ⟨by decide, by decide, by decide⟩

def exState : Store := run markCodec h0 true {} exHistory

example :
    exState.pending = [] ∧
    exState.frames.map (fun f => readOpt (canonicalBytes markCodec h0 exState f)) =
      [some [0xff, 0x00], some [0x68, 0x69], some [0x61, 0x62, 0x63, 0x64], some [0x61, 0x62], some [0x63, 0x64], some [1, 2, 3]] ∧
    exState.frames.map (·.parent) = [none, none, none, some 2, some 2, none] := by
  decide


/-- the hypotheses of `C07_whole` / `C07_chunked` are satisfiable: the example history ends in a state
    whose committed layout lists its four puts (two whole, one chunked, one without search text) -/
example : ∃ bl, Inv markCodec h0 exState bl [] ∧ bl.map Prod.snd = putsOf exHistory := by
  obtain ⟨bl, pend, h1, h2, h3⟩ := C07_history markCodec h0 true exHistory
  have hp : pend = [] := h3.mp (by decide)
  subst hp
  exact ⟨bl, h1, by simpa using h2⟩

end Mv.Content
