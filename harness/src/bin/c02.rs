//! C02 — process-crash atomicity.
//!
//! One history (create / put / update / delete / commit / vacuum / batch pre-size / commit_skip_indexes /
//! finalize_indexes / clean reopen) runs in a child process under `strace`; the recorded syscall stream
//! on the memory's directory is replayed on an in-memory file system; for EVERY prefix (process-crash
//! model: completed syscalls persist) the surviving `m.mv2` is written to a scratch directory and the
//! real `Memvid::open` is run on it in another child.  Oracle (independent of the Lean model): the
//! reopened memory shows every operation acknowledged before the crash point, optionally the
//! in-flight one, nothing else; active frames' contents byte-identical; search finds them.
//! Model (drv_c02): tie #1 — the canonicalised stream of each API step equals `emit` of the model;
//! tie #2 — the real observation at each crash point equals `recover` of the model image.
#[path = "../crashlib.rs"]
mod crashlib;
use crashlib::*;
use mvh::*;

fn corpus() -> Vec<(&'static str, Vec<HOp>)> {
    vec![
        ("staged-commit-and-plain-put", vec![
            HOp::Put { kind: 0, len: 200, seed: 1 },
            HOp::Put { kind: 1, len: 300, seed: 2 },
            HOp::Commit,
            HOp::Put { kind: 0, len: 100, seed: 3 },
            HOp::Delete { id: 0 },
            HOp::Put { kind: 0, len: 150, seed: 4 },
        ]),
        // 2000-byte binary puts are ~5.5 KB log records: the 9th put reaches 75 % occupancy and commits
        // by itself (write head 50.6 K, nothing pending), puts 10-11 bring the head to 61.7 K; the explicit
        // commit leaves nothing pending, so the 12th put does not fit behind the head and WRAPS to offset 0
        ("wal-wrap", {
            let mut v: Vec<HOp> = (0..11).map(|i| HOp::Put { kind: 1, len: 2000, seed: 100 + i }).collect();
            v.push(HOp::Commit);
            v.push(HOp::Put { kind: 1, len: 2000, seed: 120 });
            v.push(HOp::Put { kind: 0, len: 100, seed: 121 });
            v
        }),
        // same start, but without the commit: the 12th put finds the log full with records pending and
        // GROWS the embedded log in place (grow_wal_region / shift_data_for_wal_growth)
        ("wal-growth", {
            let mut v: Vec<HOp> = (0..12).map(|i| HOp::Put { kind: 1, len: 2000, seed: 200 + i }).collect();
            v.push(HOp::Put { kind: 0, len: 100, seed: 221 });
            v.push(HOp::Commit);
            v
        }),
        // a document above the chunking threshold: one log record for the document + one per chunk
        ("chunked-put", vec![
            HOp::Put { kind: 0, len: 200, seed: 61 },
            HOp::Commit,
            HOp::Put { kind: 0, len: 6000, seed: 62 },
        ]),
        ("update-and-reopen", vec![
            HOp::Put { kind: 0, len: 120, seed: 31 },
            HOp::Commit,
            HOp::Update { id: 0, kind: 0, len: 140, seed: 32 },
            HOp::Reopen,
            HOp::Put { kind: 0, len: 90, seed: 33 },
        ]),
        ("vacuum", vec![
            HOp::Put { kind: 0, len: 200, seed: 41 },
            HOp::Put { kind: 0, len: 220, seed: 42 },
            HOp::Commit,
            HOp::Delete { id: 0 },
            HOp::Vacuum,
        ]),
        ("batch-presize-and-skip-indexes", vec![
            HOp::Put { kind: 0, len: 200, seed: 51 },
            HOp::Commit,
            HOp::BatchBegin { presize: 100_000 },
            HOp::Put { kind: 0, len: 210, seed: 52 },
            HOp::BatchEnd,
            HOp::CommitSkipIndexes,
            HOp::FinalizeIndexes,
        ]),
    ]
}

/// does this put carry the sentinel in the record's write (repaired `write_record`)?
fn fixed_put(ops: &[Sys]) -> bool {
    let ws: Vec<&Sys> = ops.iter().filter(|s| matches!(s, SysT::Write { .. })).collect();
    match (ws.first(), ws.get(1)) {
        (Some(SysT::Write { off: o1, data: d1, .. }), Some(SysT::Write { off: o2, data: d2, .. })) =>
            d2.iter().all(|b| *b == 0) && *o2 + d2.len() as u64 == *o1 + d1.len() as u64 && *o2 > *o1,
        _ => false,
    }
}

/// thorough tier: seeded random histories over the crash-relevant API (small payloads; deletes and
/// updates only address frames that are committed and active at that point)
fn random_history(rng: &mut Rng, n_ops: usize, seed_base: u64) -> Vec<HOp> {
    let mut ops = vec![];
    let mut committed: Vec<(u64, bool)> = vec![]; // (frame id, active)
    let mut pending_frames = 0u64;
    let mut next_id = 0u64;
    let mut s = seed_base;
    for _ in 0..n_ops {
        let active: Vec<u64> = committed.iter().filter(|c| c.1).map(|c| c.0).collect();
        let r = rng.below(100);
        let mut commit_now = |committed: &mut Vec<(u64, bool)>, pending_frames: &mut u64, next_id: &mut u64| {
            for _ in 0..*pending_frames { committed.push((*next_id, true)); *next_id += 1; }
            *pending_frames = 0;
        };
        if r < 45 {
            s += 1;
            let kind = if rng.chance(1, 3) { 1 } else { 0 };
            ops.push(HOp::Put { kind, len: rng.usize(20, 900), seed: s });
            pending_frames += 1;
        } else if r < 57 && !active.is_empty() && pending_frames == 0 {
            let id = *rng.pick(&active);
            ops.push(HOp::Delete { id });
            for c in committed.iter_mut() { if c.0 == id { c.1 = false; } }
        } else if r < 67 && !active.is_empty() && pending_frames == 0 {
            let id = *rng.pick(&active);
            s += 1;
            ops.push(HOp::Update { id, kind: 0, len: rng.usize(20, 400), seed: s });
            for c in committed.iter_mut() { if c.0 == id { c.1 = false; } }
            pending_frames += 1;
        } else if r < 85 {
            ops.push(HOp::Commit);
            commit_now(&mut committed, &mut pending_frames, &mut next_id);
        } else if r < 93 {
            ops.push(HOp::Reopen);
            commit_now(&mut committed, &mut pending_frames, &mut next_id);
        } else {
            ops.push(HOp::Vacuum);
            commit_now(&mut committed, &mut pending_frames, &mut next_id);
        }
    }
    ops
}

fn main() {
    if child_main() {
        return;
    }
    let args = parse_args();
    let exe = std::env::current_exe().unwrap();
    let mut sum = Summary::new("C02", &args, "one evaluation = one process-crash point (prefix of the recorded syscall stream) of one history: surviving m.mv2 reopened by the real Memvid::open and judged against the acknowledged-operations reference; distinct_nontrivial = distinct surviving images");
    let known: Vec<String> = args.extra.get("known").map(|s| s.split(',').map(|x| x.to_string()).collect()).unwrap_or_default();
    let scratch = scratch_dir("c02");
    let mut drv: Option<Driver> = if args.driver.as_os_str() == "none" { None } else { Some(Driver::spawn(&args.driver).expect("driver")) };
    let verbose = args.extra.contains_key("verbose") || args.mode == "replay";
    let only = args.extra.get("only").cloned();

    let mut histories: Vec<(String, Vec<HOp>)> = vec![];
    if args.mode == "replay" {
        let case = load_replay(args.replay_file.as_ref().expect("replay file"));
        let input = case.get("input").cloned().unwrap_or(case.clone());
        let h: Vec<HOp> = serde_json::from_value(input["history"].clone()).expect("history");
        histories.push(("replay".into(), h));
    } else {
        for (n, h) in corpus() {
            if only.as_deref().map(|o| o == n).unwrap_or(true) { histories.push((n.to_string(), h)); }
        }
        if args.thorough && only.is_none() {
            let mut rng = Rng::new(args.seed);
            for i in 0..8u64 {
                let n = rng.usize(5, 10);
                histories.push((format!("random-{i}"), random_history(&mut rng, n, 1000 * (i + 1))));
            }
        }
    }

    for (name, history) in &histories {
        let t0 = std::time::Instant::now();
        let rec = match record_history(&exe, &scratch, history) {
            Ok(r) => r,
            Err(e) => {
                sum.disagreement("recorder failed (strace parse / simulated file system self-check)", json!({"history": history, "name": name}), "-", &e);
                continue;
            }
        };
        let t_rec = t0.elapsed();
        let spans = step_spans(&rec.ops);
        if verbose {
            let mut sim = rec.initial.clone();
            let mut pos = 0;
            for sp in &spans {
                while pos < sp.begin { sim.apply(&rec.ops[pos]); pos += 1; }
                let c = canon_step(&rec.ops, sp.begin, sp.end, &sim, FILE_NAME);
                let r: Vec<String> = rle(&c).into_iter().map(|(t, n)| if n > 1 { format!("{t}*{n}") } else { t }).collect();
                println!("  step {} {} ok={} {}: {}", sp.index, sp.name, sp.ok, sp.err, r.join(" "));
            }
        }
        // coverage tags: did the log wrap / grow in this recording?
        {
            let mut sim = rec.initial.clone();
            let mut seen_rec = false;
            for s in &rec.ops {
                if let SysT::Write { ino, off, data } = s {
                    let f = &sim.inodes[*ino].data;
                    if f.len() >= 4096 && f.starts_with(b"MV2\0") {
                        let wal = le64(f, 24);
                        if *off >= 4096 && *off < 4096 + wal && classify_write(f, *off, data, None) == "rec" {
                            if *off == 4096 && seen_rec { sum.branch("wal-wrapped"); }
                            seen_rec = true;
                        }
                        if *off == 0 && data.len() == 4096 && le64(data, 24) > wal && wal > 0 && sim.dir.get(FILE_NAME) == Some(ino) { sum.branch("wal-grown-in-place"); }
                    }
                }
                sim.apply(s);
            }
        }
        let ev = eval_process_crashes(&exe, &scratch, history, &rec, true);
        // ---- tie #2: the model's `recover` on the symbolic twin of every distinct image
        let preds: Option<Vec<String>> = drv.as_mut().map(|d| {
            let mut ask = |q: &str| d.ask(q);
            model_predictions(&mut ask, &ev)
        });
        let mut model_agrees: Vec<bool> = vec![true; ev.images.len()];
        if let Some(preds) = &preds {
            for (i, ans) in preds.iter().enumerate() {
                let m = model_line(ans);
                let r = obs_model_line(&ev.obs[i].first, &ev.labeller);
                // images that only occur while `create` is in flight: the memory was never acknowledged
                // and the model does not cover the hinted-decode fall-back on a half-written first TOC
                let only_create = ev.points.iter().filter(|p| p.image == i).all(|p| p.inflight == "create");
                if !model_matches(&m, &r) && only_create { sum.branch("create-in-flight-model-exempt"); }
                if !model_matches(&m, &r) && !only_create {
                    model_agrees[i] = false;
                    let k = ev.points.iter().find(|p| p.image == i).map(|p| p.k).unwrap_or(0);
                    if verbose { println!("  DISAGREE image {i} (first at k={k}): model `{ans}` impl `{r}` ({})", ev.obs[i].first.err); }
                    sum.disagreement("recover(model image) differs from the real Memvid::open on the crash image",
                        json!({"history": history, "name": name, "crash_prefix": k}), ans, &r);
                }
            }
        }
        // ---- tie #1: protocol shape of the plain steps
        if let Some(d) = drv.as_mut() {
            let mut sim = rec.initial.clone();
            let mut pos = 0;
            for sp in &spans {
                while pos < sp.begin { sim.apply(&rec.ops[pos]); pos += 1; }
                let c: Vec<String> = canon_step(&rec.ops, sp.begin, sp.end, &sim, FILE_NAME).iter()
                    .map(|t| { let w: Vec<&str> = t.split('.').collect(); if w[0] == "rename" { "rename".to_string() } else if t == "fsync.d" { "fsyncdir".to_string() } else { format!("{}.{}", w[0], w[1]) } }).collect();
                let mut c = c;
                if sp.name == "reopen" {
                    // the clean reopen = staged commit by Drop, then the new handle's `EmbeddedWal::open` and
                    // `recover_wal` each rewrite the sentinel: trailing sentinel writes beyond the first
                    if let Some(rn) = c.iter().position(|t| t == "rename") {
                        let keep = rn + 3;
                        if c.len() > keep && c[keep..].iter().all(|t| t == "pwrite.t") { c.truncate(keep); }
                    }
                }
                let staged_start = c.iter().position(|t| t == "create.t");
                let (expect, what) = match (sp.name.as_str(), staged_start) {
                    ("put" | "update" | "delete", None) if c.len() == 3 => (d.ask(if fixed_put(&rec.ops[sp.begin..sp.end]) { "emit putfixed" } else { "emit put" }), "put"),
                    ("commit" | "drop" | "reopen", Some(cs)) if cs == 2 && c.iter().filter(|t| *t == "rename").count() == 1 => {
                        // inner = everything between the copy's fsync and the last two fsyncs before the rename
                        let rn = c.iter().position(|t| t == "rename").unwrap();
                        let inner = &c[6..rn - 2];
                        if inner.iter().any(|t| !t.ends_with(".t")) { (String::from("inner-touches-original"), "staged") }
                        else {
                            let kinds: Vec<&str> = inner.iter().map(|t| if t.starts_with("pwrite") { "w" } else if t.starts_with("ftruncate") { "t" } else { "f" }).collect();
                            (d.ask(&format!("emit staged {}", if kinds.is_empty() { "-".to_string() } else { kinds.join(",") })), "staged")
                        }
                    }
                    _ => (String::new(), ""),
                };
                if !what.is_empty() {
                    sum.branch(&format!("tie1-{what}"));
                    if expect != c.join(" ") {
                        sum.disagreement("recorded syscall stream of the step differs from the protocol the model emits",
                            json!({"history": history, "name": name, "step": sp.index, "step_name": sp.name}), &expect, &c.join(" "));
                    }
                }
            }
        }
        let t_all = t0.elapsed();
        let mut bad = 0;
        let mut seen_sig: std::collections::BTreeSet<String> = Default::default();
        let mut seen_viol: std::collections::BTreeSet<String> = Default::default();
        for p in &ev.points {
            sum.branch(&format!("crash-in-{}", p.inflight));
            let canon = format!("{name}/{}", p.image);
            let o = &ev.obs[p.image].first;
            sum.case(&canon, true, || json!({"history": name, "k": p.k, "inflight": p.inflight, "obs": o.logical()}));
            if !p.verdict.ok {
                bad += 1;
                let case = json!({"history": history, "name": name, "crash_prefix": p.k, "inflight": p.inflight,
                                  "last_syscall": rec.ops[p.k - 1].brief(), "observation": o.logical()});
                let first = seen_sig.insert(p.verdict.signature.clone());
                if verbose && first { println!("  FAIL k={} {} :: {} :: {}", p.k, rec.ops[p.k - 1].brief(), p.verdict.signature, p.verdict.what); }
                // known only when the model predicts this very outcome and the class is listed
                let predicted = preds.is_none() || model_agrees[p.image];
                if known.contains(&p.verdict.signature) && predicted {
                    sum.known_finding(&p.verdict.signature, &p.verdict.what, case);
                } else if seen_viol.insert(p.verdict.signature.clone()) {
                    // (de-duplicated among REPORTED violations only: an earlier instance of the class that was a
                    // model-predicted known finding must not hide a later one the model does not predict)
                    sum.oracle_violation(&p.verdict.signature, &p.verdict.what, case);
                }
            } else {
                sum.branch(&format!("matched-{}", p.verdict.matched));
            }
        }
        println!("history {name}: ops={} crash_points={} distinct_images={} failing_points={} record={:.1}s total={:.1}s",
            rec.ops.len(), ev.points.len(), ev.images.len(), bad, t_rec.as_secs_f64(), t_all.as_secs_f64());
    }
    if only.is_none() && args.mode != "replay" {
        sum.expect_branches(&["tie1-put", "tie1-staged", "crash-in-put", "crash-in-commit", "crash-in-vacuum", "crash-in-batch_begin",
            "crash-in-commit_skip_indexes", "crash-in-finalize_indexes", "wal-wrapped", "wal-grown-in-place", "matched-acked", "matched-acked+inflight"]);
    }
    if let Some(d) = &drv { sum.model_requests = d.requests; }
    let _ = std::fs::remove_dir_all(&scratch);
    sum.finish(&args);
}
