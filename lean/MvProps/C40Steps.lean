/-
  C40Steps — the invariants of an ingestion of plain puts and how every operation of the three
  ingestion programs (put with its automatic checkpoint, commit, begin_batch, end_batch, the repaired
  commit_skip_indexes and finalize_indexes) maintains them.
-/
import MvProps.C40Inv
namespace Mv.Core

/-! ## Invariants -/

/-- the state an ingestion starts from: nothing but Lex records pending, an attached engine that
    holds exactly the indexable active frames, a vector index whose entries are active frames, a
    complete sketch track, a readable frame table -/
structure Start (m0 : Mem) : Prop where
  pend : OnlyLexRecs m0.pending
  engine : m0.engine = true
  lexEnabled : m0.lexEnabled = true
  lex : m0.lexDocs = fullLexRebuild m0.frames
  vecAct : ∀ e ∈ m0.vec.getD [], isActive m0.frames e.id = true
  vecOff : m0.vecEnabled = false → m0.vec.getD [] = []
  noOrphan : NoOrphan m0.frames
  frameOk : ∀ f ∈ m0.frames, FrameOk f
  sketchComplete : missingSketches m0.frames m0.sketch = []
  sketchBound : ∀ i ∈ m0.sketch, i < m0.frames.length
  pSketch : m0.sketch = [] → m0.pSketch = []

/-- `m` is `m0` after the documents `cd` were committed and the puts `pd` are pending in the WAL -/
structure Mid (m0 : Mem) (cd : List PutArgs) (pd : List (Nat × PutArgs)) (m : Mem) : Prop where
  frames : ∃ nf, m.frames = m0.frames ++ nf ∧ NewFrames nf m0.frames.length cd
  pend : ∃ L, OnlyLexRecs L ∧ m.pending = L ++ recsOf pd
  pdOk : ∀ p ∈ pd, DocOk p.2
  cdOk : ∀ a ∈ cd, DocOk a
  engine : m.engine = true
  lexEnabled : m.lexEnabled = true
  vec : m.vec.getD [] = m0.vec.getD [] ++ embsOf m0.frames.length cd
  ve : m.vecEnabled = (m0.vecEnabled || (cd ++ pd.map (·.2)).any wantsVec)

/-- everything is committed and every index is rebuilt and persisted -/
structure Settled (m : Mem) : Prop where
  time : m.time = some (timeEntries m.frames)
  lex : m.lexDocs = fullLexRebuild m.frames
  td : m.tantivyDirty = false
  segs : m.tantivySegs = true
  vec : m.vec = if m.vecEnabled then some (m.vec.getD []) else none
  pVec : m.pVec = m.vec
  pVecMan : m.pVecMan = m.vecEnabled
  vecMan : m.vecManifest = m.vecEnabled
  pSketch : m.pSketch = m.sketch
  dirty : m.dirty = false

/-- the extra invariant of the paths whose commits are all full commits (plain, batch) -/
structure FullInv (m0 : Mem) (cd : List PutArgs) (pd : List (Nat × PutArgs)) (m : Mem) : Prop where
  sketch : m.sketch = m0.sketch ++ lidx (ldocs m0.frames.length cd)
  lex : m.lexDocs = fullLexRebuild m.frames ∨ (m.tantivyDirty = true ∧ pd ≠ [])
  pSk : m.sketch = [] → m.pSketch = []
  settled : pd = [] → cd ≠ [] → Settled m

/-- `m'` and `m` agree on every field the invariants mention (`pVecMan` may have been refreshed from
    `vecManifest` by a TOC rewrite) -/
structure Same (m' m : Mem) : Prop where
  frames : m'.frames = m.frames
  pending : m'.pending = m.pending
  engine : m'.engine = m.engine
  lexEnabled : m'.lexEnabled = m.lexEnabled
  vec : m'.vec = m.vec
  vecEnabled : m'.vecEnabled = m.vecEnabled
  sketch : m'.sketch = m.sketch
  lexDocs : m'.lexDocs = m.lexDocs
  td : m'.tantivyDirty = m.tantivyDirty
  pSketch : m'.pSketch = m.pSketch
  time : m'.time = m.time
  segs : m'.tantivySegs = m.tantivySegs
  pVec : m'.pVec = m.pVec
  pVecMan : m'.pVecMan = m.pVecMan ∨ m'.pVecMan = m.vecManifest
  vecMan : m'.vecManifest = m.vecManifest
  dirty : m'.dirty = m.dirty

theorem Same.refl (m : Mem) : Same m m :=
  ⟨rfl, rfl, rfl, rfl, rfl, rfl, rfl, rfl, rfl, rfl, rfl, rfl, rfl, Or.inl rfl, rfl, rfl⟩

theorem Same.mid {m' m m0 : Mem} {cd pd} (s : Same m' m) (h : Mid m0 cd pd m) : Mid m0 cd pd m' :=
  ⟨by rw [s.frames]; exact h.frames, by rw [s.pending]; exact h.pend, h.pdOk, h.cdOk, by rw [s.engine]; exact h.engine,
   by rw [s.lexEnabled]; exact h.lexEnabled, by rw [s.vec]; exact h.vec, by rw [s.vecEnabled]; exact h.ve⟩

theorem Same.settled {m' m : Mem} (s : Same m' m) (h : Settled m) : Settled m' := by
  refine ⟨by rw [s.time, s.frames]; exact h.time, by rw [s.lexDocs, s.frames]; exact h.lex, by rw [s.td]; exact h.td,
    by rw [s.segs]; exact h.segs, by rw [s.vec, s.vecEnabled]; exact h.vec, by rw [s.pVec, s.vec]; exact h.pVec, ?_,
    by rw [s.vecMan, s.vecEnabled]; exact h.vecMan, by rw [s.pSketch, s.sketch]; exact h.pSketch, by rw [s.dirty]; exact h.dirty⟩
  rcases s.pVecMan with hp | hp
  · rw [hp, s.vecEnabled]; exact h.pVecMan
  · rw [hp, s.vecEnabled]; exact h.vecMan

theorem Same.fullInv {m' m m0 : Mem} {cd pd} (s : Same m' m) (h : FullInv m0 cd pd m) : FullInv m0 cd pd m' :=
  ⟨by rw [s.sketch]; exact h.sketch, by rw [s.lexDocs, s.frames, s.td]; exact h.lex,
   by rw [s.sketch, s.pSketch]; exact h.pSk, fun h1 h2 => s.settled (h.settled h1 h2)⟩

/-! ## Derived facts -/

theorem NewFrames.length {nf : List Frame} {k : Nat} {ds : List PutArgs} (h : NewFrames nf k ds) : nf.length = flen ds := by
  have := congrArg List.length h.1
  rw [List.length_map, ldocs_length] at this
  exact this

theorem Mid.length {m0 m : Mem} {cd pd} (h : Mid m0 cd pd m) : m.frames.length = m0.frames.length + flen cd := by
  obtain ⟨nf, hf, hn⟩ := h.frames
  rw [hf, List.length_append, hn.length]

theorem Mid.noOrphan {m0 m : Mem} {cd pd} (s : Start m0) (h : Mid m0 cd pd m) : NoOrphan m.frames := by
  obtain ⟨nf, hf, hn⟩ := h.frames
  rw [hf]; exact NoOrphan_append s.noOrphan hn.2

theorem Mid.frameOk {m0 m : Mem} {cd pd} (s : Start m0) (h : Mid m0 cd pd m) : ∀ f ∈ m.frames, FrameOk f := by
  obtain ⟨nf, hf, hn⟩ := h.frames
  rw [hf]
  intro f hm
  rcases List.mem_append.mp hm with h1 | h1
  · exact s.frameOk f h1
  · exact (hn.2 f h1).1

/-- every entry of the in-memory vector index names an active frame -/
theorem Mid.vecAct {m0 m : Mem} {cd pd} (s : Start m0) (h : Mid m0 cd pd m) :
    ∀ e ∈ m.vec.getD [], isActive m.frames e.id = true := by
  obtain ⟨nf, hf, hn⟩ := h.frames
  intro e he
  rw [h.vec] at he
  rw [hf]
  rcases List.mem_append.mp he with h1 | h1
  · have := s.vecAct e h1
    rw [isActive_append_left _ _ _ (isActive_lt _ _ this)]; exact this
  · have := embsOf_id cd m0.frames.length e h1
    exact isActive_append_right _ _ _ this.1 (by rw [hn.length]; exact this.2) (fun f hf => (hn.2 f hf).2.1)

theorem filter_active_self {m0 m : Mem} {cd pd} (s : Start m0) (h : Mid m0 cd pd m) (nf : List Frame) :
    (m.vec.getD []).filter (fun e => isActive (m.frames ++ nf) e.id) = m.vec.getD [] := by
  apply List.filter_eq_self.mpr
  intro e he
  have := h.vecAct s e he
  rw [isActive_append_left _ _ _ (isActive_lt _ _ this)]; exact this

/-- no document asked for vectors: there is nothing in the vector index and nothing to add -/
theorem Mid.noVec {m0 m : Mem} {cd pd} (s : Start m0) (h : Mid m0 cd pd m) (hv : m.vecEnabled = false) :
    m0.vec.getD [] = [] ∧ embsOf m0.frames.length (cd ++ pd.map (·.2)) = [] := by
  have hve := h.ve
  rw [hv] at hve
  have h2 : m0.vecEnabled = false ∧ (cd ++ pd.map (·.2)).any wantsVec = false := by
    have := hve.symm
    simpa only [Bool.or_eq_false_iff] using this
  refine ⟨s.vecOff h2.1, embsOf_nil _ _ (any_hasEmb_false ?_ h2.2)⟩
  intro a ha
  rcases List.mem_append.mp ha with h1 | h1
  · exact h.cdOk a h1
  · obtain ⟨p, hp, rfl⟩ := List.mem_map.mp h1
    exact h.pdOk p hp

/-! ## The engine after a full commit -/

theorem fullLexRebuild_nil_iff (nf : List Frame) (h : fullLexRebuild nf = []) :
    ∀ f ∈ nf, (f.status == Status.active && f.idx) = false := by
  intro f hf
  unfold fullLexRebuild at h
  have := List.map_eq_nil_iff.mp h
  have h2 := List.filter_eq_nil_iff.mp this f hf
  simpa using h2

theorem lexAfter_full (m : Mem) (nf : List Frame) (pe de : Nat) (he : m.engine = true)
    (hlex : m.lexDocs = fullLexRebuild m.frames ∨ m.tantivyDirty = true) :
    lexAfter (m.applied nf pe de true) (List.range' m.frames.length nf.length) = fullLexRebuild (m.frames ++ nf) := by
  unfold lexAfter
  simp only [applied_tantivyDirty, applied_frames, applied_engine, applied_lexDocs, he, Bool.and_self, Bool.true_and, if_true]
  by_cases htd : (m.tantivyDirty || !(fullLexRebuild nf).isEmpty) = true
  · simp only [htd, if_true]
  · have htd' : (m.tantivyDirty || !(fullLexRebuild nf).isEmpty) = false := by simpa using htd
    simp only [htd', Bool.false_eq_true, if_false]
    have h1 : m.tantivyDirty = false ∧ fullLexRebuild nf = [] := by
      cases h : m.tantivyDirty <;> cases h' : fullLexRebuild nf <;> simp_all
    have hl : m.lexDocs = fullLexRebuild m.frames := by
      rcases hlex with h | h
      · exact h
      · rw [h1.1] at h; cases h
    split
    · rw [hl, h1.2, List.append_nil, fullLexRebuild_append, h1.2, List.append_nil]
      rw [List.filter_eq_nil_iff.mpr, List.append_nil]
      intro id hid
      have hr := List.mem_range'_1.mp hid
      rw [List.getElem?_append_right hr.1]
      have hlt : id - m.frames.length < nf.length := by omega
      rw [List.getElem?_eq_getElem hlt]
      have := fullLexRebuild_nil_iff nf h1.2 _ (List.getElem_mem hlt)
      simp [this]
    · rfl

end Mv.Core
