/-
  C33 — a toy Unicode: four special symbols (base `e`, combining acute U+0301, precomposed `é`,
  a Prepend character U+0600) on top of the std control / whitespace classes.
  `toyNfkc` composes every adjacent `e`+U+0301 into `é` (left to right); `segment toyNb` glues a
  combining mark to what precedes it and a Prepend character to what follows it (GB9 / GB9b).
  The instance satisfies every law the C33 theorems assume (so the laws are consistent), and it
  carries the counterexamples for the unrepaired arrangement.
-/
import MvProps.C33Lemmas
namespace Mv.Text

def ACUTE : Char := Char.ofNat 0x301
def EACUTE : Char := Char.ofNat 0xE9
def PRE : Char := Char.ofNat 0x600

def toyNfkc : List Char → List Char
  | [] => []
  | [c] => [c]
  | a :: b :: r => if a = 'e' ∧ b = ACUTE then EACUTE :: toyNfkc r else a :: toyNfkc (b :: r)

/-- generic segmentation: `nb a b` = no boundary between adjacent `a` and `b` -/
def segment (nb : Char → Char → Bool) : List Char → List (List Char)
  | [] => []
  | c :: r =>
    match segment nb r with
    | [] => [[c]]
    | [] :: gs => [c] :: gs
    | (d :: g) :: gs => if nb c d then (c :: d :: g) :: gs else [c] :: (d :: g) :: gs

def toyNb (a b : Char) : Bool := b == ACUTE || (a == PRE && !stdIsControl b)

def toyU : Uni :=
  { nfkc := toyNfkc, isControl := stdIsControl, isWhitespace := stdIsWhitespace, graphemes := segment toyNb }

/-! ### segmentation laws (for every `nb`) -/

theorem segment_flat (nb : Char → Char → Bool) (s : List Char) : (segment nb s).flatten = s := by
  induction s with
  | nil => rfl
  | cons c r ih =>
    unfold segment
    split
    · rename_i h; rw [h] at ih; simp at ih; simp [← ih]
    · rename_i gs h; rw [h] at ih; simp at ih; simp [← ih]
    · rename_i d g gs h
      rw [h] at ih
      split <;> simp [← ih]

theorem segment_ne (nb : Char → Char → Bool) (s : List Char) : ∀ g ∈ segment nb s, g ≠ [] := by
  induction s with
  | nil => simp [segment]
  | cons c r ih =>
    unfold segment
    split
    · simp
    · rename_i gs h
      rw [h] at ih
      intro g hg
      simp only [List.mem_cons] at hg
      rcases hg with rfl | hg
      · simp
      · exact ih g (by simp [hg])
    · rename_i d g0 gs h
      rw [h] at ih
      split
      · intro g hg
        simp only [List.mem_cons] at hg
        rcases hg with rfl | hg
        · simp
        · exact ih g (by simp [hg])
      · intro g hg
        simp only [List.mem_cons] at hg
        rcases hg with rfl | rfl | hg
        · simp
        · simp
        · exact ih g (by simp [hg])

theorem toy_seg : SegLaws toyU := ⟨segment_flat toyNb, segment_ne toyNb⟩

theorem toy_char : CharLaws toyU := by
  refine ⟨?_, ?_, ?_⟩ <;> decide

/-! ### NFKC laws of the toy composition -/

theorem pair_infix_cons {α} (x y c : α) (s : List α) :
    [x, y] <:+: c :: s ↔ (x = c ∧ s.head? = some y) ∨ [x, y] <:+: s := by
  constructor
  · rintro ⟨p, q, hpq⟩
    cases p with
    | nil =>
      simp only [List.nil_append, List.cons_append, List.cons.injEq] at hpq
      obtain ⟨rfl, hs⟩ := hpq
      left; exact ⟨rfl, by rw [← hs]; rfl⟩
    | cons z p' =>
      simp only [List.cons_append, List.cons.injEq] at hpq
      right; exact ⟨p', q, by simpa using hpq.2⟩
  · rintro (⟨rfl, hy⟩ | h)
    · cases s with
      | nil => simp at hy
      | cons z r =>
        simp only [List.head?_cons, Option.some.injEq] at hy
        subst hy
        exact ⟨[], r, by simp⟩
    · exact List.infix_cons h

/-- no composable pair left -/
def NoPair (s : List Char) : Prop := ¬ ['e', ACUTE] <:+: s

theorem noPair_short {s : List Char} (h : s.length < 2) : NoPair s := by
  intro hi
  have := List.IsInfix.length_le hi
  simp at this; omega

theorem toyNfkc_head (b : Char) (r : List Char) :
    (toyNfkc (b :: r)).head? = some b ∨ (toyNfkc (b :: r)).head? = some EACUTE := by
  cases r with
  | nil => left; rfl
  | cons c r' =>
    unfold toyNfkc
    split <;> simp

theorem toyNfkc_noPair (s : List Char) : NoPair (toyNfkc s) := by
  fun_induction toyNfkc s with
  | case1 => exact noPair_short (by simp)
  | case2 c => exact noPair_short (by simp)
  | case3 a b r hab ih =>
    unfold NoPair
    rw [pair_infix_cons]
    rintro (⟨h, _⟩ | h)
    · exact absurd h (by decide)
    · exact ih h
  | case4 a b r hab ih =>
    unfold NoPair
    rw [pair_infix_cons]
    rintro (⟨h, hh⟩ | h)
    · rcases toyNfkc_head b r with e | e
      · rw [e] at hh
        simp only [Option.some.injEq] at hh
        exact hab ⟨h.symm, hh⟩
      · rw [e] at hh
        simp only [Option.some.injEq] at hh
        exact absurd hh (by decide)
    · exact ih h

theorem toyNfkc_eq_self_iff (s : List Char) : toyNfkc s = s ↔ NoPair s := by
  fun_induction toyNfkc s with
  | case1 => exact ⟨fun _ => noPair_short (by simp), fun _ => rfl⟩
  | case2 c => exact ⟨fun _ => noPair_short (by simp), fun _ => rfl⟩
  | case3 a b r hab ih =>
    constructor
    · intro h
      simp only [List.cons.injEq] at h
      rw [hab.1] at h
      exact absurd h.1 (by decide)
    · intro h
      exfalso; apply h
      rw [hab.1, hab.2]
      exact ⟨[], r, by simp⟩
  | case4 a b r hab ih =>
    unfold NoPair
    rw [pair_infix_cons]
    simp only [List.cons.injEq, true_and, List.head?_cons, Option.some.injEq, not_or]
    constructor
    · intro h
      exact ⟨fun ⟨h1, h2⟩ => hab ⟨h1.symm, h2⟩, ih.mp h⟩
    · intro h
      exact ih.mpr h.2

theorem pair_infix_sep {α} {x y c : α} {a b : List α} (h : [x, y] <:+: a ++ c :: b) :
    [x, y] <:+: a ∨ [x, y] <:+: b ∨ x = c ∨ y = c := by
  induction a with
  | nil =>
    rw [List.nil_append, pair_infix_cons] at h
    rcases h with ⟨h, _⟩ | h
    · right; right; left; exact h
    · right; left; exact h
  | cons z a' ih =>
    rw [List.cons_append, pair_infix_cons] at h
    rcases h with ⟨hz, hh⟩ | h
    · cases a' with
      | nil =>
        simp only [List.nil_append, List.head?_cons, Option.some.injEq] at hh
        right; right; right; exact hh.symm
      | cons w a'' =>
        simp only [List.cons_append, List.head?_cons, Option.some.injEq] at hh
        left; rw [hz, ← hh]; exact ⟨[], a'', by simp⟩
    · rcases ih h with h | h | h | h
      · left; exact List.infix_cons h
      · right; left; exact h
      · right; right; left; exact h
      · right; right; right; exact h

theorem toyNfkc_mem (s : List Char) : ∀ c ∈ toyNfkc s, c ∈ s ∨ c = EACUTE := by
  fun_induction toyNfkc s with
  | case1 => simp
  | case2 c => simp
  | case3 a b r hab ih =>
    intro c hc
    simp only [List.mem_cons] at hc ⊢
    rcases hc with rfl | hc
    · right; rfl
    · rcases ih c hc with h | h
      · left; right; right; exact h
      · right; exact h
  | case4 a b r hab ih =>
    intro c hc
    simp only [List.mem_cons] at hc ⊢
    rcases hc with rfl | hc
    · left; left; rfl
    · rcases ih c hc with h | h
      · left; right; simpa using h
      · right; exact h

theorem toy_nfkc : NfkcLaws toyU where
  idem := fun s => (toyNfkc_eq_self_iff _).mpr (toyNfkc_noPair s)
  sub := by
    intro a b h
    have hp : NoPair (a ++ b) := (toyNfkc_eq_self_iff _).mp h
    exact ⟨(toyNfkc_eq_self_iff _).mpr fun hi => hp (hi.trans (List.infix_append_of_infix_left (List.infix_refl a))),
      (toyNfkc_eq_self_iff _).mpr fun hi => hp (hi.trans (List.infix_append_of_infix_right (List.infix_refl b)))⟩
  join := by
    intro a b c hc ha hb
    have ha' : NoPair a := (toyNfkc_eq_self_iff _).mp ha
    have hb' : NoPair b := (toyNfkc_eq_self_iff _).mp hb
    apply (toyNfkc_eq_self_iff _).mpr
    intro hi
    rcases pair_infix_sep hi with h | h | h | h
    · exact ha' h
    · exact hb' h
    · rcases hc with rfl | rfl <;> exact absurd h (by decide)
    · rcases hc with rfl | rfl <;> exact absurd h (by decide)
  ctl := by
    intro s hs c hc hctl
    rcases toyNfkc_mem s c hc with h | h
    · exact hs c h hctl
    · rw [h] at hctl; exact absurd hctl (by decide)

end Mv.Text
