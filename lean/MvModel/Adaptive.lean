/-
  Model of `/repo/src/types/adaptive.rs`: `normalize_scores`, the five cut-off strategies and the
  dispatcher `find_adaptive_cutoff` with its two early returns.

  The arithmetic is a PARAMETER (`Ops α`): the same model text is run
    * over `Mv.F32.F` (bit-exact software binary32, MvModel/AdaptiveF32.lean) by the driver, and
    * over extended exact rationals in the theorems that need field/ordering laws.
  Theorems that only concern the index arithmetic (`C37_bounds`, `C37_threshold`) hold for EVERY
  `Ops`, so in particular for real f32 with NaN, infinities, rounding and overflow.
-/
import MvModel.Gen.C37
namespace Mv.Adaptive

/-- the float operations `adaptive.rs` uses -/
structure Ops (α : Type) where
  /-- `a < b` (false when either side is NaN) -/
  lt : α → α → Bool
  isNaN : α → Bool
  add : α → α → α
  sub : α → α → α
  mul : α → α → α
  div : α → α → α
  abs : α → α
  sqrt : α → α
  /-- `n as f32` -/
  ofNat : Nat → α
  /-- `f32::EPSILON` -/
  eps : α
  /-- `f32::INFINITY` -/
  inf : α
  /-- `f32::NEG_INFINITY` -/
  negInf : α

namespace Ops
variable {α : Type} (o : Ops α)
/-- `a > b` -/
def gt (a b : α) : Bool := o.lt b a
def zero : α := o.ofNat 0
def one : α := o.ofNat 1
/-- `f32::max`: a NaN argument is ignored -/
def fmax (a b : α) : α := if o.isNaN a then b else if o.isNaN b then a else if o.lt a b then b else a
/-- `f32::min`: a NaN argument is ignored -/
def fmin (a b : α) : α := if o.isNaN a then b else if o.isNaN b then a else if o.lt b a then b else a
/-- the literal `0.05` of the elbow significance test (decimal ratio from the source, rounded by `div`) -/
def elbowFactor : α := o.div (o.ofNat Mv.Gen.C37.ELBOW_FACTOR_NUM) (o.ofNat Mv.Gen.C37.ELBOW_FACTOR_DEN)
end Ops

/-- `CutoffStrategy` -/
inductive Strategy (α : Type) where
  | absolute (minScore : α)
  | relative (minRatio : α)
  | cliff (maxDropRatio : α)
  | elbow (sensitivity : α)
  | combined (relativeThreshold maxDropRatio absoluteMin : α)

/-- the fields of `AdaptiveConfig` that `find_adaptive_cutoff` reads
    (`enabled` and `max_results` are not read by it) -/
structure Config (α : Type) where
  minResults : Nat
  strategy : Strategy α
  normalize : Bool

/-- the kind of the `triggered_by` label (the `score_cliff(12.3%)` suffix is not modelled) -/
inductive Trigger where
  | noResults | minResults | absoluteThreshold | noCutoff | scoreCliff | tooFewPoints | flatCurve
  | elbowDetection | noSignificantElbow | absoluteMin | relativeThreshold
deriving DecidableEq, Repr

def Trigger.name : Trigger → String
  | .noResults => "no_results" | .minResults => "min_results" | .absoluteThreshold => "absolute_threshold"
  | .noCutoff => "no_cutoff" | .scoreCliff => "score_cliff" | .tooFewPoints => "too_few_points"
  | .flatCurve => "flat_curve" | .elbowDetection => "elbow_detection"
  | .noSignificantElbow => "no_significant_elbow" | .absoluteMin => "absolute_min"
  | .relativeThreshold => "relative_threshold"

variable {α : Type} (o : Ops α)

/-- `normalize_scores` -/
def normalize (s : List α) : List α :=
  if s.isEmpty then []
  else
    let maxScore := s.foldl o.fmax o.negInf
    let minScore := s.foldl o.fmin o.inf
    let range := o.sub maxScore minScore
    if o.lt range o.eps then s.map (fun _ => o.one)
    else s.map (fun x => o.div (o.sub x minScore) range)

/-- the loop of `find_absolute_cutoff`: first index `i ≥ minResults` with `score < minScore` -/
def absGo (thr : α) (minResults : Nat) : List α → Nat → Option Nat
  | [], _ => none
  | x :: xs, i => if o.lt x thr && decide (i ≥ minResults) then some i else absGo thr minResults xs (i + 1)

/-- `find_absolute_cutoff` -/
def findAbsoluteCutoff (scores : List α) (minScore : α) (minResults : Nat) : Nat × Trigger :=
  match absGo o minScore minResults scores 0 with
  | some i => (i, .absoluteThreshold)
  | none => (scores.length, .noCutoff)

/-- the drop test shared by the cliff and the combined strategy:
    `prev > EPSILON` and `(prev - curr) / prev > max_drop_ratio` -/
def isCliff (maxDrop prev curr : α) : Bool :=
  o.gt prev o.eps && o.gt (o.div (o.sub prev curr) prev) maxDrop

/-- the loop of `find_cliff_cutoff` (`for i in 1..n`, `prev = scores[i-1]`, `curr = scores[i]`) -/
def cliffGo (maxDrop : α) (minResults : Nat) : α → List α → Nat → Option Nat
  | _, [], _ => none
  | prev, curr :: rest, i =>
    if i < minResults then cliffGo maxDrop minResults curr rest (i + 1)
    else if isCliff o maxDrop prev curr then some i
    else cliffGo maxDrop minResults curr rest (i + 1)

/-- `find_cliff_cutoff` -/
def findCliffCutoff (scores : List α) (maxDrop : α) (minResults : Nat) : Nat × Trigger :=
  match scores with
  | [] => (0, .noCutoff)
  | x :: rest =>
    match cliffGo o maxDrop minResults x rest 1 with
    | some i => (i, .scoreCliff)
    | none => (scores.length, .noCutoff)

/-- the loop of `find_combined_cutoff` (`prev = none` exactly when `i = 0`) -/
def combGo (relMin maxDrop absMin : α) (minResults : Nat) : Option α → List α → Nat → Option (Nat × Trigger)
  | _, [], _ => none
  | prev, x :: xs, i =>
    if i < minResults then combGo relMin maxDrop absMin minResults (some x) xs (i + 1)
    else if o.lt x absMin then some (i, .absoluteMin)
    else if o.lt x relMin then some (i, .relativeThreshold)
    else match prev with
      | some p =>
        if isCliff o maxDrop p x then some (i, .scoreCliff)
        else combGo relMin maxDrop absMin minResults (some x) xs (i + 1)
      | none => combGo relMin maxDrop absMin minResults (some x) xs (i + 1)

/-- `find_combined_cutoff` -/
def findCombinedCutoff (scores : List α) (topScore relThr maxDrop absMin : α) (minResults : Nat) : Nat × Trigger :=
  let relMin := o.mul topScore relThr
  match combGo o relMin maxDrop absMin minResults none scores 0 with
  | some r => r
  | none => (scores.length, .noCutoff)

/-- the values the elbow loop keeps between iterations -/
structure ElbowCtx (α : Type) where
  n : Nat
  x1 : α
  y1 : α
  x2 : α
  y2 : α
  lineLen : α
  sensitivity : α

/-- `x_norm[i] = i as f32 / (n - 1) as f32` -/
def xNorm (n i : Nat) : α := o.div (o.ofNat i) (o.ofNat (n - 1))

/-- the adjusted distance of point `(x_norm[i], y0)` from the chord -/
def elbowAdjusted (c : ElbowCtx α) (i : Nat) (y0 : α) : α :=
  let x0 := xNorm o c.n i
  let num := o.sub (o.add (o.sub (o.mul (o.sub c.y2 c.y1) x0) (o.mul (o.sub c.x2 c.x1) y0)) (o.mul c.x2 c.y1))
              (o.mul c.y2 c.x1)
  let distance := o.div (o.abs num) c.lineLen
  o.mul distance (o.add o.one (o.mul c.sensitivity (o.sub o.one x0)))

/-- the loop `for i in min_results..n - 1`; the list is `scores[i..]`, the state `(max_distance, elbow_index)` -/
def elbowGo (c : ElbowCtx α) : List α → Nat → α × Nat → α × Nat
  | [], _, st => st
  | y0 :: ys, i, st =>
    if i + 1 < c.n then
      let adj := elbowAdjusted o c i y0
      elbowGo c ys (i + 1) (if o.gt adj st.1 then (adj, i) else st)
    else st

/-- `find_elbow_cutoff` -/
def findElbowCutoff (scores : List α) (sensitivity : α) (minResults : Nat) : Nat × Trigger :=
  let n := scores.length
  if n < Mv.Gen.C37.ELBOW_MIN_POINTS then (n, .tooFewPoints)
  else
    match scores, scores.getLast? with
    | y1 :: _, some y2 =>
      let x1 : α := xNorm o n 0
      let x2 : α := xNorm o n (n - 1)
      let dx := o.sub x2 x1
      let dy := o.sub y2 y1
      let lineLen := o.sqrt (o.add (o.mul dx dx) (o.mul dy dy))
      if o.lt lineLen o.eps then (n, .flatCurve)
      else
        let c : ElbowCtx α := { n, x1, y1, x2, y2, lineLen, sensitivity }
        let st := elbowGo o c (scores.drop minResults) minResults (o.zero, minResults)
        if o.gt st.1 (o.mul o.elbowFactor sensitivity) then (st.2 + 1, .elbowDetection)
        else (n, .noSignificantElbow)
    | _, _ => (n, .tooFewPoints)

/-- `find_adaptive_cutoff` -/
def findAdaptiveCutoff (scores : List α) (cfg : Config α) : Nat × Trigger :=
  if scores.isEmpty then (0, .noResults)
  else if scores.length ≤ cfg.minResults then (scores.length, .minResults)
  else
    let normalized := if cfg.normalize then normalize o scores else scores
    match normalized with
    | [] => (0, .noResults)
    | topScore :: _ =>
      match cfg.strategy with
      | .absolute minScore => findAbsoluteCutoff o normalized minScore cfg.minResults
      | .relative minRatio => findAbsoluteCutoff o normalized (o.mul topScore minRatio) cfg.minResults
      | .cliff maxDrop => findCliffCutoff o normalized maxDrop cfg.minResults
      | .elbow sens => findElbowCutoff o normalized sens cfg.minResults
      | .combined rel maxDrop absMin => findCombinedCutoff o normalized topScore rel maxDrop absMin cfg.minResults

/-- `AdaptiveConfig::default()`: combined 0.5 / 0.4 / 0.3, `min_results = 1`, normalising -/
def defaultConfig : Config α :=
  let r (n d : Nat) : α := o.div (o.ofNat n) (o.ofNat d)
  { minResults := Mv.Gen.C37.DEFAULT_MIN_RESULTS
    normalize := Mv.Gen.C37.DEFAULT_NORMALIZE
    strategy := .combined (r Mv.Gen.C37.DEFAULT_REL_NUM Mv.Gen.C37.DEFAULT_REL_DEN)
                          (r Mv.Gen.C37.DEFAULT_DROP_NUM Mv.Gen.C37.DEFAULT_DROP_DEN)
                          (r Mv.Gen.C37.DEFAULT_ABS_NUM Mv.Gen.C37.DEFAULT_ABS_DEN) }

end Mv.Adaptive
