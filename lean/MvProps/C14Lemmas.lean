/-
  C14Lemmas — the vector-index invariant of the Core model.

  Ghost state: `E : List (Option Emb)` = for every frame id handed out so far, the embedding the
  acknowledged call gave that frame (directly, per chunk, or carried by an update).
  `VInv m E` says: the in-memory vector index holds exactly the committed ACTIVE frames with an embedding
  in `E` (with that embedding, once each), the pending Insert records carry the embeddings of the ids
  they will get, the persisted index equals the in-memory one, and vectors are enabled whenever an
  embedding is stored or pending.  Sections:
    A  lists / statuses            B  one `apply_records` record        C  the whole `apply_records`
    D  `VInv`, transport lemmas    E  commit                            F  put / update / delete
    G  open / crash / the rest     H  one step, whole histories
-/
import MvProps.CoreLemmas
import MvModel.VecIdx
namespace Mv.Core

/-! ## A. lists, statuses -/

def vecL (m : Mem) : List VecEnt := m.vec.getD []

/-- the embedding an Insert record carries -/
def insEmb : Entry → Option (Option Emb)
  | .insert e => some e.emb
  | _ => none

/-- embeddings of the pending Insert records, in id order -/
def pendEmbs (recs : List (Nat × Entry)) : List (Option Emb) := recs.filterMap (fun r => insEmb r.2)

theorem pendEmbs_append (a b : List (Nat × Entry)) : pendEmbs (a ++ b) = pendEmbs a ++ pendEmbs b := by
  simp [pendEmbs, List.filterMap_append]

theorem pendEmbs_length (recs : List (Nat × Entry)) : (pendEmbs recs).length = countInserts recs := by
  induction recs with
  | nil => rfl
  | cons r rs ih =>
    rw [countInserts_cons]
    obtain ⟨sq, e⟩ := r
    cases e <;> simp [pendEmbs, insEmb, Entry.isInsert] at ih ⊢ <;> omega

theorem pendEmbs_onlyLex (recs : List (Nat × Entry)) (h : OnlyLex recs) : pendEmbs recs = [] := by
  induction recs with
  | nil => rfl
  | cons r rs ih =>
    have hr : r.2 = Entry.lex := h r (by simp)
    have := ih (fun x hx => h x (by simp [hx]))
    simp [pendEmbs, hr, insEmb] at this ⊢
    exact this

def statusOf (frames : List Frame) (id : Nat) : Option Status := (frames[id]?).map (·.status)

theorem isActive_eq (frames : List Frame) (id : Nat) :
    isActive frames id = decide (statusOf frames id = some Status.active) := by
  unfold isActive statusOf
  cases frames[id]? with
  | none => simp
  | some f => cases h : f.status <;> simp [h]

theorem isActive_iff (frames : List Frame) (id : Nat) :
    isActive frames id = true ↔ statusOf frames id = some Status.active := by
  rw [isActive_eq]; simp

theorem isActive_lt {frames : List Frame} {id : Nat} (h : isActive frames id = true) : id < frames.length := by
  unfold isActive at h
  cases hf : frames[id]? with
  | none => simp [hf] at h
  | some f => exact (List.getElem?_eq_some_iff.mp hf).1

/-- statuses as the spec sees them -/
theorem statusOf_view (frames : List Frame) (id : Nat) :
    statusOf frames id = ((frames.map view)[id]?).map (·.status) := by
  unfold statusOf
  rw [List.getElem?_map]
  cases frames[id]? <;> rfl

/-- two frame tables with the same views have the same statuses -/
theorem isActive_congr {a b : List Frame} (h : a.map view = b.map view) (id : Nat) : isActive a id = isActive b id := by
  rw [isActive_eq, isActive_eq, statusOf_view, statusOf_view, h]

/-! ## B. one record of `apply_records` -/

/-- effect of one record on the in-memory index -/
def vecEffect (v : Option (List VecEnt)) : Entry → Option (List VecEnt)
  | .tombstone t => v.map (·.filter (·.id != t))
  | .insert e =>
    match e.supersedes with
    | some old => v.map (·.filter (·.id != old))
    | none => v
  | .lex => v

/-- the index entry one record contributes when its frame gets id `id` -/
def embOf (id : Nat) : Entry → List VecEnt
  | .insert e =>
    match e.emb with
    | some (d, t) => [{ id := id, dim := d, tok := t }]
    | none => []
  | _ => []

theorem applyOne_vec (st : ApSt) (r : Nat × Entry) (st' : ApSt) (h : applyOne st r = some st') :
    st'.vec = vecEffect st.vec r.2 ∧ st'.embs = st.embs ++ embOf st.frames.length r.2 ∧
    st'.frames.length = st.frames.length + (if r.2.isInsert then 1 else 0) ∧
    (r.2.isInsert = true → st'.inserted ≠ []) ∧ (st.inserted ≠ [] → st'.inserted ≠ []) ∧
    ((∃ t, r.2 = Entry.tombstone t) → st'.mutated = true) ∧ (st.mutated = true → st'.mutated = true) := by
  obtain ⟨sq, e⟩ := r
  cases e with
  | lex =>
    simp only [applyOne] at h
    cases h
    simp [vecEffect, embOf, Entry.isInsert]
  | tombstone t =>
    simp only [applyOne] at h
    by_cases ht : t < st.frames.length
    · simp only [markDeleted, ht, if_true] at h
      cases h
      simp [ApSt.removeFromIndexes, vecEffect, embOf, Entry.isInsert]
    · simp [markDeleted, ht] at h
  | insert e =>
    simp only [applyOne] at h
    cases hr : e.reuseFrom with
    | none =>
      simp only [hr] at h
      cases hs : e.supersedes with
      | none =>
        simp only [hs] at h
        cases h
        cases he : e.emb <;> simp [vecEffect, embOf, hs, he, Entry.isInsert]
      | some old =>
        simp only [hs] at h
        by_cases ho : old < st.frames.length
        · simp only [markSuperseded, ho, if_true] at h
          cases h
          cases he : e.emb <;> simp [vecEffect, embOf, hs, he, ApSt.removeFromIndexes, Entry.isInsert]
        · simp [markSuperseded, ho] at h
    | some src =>
      simp only [hr] at h
      cases hsrc : st.frames[src]? with
      | none => simp [hsrc] at h
      | some s =>
        simp only [hsrc] at h
        cases hs : e.supersedes with
        | none =>
          simp only [hs] at h
          cases h
          cases he : e.emb <;> simp [vecEffect, embOf, hs, he, Entry.isInsert]
        | some old =>
          simp only [hs] at h
          by_cases ho : old < st.frames.length
          · simp only [markSuperseded, ho, if_true] at h
            cases h
            cases he : e.emb <;> simp [vecEffect, embOf, hs, he, ApSt.removeFromIndexes, Entry.isInsert]
          · simp [markSuperseded, ho] at h

/-! ## C. the whole `apply_records` -/

def vecFold (v : Option (List VecEnt)) (recs : List (Nat × Entry)) : Option (List VecEnt) :=
  recs.foldl (fun v r => vecEffect v r.2) v

/-- index entries of the Insert records when the first one gets id `b` -/
def embEnts (b : Nat) : List (Nat × Entry) → List VecEnt
  | [] => []
  | r :: rs => embOf b r.2 ++ embEnts (if r.2.isInsert then b + 1 else b) rs

theorem applyLoop_vec (st : ApSt) (recs : List (Nat × Entry)) (st' : ApSt) (h : applyLoop st recs = some st') :
    st'.vec = vecFold st.vec recs ∧ st'.embs = st.embs ++ embEnts st.frames.length recs ∧
    st'.frames.length = st.frames.length + countInserts recs ∧
    ((∃ r ∈ recs, r.2 ≠ Entry.lex) → st'.inserted ≠ [] ∨ st'.mutated = true) ∧
    (st.inserted ≠ [] → st'.inserted ≠ []) ∧ (st.mutated = true → st'.mutated = true) := by
  induction recs generalizing st with
  | nil =>
    simp only [applyLoop] at h
    cases h
    simp [vecFold, embEnts]
  | cons r rs ih =>
    simp only [applyLoop] at h
    cases h1 : applyOne st r with
    | none => simp [h1] at h
    | some st1 =>
      simp only [h1] at h
      obtain ⟨a1, a2, a3, a4, a5, a6, a7⟩ := applyOne_vec st r st1 h1
      obtain ⟨b1, b2, b3, b4, b5, b6⟩ := ih st1 h
      refine ⟨?_, ?_, ?_, ?_, fun hh => b5 (a5 hh), fun hh => b6 (a7 hh)⟩
      · rw [b1, a1]; rfl
      · rw [b2, a2, a3, embEnts, List.append_assoc]
        congr 2
        by_cases hi : r.2.isInsert = true <;> simp [hi]
      · rw [b3, a3, countInserts_cons]; omega
      · rintro ⟨x, hx, hne⟩
        rcases List.mem_cons.mp hx with rfl | hx
        · cases hr : x.2 with
          | lex => exact absurd hr hne
          | tombstone t => exact Or.inr (b6 (a6 ⟨t, hr⟩))
          | insert e => exact Or.inl (b5 (a4 (by simp [hr, Entry.isInsert])))
        · exact b4 ⟨x, hx, hne⟩

/-- the frame a record retires (tombstone target / superseded predecessor) -/
def target : Entry → Option Nat
  | .tombstone t => some t
  | .insert e => e.supersedes
  | .lex => none

def touched (recs : List (Nat × Entry)) : List Nat := recs.filterMap (fun r => target r.2)

theorem vecEffect_mem (v : Option (List VecEnt)) (en : Entry) (e : VecEnt) :
    e ∈ (vecEffect v en).getD [] ↔ e ∈ v.getD [] ∧ target en ≠ some e.id := by
  cases en with
  | lex => simp [vecEffect, target]
  | tombstone t =>
    cases v <;> simp [vecEffect, target]
    intro _; constructor <;> intro h h' <;> exact h h'.symm
  | insert i =>
    cases hs : i.supersedes with
    | none => simp [vecEffect, target, hs]
    | some old =>
      cases v <;> simp [vecEffect, target, hs]
      intro _; constructor <;> intro h h' <;> exact h h'.symm

theorem vecEffect_sublist (v : Option (List VecEnt)) (en : Entry) : ((vecEffect v en).getD []).Sublist (v.getD []) := by
  cases en with
  | lex => exact List.Sublist.refl _
  | tombstone t => cases v <;> simp [vecEffect]
  | insert i =>
    cases hs : i.supersedes with
    | none => simp [vecEffect, hs]
    | some old => cases v <;> simp [vecEffect, hs]

theorem vecFold_mem (v : Option (List VecEnt)) (recs : List (Nat × Entry)) (e : VecEnt) :
    e ∈ (vecFold v recs).getD [] ↔ e ∈ v.getD [] ∧ e.id ∉ touched recs := by
  induction recs generalizing v with
  | nil => simp [vecFold, touched]
  | cons r rs ih =>
    have : vecFold v (r :: rs) = vecFold (vecEffect v r.2) rs := rfl
    rw [this, ih, vecEffect_mem]
    cases ht : target r.2 with
    | none => simp [touched, ht]
    | some t =>
      simp only [touched, List.filterMap_cons, ht, List.mem_cons, not_or]
      constructor
      · rintro ⟨⟨h1, h2⟩, h3⟩; exact ⟨h1, fun h => h2 (by rw [h]), h3⟩
      · rintro ⟨h1, h2, h3⟩; exact ⟨⟨h1, fun h => h2 (by injection h with h; exact h.symm)⟩, h3⟩

theorem vecFold_sublist (v : Option (List VecEnt)) (recs : List (Nat × Entry)) : ((vecFold v recs).getD []).Sublist (v.getD []) := by
  induction recs generalizing v with
  | nil => exact List.Sublist.refl _
  | cons r rs ih => exact (ih (vecEffect v r.2)).trans (vecEffect_sublist v r.2)

/-- statuses of the abstract table -/
def sStatus (S : Spec) (i : Nat) : Option Status := (S[i]?).map (·.status)

theorem target_lt {n : Nat} {en : Entry} (hok : recOk n en) {t : Nat} (ht : target en = some t) : t < n := by
  cases en with
  | lex => simp [target] at ht
  | tombstone x => simp [target] at ht; subst ht; exact hok
  | insert i => exact hok.1 t ht

theorem touched_lt {n : Nat} {recs : List (Nat × Entry)} (hok : AllOk n recs) : ∀ t ∈ touched recs, t < n := by
  intro t ht
  simp only [touched, List.mem_filterMap] at ht
  obtain ⟨r, hr, h⟩ := ht
  exact target_lt (hok r hr) h

theorem sApplyOne_status_old (S : Spec) (r : Nat × Entry) (i : Nat) (hi : i < S.length) :
    sStatus (sApplyOne S r) i = some Status.active ↔ sStatus S i = some Status.active ∧ target r.2 ≠ some i := by
  have hS : S[i]? = some S[i] := List.getElem?_eq_getElem hi
  unfold sApplyOne sStatus
  cases hr : r.2 with
  | lex => simp [target]
  | tombstone t =>
    simp only [target]
    rw [List.getElem?_modify, hS]
    by_cases h : t = i
    · simp [h, SFrame.markDel]
    · simp [h]
  | insert e =>
    simp only [target]
    cases hs : e.supersedes with
    | none => simp [List.getElem?_append_left hi]
    | some old =>
      have : i < (S.modify old (SFrame.markSup S.length)).length := by simpa using hi
      simp only []
      rw [List.getElem?_append_left this, List.getElem?_modify, hS]
      by_cases h : old = i
      · simp [h, SFrame.markSup]
      · simp [h]

theorem sApplyOne_status_new (S : Spec) (r : Nat × Entry) (h : r.2.isInsert = true) :
    sStatus (sApplyOne S r) S.length = some Status.active := by
  unfold sApplyOne sStatus
  cases hr : r.2 with
  | lex => simp [hr, Entry.isInsert] at h
  | tombstone t => simp [hr, Entry.isInsert] at h
  | insert e =>
    cases hs : e.supersedes with
    | none => simp [hs, mkSFrame]
    | some old =>
      have : (S.modify old (SFrame.markSup S.length)).length = S.length := by simp
      simp only [hs]
      rw [List.getElem?_append_right (by omega), this]
      simp [mkSFrame]

theorem touched_cons (r : Nat × Entry) (rs : List (Nat × Entry)) (i : Nat) :
    i ∉ touched (r :: rs) ↔ target r.2 ≠ some i ∧ i ∉ touched rs := by
  cases ht : target r.2 with
  | none => simp [touched, ht]
  | some t =>
    simp only [touched, List.filterMap_cons, ht, List.mem_cons, not_or]
    constructor
    · rintro ⟨h1, h2⟩; exact ⟨fun h => h1 (by injection h with h; exact h.symm), h2⟩
    · rintro ⟨h1, h2⟩; exact ⟨fun h => h1 (by rw [h]), h2⟩

/-- statuses after applying records whose targets are all below `n0`: an old frame stays active iff it
    was active and no record retires it; every new frame is active -/
theorem sApply_status (n0 : Nat) (recs : List (Nat × Entry)) (S : Spec) (hn : n0 ≤ S.length) (hok : AllOk n0 recs) :
    (∀ i, i < S.length → (sStatus (sApply S recs) i = some Status.active ↔ sStatus S i = some Status.active ∧ i ∉ touched recs)) ∧
    (∀ i, S.length ≤ i → i < (sApply S recs).length → sStatus (sApply S recs) i = some Status.active) := by
  induction recs generalizing S with
  | nil =>
    refine ⟨fun i _ => by simp [touched], fun i h1 h2 => ?_⟩
    simp at h2; omega
  | cons r rs ih =>
    have hlen := sApplyOne_length S r
    have hok' : AllOk n0 rs := fun x hx => hok x (by simp [hx])
    obtain ⟨ih1, ih2⟩ := ih (sApplyOne S r) (by omega) hok'
    rw [sApply_cons]
    constructor
    · intro i hi
      rw [ih1 i (by omega), sApplyOne_status_old S r i hi, touched_cons]
      exact and_assoc
    · intro i h1 h2
      by_cases hlt : i < (sApplyOne S r).length
      · have hins : r.2.isInsert = true := by
          by_cases hh : r.2.isInsert = true
          · exact hh
          · simp [hh] at hlen; omega
        have hi : i = S.length := by simp [hins] at hlen; omega
        subst hi
        rw [ih1 _ hlt]
        refine ⟨sApplyOne_status_new S r hins, fun hmem => ?_⟩
        have := touched_lt hok' _ hmem
        omega
      · exact ih2 i (by omega) h2

theorem mem_embOf (b : Nat) (en : Entry) (e : VecEnt) :
    e ∈ embOf b en ↔ insEmb en = some (some (e.dim, e.tok)) ∧ e.id = b := by
  cases en with
  | lex => simp [embOf, insEmb]
  | tombstone t => simp [embOf, insEmb]
  | insert i =>
    cases he : i.emb with
    | none => simp [embOf, insEmb, he]
    | some p =>
      obtain ⟨d, t⟩ := p
      obtain ⟨id, dim, tok⟩ := e
      simp [embOf, insEmb, he]
      constructor
      · rintro ⟨rfl, rfl, rfl⟩; exact ⟨⟨rfl, rfl⟩, rfl⟩
      · rintro ⟨⟨rfl, rfl⟩, rfl⟩; exact ⟨rfl, rfl, rfl⟩

theorem mem_embEnts (b : Nat) (recs : List (Nat × Entry)) (e : VecEnt) :
    e ∈ embEnts b recs ↔ ∃ k, (pendEmbs recs)[k]? = some (some (e.dim, e.tok)) ∧ e.id = b + k := by
  induction recs generalizing b with
  | nil => simp [embEnts, pendEmbs]
  | cons r rs ih =>
    simp only [embEnts, List.mem_append, mem_embOf, ih]
    cases hi : insEmb r.2 with
    | none =>
      have hni : r.2.isInsert = false := by
        cases hr : r.2 <;> simp [hr, insEmb, Entry.isInsert] at hi ⊢
      have hp : pendEmbs (r :: rs) = pendEmbs rs := by simp [pendEmbs, hi]
      simp [hni, hp]
    | some x =>
      have hins : r.2.isInsert = true := by
        cases hr : r.2 <;> simp [hr, insEmb, Entry.isInsert] at hi ⊢
      have hp : pendEmbs (r :: rs) = x :: pendEmbs rs := by simp [pendEmbs, hi]
      simp only [hins, if_true, hp]
      constructor
      · rintro (⟨h1, h2⟩ | ⟨k, h1, h2⟩)
        · exact ⟨0, by simpa using h1, by omega⟩
        · exact ⟨k + 1, by simpa using h1, by omega⟩
      · rintro ⟨k, h1, h2⟩
        cases k with
        | zero => left; exact ⟨by simpa using h1, by omega⟩
        | succ k => right; exact ⟨k, by simpa using h1, by omega⟩

theorem embEnts_ge (b : Nat) (recs : List (Nat × Entry)) : ∀ e ∈ embEnts b recs, b ≤ e.id := by
  intro e he
  obtain ⟨k, _, hk⟩ := (mem_embEnts b recs e).mp he
  omega

theorem embEnts_pairwise (b : Nat) (recs : List (Nat × Entry)) : ((embEnts b recs).map (·.id)).Pairwise (· < ·) := by
  induction recs generalizing b with
  | nil => simp [embEnts]
  | cons r rs ih =>
    simp only [embEnts, List.map_append, List.pairwise_append]
    refine ⟨?_, ih _, ?_⟩
    · cases hr : r.2 with
      | lex => simp [embOf]
      | tombstone t => simp [embOf]
      | insert i => cases he : i.emb <;> simp [embOf, he]
    · intro a ha c hc
      simp only [List.mem_map] at ha hc
      obtain ⟨x, hx, rfl⟩ := ha
      obtain ⟨y, hy, rfl⟩ := hc
      have h1 := (mem_embOf b r.2 x).mp hx
      have hins : r.2.isInsert = true := by
        cases hr : r.2 <;> simp [hr, insEmb, Entry.isInsert] at h1 ⊢
      have h2 := embEnts_ge _ rs y hy
      simp [hins] at h2
      omega

/-- `apply_records` as far as the vector index is concerned -/
theorem applyRecords_vec (m : Mem) (recs : List (Nat × Entry)) (eng : Bool) (m1 : Mem) (δ : Delta)
    (h : applyRecords m recs eng = some (m1, δ)) (hok : AllOk m.frames.length recs) :
    m1.frames.map view = sApply (m.frames.map view) recs ∧
    m1.vec = vecFold m.vec recs ∧ δ.embs = embEnts m.frames.length recs ∧
    (δ.nonEmpty = false → OnlyLex recs) ∧
    (m1.pending = m.pending ∧ m1.pendingInserts = m.pendingInserts ∧ m1.dirty = m.dirty ∧ m1.vecEnabled = m.vecEnabled ∧
      m1.vecManifest = m.vecManifest ∧ m1.pVec = m.pVec ∧ m1.pVecMan = m.pVecMan ∧ m1.lexEnabled = m.lexEnabled) := by
  obtain ⟨m1', δ', h', hv, _, _⟩ := applyRecords_view m recs eng hok
  rw [h] at h'
  cases h'
  refine ⟨hv, ?_⟩
  unfold applyRecords at h
  by_cases he : recs.isEmpty
  · simp only [he, if_true] at h
    cases h
    have : recs = [] := by simpa using he
    subst this
    exact ⟨rfl, rfl, (fun _ r hr => by cases hr), rfl, rfl, rfl, rfl, rfl, rfl, rfl, rfl⟩
  · simp only [he] at h
    obtain ⟨st, hl, _⟩ := applyLoop_view
      { frames := m.frames, cursor := m.dataEnd, payloadEnd := m.payloadEnd, vec := m.vec,
        engine := eng && m.engine, lexDocs := m.lexDocs, tantivyDirty := m.tantivyDirty, sketch := m.sketch } recs hok
    simp only [Bool.false_eq_true, if_false, hl] at h
    cases h
    obtain ⟨b1, b2, _, b4, _, _⟩ := applyLoop_vec _ recs st hl
    refine ⟨b1, by simpa using b2, ?_, rfl, rfl, rfl, rfl, rfl, rfl, rfl, rfl⟩
    intro hne r hr
    by_cases hlex : r.2 = Entry.lex
    · exact hlex
    · exfalso
      simp only [Bool.or_eq_false_iff, Bool.not_eq_false', List.isEmpty_iff] at hne
      obtain ⟨⟨⟨hi, _⟩, _⟩, hm⟩ := hne
      rcases b4 ⟨r, hr, hlex⟩ with h1 | h1
      · exact h1 hi
      · rw [hm] at h1; cases h1

/-- what is known about a handle between commits, as far as vectors go: the in-memory index holds
    exactly the committed active frames that `E` gives an embedding -/
structure VBase (m : Mem) (E : List (Option Emb)) : Prop where
  ok : AllOk m.frames.length m.pending
  lenE : m.frames.length ≤ E.length
  pend : E.drop m.frames.length = pendEmbs m.pending
  mem : ∀ e, e ∈ vecL m ↔ (isActive m.frames e.id = true ∧ E[e.id]? = some (some (e.dim, e.tok)))
  nodup : ((vecL m).map (·.id)).Nodup

/-- the state right after `apply_records` of all pending records -/
structure Applied (m : Mem) (E : List (Option Emb)) (m1 : Mem) (δ : Delta) : Prop where
  len : m1.frames.length = E.length
  ents : ∀ e, e ∈ (vecL m1).filter (fun e => isActive m1.frames e.id) ++ δ.embs ↔
      (isActive m1.frames e.id = true ∧ E[e.id]? = some (some (e.dim, e.tok)))
  entsNodup : (((vecL m1).filter (fun e => isActive m1.frames e.id) ++ δ.embs).map (·.id)).Nodup
  old : ∀ e, e ∈ vecL m1 ↔ (isActive m1.frames e.id = true ∧ e.id < m.frames.length ∧ E[e.id]? = some (some (e.dim, e.tok)))
  oldNodup : ((vecL m1).map (·.id)).Nodup
  sub : (vecL m1).Sublist (vecL m)
  embsSome : δ.embs ≠ [] → ∃ x ∈ pendEmbs m.pending, x.isSome = true

theorem applied_spec (m : Mem) (E : List (Option Emb)) (hb : VBase m E) (eng : Bool) (m1 : Mem) (δ : Delta)
    (h : applyRecords m m.pending eng = some (m1, δ)) : Applied m E m1 δ := by
  obtain ⟨hv, hvec, hembs, _, _⟩ := applyRecords_vec m m.pending eng m1 δ h hb.ok
  have hn0 : m.frames.length ≤ (m.frames.map view).length := by simp
  obtain ⟨s1, s2⟩ := sApply_status m.frames.length m.pending (m.frames.map view) hn0 hb.ok
  have hst1 : ∀ i, isActive m1.frames i = true ↔ sStatus (sApply (m.frames.map view) m.pending) i = some Status.active := by
    intro i; rw [isActive_iff, statusOf_view, hv]; rfl
  have hst0 : ∀ i, isActive m.frames i = true ↔ sStatus (m.frames.map view) i = some Status.active := by
    intro i; rw [isActive_iff, statusOf_view]; rfl
  have hlen : m1.frames.length = E.length := by
    have h1 : m1.frames.length = (sApply (m.frames.map view) m.pending).length := by rw [← hv]; simp
    have h2 : (E.drop m.frames.length).length = countInserts m.pending := by rw [hb.pend, pendEmbs_length]
    rw [h1, sApply_length, List.length_map, ← h2, List.length_drop]
    have := hb.lenE; omega
  -- old entries
  have hold : ∀ e, e ∈ vecL m1 ↔ (isActive m1.frames e.id = true ∧ e.id < m.frames.length ∧ E[e.id]? = some (some (e.dim, e.tok))) := by
    intro e
    unfold vecL
    rw [hvec, vecFold_mem]
    constructor
    · rintro ⟨hm, ht⟩
      obtain ⟨ha, hE⟩ := (hb.mem e).mp hm
      have hlt := isActive_lt ha
      exact ⟨(hst1 _).mpr ((s1 e.id (by simpa using hlt)).mpr ⟨(hst0 _).mp ha, ht⟩), hlt, hE⟩
    · rintro ⟨ha, hlt, hE⟩
      obtain ⟨h0, ht⟩ := (s1 e.id (by simpa using hlt)).mp ((hst1 _).mp ha)
      exact ⟨(hb.mem e).mpr ⟨(hst0 _).mpr h0, hE⟩, ht⟩
  -- new entries
  have hnew : ∀ e, e ∈ δ.embs ↔ (m.frames.length ≤ e.id ∧ E[e.id]? = some (some (e.dim, e.tok))) := by
    intro e
    rw [hembs, mem_embEnts, ← hb.pend]
    constructor
    · rintro ⟨k, hk, hid⟩
      rw [List.getElem?_drop] at hk
      exact ⟨by omega, by rw [hid]; exact hk⟩
    · rintro ⟨hge, hE⟩
      refine ⟨e.id - m.frames.length, ?_, by omega⟩
      rw [List.getElem?_drop]
      rw [show m.frames.length + (e.id - m.frames.length) = e.id by omega]; exact hE
  have hnewActive : ∀ e, e ∈ δ.embs → isActive m1.frames e.id = true := by
    intro e he
    obtain ⟨hge, hE⟩ := (hnew e).mp he
    have hlt : e.id < E.length := by
      cases hx : E[e.id]? with
      | none => rw [hx] at hE; cases hE
      | some _ => exact (List.getElem?_eq_some_iff.mp hx).1
    refine (hst1 _).mpr (s2 e.id (by simpa using hge) ?_)
    have h1 : m1.frames.length = (sApply (m.frames.map view) m.pending).length := by rw [← hv]; simp
    rw [← h1, hlen]; exact hlt
  have hsub : (vecL m1).Sublist (vecL m) := by unfold vecL; rw [hvec]; exact vecFold_sublist _ _
  have holdNodup : ((vecL m1).map (·.id)).Nodup := List.Nodup.sublist (hsub.map _) hb.nodup
  refine ⟨hlen, ?_, ?_, hold, holdNodup, hsub, ?_⟩
  · intro e
    rw [List.mem_append, List.mem_filter]
    constructor
    · rintro (⟨hm, ha⟩ | hm)
      · exact ⟨by simpa using ha, ((hold e).mp hm).2.2⟩
      · exact ⟨hnewActive e hm, ((hnew e).mp hm).2⟩
    · rintro ⟨ha, hE⟩
      by_cases hlt : e.id < m.frames.length
      · left; exact ⟨(hold e).mpr ⟨ha, hlt, hE⟩, by simpa using ha⟩
      · right; exact (hnew e).mpr ⟨by omega, hE⟩
  · rw [List.map_append, List.nodup_append]
    refine ⟨List.Nodup.sublist ((List.filter_sublist).map _) holdNodup, ?_, ?_⟩
    · rw [hembs]
      exact (embEnts_pairwise _ _).imp (fun hab => Nat.ne_of_lt hab)
    · intro a ha b hb'
      simp only [List.mem_map] at ha hb'
      obtain ⟨x, hx, rfl⟩ := ha
      obtain ⟨y, hy, rfl⟩ := hb'
      have h1 := ((hold x).mp (List.mem_filter.mp hx).1).2.1
      have h2 := ((hnew y).mp hy).1
      omega
  · intro hne
    rw [hembs] at hne
    cases hl : embEnts m.frames.length m.pending with
    | nil => exact absurd hl hne
    | cons e _ =>
      obtain ⟨k, hk, _⟩ := (mem_embEnts _ _ e).mp (by rw [hl]; simp)
      exact ⟨_, List.mem_of_getElem? hk, rfl⟩

/-! ## D. the invariant and its transport -/

structure VInv (m : Mem) (E : List (Option Emb)) : Prop extends VBase m E where
  pi : m.pendingInserts = countInserts m.pending
  /-- the persisted index is the in-memory one -/
  pv : m.pVec.getD [] = vecL m
  g : m.vecEnabled = m.vecManifest
  lex : m.lexEnabled = true
  d : m.dirty = false → OnlyLex m.pending
  b : vecL m ≠ [] → m.vecEnabled = true
  b' : vecL m ≠ [] → m.pVecMan = true
  /-- a pending embedding implies that vectors are enabled -/
  a : (∃ x ∈ pendEmbs m.pending, x.isSome = true) → m.vecEnabled = true

theorem VInv.inv {m : Mem} {E : List (Option Emb)} (h : VInv m E) : Inv m := ⟨h.ok, h.pi⟩

/-- `m'` is `m` as far as the vector invariant can tell -/
structure VLe (m' m : Mem) : Prop where
  frames : m'.frames.map view = m.frames.map view
  pendOk : AllOk m.frames.length m.pending → AllOk m.frames.length m'.pending
  pendEmb : pendEmbs m'.pending = pendEmbs m.pending
  pendPi : m.pendingInserts = countInserts m.pending → m'.pendingInserts = countInserts m'.pending
  pendD : (m.dirty = false → OnlyLex m.pending) → (m'.dirty = false → OnlyLex m'.pending)
  ve : m'.vecEnabled = m.vecEnabled
  vm : m'.vecManifest = m.vecManifest
  vec : vecL m' = vecL m
  pVec : m'.pVec.getD [] = m.pVec.getD []
  lex : m'.lexEnabled = m.lexEnabled
  pvm : m'.pVecMan = m.pVecMan ∨ m'.pVecMan = m.vecManifest

theorem VLe.length {m' m : Mem} (h : VLe m' m) : m'.frames.length = m.frames.length := by
  have := congrArg List.length h.frames
  simpa using this

theorem VLe.vbase {m' m : Mem} {E : List (Option Emb)} (h : VLe m' m) (hv : VBase m E) : VBase m' E := by
  have hvl : vecL m' = vecL m := h.vec
  refine ⟨?_, ?_, ?_, ?_, ?_⟩
  · rw [h.length]; exact h.pendOk hv.ok
  · rw [h.length]; exact hv.lenE
  · rw [h.length, h.pendEmb]; exact hv.pend
  · intro e; rw [hvl, isActive_congr h.frames]; exact hv.mem e
  · rw [hvl]; exact hv.nodup

theorem VLe.vinv {m' m : Mem} {E : List (Option Emb)} (h : VLe m' m) (hv : VInv m E) : VInv m' E := by
  have hvl : vecL m' = vecL m := h.vec
  refine { toVBase := h.vbase hv.toVBase, pi := h.pendPi hv.pi, pv := ?_, g := ?_, lex := ?_, d := h.pendD hv.d, b := ?_, b' := ?_, a := ?_ }
  · rw [h.pVec, hvl]; exact hv.pv
  · rw [h.ve, h.vm]; exact hv.g
  · rw [h.lex]; exact hv.lex
  · rw [hvl, h.ve]; exact hv.b
  · rw [hvl]; intro hne
    rcases h.pvm with hp | hp
    · rw [hp]; exact hv.b' hne
    · rw [hp, ← hv.g]; exact hv.b hne
  · rw [h.pendEmb, h.ve]; exact hv.a

/-- same frames (as the spec sees them) and index fields; `Lex` records appended -/
theorem VLe.of_lex {m' m : Mem} (hf : m'.frames.map view = m.frames.map view) (l : List (Nat × Entry)) (hl : OnlyLex l)
    (hp : m'.pending = m.pending ++ l) (hpi : m'.pendingInserts = m.pendingInserts) (hd : m'.dirty = m.dirty)
    (hve : m'.vecEnabled = m.vecEnabled) (hvm : m'.vecManifest = m.vecManifest) (hvec : m'.vec = m.vec)
    (hpv : m'.pVec = m.pVec) (hlex : m'.lexEnabled = m.lexEnabled)
    (hpvm : m'.pVecMan = m.pVecMan ∨ m'.pVecMan = m.vecManifest) : VLe m' m := by
  refine ⟨hf, ?_, ?_, ?_, ?_, hve, hvm, by unfold vecL; rw [hvec], by rw [hpv], hlex, hpvm⟩
  · intro hok r hr
    rw [hp] at hr
    rcases List.mem_append.mp hr with hr | hr
    · exact hok r hr
    · rw [hl r hr]; trivial
  · rw [hp, pendEmbs_append, pendEmbs_onlyLex l hl, List.append_nil]
  · intro h; rw [hpi, hp, countInserts_append, countInserts_onlyLex l hl, h]; rfl
  · intro h hd'
    rw [hd] at hd'
    rw [hp]
    intro r hr
    rcases List.mem_append.mp hr with hr | hr
    · exact h hd' r hr
    · exact hl r hr

theorem VLe.of_eq {m' m : Mem} (hf : m'.frames = m.frames)
    (hp : m'.pending = m.pending) (hpi : m'.pendingInserts = m.pendingInserts) (hd : m'.dirty = m.dirty)
    (hve : m'.vecEnabled = m.vecEnabled) (hvm : m'.vecManifest = m.vecManifest) (hvec : m'.vec = m.vec)
    (hpv : m'.pVec = m.pVec) (hlex : m'.lexEnabled = m.lexEnabled)
    (hpvm : m'.pVecMan = m.pVecMan ∨ m'.pVecMan = m.vecManifest) : VLe m' m :=
  VLe.of_lex (by rw [hf]) [] (by simp [OnlyLex]) (by simp [hp]) hpi hd hve hvm hvec hpv hlex hpvm

theorem VLe.refl (m : Mem) : VLe m m := VLe.of_eq rfl rfl rfl rfl rfl rfl rfl rfl rfl (Or.inl rfl)

theorem VInv.congr {m m' : Mem} {E : List (Option Emb)} (hv : VInv m E) (hf : m'.frames = m.frames)
    (hp : m'.pending = m.pending) (hpi : m'.pendingInserts = m.pendingInserts) (hd : m'.dirty = m.dirty)
    (hve : m'.vecEnabled = m.vecEnabled) (hvm : m'.vecManifest = m.vecManifest) (hvec : m'.vec = m.vec)
    (hpv : m'.pVec = m.pVec) (hlex : m'.lexEnabled = m.lexEnabled)
    (hpvm : m'.pVecMan = m.pVecMan ∨ m'.pVecMan = m.vecManifest) : VInv m' E :=
  (VLe.of_eq hf hp hpi hd hve hvm hvec hpv hlex hpvm).vinv hv

theorem VLe.trans {a b c : Mem} (h1 : VLe a b) (h2 : VLe b c) : VLe a c := by
  refine ⟨h1.frames.trans h2.frames, ?_, h1.pendEmb.trans h2.pendEmb, fun h => h1.pendPi (h2.pendPi h),
    fun h => h1.pendD (h2.pendD h), h1.ve.trans h2.ve, h1.vm.trans h2.vm, h1.vec.trans h2.vec, h1.pVec.trans h2.pVec,
    h1.lex.trans h2.lex, ?_⟩
  · intro hok
    have := h1.pendOk (by rw [h2.length]; exact h2.pendOk hok)
    rw [h2.length] at this; exact this
  · rcases h1.pvm with hp | hp
    · rcases h2.pvm with hq | hq
      · exact Or.inl (hp.trans hq)
      · exact Or.inr (hp.trans hq)
    · exact Or.inr (hp.trans h2.vm)

theorem persistToc_vle (m : Mem) : VLe m.persistToc m := VLe.of_eq rfl rfl rfl rfl rfl rfl rfl rfl rfl (Or.inr rfl)

theorem flushTantivy_vle (m : Mem) (ft : Nat) : VLe (m.flushTantivy ft) m := by
  unfold Mem.flushTantivy
  split
  · exact VLe.refl m
  · split
    · exact VLe.of_lex rfl [(m.seq + 1, Entry.lex)] (by simp [OnlyLex]) rfl rfl rfl rfl rfl rfl rfl rfl (Or.inr rfl)
    · exact VLe.of_eq rfl rfl rfl rfl rfl rfl rfl rfl rfl (Or.inl rfl)

theorem setWalSize_vle (m : Mem) (ws : Nat) : VLe (m.setWalSize ws) m := by
  unfold Mem.setWalSize
  split
  · exact VLe.refl m
  · exact VLe.of_eq rfl rfl rfl rfl rfl rfl rfl rfl rfl (Or.inr rfl)

theorem rebuildLex_vle (m : Mem) (ins : List Nat) (ft : Nat) : VLe (m.rebuildLex ins ft) m := by
  unfold Mem.rebuildLex
  split
  · exact VLe.trans (flushTantivy_vle _ ft) (VLe.of_eq rfl rfl rfl rfl rfl rfl rfl rfl rfl (Or.inl rfl))
  · exact VLe.refl m

theorem addCards_vle (m : Mem) (nc pseq : Nat) : VLe (m.addCards nc pseq) m := by
  unfold Mem.addCards; split
  · exact VLe.refl m
  · exact VLe.of_eq rfl rfl rfl rfl rfl rfl rfl rfl rfl (Or.inl rfl)

theorem noteDim_vle (m : Mem) (d : Nat) : VLe (m.noteDim d) m := by
  unfold Mem.noteDim; split
  · exact VLe.of_eq rfl rfl rfl rfl rfl rfl rfl rfl rfl (Or.inl rfl)
  · exact VLe.refl m

theorem applyTicket_vle (m : Mem) (s : Int) (c : Nat) (b f : Bool) : VLe (m.applyTicket s c b f).1 m := by
  unfold Mem.applyTicket; split
  · exact VLe.refl m
  · exact VLe.of_eq rfl rfl rfl rfl rfl rfl rfl rfl rfl (Or.inr rfl)

theorem beginBatch_vle (m : Mem) (d : Bool) (ws : Nat) : VLe (m.beginBatch d ws).1 m :=
  VLe.trans (VLe.of_eq (m := m.setWalSize ws) rfl rfl rfl rfl rfl rfl rfl rfl rfl (Or.inl rfl)) (setWalSize_vle m ws)

theorem endBatch_vle (m : Mem) : VLe m.endBatch.1 m := VLe.of_eq rfl rfl rfl rfl rfl rfl rfl rfl rfl (Or.inl rfl)

theorem loadTracks_vle (m : Mem) : VLe m.loadTracks m := VLe.of_eq rfl rfl rfl rfl rfl rfl rfl rfl rfl (Or.inl rfl)

theorem compactFrames_vle (m : Mem) : VLe m.compactFrames m :=
  VLe.of_lex (view_compact m.frames 0) [] (by simp [OnlyLex]) (by simp [Mem.compactFrames]) rfl rfl rfl rfl rfl rfl rfl (Or.inl rfl)

theorem loadVec_vinv (m : Mem) (E : List (Option Emb)) (hv : VInv m E) : VInv m.loadVec E := by
  unfold Mem.loadVec
  split
  · rename_i hc
    have hnone : m.vec = none := by
      cases hx : m.vec with
      | none => rfl
      | some v => simp [hx] at hc
    have hvl : vecL ({ m with vec := m.pVec } : Mem) = vecL m := hv.pv
    exact { ok := hv.ok, lenE := hv.lenE, pend := hv.pend, mem := fun e => by rw [hvl]; exact hv.mem e,
            nodup := by rw [hvl]; exact hv.nodup, pi := hv.pi, pv := rfl, g := hv.g, lex := hv.lex, d := hv.d,
            b := by rw [hvl]; exact hv.b, b' := by rw [hvl]; exact hv.b', a := hv.a }
  · exact hv

/-! ## E. index rebuild and commit -/

/-- the list `build_vec_artifact` assembles -/
def ents (m : Mem) (newEmbs : List VecEnt) : List VecEnt :=
  (vecL m).filter (fun e => isActive m.frames e.id) ++ newEmbs

theorem rebuildIndexes_vec (m : Mem) (newEmbs : List VecEnt) (ins : List Nat) (ft : Nat) (hlex : m.lexEnabled = true) :
    let r := m.rebuildIndexes newEmbs ins ft
    r.frames = m.frames ∧ (∃ l, OnlyLex l ∧ r.pending = m.pending ++ l) ∧ r.pendingInserts = m.pendingInserts ∧
    r.dirty = m.dirty ∧ r.lexEnabled = true ∧ r.vecEnabled = m.vecEnabled ∧ r.pVecMan = r.vecManifest ∧
    (m.vecEnabled = true → r.vec = some (ents m newEmbs) ∧ r.pVec = some (ents m newEmbs) ∧ r.vecManifest = true) ∧
    (m.vecEnabled = false → r.vec = none ∧ r.pVec = none ∧ r.vecManifest = false) := by
  intro r
  have hr : r = m.rebuildIndexes newEmbs ins ft := rfl
  unfold Mem.rebuildIndexes at hr
  simp only [hlex, Bool.not_true, Bool.and_false, Bool.false_and, Bool.false_eq_true, if_false] at hr
  unfold Mem.rebuildLex Mem.flushTantivy Mem.rebuildVec at hr
  simp only [if_true, Bool.not_true, Bool.false_eq_true, if_false] at hr
  by_cases hve : m.vecEnabled = true
  · simp only [hve, if_true, Mem.persistToc] at hr
    rw [hr]
    refine ⟨rfl, ⟨[(m.seq + 1, Entry.lex)], by simp [OnlyLex], rfl⟩, rfl, rfl, rfl, ?_, rfl, ?_, ?_⟩
    · exact hve.symm
    · intro _; exact ⟨rfl, rfl, rfl⟩
    · intro h; rw [hve] at h; cases h
  · have hve' : m.vecEnabled = false := by simpa using hve
    simp only [hve', Bool.false_eq_true, if_false, Mem.persistToc] at hr
    rw [hr]
    refine ⟨rfl, ⟨[(m.seq + 1, Entry.lex)], by simp [OnlyLex], rfl⟩, rfl, rfl, rfl, ?_, rfl, ?_, ?_⟩
    · exact hve'.symm
    · intro h; rw [hve'] at h; cases h
    · intro _; exact ⟨rfl, rfl, rfl⟩

theorem VLe.of_settle {m' m : Mem} (hq : OnlyLex m.pending) (hf : m'.frames.map view = m.frames.map view)
    (hp : m'.pending = []) (hpi : m'.pendingInserts = 0)
    (hve : m'.vecEnabled = m.vecEnabled) (hvm : m'.vecManifest = m.vecManifest) (hvec : m'.vec = m.vec)
    (hpv : m'.pVec = m.pVec) (hlex : m'.lexEnabled = m.lexEnabled)
    (hpvm : m'.pVecMan = m.pVecMan ∨ m'.pVecMan = m.vecManifest) : VLe m' m := by
  refine ⟨hf, ?_, ?_, ?_, ?_, hve, hvm, by unfold vecL; rw [hvec], by rw [hpv], hlex, hpvm⟩
  · intro _ r hr; rw [hp] at hr; cases hr
  · rw [hp, pendEmbs_onlyLex _ hq]; rfl
  · intro _; rw [hpi, hp]; rfl
  · intro _ _ r hr; rw [hp] at hr; cases hr

theorem checkpoint_vle (m : Mem) (hq : OnlyLex m.pending) : VLe m.checkpoint m :=
  VLe.of_settle hq rfl rfl rfl rfl rfl rfl rfl rfl (Or.inr rfl)

theorem vecFold_onlyLex (v : Option (List VecEnt)) (recs : List (Nat × Entry)) (h : OnlyLex recs) : vecFold v recs = v := by
  induction recs generalizing v with
  | nil => rfl
  | cons r rs ih =>
    have hr : r.2 = Entry.lex := h r (by simp)
    have : vecFold v (r :: rs) = vecFold (vecEffect v r.2) rs := rfl
    rw [this, hr, show vecEffect v Entry.lex = v from rfl]
    exact ih v (fun x hx => h x (by simp [hx]))

/-- after `apply_records` + `rebuild_indexes` + checkpoint the invariant holds with nothing pending;
    `mb` = the handle `rebuild_indexes` runs on (the applied one, possibly with vectors switched on) -/
theorem rebuilt_vinv (m : Mem) (E : List (Option Emb)) (m1 : Mem) (δ : Delta) (ha : Applied m E m1 δ) (mb : Mem)
    (hbf : mb.frames = m1.frames) (hbv : mb.vec = m1.vec) (hlex : mb.lexEnabled = true)
    (hen : (δ.embs ≠ [] ∨ vecL m1 ≠ []) → mb.vecEnabled = true) (ins : List Nat) (ft : Nat) :
    VInv (mb.rebuildIndexes δ.embs ins ft).checkpoint E := by
  obtain ⟨rf, _, _, _, rlex, rve, rpvm, rT, rF⟩ := rebuildIndexes_vec mb δ.embs ins ft hlex
  have hents : ents mb δ.embs = (vecL m1).filter (fun e => isActive m1.frames e.id) ++ δ.embs := by
    unfold ents vecL; rw [hbf, hbv]
  have hfr : (mb.rebuildIndexes δ.embs ins ft).checkpoint.frames = m1.frames := by
    show (mb.rebuildIndexes δ.embs ins ft).frames = _
    rw [rf, hbf]
  have hpend : (mb.rebuildIndexes δ.embs ins ft).checkpoint.pending = [] := rfl
  have hdrop : List.drop m1.frames.length E = [] := by rw [ha.len]; simp
  by_cases hve : mb.vecEnabled = true
  · obtain ⟨r1, r2, r3⟩ := rT hve
    have hvl : vecL (mb.rebuildIndexes δ.embs ins ft).checkpoint = (vecL m1).filter (fun e => isActive m1.frames e.id) ++ δ.embs := by
      show ((mb.rebuildIndexes δ.embs ins ft).vec).getD [] = _
      rw [r1, ← hents]; rfl
    exact { ok := by rw [hpend]; intro r hr; cases hr
            lenE := by rw [hfr, ha.len]; exact Nat.le_refl _
            pend := by rw [hfr, hpend, hdrop]; rfl
            mem := fun e => by rw [hvl, hfr]; exact ha.ents e
            nodup := by rw [hvl]; exact ha.entsNodup
            pi := rfl
            pv := by
              show ((mb.rebuildIndexes δ.embs ins ft).pVec).getD [] = ((mb.rebuildIndexes δ.embs ins ft).vec).getD []
              rw [r1, r2]
            g := by
              show (mb.rebuildIndexes δ.embs ins ft).vecEnabled = (mb.rebuildIndexes δ.embs ins ft).vecManifest
              rw [rve, r3, hve]
            lex := rlex
            d := fun _ => by rw [hpend]; intro r hr; cases hr
            b := fun _ => by
              show (mb.rebuildIndexes δ.embs ins ft).vecEnabled = true
              rw [rve, hve]
            b' := fun _ => r3
            a := by rw [hpend]; rintro ⟨x, hx, _⟩; cases hx }
  · have hve' : mb.vecEnabled = false := by simpa using hve
    obtain ⟨r1, r2, r3⟩ := rF hve'
    have hempty : (vecL m1).filter (fun e => isActive m1.frames e.id) ++ δ.embs = [] := by
      have h1 : δ.embs = [] := by
        cases hx : δ.embs with
        | nil => rfl
        | cons a as => exact absurd (hen (Or.inl (by simp [hx]))) hve
      have h2 : vecL m1 = [] := by
        cases hx : vecL m1 with
        | nil => rfl
        | cons a as => exact absurd (hen (Or.inr (by simp [hx]))) hve
      rw [h1, h2]; rfl
    have hvl : vecL (mb.rebuildIndexes δ.embs ins ft).checkpoint = [] := by
      show ((mb.rebuildIndexes δ.embs ins ft).vec).getD [] = _
      rw [r1]; rfl
    exact { ok := by rw [hpend]; intro r hr; cases hr
            lenE := by rw [hfr, ha.len]; exact Nat.le_refl _
            pend := by rw [hfr, hpend, hdrop]; rfl
            mem := fun e => by
              rw [hvl, hfr, ← ha.ents e, hempty]
            nodup := by rw [hvl]; exact List.nodup_nil
            pi := rfl
            pv := by
              show ((mb.rebuildIndexes δ.embs ins ft).pVec).getD [] = ((mb.rebuildIndexes δ.embs ins ft).vec).getD []
              rw [r1, r2]
            g := by
              show (mb.rebuildIndexes δ.embs ins ft).vecEnabled = (mb.rebuildIndexes δ.embs ins ft).vecManifest
              rw [rve, r3, hve']
            lex := rlex
            d := fun _ => by rw [hpend]; intro r hr; cases hr
            b := fun h => absurd hvl h
            b' := fun h => absurd hvl h
            a := by rw [hpend]; rintro ⟨x, hx, _⟩; cases hx }

/-- applying nothing but `Lex` records changes nothing the invariant looks at -/
theorem applied_onlyLex_vle (m : Mem) (eng : Bool) (m1 : Mem) (δ : Delta) (h : applyRecords m m.pending eng = some (m1, δ))
    (hok : AllOk m.frames.length m.pending) (hq : OnlyLex m.pending) : VLe m1 m := by
  obtain ⟨hv, hvec, _, _, hp, hpi, hd, hve, hvm, hpv, hpvm, hlex⟩ := applyRecords_vec m m.pending eng m1 δ h hok
  rw [sApply_onlyLex _ _ hq] at hv
  rw [vecFold_onlyLex _ _ hq] at hvec
  exact VLe.of_lex hv [] (by simp [OnlyLex]) (by simp [hp]) hpi hd hve hvm hvec hpv hlex (Or.inl hpvm)

theorem commitFromRecords_vinv (m : Mem) (E : List (Option Emb)) (hv : VInv m E) (ft : Nat) (m' : Mem)
    (h : m.commitFromRecords ft = some m') : VInv m' E := by
  obtain ⟨m1, δ, h1, _, _, _⟩ := applyRecords_view m m.pending true hv.ok
  have ha := applied_spec m E hv.toVBase true m1 δ h1
  obtain ⟨_, _, _, hne, hp, _, _, hve, _, _, _, hlex⟩ := applyRecords_vec m m.pending true m1 δ h1 hv.ok
  unfold Mem.commitFromRecords at h
  simp only [h1] at h
  cases h
  by_cases hd : δ.nonEmpty = true
  · simp only [hd, if_true]
    have hr := rebuilt_vinv m E m1 δ ha m1 rfl rfl (by rw [hlex]; exact hv.lex) (by
      rintro (h | h)
      · rw [hve]; exact hv.a (ha.embsSome h)
      · rw [hve]; apply hv.b
        intro h0
        have := ha.sub
        rw [h0] at this
        exact h (List.eq_nil_of_sublist_nil this)) δ.inserted ft
    exact hr.congr rfl rfl rfl rfl rfl rfl rfl rfl rfl (Or.inl rfl)
  · have hd' : δ.nonEmpty = false := by simpa using hd
    simp only [hd', Bool.false_eq_true, if_false]
    have hq : OnlyLex m.pending := hne hd'
    have h1v : VLe m1 m := applied_onlyLex_vle m true m1 δ h1 hv.ok hq
    have hq1 : OnlyLex (m1.flushTantivy ft).pending := by
      obtain ⟨l, hl, hpl⟩ := (flushTantivy_skel m1 ft).pending
      rw [hpl, hp]
      intro r hr
      rcases List.mem_append.mp hr with hr | hr
      · exact hq r hr
      · exact hl r hr
    have hvi1 : VInv (m1.flushTantivy ft) E := (VLe.trans (flushTantivy_vle m1 ft) h1v).vinv hv
    have hvi2 : VInv (m1.flushTantivy ft).checkpoint E := (checkpoint_vle _ hq1).vinv hvi1
    exact hvi2.congr rfl rfl rfl rfl rfl rfl rfl rfl rfl (Or.inl rfl)

theorem commit_vinv (m : Mem) (E : List (Option Emb)) (hv : VInv m E) (ft : Nat) : VInv (m.commit ft).1 E := by
  unfold Mem.commit
  split
  · exact hv
  · cases h : m.commitFromRecords ft with
    | none => exact hv
    | some m' => exact commitFromRecords_vinv m E hv ft m' h

/-- after `commit()` the handle is clean -/
theorem commit_dirty (m : Mem) (ft : Nat) (hi : Inv m) : (m.commit ft).1.dirty = false ∨ (m.commit ft).1 = m ∧ m.dirty = false := by
  unfold Mem.commit
  split
  · rename_i h
    right
    refine ⟨rfl, ?_⟩
    revert h; cases m.dirty <;> simp
  · obtain ⟨m', h, _⟩ := commitFromRecords_clean m ft hi
    left
    simp only [h]
    unfold Mem.commitFromRecords at h
    cases ha : applyRecords m m.pending true with
    | none => simp [ha] at h
    | some p =>
      simp only [ha] at h
      cases h
      rfl

theorem autoCommit_vinv (m : Mem) (E : List (Option Emb)) (hv : VInv m E) (t : Trace) : VInv (m.autoCommit t) E := by
  unfold Mem.autoCommit; split
  · exact commit_vinv m E hv t.ft
  · exact hv

theorem afterAppend_vinv (m : Mem) (E : List (Option Emb)) (hv : VInv m E) (t : Trace) : VInv (m.afterAppend t) E := by
  unfold Mem.afterAppend
  have hs := (setWalSize_vle m t.ws).vinv hv
  split
  · exact hs
  · exact autoCommit_vinv _ E hs t

/-! ## F. put / update / delete -/

/-- the embeddings one put hands out: the document's, then one per chunk -/
def embsOf (a : PutArgs) : List (Option Emb) := a.emb :: a.chunks.map (·.emb)

theorem pendEmbs_cons_insert (s : Nat) (e : Ins) (rs : List (Nat × Entry)) :
    pendEmbs ((s, Entry.insert e) :: rs) = e.emb :: pendEmbs rs := rfl

theorem pendEmbs_chunkRecords (a : PutArgs) (pseq n : Nat) (cs : List ChunkArg) (i : Nat) :
    pendEmbs (chunkRecords a pseq n cs i) = cs.map (·.emb) := by
  induction cs generalizing i with
  | nil => rfl
  | cons c cs ih => simp only [chunkRecords, pendEmbs_cons_insert, ih, List.map_cons, chunkIns]

theorem pendEmbs_putRecords (s : Nat) (a : PutArgs) (sup reuse : Option Nat) :
    pendEmbs (putRecords s a sup reuse) = embsOf a := by
  simp only [putRecords, pendEmbs_cons_insert, pendEmbs_chunkRecords, embsOf, parentIns]

theorem enableVec_vinv (m : Mem) (E : List (Option Emb)) (hv : VInv m E) : VInv m.enableVec E ∧ m.enableVec.vecEnabled = true := by
  unfold Mem.enableVec
  split
  · rename_i h; exact ⟨hv, h⟩
  · refine ⟨?_, rfl⟩
    exact { ok := hv.ok, lenE := hv.lenE, pend := hv.pend, mem := hv.mem, nodup := hv.nodup, pi := hv.pi, pv := hv.pv,
            g := rfl, lex := hv.lex, d := (fun h => by cases h), b := fun _ => rfl, b' := hv.b', a := fun _ => rfl }

theorem appendPut_vinv (m : Mem) (E : List (Option Emb)) (hv : VInv m E) (a : PutArgs) (sup reuse : Option Nat)
    (hsup : ∀ x, sup = some x → x < m.frames.length) (hreu : ∀ x, reuse = some x → x < m.frames.length)
    (hemb : (∃ x ∈ embsOf a, x.isSome = true) → m.vecEnabled = true) :
    VInv (m.appendPut a sup reuse) (E ++ embsOf a) := by
  have hE : ∀ i, i < m.frames.length → (E ++ embsOf a)[i]? = E[i]? := fun i hi =>
    List.getElem?_append_left (Nat.lt_of_lt_of_le hi hv.lenE)
  exact {
    ok := by
      show AllOk m.frames.length (m.pending ++ putRecords m.seq a sup reuse)
      intro r hr
      rcases List.mem_append.mp hr with hr | hr
      · exact hv.ok r hr
      · exact allOk_putRecords _ _ _ _ _ hsup hreu r hr
    lenE := by
      show m.frames.length ≤ (E ++ embsOf a).length
      rw [List.length_append]; have := hv.lenE; omega
    pend := by
      show List.drop m.frames.length (E ++ embsOf a) = pendEmbs (m.pending ++ putRecords m.seq a sup reuse)
      rw [List.drop_append_of_le_length hv.lenE, pendEmbs_append, hv.pend, pendEmbs_putRecords]
    mem := fun e => by
      show e ∈ vecL m ↔ (isActive m.frames e.id = true ∧ (E ++ embsOf a)[e.id]? = _)
      rw [hv.mem e]
      constructor
      · rintro ⟨h1, h2⟩; exact ⟨h1, by rw [hE _ (isActive_lt h1)]; exact h2⟩
      · rintro ⟨h1, h2⟩; exact ⟨h1, by rw [hE _ (isActive_lt h1)] at h2; exact h2⟩
    nodup := hv.nodup
    pi := by
      show m.pendingInserts + (putRecords m.seq a sup reuse).length = countInserts (m.pending ++ putRecords m.seq a sup reuse)
      rw [countInserts_append, countInserts_putRecords, hv.pi]
    pv := hv.pv
    g := hv.g
    lex := hv.lex
    d := (fun h => by cases h)
    b := hv.b
    b' := hv.b'
    a := by
      show (∃ x ∈ pendEmbs (m.pending ++ putRecords m.seq a sup reuse), x.isSome = true) → m.vecEnabled = true
      rw [pendEmbs_append, pendEmbs_putRecords]
      rintro ⟨x, hx, hs⟩
      rcases List.mem_append.mp hx with hx | hx
      · exact hv.a ⟨x, hx, hs⟩
      · exact hemb ⟨x, hx, hs⟩ }

theorem putTail_vinv (m : Mem) (E : List (Option Emb)) (hv : VInv m E) (a : PutArgs) (sup reuse : Option Nat) (t : Trace)
    (hsup : ∀ x, sup = some x → x < m.frames.length) (hreu : ∀ x, reuse = some x → x < m.frames.length)
    (hemb : (∃ x ∈ embsOf a, x.isSome = true) → m.vecEnabled = true) :
    VInv (m.putTail a sup reuse t).1 (if (m.putTail a sup reuse t).2.isAck then E ++ embsOf a else E) := by
  unfold Mem.putTail
  split
  · simpa [Out.isAck] using hv
  · split
    · simpa [Out.isAck] using hv
    · simp only [Out.isAck]
      exact (addCards_vle _ _ _).vinv (afterAppend_vinv _ _ (appendPut_vinv m E hv a sup reuse hsup hreu hemb) t)

theorem putCore_vinv (m : Mem) (E : List (Option Emb)) (hv : VInv m E) (a : PutArgs) (sup reuse : Option Nat) (t : Trace)
    (hsup : ∀ x, sup = some x → x < m.frames.length) (hreu : ∀ x, reuse = some x → x < m.frames.length)
    (hemb : (∃ x ∈ embsOf a, x.isSome = true) → embDims a ≠ [] ∨ m.vecEnabled = true) :
    VInv (m.putCore a sup reuse t).1 (if (m.putCore a sup reuse t).2.isAck then E ++ embsOf a else E) := by
  unfold Mem.putCore
  split
  · simpa [Out.isAck] using hv
  · split
    · rename_i d rest hd
      split
      · simpa [Out.isAck] using hv
      · split
        · simpa [Out.isAck] using (enableVec_vinv m E hv).1
        · obtain ⟨h1, h2⟩ := enableVec_vinv m E hv
          have h3 : VInv (m.enableVec.noteDim d) E := (noteDim_vle _ d).vinv h1
          have hl : (m.enableVec.noteDim d).frames.length = m.frames.length := by
            rw [(noteDim_vle m.enableVec d).length]
            unfold Mem.enableVec; split <;> rfl
          have hve : (m.enableVec.noteDim d).vecEnabled = true := by rw [(noteDim_vle _ d).ve]; exact h2
          exact putTail_vinv _ E h3 a sup reuse t (by rw [hl]; exact hsup) (by rw [hl]; exact hreu) (fun _ => hve)
    · rename_i hd
      refine putTail_vinv m E hv a sup reuse t hsup hreu (fun h => ?_)
      rcases hemb h with h' | h'
      · exact absurd hd h'
      · exact h'

theorem put_vinv (m : Mem) (E : List (Option Emb)) (hv : VInv m E) (a : PutArgs) (t : Trace)
    (hemb : (∃ x ∈ embsOf a, x.isSome = true) → embDims a ≠ []) :
    VInv (m.put a t).1 (if (m.put a t).2.isAck then E ++ embsOf a else E) :=
  putCore_vinv m E hv a none none t (fun x h => by cases h) (fun x h => by cases h) (fun h => Or.inl (hemb h))

/-- the chunk plan of an update -/
def updChunks (u : UpdArgs) : List ChunkArg := match u.payload with | some p => p.2.2.2 | none => []

/-- the embedding the new version of frame `id` gets: the explicit one, else the old version's -/
def carriedSpec (E : List (Option Emb)) (id : Nat) (explicit : Option Emb) : Option Emb :=
  match explicit with
  | some e => some e
  | none => (E[id]?).join

/-- the index `frame_embedding` consults: the in-memory one, else the persisted one -/
def idxList (m : Mem) : List VecEnt := match m.vec with | some v => v | none => m.pVec.getD []

theorem carriedEmb_none (m : Mem) (id : Nat) :
    m.carriedEmb id none =
      if m.vecEnabled then ((idxList m).find? (fun x => x.id == id)).map (fun e => (e.dim, e.tok)) else none := by
  unfold Mem.carriedEmb idxList
  by_cases h : m.vecEnabled = true
  · simp only [h, if_true]
    cases m.vec with
    | none =>
      simp only []
      cases List.find? (fun x => x.id == id) (m.pVec.getD []) <;> rfl
    | some v =>
      simp only [Option.getD_some]
      cases List.find? (fun x => x.id == id) v <;> rfl
  · simp [h]

theorem carriedEmb_spec (m : Mem) (E : List (Option Emb)) (hv : VInv m E) (id : Nat) (explicit : Option Emb)
    (hact : isActive m.frames id = true) :
    m.carriedEmb id explicit = carriedSpec E id explicit ∧
    (explicit = none → (m.carriedEmb id explicit).isSome = true → m.vecEnabled = true) := by
  cases explicit with
  | some e => exact ⟨rfl, fun h => by cases h⟩
  | none =>
    rw [carriedEmb_none]
    unfold carriedSpec
    simp only
    have hlt : id < E.length := Nat.lt_of_lt_of_le (isActive_lt hact) hv.lenE
    have hEid : E[id]? = some E[id] := List.getElem?_eq_getElem hlt
    have hidx : idxList m = vecL m := by
      unfold idxList
      cases hx : m.vec with
      | some v => simp [vecL, hx]
      | none =>
        have := hv.pv
        rw [this]
    -- an entry for `id` exists exactly when `E` gives `id` an embedding
    have hnone : E[id] = none → (vecL m).find? (fun x => x.id == id) = none := by
      intro hx
      apply List.find?_eq_none.mpr
      intro e he hid
      have hid' : e.id = id := by simpa using hid
      have := ((hv.mem e).mp he).2
      rw [hid', hEid, hx] at this
      cases this
    have hsome : ∀ p, E[id] = some p → m.vecEnabled = true ∧
        ((vecL m).find? (fun x => x.id == id)).map (fun e => (e.dim, e.tok)) = some p := by
      intro p hx
      have hmem : ({ id := id, dim := p.1, tok := p.2 } : VecEnt) ∈ vecL m :=
        (hv.mem _).mpr ⟨hact, by rw [hEid, hx]⟩
      refine ⟨hv.b (fun h0 => by rw [h0] at hmem; cases hmem), ?_⟩
      cases hf : (vecL m).find? (fun x => x.id == id) with
      | none =>
        have := List.find?_eq_none.mp hf _ hmem
        simp at this
      | some e =>
        have he : e ∈ vecL m := List.mem_of_find?_eq_some hf
        have hid : e.id = id := by
          have := List.find?_some hf
          simpa using this
        have := ((hv.mem e).mp he).2
        rw [hid, hEid, hx] at this
        injection this with this
        injection this with this
        simp [this]
    rw [hidx, hEid]
    cases hx : E[id] with
    | none =>
      rw [hnone hx]
      refine ⟨by simp, fun _ h => ?_⟩
      split at h <;> simp at h
    | some p =>
      obtain ⟨h1, h2⟩ := hsome p hx
      rw [h1, h2]
      exact ⟨by simp, fun _ _ => rfl⟩

/-- what the caller of `update_frame` may pass: a non-empty embedding, no chunk embeddings -/
def UpdOk (u : UpdArgs) : Prop :=
  (∀ d t, u.emb = some (d, t) → d ≠ 0) ∧ (∀ c ∈ updChunks u, c.emb = none)

theorem update_vinv (m : Mem) (E : List (Option Emb)) (hv : VInv m E) (id : Nat) (u : UpdArgs) (t : Trace) (hu : UpdOk u) :
    VInv (m.update id u t).1
      (if (m.update id u t).2.isAck then E ++ carriedSpec E id u.emb :: (updChunks u).map (·.emb) else E) := by
  unfold Mem.update
  split
  · simpa [Out.isAck] using hv
  · split
    · simpa [Out.isAck] using hv
    · rename_i old hold
      split
      · simpa [Out.isAck] using hv
      · rename_i hst
        have hact : isActive m.frames id = true := by
          unfold isActive; rw [hold]
          cases hs : old.status <;> simp [hs] at hst ⊢
        split
        · simpa [Out.isAck] using loadVec_vinv m E hv
        · have hlt : id < m.frames.length := (List.getElem?_eq_some_iff.mp hold).1
          have hl : m.loadVec.frames.length = m.frames.length := by unfold Mem.loadVec; split <;> rfl
          have hlve : m.vecEnabled = true → m.loadVec.vecEnabled = true := by
            intro h; unfold Mem.loadVec; split <;> exact h
          obtain ⟨hc1, hc2⟩ := carriedEmb_spec m E hv id u.emb hact
          have hembs : embsOf (inheritArgs old u (m.carriedEmb id u.emb)) = carriedSpec E id u.emb :: (updChunks u).map (·.emb) := by
            unfold embsOf updChunks
            rw [← hc1]
            cases hp : u.payload <;> simp [inheritArgs, hp]
          have key := putCore_vinv m.loadVec E (loadVec_vinv m E hv) (inheritArgs old u (m.carriedEmb id u.emb)) (some id)
            (if u.payload.isNone then some id else none) t
            (fun x hx => by cases hx; rw [hl]; exact hlt)
            (fun x hx => by
              rw [hl]
              split at hx
              · cases hx; exact hlt
              · cases hx)
            (by
              rintro ⟨x, hx, hs⟩
              rw [hembs] at hx
              rcases List.mem_cons.mp hx with rfl | hx
              · cases hue : u.emb with
                | some e =>
                  left
                  obtain ⟨d, tk⟩ := e
                  have hd := hu.1 d tk hue
                  simp [embDims, inheritArgs, Mem.carriedEmb, hd]
                | none =>
                  right
                  apply hlve
                  apply hc2 hue
                  rw [hc1]; exact hs
              · exfalso
                simp only [List.mem_map] at hx
                obtain ⟨c, hc, rfl⟩ := hx
                rw [hu.2 c hc] at hs
                cases hs)
          rw [hembs] at key
          exact key

theorem delete_vinv (m : Mem) (E : List (Option Emb)) (hv : VInv m E) (id : Nat) (t : Trace) :
    VInv (m.delete id t).1 E := by
  unfold Mem.delete
  split
  · exact hv
  · rename_i f hf
    split
    · exact hv
    · have hlt : id < m.frames.length := (List.getElem?_eq_some_iff.mp hf).1
      apply afterAppend_vinv
      have hpe : pendEmbs (m.pending ++ [(m.seq + 1, Entry.tombstone id)]) = pendEmbs m.pending := by
        rw [pendEmbs_append]; simp [pendEmbs, insEmb]
      exact {
        ok := by
          show AllOk m.frames.length (m.pending ++ [(m.seq + 1, Entry.tombstone id)])
          intro r hr
          rcases List.mem_append.mp hr with hr | hr
          · exact hv.ok r hr
          · simp at hr; subst hr; exact hlt
        lenE := hv.lenE
        pend := by
          show List.drop m.frames.length E = pendEmbs (m.pending ++ [(m.seq + 1, Entry.tombstone id)])
          rw [hpe]; exact hv.pend
        mem := hv.mem
        nodup := hv.nodup
        pi := by
          show m.pendingInserts = countInserts (m.pending ++ [(m.seq + 1, Entry.tombstone id)])
          rw [countInserts_append, hv.pi]; rfl
        pv := hv.pv
        g := hv.g
        lex := hv.lex
        d := (fun h => by cases h)
        b := hv.b
        b' := hv.b'
        a := by
          show (∃ x ∈ pendEmbs (m.pending ++ [(m.seq + 1, Entry.tombstone id)]), x.isSome = true) → m.vecEnabled = true
          rw [hpe]; exact hv.a }

end Mv.Core
