//! C29 — encrypted capsules round-trip exactly and reject tampering (feature `encryption`).
//!
//! impl : memvid_core::encryption::{lock_file, unlock_file} on real files in a temp dir.
//! model: drv_c29 — `lock`/`unlock` of MvModel/Capsule.lean instantiated with a TOY AEAD and KDF
//!        whose ciphertexts have the length of the AES-256-GCM ones, so the toy capsule has the
//!        byte layout of the real one and the same edit recipe is applied to both.
//! oracle (independent of the model): unlock(lock f) = f byte for byte; every capsule that
//!        differs from lock's output (or a wrong password) must give Err, leave the output path
//!        as it was and leave no temporary file behind; an Ok never carries bytes other than f.
//!
//! Argon2id runs with minimal cost parameters (cfg(memvid_verif) hook MEMVID_VERIF_FAST_KDF) for
//! all but a few cases per run, which use the production parameters.
#[cfg(not(feature = "encryption"))]
fn main() {
    eprintln!("c29: built without --features encryption");
    std::process::exit(12)
}

#[cfg(feature = "encryption")]
fn main() {
    real::main()
}

#[cfg(feature = "encryption")]
mod real {
    use memvid_core::encryption::{EncryptionError, lock_file, unlock_file};
    use mvh::*;
    use std::path::{Path, PathBuf};

    const HDR: usize = 64;
    const CHUNK: usize = 1024 * 1024;
    const SENTINEL: &[u8] = b"previous content of the output path";
    const SIG_IGNORED: &str = "ignored-header-bytes-unauthenticated";
    const SIG_SIZE_EDIT: &str = "truncation-plus-size-edit-accepted";
    const SIG_ONESHOT: &str = "oneshot-rewrap-of-one-chunk-accepted";
    const SIG_TRUNC: &str = "truncated-stream-accepted";

    fn fnv(b: &[u8]) -> u64 {
        let mut h: u64 = 0xCBF2_9CE4_8422_2325;
        for &x in b {
            h = (h ^ x as u64).wrapping_mul(0x0000_0100_0000_01B3);
        }
        h
    }

    /// MV2 magic followed by an xorshift64 byte stream (the driver generates the same bytes)
    fn gen_file(seed: u64, len: usize) -> Vec<u8> {
        let mut v = b"MV2\0".to_vec();
        let mut x = seed | 1;
        for _ in 4..len {
            x ^= x << 13;
            x ^= x >> 7;
            x ^= x << 17;
            v.push((x >> 32) as u8);
        }
        v
    }

    fn err_kind(e: &EncryptionError) -> &'static str {
        match e {
            EncryptionError::Io { .. } => "io",
            EncryptionError::InvalidMagic { .. } => "invalid-magic",
            EncryptionError::UnsupportedVersion { .. } => "unsupported-version",
            EncryptionError::UnsupportedKdf { .. } => "unsupported-kdf",
            EncryptionError::UnsupportedCipher { .. } => "unsupported-cipher",
            EncryptionError::KeyDerivation { .. } => "key-derivation",
            EncryptionError::CipherInit { .. } => "cipher-init",
            EncryptionError::Encryption { .. } => "encryption",
            EncryptionError::Decryption { .. } => "decryption",
            EncryptionError::SizeMismatch { .. } => "size-mismatch",
            EncryptionError::NotMv2File { .. } => "not-mv2",
            EncryptionError::CorruptedDecryption => "corrupted-decryption",
        }
    }

    // ------------------------------------------------------------------ edit recipes
    // pieces separated by ',':  r<off>:<len> bytes of the capsule | l<hex> literal | x<off>:<mask> one byte xor mask
    fn apply_recipe(cap: &[u8], recipe: &str) -> Vec<u8> {
        let mut out = Vec::new();
        for p in recipe.split(',') {
            let (k, body) = p.split_at(1);
            match k {
                "r" => {
                    let (a, b) = body.split_once(':').expect("r piece");
                    let off: usize = a.parse().unwrap();
                    let len: usize = b.parse().unwrap();
                    let s = off.min(cap.len());
                    let e = off.saturating_add(len).min(cap.len());
                    out.extend_from_slice(&cap[s..e]);
                }
                "x" => {
                    let (a, b) = body.split_once(':').expect("x piece");
                    let off: usize = a.parse().unwrap();
                    let m: u8 = b.parse().unwrap();
                    if off < cap.len() { out.push(cap[off] ^ m); }
                }
                "l" => out.extend_from_slice(&unhexw(body).expect("l piece")),
                _ => panic!("bad recipe piece {p}"),
            }
        }
        out
    }

    /// ciphertext lengths of the frames of an honest capsule and the offsets where frames start/end
    fn parse_frames(cap: &[u8]) -> (Vec<usize>, Vec<usize>) {
        let mut lens = vec![];
        let mut bounds = vec![HDR.min(cap.len())];
        let mut p = HDR;
        while p + 4 <= cap.len() {
            let l = u32::from_le_bytes(cap[p..p + 4].try_into().unwrap()) as usize;
            lens.push(l);
            p = p + 4 + l;
            bounds.push(p.min(cap.len()));
        }
        (lens, bounds)
    }

    struct Env {
        dir: tempfile::TempDir,
    }
    impl Env {
        fn p(&self, n: &str) -> PathBuf { self.dir.path().join(n) }
    }

    fn set_fast(fast: bool) {
        // single-threaded harness
        unsafe {
            if fast { std::env::set_var("MEMVID_VERIF_FAST_KDF", "1") } else { std::env::remove_var("MEMVID_VERIF_FAST_KDF") }
        }
    }

    #[derive(Clone)]
    struct FileSpec {
        gen_seed: Option<u64>, // Some: gen_file(seed, len); None: content given
        content: Vec<u8>,
        pw: Vec<u8>,
    }
    impl FileSpec {
        fn json(&self) -> Value {
            match self.gen_seed {
                Some(s) => json!({"gen": [s, self.content.len()], "pw": hexw(&self.pw)}),
                None => json!({"hex": hexw(&self.content), "pw": hexw(&self.pw)}),
            }
        }
        fn from_json(v: &Value) -> FileSpec {
            let pw = unhexw(v["pw"].as_str().unwrap()).unwrap();
            if let Some(g) = v.get("gen") {
                let s = g[0].as_u64().unwrap();
                let l = g[1].as_u64().unwrap() as usize;
                FileSpec { gen_seed: Some(s), content: gen_file(s, l), pw }
            } else {
                FileSpec { gen_seed: None, content: unhexw(v["hex"].as_str().unwrap()).unwrap(), pw }
            }
        }
    }

    struct Locked {
        spec: FileSpec,
        cap: Vec<u8>,
        lens: Vec<usize>,
        bounds: Vec<usize>,
        model_loaded: bool,
    }

    /// lock the file with the real code, load the same file into the model, compare the layouts
    fn lock_case(env: &Env, spec: &FileSpec, fast: bool, drv: &mut Option<Driver>, sum: &mut Summary) -> Option<Locked> {
        let inp = env.p("a.mv2");
        let capp = env.p("a.mv2e");
        let _ = std::fs::remove_file(&capp);
        std::fs::write(&inp, &spec.content).unwrap();
        set_fast(fast);
        let r = guarded(|| lock_file(&inp, Some(capp.as_path()), &spec.pw));
        let case = json!({"file": spec.json(), "op": "lock", "full_kdf": !fast});
        let r = match r {
            Ok(r) => r,
            Err(p) => {
                sum.oracle_violation("lock-panicked", &p, case);
                return None;
            }
        };
        let valid = spec.content.len() >= 4 && &spec.content[..4] == b"MV2\0";
        let imp: String;
        let mut locked = None;
        match &r {
            Err(e) => {
                imp = format!("err {}", err_kind(e));
                sum.branch(&format!("lock-err-{}", err_kind(e)));
                if valid {
                    sum.oracle_violation("lock-failed-on-valid-file", &format!("{e}"), case.clone());
                }
                if capp.exists() {
                    sum.oracle_violation("lock-error-left-a-capsule", &imp, case.clone());
                }
            }
            Ok(_) => {
                let cap = std::fs::read(&capp).unwrap();
                let (lens, bounds) = parse_frames(&cap);
                imp = format!("ok {} {} {}", hexw(&cap[..HDR.min(cap.len())]),
                    if lens.is_empty() { "-".to_string() } else { lens.iter().map(|l| l.to_string()).collect::<Vec<_>>().join(",") },
                    cap.len());
                sum.branch("lock-ok");
                if !valid {
                    sum.oracle_violation("lock-accepted-non-mv2-file", &imp, case.clone());
                }
                // independent layout oracle: header fields, 1 MiB chunks with a 16-byte tag each
                let n = spec.content.len();
                let want: Vec<usize> = (0..n.div_ceil(CHUNK)).map(|i| (n - i * CHUNK).min(CHUNK) + 16).collect();
                let hdr_ok = cap.len() >= HDR && &cap[0..4] == b"MV2E" && cap[4..8] == [1, 0, 1, 1]
                    && u64::from_le_bytes(cap[52..60].try_into().unwrap()) == n as u64 && cap[60..64] == [1, 0, 0, 0];
                if !hdr_ok || lens != want || *bounds.last().unwrap() != cap.len() {
                    sum.oracle_violation("lock-layout-unexpected", &format!("lens={lens:?} want={want:?} hdr_ok={hdr_ok}"), case.clone());
                }
                locked = Some(Locked { spec: spec.clone(), cap, lens, bounds, model_loaded: false });
            }
        }
        if let Some(d) = drv.as_mut() {
            let (salt, nonce) = match &locked {
                Some(l) => (hexw(&l.cap[8..40]), hexw(&l.cap[40..52])),
                None => (hexw(&[0u8; 32]), hexw(&[0u8; 12])),
            };
            let req = match spec.gen_seed {
                Some(s) => format!("load g {} {} {} {} {}", s, spec.content.len(), hexw(&spec.pw), salt, nonce),
                None => format!("load h {} {} {} {}", hexw(&spec.content), hexw(&spec.pw), salt, nonce),
            };
            let model = d.ask(&req);
            if model != imp {
                sum.disagreement("lock_file layout vs model lock", case.clone(), &model, &imp);
            } else if let Some(l) = locked.as_mut() {
                l.model_loaded = true;
            }
        }
        let canon = format!("lock|{}|{}", b3short(&spec.content), imp.split(' ').next().unwrap());
        sum.case(&canon, r.is_ok(), || json!({"op": "lock", "file_len": spec.content.len(), "impl": imp.chars().take(160).collect::<String>()}));
        locked
    }

    fn differs_only_in(a: &[u8], b: &[u8], allowed: impl Fn(usize) -> bool) -> bool {
        a.len() == b.len() && (0..a.len()).all(|i| a[i] == b[i] || allowed(i))
    }

    /// failure class of an accepted modified capsule (None = no recorded class)
    fn classify(l: &Locked, c2: &[u8], out: &[u8]) -> &'static str {
        let cap = &l.cap;
        let f = &l.spec.content;
        if out == &f[..] && differs_only_in(c2, cap, |i| (44..52).contains(&i) || (61..64).contains(&i)) {
            return SIG_IGNORED;
        }
        if c2.len() >= HDR && cap.len() >= HDR {
            let is_prefix = c2.len() < cap.len() && cap[..c2.len()] == c2[..];
            let at_or_in_prefix = l.bounds.iter().any(|&b| c2.len() >= b && c2.len() < b + 4);
            if is_prefix && at_or_in_prefix { return SIG_TRUNC; }
            // header differs only in original_size, body = whole frames of the capsule
            if c2[..52] == cap[..52] && c2[60..64] == cap[60..64] && c2.len() < cap.len()
                && cap[HDR..c2.len()] == c2[HDR..] && l.bounds.contains(&c2.len())
                && u64::from_le_bytes(c2[52..60].try_into().unwrap()) == out.len() as u64 {
                return SIG_SIZE_EDIT;
            }
            // one-shot header over the ciphertext of one chunk
            if c2[60] != 1 && c2[..44] == cap[..44] {
                for (i, &len) in l.lens.iter().enumerate() {
                    let s = l.bounds[i] + 4;
                    if c2.len() == HDR + len && c2[HDR..] == cap[s..s + len] && c2[44..52] == (i as u64).to_be_bytes() {
                        return SIG_ONESHOT;
                    }
                }
            }
        }
        "modified-capsule-accepted"
    }

    struct UnlockCase<'a> {
        recipe: &'a str,
        pw: &'a [u8],
        fast: bool,
        old_present: bool,
        label: &'a str,
        ask_model: bool,
    }

    fn unlock_case(env: &Env, l: &Locked, uc: &UnlockCase, drv: &mut Option<Driver>, sum: &mut Summary, known: &[String], verbose: bool) {
        let f = &l.spec.content;
        let c2 = apply_recipe(&l.cap, uc.recipe);
        let xp = env.p("x.mv2e");
        let outp = env.p("out.mv2");
        std::fs::write(&xp, &c2).unwrap();
        if uc.old_present { std::fs::write(&outp, SENTINEL).unwrap(); } else { let _ = std::fs::remove_file(&outp); }
        set_fast(uc.fast);
        let pw = uc.pw.to_vec();
        let (xp2, outp2) = (xp.clone(), outp.clone());
        let r = guarded(move || unlock_file(&xp2, Some(outp2.as_path()), &pw));
        let case = json!({"file": l.spec.json(), "op": "unlock", "unlock_pw": hexw(uc.pw), "recipe": uc.recipe,
                          "full_kdf": !uc.fast, "old_present": uc.old_present, "label": uc.label});
        let after: Option<Vec<u8>> = std::fs::read(&outp).ok();
        let mut stray: Vec<String> = std::fs::read_dir(env.dir.path()).unwrap()
            .map(|e| e.unwrap().file_name().to_string_lossy().to_string())
            .filter(|n| !["a.mv2", "a.mv2e", "x.mv2e", "out.mv2"].contains(&n.as_str())).collect();
        stray.sort();
        let r = match r {
            Ok(r) => r,
            Err(p) => {
                sum.oracle_violation("unlock-panicked", &p, case);
                return;
            }
        };
        let modified = c2 != l.cap;
        let wrong_pw = uc.pw != &l.spec.pw[..];
        let imp = match &r {
            Ok(_) => {
                let out = after.clone().unwrap_or_default();
                let rel = if out == *f { "same" } else if f.starts_with(&out) { "prefix" } else { "other" };
                format!("ok {} {} {}", out.len(), fnv(&out), rel)
            }
            Err(e) => format!("err {}", err_kind(e)),
        };
        sum.branch(&format!("unlock-{}", imp.split(' ').take(if r.is_ok() { 1 } else { 2 }).collect::<Vec<_>>().join("-")));
        sum.branch(&format!("case-{}", uc.label));
        // ---- model (skipped for sampled-out cases unless the oracle fails, see below)
        let mut model_fix = String::from("none");
        let mut model_cur = String::from("none");
        let ask = |drv: &mut Option<Driver>, sum: &mut Summary, model_fix: &mut String, model_cur: &mut String| {
            if let (Some(d), true) = (drv.as_mut(), l.model_loaded) {
                *model_fix = d.ask(&format!("unlock {} {}", hexw(uc.pw), uc.recipe));
                if *model_fix != imp || verbose {
                    *model_cur = d.ask(&format!("unlockcur {} {}", hexw(uc.pw), uc.recipe));
                }
                if *model_fix != imp {
                    let what = if *model_cur == imp {
                        "unlock_file behaves like the reader WITHOUT fixes/C29.diff (model of the repaired reader differs)"
                    } else { "unlock_file vs model unlock" };
                    sum.disagreement(what, case.clone(), &format!("cur={model_cur} fix={model_fix}"), &imp);
                }
            }
        };
        let mut asked = false;
        if uc.ask_model {
            ask(drv, sum, &mut model_fix, &mut model_cur);
            asked = true;
        }
        // ---- property oracle (independent of the model)
        let mut fail: Option<(String, String)> = None;
        match &r {
            Ok(_) => {
                let out = after.clone().unwrap_or_default();
                if after.is_none() {
                    fail = Some(("unlock-ok-without-output".into(), "Ok but the output path does not exist".into()));
                } else if !modified && !wrong_pw {
                    if out != *f { fail = Some(("roundtrip-differs".into(), format!("unlock(lock f) has {} bytes, f has {}", out.len(), f.len()))); }
                } else if wrong_pw && !modified {
                    fail = Some(("wrong-password-accepted".into(), imp.clone()));
                } else {
                    let sig = classify(l, &c2, &out);
                    let what = if out == *f {
                        format!("modified capsule accepted (plaintext intact): {} [{}]", uc.label, uc.recipe.chars().take(80).collect::<String>())
                    } else {
                        format!("modified capsule accepted and a plaintext that differs from f was written ({} bytes instead of {}): {} [{}]",
                            out.len(), f.len(), uc.label, uc.recipe.chars().take(80).collect::<String>())
                    };
                    fail = Some((sig.to_string(), what));
                }
            }
            Err(e) => {
                if !modified && !wrong_pw {
                    fail = Some(("roundtrip-failed".into(), format!("unlock(lock f) failed: {e}")));
                } else {
                    let unchanged = if uc.old_present { after.as_deref() == Some(SENTINEL) } else { after.is_none() };
                    if !unchanged {
                        fail = Some(("failed-unlock-touched-output".into(),
                            format!("unlock failed ({imp}) but the output path changed: {:?} bytes", after.as_ref().map(|a| a.len()))));
                    }
                }
            }
        }
        if fail.is_none() && !stray.is_empty() {
            fail = Some(("temporary-file-left-behind".into(), format!("{stray:?}")));
            for s in &stray { let _ = std::fs::remove_file(env.p(s)); }
        }
        let nontrivial = l.cap.len() > HDR;
        let canon = format!("unlock|{}|{}|{}|{}|{}", b3short(f), hexw(uc.pw), uc.recipe, uc.old_present, imp);
        sum.case(&canon, nontrivial, || json!({"op": "unlock", "file_len": f.len(), "frames": l.lens.len(), "label": uc.label,
            "recipe": uc.recipe.chars().take(120).collect::<String>(), "impl": imp}));
        if fail.is_some() && !asked {
            ask(drv, sum, &mut model_fix, &mut model_cur);
        }
        if verbose {
            println!("impl : {imp}");
            println!("model: repaired reader: {model_fix}; reader before fixes/C29.diff: {model_cur}");
            println!("capsule' = {} bytes (lock output {} bytes), modified={modified}, wrong_pw={wrong_pw}", c2.len(), l.cap.len());
        }
        if let Some((sig, what)) = fail {
            if verbose { println!("oracle: FAIL {sig}: {what}"); }
            let predicted = model_fix == imp;
            if known.iter().any(|k| k == &sig) && predicted {
                sum.known_finding(&sig, &what, case);
            } else {
                sum.oracle_violation(&sig, &what, case);
            }
        } else if verbose {
            println!("oracle: ok");
        }
    }

    // ------------------------------------------------------------------ recipe generators
    fn le64(v: u64) -> String { hexw(&v.to_le_bytes()) }

    fn recipes_for(l: &Locked, rng: &mut Rng, thorough: bool, small_budget: bool) -> Vec<(String, String)> {
        let n = l.cap.len();
        let mut v: Vec<(String, String)> = vec![];
        let all = format!("r0:{n}");
        v.push(("identity".into(), all.clone()));
        // truncation at every frame boundary -4..+4 (the capsule end itself is the identity)
        let mut cuts: Vec<usize> = vec![0, 1, 3, 4, 8, 39, 40, 52, 60, 63];
        for &b in &l.bounds {
            for d in -4i64..=4 {
                let c = b as i64 + d;
                if c >= 0 && (c as usize) < n { cuts.push(c as usize); }
            }
        }
        let nrand = if small_budget { 2 } else if thorough { 12 } else { 5 };
        for _ in 0..nrand { cuts.push(rng.usize(0, n - 1)); }
        cuts.sort();
        cuts.dedup();
        for c in cuts {
            let lab = if l.bounds.iter().any(|&b| c >= b && c < b + 4) && c >= HDR { "trunc-at-boundary-or-prefix" }
                      else if c < HDR { "trunc-in-header" } else { "trunc-in-body" };
            v.push((lab.into(), format!("r0:{c}")));
        }
        // appended bytes
        v.push(("append-1".into(), format!("{all},l00")));
        v.push(("append-3".into(), format!("{all},l{}", hexw(&rng.bytes(3)))));
        v.push(("append-4-zero".into(), format!("{all},l00000000")));
        v.push(("append-20".into(), format!("{all},l{}", hexw(&rng.bytes(20)))));
        // one flipped bit: every header offset, every length-prefix byte, bodies, tags
        let flip = |off: usize, rng: &mut Rng| format!("r0:{off},x{off}:{},r{}:{}", 1u8 << rng.below(8), off + 1, n);
        let hdr_offs: Vec<usize> = if small_budget { vec![0, 4, 6, 7, 8, 40, 43, 44, 51, 52, 59, 60, 61, 63] } else { (0..HDR).collect() };
        for off in hdr_offs {
            let lab = match off { 0..=3 => "flip-magic", 4..=5 => "flip-version", 6 => "flip-kdf", 7 => "flip-cipher",
                8..=39 => "flip-salt", 40..=43 => "flip-nonce-prefix", 44..=51 => "flip-nonce-counter-bytes",
                52..=59 => "flip-original-size", 60 => "flip-reserved0", _ => "flip-reserved1-3" };
            v.push((lab.into(), flip(off, rng)));
        }
        for (i, &len) in l.lens.iter().enumerate() {
            let s = l.bounds[i];
            for k in 0..4 {
                if small_budget && k != 0 && k != 3 { continue; }
                v.push(("flip-length-prefix".into(), flip(s + k, rng)));
            }
            let nb = if small_budget { 1 } else { 3 };
            for _ in 0..nb {
                if len > 16 { v.push(("flip-body".into(), flip(s + 4 + rng.usize(0, len - 17), rng))); }
            }
            if len > 16 { v.push(("flip-body".into(), flip(s + 4, rng))); }
            v.push(("flip-tag".into(), flip(s + 4 + len - 1 - rng.usize(0, 15.min(len - 1)), rng)));
        }
        // frame-level edits
        let nf = l.lens.len();
        let fr = |i: usize| format!("r{}:{}", l.bounds[i], l.bounds[i + 1] - l.bounds[i]);
        if nf >= 2 {
            let mut order: Vec<usize> = (0..nf).collect();
            order.swap(0, 1);
            v.push(("swap-frames".into(), format!("r0:{HDR},{}", order.iter().map(|&i| fr(i)).collect::<Vec<_>>().join(","))));
            if nf >= 3 {
                let mut order: Vec<usize> = (0..nf).collect();
                order.swap(nf - 2, nf - 1);
                v.push(("swap-frames".into(), format!("r0:{HDR},{}", order.iter().map(|&i| fr(i)).collect::<Vec<_>>().join(","))));
            }
            v.push(("drop-first-frame".into(), format!("r0:{HDR},r{}:{}", l.bounds[1], n)));
            v.push(("drop-middle-or-last-frame".into(), format!("r0:{},r{}:{}", l.bounds[nf - 1], l.bounds[nf], n)));
        }
        if nf >= 1 {
            v.push(("duplicate-frame".into(), format!("{all},{}", fr(nf - 1))));
            v.push(("duplicate-frame".into(), format!("r0:{},{},r{}:{}", l.bounds[1], fr(0), l.bounds[1], n)));
            // same ciphertext with a shorter / longer declared length
            let len0 = l.lens[0] as u32;
            v.push(("length-prefix-minus-1".into(), format!("r0:{HDR},l{},r{}:{}", hexw(&(len0 - 1).to_le_bytes()), HDR + 4, n)));
            v.push(("length-prefix-plus-1".into(), format!("r0:{HDR},l{},r{}:{}", hexw(&(len0 + 1).to_le_bytes()), HDR + 4, n)));
            v.push(("length-prefix-huge".into(), format!("r0:{HDR},lffffff7f,r{}:{}", HDR + 4, n)));
        }
        // header original_size rewritten, with and without cutting the stream at a frame boundary
        let mut plain = 0u64;
        for j in 0..=nf {
            if j > 0 { plain += (l.lens[j - 1] - 16) as u64; }
            if j < nf {
                v.push(("size-edit-plus-truncation".into(), format!("r0:52,l{},r60:{}", le64(plain), l.bounds[j] - 60)));
            }
        }
        v.push(("size-edit-only".into(), format!("r0:52,l{},r60:{}", le64(l.spec.content.len() as u64 + 1), n)));
        v.push(("size-edit-only".into(), format!("r0:52,l{},r60:{}", le64(0), n)));
        // one-shot header wrapped around the ciphertext of chunk m
        for m in 0..nf.min(2) {
            let s = l.bounds[m] + 4;
            v.push(("oneshot-rewrap".into(), format!("r0:44,l{},l{},l00000000,r{}:{}", hexw(&(m as u64).to_be_bytes()), le64((l.lens[m] - 16) as u64), s, l.lens[m])));
        }
        // one-shot flag only / one-shot flag and the whole body
        v.push(("reserved0-zero".into(), format!("r0:60,l00,r61:{n}")));
        v
    }

    fn file_specs(rng: &mut Rng, thorough: bool) -> Vec<(FileSpec, bool)> {
        // (spec, small_budget): small_budget = fewer cases (capsule is expensive on the model side)
        let mut v = vec![];
        let pw = |rng: &mut Rng| { let n = rng.usize(1, 12); rng.bytes(n) };
        let g = |len: usize, rng: &mut Rng, small: bool| {
            let s = rng.u64() >> 1;
            (FileSpec { gen_seed: Some(s), content: gen_file(s, len), pw: pw(rng) }, small)
        };
        // fixed boundary sizes
        for len in [4usize, 5, 20, 4096] { v.push(g(len, rng, false)); }
        if thorough { v.push(g(CHUNK - 1, rng, true)); }
        v.push(g(CHUNK, rng, true));
        v.push(g(CHUNK + 1, rng, true));
        v.push(g(2 * CHUNK + 7, rng, true));
        if thorough {
            v.push(g(3 * CHUNK, rng, true));
            v.push(g(3 * CHUNK + rng.usize(1, 4096), rng, true));
        }
        let nsmall = if thorough { 40 } else { 8 };
        for _ in 0..nsmall {
            let len = match rng.below(4) { 0 => rng.usize(4, 40), 1 => rng.usize(41, 2000), _ => rng.usize(2001, 70000) };
            v.push(g(len, rng, false));
        }
        // files lock must refuse
        for content in [vec![], b"MV2".to_vec(), b"MV3\0rest".to_vec(), b"XXXXXXXXXXXXXXXX".to_vec(), b"mv2\0abcd".to_vec()] {
            v.push((FileSpec { gen_seed: None, content, pw: b"pw".to_vec() }, false));
        }
        // arbitrary (non-generated) content travels as hex
        let mut c = b"MV2\0".to_vec();
        c.extend(rng.bytes(300));
        v.push((FileSpec { gen_seed: None, content: c, pw: vec![0u8, 255, 10, 32] }, false));
        v
    }

    /// a real memory file made by Memvid (create, put, commit)
    fn memvid_file(env: &Env) -> Option<Vec<u8>> {
        let p = env.p("real.mv2");
        let r = guarded({
            let p = p.clone();
            move || -> Result<(), memvid_core::MemvidError> {
                let mut m = memvid_core::Memvid::create(&p)?;
                m.put_bytes(b"capsule round trip on a real memory file")?;
                m.commit()?;
                Ok(())
            }
        });
        let bytes = std::fs::read(&p).ok();
        let _ = std::fs::remove_file(&p);
        match r { Ok(Ok(())) => bytes, _ => None }
    }

    pub fn main() {
        let args = parse_args();
        let mut drv: Option<Driver> = if args.driver.as_os_str() == "none" { None } else { Some(Driver::spawn(&args.driver).expect("spawn driver")) };
        let known: Vec<String> = args.extra.get("known").map(|s| s.split(',').map(|x| x.to_string()).collect()).unwrap_or_default();
        let mut sum = Summary::new("C29", &args,
            "files: MV2 magic + xorshift bytes of 4 B .. 2 MiB+7 (quick) / 3 MiB+4 KiB (thorough) incl. CHUNK-1, CHUNK, CHUNK+1, k*CHUNK, \
             one real Memvid file, files lock must refuse; per capsule: identity, truncation at every frame boundary -4..+4 and header/random \
             offsets, appended bytes, one flipped bit at every header offset / length-prefix byte / body / tag, frame swap, drop, duplicate, \
             length-prefix +-1, original_size rewritten with and without truncation, one-shot re-wrap, wrong password, output path present or \
             absent; Argon2 cost reduced by hook except 3 cases per run; non-trivial = capsule with at least one frame; distinct = file hash + recipe + result");
        sum.expect_branches(&["lock-ok", "lock-err-io", "lock-err-not-mv2", "unlock-ok", "unlock-err-io", "unlock-err-decryption",
            "unlock-err-size-mismatch", "unlock-err-invalid-magic", "unlock-err-unsupported-version", "unlock-err-unsupported-kdf",
            "unlock-err-unsupported-cipher", "case-trunc-at-boundary-or-prefix", "case-swap-frames", "case-flip-tag", "case-flip-length-prefix",
            "case-size-edit-plus-truncation", "case-oneshot-rewrap", "case-full-kdf", "case-wrong-password"]);
        let env = Env { dir: tempfile::tempdir().expect("tempdir") };

        if args.mode == "replay" {
            let case = load_replay(args.replay_file.as_ref().expect("replay file"));
            let input = case.get("input").unwrap_or(&case).clone();
            let spec = FileSpec::from_json(&input["file"]);
            let fast = !input["full_kdf"].as_bool().unwrap_or(false);
            println!("file: {} bytes, password {}", spec.content.len(), hexw(&spec.pw));
            let l = lock_case(&env, &spec, fast, &mut drv, &mut sum);
            if input["op"].as_str() == Some("unlock") {
                if let Some(l) = l {
                    println!("lock : capsule {} bytes, frames {:?}", l.cap.len(), l.lens);
                    let pw = unhexw(input["unlock_pw"].as_str().unwrap()).unwrap();
                    let uc = UnlockCase { recipe: input["recipe"].as_str().unwrap(), pw: &pw, fast,
                        old_present: input["old_present"].as_bool().unwrap_or(false), label: input["label"].as_str().unwrap_or("replay"), ask_model: true };
                    println!("recipe: {}", uc.recipe);
                    unlock_case(&env, &l, &uc, &mut drv, &mut sum, &known, true);
                } else {
                    println!("lock failed; nothing to unlock");
                }
            }
            if let Some(d) = &drv { sum.model_requests = d.requests; }
            sum.finish(&args);
        }

        let mut rng = Rng::new(args.seed);
        let t0 = std::time::Instant::now();
        // ---- fixed corpus: the recorded witnesses on a file of two chunks and on a 40-byte file
        {
            let two = FileSpec { gen_seed: Some(2929), content: gen_file(2929, CHUNK + 5), pw: b"pw".to_vec() };
            if let Some(l) = lock_case(&env, &two, true, &mut drv, &mut sum) {
                let b1 = l.bounds[1];
                for (label, recipe) in [
                    ("trunc-at-boundary-or-prefix", format!("r0:{b1}")),
                    ("trunc-at-boundary-or-prefix", format!("r0:{}", b1 + 2)),
                    ("size-edit-plus-truncation", format!("r0:52,l{},r60:{}", le64(CHUNK as u64), b1 - 60)),
                    ("oneshot-rewrap", format!("r0:44,l0000000000000000,l{},l00000000,r68:{}", le64(CHUNK as u64), CHUNK + 16)),
                ] {
                    let uc = UnlockCase { recipe: &recipe, pw: &two.pw, fast: true, old_present: false, label, ask_model: true };
                    unlock_case(&env, &l, &uc, &mut drv, &mut sum, &known, false);
                }
            }
            let small = FileSpec { gen_seed: Some(29), content: gen_file(29, 40), pw: b"correct horse".to_vec() };
            if let Some(l) = lock_case(&env, &small, true, &mut drv, &mut sum) {
                for (label, recipe) in [
                    ("flip-nonce-counter-bytes", "r0:47,x47:1,r48:200".to_string()),
                    ("flip-reserved1-3", "r0:62,x62:128,r63:200".to_string()),
                    ("size-edit-plus-truncation", format!("r0:52,l{},r60:4", le64(0))),
                    ("oneshot-rewrap", format!("r0:44,l0000000000000000,l{},l00000000,r68:56", le64(40))),
                    ("trunc-at-boundary-or-prefix", "r0:64".to_string()),
                    ("trunc-at-boundary-or-prefix", "r0:66".to_string()),
                ] {
                    let uc = UnlockCase { recipe: &recipe, pw: &small.pw, fast: true, old_present: true, label, ask_model: true };
                    unlock_case(&env, &l, &uc, &mut drv, &mut sum, &known, false);
                }
            }
        }
        // ---- production Argon2 parameters: round trip, one truncation, one flipped bit
        {
            let spec = FileSpec { gen_seed: Some(77), content: gen_file(77, 1000), pw: b"full cost".to_vec() };
            if let Some(l) = lock_case(&env, &spec, false, &mut drv, &mut sum) {
                let n = l.cap.len();
                for recipe in [format!("r0:{n}"), format!("r0:{}", n - 1), format!("r0:100,x100:4,r101:{n}")] {
                    let uc = UnlockCase { recipe: &recipe, pw: &spec.pw, fast: false, old_present: false, label: "full-kdf", ask_model: true };
                    unlock_case(&env, &l, &uc, &mut drv, &mut sum, &known, false);
                }
            }
        }
        // ---- generated files
        let mut specs = file_specs(&mut rng, args.thorough);
        if let Some(bytes) = memvid_file(&env) {
            sum.notes.push(format!("real Memvid file: {} bytes", bytes.len()));
            sum.branch("real-memvid-file");
            specs.insert(4, (FileSpec { gen_seed: None, content: bytes, pw: b"memvid".to_vec() }, true));
        }
        for (spec, small_budget) in specs {
            let Some(l) = lock_case(&env, &spec, true, &mut drv, &mut sum) else { continue };
            let recipes = recipes_for(&l, &mut rng, args.thorough, small_budget);
            // a request on a capsule of a megabyte and more costs the Lean driver ~0.5 s per MiB: there the
            // model is asked for the first case of every label (quick: of the labels in `QUICK_BIG`) whose
            // edited capsule is larger than 128 KiB, for every smaller edited capsule, and whenever the
            // oracle fails; every case is still run on the implementation and judged by the oracle
            const QUICK_BIG: &[&str] = &["identity", "trunc-at-boundary-or-prefix", "swap-frames", "flip-tag",
                "flip-length-prefix", "size-edit-plus-truncation", "oneshot-rewrap", "append-3"];
            let mut seen: std::collections::BTreeSet<String> = Default::default();
            for (label, recipe) in &recipes {
                let old_present = rng.bool();
                let expensive = small_budget && apply_recipe(&l.cap, recipe).len() > 128 * 1024;
                let ask_model = !expensive
                    || ((args.thorough || QUICK_BIG.contains(&label.as_str())) && seen.insert(label.clone()));
                if !ask_model { sum.branch("model-not-asked"); }
                let uc = UnlockCase { recipe, pw: &spec.pw, fast: true, old_present, label, ask_model };
                unlock_case(&env, &l, &uc, &mut drv, &mut sum, &known, false);
            }
            // wrong password on the untouched capsule
            let mut wp = spec.pw.clone();
            wp[0] ^= 1;
            let all = format!("r0:{}", l.cap.len());
            for pw in [wp, vec![], [spec.pw.clone(), vec![0]].concat()] {
                let uc = UnlockCase { recipe: &all, pw: &pw, fast: true, old_present: rng.bool(), label: "wrong-password", ask_model: l.cap.len() <= 128 * 1024 || pw.is_empty() };
                unlock_case(&env, &l, &uc, &mut drv, &mut sum, &known, false);
            }
        }
        sum.notes.push(format!("harness wall {:.1}s", t0.elapsed().as_secs_f64()));
        if let Some(d) = &drv { sum.model_requests = d.requests; }
        let _ = Path::new("");
        sum.finish(&args);
    }
}
