/-
  C13 — Vector search returns the exact nearest neighbours.
  Model: MvModel/Vec.lean (mirror of VecIndex::search, Memvid::search_vec, uncompressed index codec).

  The theorems are order-theoretic: distances are an abstract type `D` compared by `pcmp`
  (`f32::partial_cmp`), the distance function `dist` is arbitrary (it is `l2_distance`, see C38).
  Hypothesis `NoNaN pcmp`: the comparator the code builds (`partial_cmp(..).unwrap_or(Equal)`)
  is a total preorder — true of f32 as long as no distance is NaN.  `C13_nan_breaks_topk` shows
  the hypothesis is needed: with a NaN distance the same code drops a strictly closer frame.
-/
import MvModel.Vec
namespace Mv.Vec

variable {F D : Type}

/-- `x ≤ y` as the comparator sees it: `partial_cmp(x, y).unwrap_or(Equal) != Greater` -/
def leD (pcmp : D → D → Option Ordering) (x y : D) : Bool := (pcmp x y).getD .eq != .gt

/-- `x` strictly closer than `y`: `partial_cmp(x, y) == Some(Less)` -/
def ltD (pcmp : D → D → Option Ordering) (x y : D) : Prop := pcmp x y = some .lt

instance (pcmp : D → D → Option Ordering) (x y : D) : Decidable (ltD pcmp x y) :=
  inferInstanceAs (Decidable (pcmp x y = some .lt))

/-- the comparator is a total preorder and `partial_cmp` is antisymmetric (no NaN involved) -/
structure NoNaN (pcmp : D → D → Option Ordering) : Prop where
  trans : ∀ x y z, leD pcmp x y = true → leD pcmp y z = true → leD pcmp x z = true
  total : ∀ x y, (leD pcmp x y || leD pcmp y x) = true
  antisym : ∀ x y, pcmp x y = some .lt → pcmp y x = some .gt

theorem leHits_eq (pcmp : D → D → Option Ordering) (a b : Hit D) :
    leHits pcmp a b = leD pcmp a.distance b.distance := rfl

theorem leHits_trans {pcmp : D → D → Option Ordering} (h : NoNaN pcmp) (a b c : Hit D) :
    leHits pcmp a b = true → leHits pcmp b c = true → leHits pcmp a c = true := by
  simp only [leHits_eq]; exact h.trans _ _ _

theorem leHits_total {pcmp : D → D → Option Ordering} (h : NoNaN pcmp) (a b : Hit D) :
    (leHits pcmp a b || leHits pcmp b a) = true := by
  simp only [leHits_eq]; exact h.total _ _

/-- **C13_len**: a non-empty query returns exactly `min k m` hits (m = documents in the index). -/
theorem C13_len (dist : List F → List F → D) (pcmp : D → D → Option Ordering)
    (docs : List (Doc F)) (q : List F) (k : Nat) (hq : q ≠ []) :
    (search dist pcmp docs q k).length = min k docs.length := by
  have : q.isEmpty = false := by cases q <;> simp_all
  simp [search, this, List.length_take, List.length_mergeSort, score]

/-- every hit is a document of the index with its own distance (nothing invented) -/
theorem C13_hits_are_docs (dist : List F → List F → D) (pcmp : D → D → Option Ordering)
    (docs : List (Doc F)) (q : List F) (k : Nat) (h : Hit D)
    (hh : h ∈ search dist pcmp docs q k) :
    ∃ d ∈ docs, h.frameId = d.frameId ∧ h.distance = dist q d.embedding := by
  unfold search at hh
  split at hh
  · simp at hh
  · have h1 := List.mem_of_mem_take hh
    rw [List.mem_mergeSort] at h1
    simp only [score, List.mem_map] at h1
    obtain ⟨d, hd, rfl⟩ := h1
    exact ⟨d, hd, rfl, rfl⟩

/-- **C13_sorted**: hits come in non-decreasing distance (every earlier hit ≤ every later one). -/
theorem C13_sorted (dist : List F → List F → D) (pcmp : D → D → Option Ordering)
    (hp : NoNaN pcmp) (docs : List (Doc F)) (q : List F) (k : Nat) :
    (search dist pcmp docs q k).Pairwise (fun a b => leD pcmp a.distance b.distance = true) := by
  unfold search
  split
  · exact List.Pairwise.nil
  · exact List.Pairwise.sublist (List.take_sublist _ _)
      (List.pairwise_mergeSort (leHits_trans hp) (leHits_total hp) _)

/-- **C13_topk**: the hits together with the omitted documents are a permutation of all scored
    documents, and no omitted document is strictly closer than ANY returned hit (in particular
    than the last one). -/
theorem C13_topk (dist : List F → List F → D) (pcmp : D → D → Option Ordering)
    (hp : NoNaN pcmp) (docs : List (Doc F)) (q : List F) (k : Nat) (hq : q ≠ []) :
    ∃ omitted : List (Hit D),
      (search dist pcmp docs q k ++ omitted).Perm (score dist docs q) ∧
      ∀ h ∈ search dist pcmp docs q k, ∀ r ∈ omitted, ¬ ltD pcmp r.distance h.distance := by
  have hq' : q.isEmpty = false := by cases q <;> simp_all
  refine ⟨((score dist docs q).mergeSort (leHits pcmp)).drop k, ?_, ?_⟩
  · simp only [search, hq', Bool.false_eq_true, if_false, List.take_append_drop]
    exact List.mergeSort_perm _ _
  · intro h hh r hr hlt
    simp only [search, hq', Bool.false_eq_true, if_false] at hh
    have hs := List.pairwise_mergeSort (leHits_trans hp) (leHits_total hp) (score dist docs q)
    rw [← List.take_append_drop k ((score dist docs q).mergeSort (leHits pcmp)),
      List.pairwise_append] at hs
    have hle := hs.2.2 h hh r hr
    have hgt := hp.antisym _ _ hlt
    simp [leHits, cmpHits, hgt] at hle

/-- the last hit in particular -/
theorem C13_topk_last (dist : List F → List F → D) (pcmp : D → D → Option Ordering)
    (hp : NoNaN pcmp) (docs : List (Doc F)) (q : List F) (k : Nat) (hq : q ≠ [])
    (last : Hit D) (hl : (search dist pcmp docs q k).getLast? = some last) :
    ∃ omitted : List (Hit D),
      (search dist pcmp docs q k ++ omitted).Perm (score dist docs q) ∧
      ∀ r ∈ omitted, ¬ ltD pcmp r.distance last.distance := by
  obtain ⟨om, hperm, hno⟩ := C13_topk dist pcmp hp docs q k hq
  exact ⟨om, hperm, fun r hr => hno last (List.mem_of_getLast? hl) r hr⟩

/-- **C13_stable**: ties keep index order — if `a` precedes `b` in the index and `b` is not
    strictly closer, `a` precedes `b` in the sorted list (so the result is deterministic). -/
theorem C13_stable (dist : List F → List F → D) (pcmp : D → D → Option Ordering)
    (hp : NoNaN pcmp) (docs : List (Doc F)) (q : List F) (a b : Hit D)
    (hab : leD pcmp a.distance b.distance = true) (hsub : [a, b].Sublist (score dist docs q)) :
    [a, b].Sublist ((score dist docs q).mergeSort (leHits pcmp)) :=
  List.pair_sublist_mergeSort (leHits_trans hp) (leHits_total hp) hab hsub

/-- **C13_dim**: a query whose dimension differs from the (non-zero) index dimension is rejected
    with `VecDimensionMismatch { expected, actual }`, whatever the index contains. -/
theorem C13_dim (dist : List F → List F → D) (pcmp : D → D → Option Ordering)
    (st : VecState F) (q : List F) (k dim : Nat) (hen : st.vecEnabled = true)
    (hdim : st.effectiveDim = some dim) (hpos : 0 < dim) (hne : q.length ≠ dim) :
    searchVec dist pcmp st q k = .error (.dimMismatch dim q.length) := by
  simp [searchVec, hen, hdim, hpos, hne]

/-- the fallback when the manifest carries no dimension: the first document's length decides -/
theorem C13_dim_first_doc (dist : List F → List F → D) (pcmp : D → D → Option Ordering)
    (st : VecState F) (q : List F) (k : Nat) (doc : Doc F) (rest : List (Doc F))
    (hen : st.vecEnabled = true) (hdim : st.effectiveDim = none)
    (hidx : st.index = some (doc :: rest)) (hpos : 0 < doc.embedding.length)
    (hne : q.length ≠ doc.embedding.length) :
    searchVec dist pcmp st q k = .error (.dimMismatch doc.embedding.length q.length) := by
  simp [searchVec, hen, hdim, hidx, hpos, hne]

/-- a query of the right dimension reaches `VecIndex::search` -/
theorem C13_dim_ok (dist : List F → List F → D) (pcmp : D → D → Option Ordering)
    (st : VecState F) (q : List F) (k dim : Nat) (docs : List (Doc F))
    (hen : st.vecEnabled = true) (hdim : st.effectiveDim = some dim) (hq : q.length = dim)
    (hidx : st.index = some docs) :
    searchVec dist pcmp st q k = .ok (search dist pcmp docs q k) := by
  simp [searchVec, hen, hdim, hq, hidx]

/-- what the code does when vector search is enabled but no index exists (no embedded frame was
    ever committed): an ERROR, not an empty hit list -/
theorem C13_no_index (dist : List F → List F → D) (pcmp : D → D → Option Ordering)
    (st : VecState F) (q : List F) (k : Nat) (hen : st.vecEnabled = true)
    (hdim : st.effectiveDim = none) (hidx : st.index = none) :
    searchVec dist pcmp st q k = .error .vecNotEnabled := by
  simp [searchVec, hen, hdim, hidx]

/-! ### the hypothesis is needed: NaN -/

/-- distances `ℕ ∪ {NaN}` with IEEE-like `partial_cmp` -/
def nanCmp : Option Nat → Option Nat → Option Ordering
  | some x, some y => some (compare x y)
  | _, _ => none

/-- with a NaN distance the comparator is not transitive … -/
theorem C13_nan_not_preorder : ¬ NoNaN nanCmp := by
  intro h
  have := h.trans (some 2) none (some 1) (by decide) (by decide)
  revert this; decide

def nanDocs : List (Doc (Option Nat)) := [⟨1, [some 7]⟩, ⟨2, [some 8]⟩, ⟨3, [none]⟩, ⟨4, [some 1]⟩]
def nanDist : List (Option Nat) → List (Option Nat) → Option Nat := fun _ e => e.head?.join

/-- … and the very same code omits a strictly closer frame: documents at distances 7, 8, NaN, 1,
    k = 1 → the hit is frame 1 at distance 7 although frame 4 is at distance 1 -/
theorem C13_nan_breaks_topk :
    search nanDist nanCmp nanDocs [some 0] 1 = [⟨1, some 7⟩] ∧
    ltD nanCmp (nanDist [some 0] [some 1]) (some 7) := by
  constructor
  · simp +decide [search, score, nanDocs, nanDist, List.mergeSort, List.merge, leHits, cmpHits, nanCmp]
  · decide

/-! ### instance used by the driver: exact squared distances over ℚ -/

theorem leD_ratCmp (x y : Rat) : leD ratCmp x y = true ↔ x ≤ y := by
  unfold leD ratCmp
  by_cases h1 : x < y
  · simp [h1, Rat.le_of_lt h1]
  · by_cases h2 : y < x
    · simp [h1, h2, Rat.not_le.mpr h2]
    · simp [h1, h2, Rat.not_lt.mp h2]

theorem ratCmp_noNaN : NoNaN ratCmp where
  trans := by
    intro x y z h1 h2
    rw [leD_ratCmp] at *
    exact Rat.le_trans h1 h2
  total := by
    intro x y
    rw [Bool.or_eq_true, leD_ratCmp, leD_ratCmp]
    exact Rat.le_total
  antisym := by
    intro x y h
    unfold ratCmp at *
    by_cases h1 : x < y
    · have h2 : ¬ y < x := Rat.not_lt.mpr (Rat.le_of_lt h1)
      simp [h1, h2]
    · by_cases h2 : y < x <;> simp [h1, h2] at h

/-- non-vacuity, and a worked instance: integer distances, a tie kept in index order -/
def natCmp (x y : Nat) : Option Ordering := some (compare x y)

theorem natCmp_noNaN : NoNaN natCmp where
  trans := by
    intro x y z h1 h2
    simp only [leD, natCmp, Option.getD_some, bne_iff_ne, ne_eq, Nat.compare_eq_gt] at *
    omega
  total := by
    intro x y
    simp only [leD, natCmp, Option.getD_some, Bool.or_eq_true, bne_iff_ne, ne_eq,
      Nat.compare_eq_gt]
    omega
  antisym := by
    intro x y h
    simp only [natCmp, Option.some.injEq, Nat.compare_eq_lt, Nat.compare_eq_gt] at *
    exact h

example :
    search (fun (q e : List Nat) => (List.zipWith (fun x y => (x - y) * (x - y) + (y - x) * (y - x)) q e).sum)
      natCmp [⟨0, [5, 5]⟩, ⟨1, [1, 0]⟩, ⟨2, [0, 1]⟩, ⟨3, [9, 9]⟩, ⟨4, [0, 0]⟩] [0, 0] 3
      = [⟨4, 0⟩, ⟨1, 1⟩, ⟨2, 1⟩] := by
  simp +decide [search, score, List.mergeSort, List.merge, leHits, cmpHits, natCmp]

/-! ### reopen: the uncompressed index survives encode → decode unchanged -/

theorem take_append_len {p r : Bytes} {k : Nat} (h : p.length = k) : (p ++ r).take k = p := by
  subst h; simp
theorem drop_append_len {p r : Bytes} {k : Nat} (h : p.length = k) : (p ++ r).drop k = r := by
  subst h; simp

theorem pow_256_4 : (256 : Nat) ^ 4 = 2 ^ 32 := by decide
theorem pow_256_8 : (256 : Nat) ^ 8 = 2 ^ 64 := by decide

theorem decodeF32s_encode (xs : List Nat) (rest : Bytes) (h : ∀ x ∈ xs, x < 2 ^ 32) :
    decodeF32s xs.length (encodeF32s xs ++ rest) = some (xs, rest) := by
  induction xs with
  | nil => rfl
  | cons x xs ih =>
    have hx : x < 256 ^ 4 := by rw [pow_256_4]; exact h x (by simp)
    have hl : (u32le x).length = 4 := by simp [u32le]
    have hlen : ¬ (u32le x ++ (encodeF32s xs ++ rest)).length < 4 := by
      simp only [List.length_append, hl]; omega
    simp only [List.length_cons, decodeF32s, encodeF32s, List.append_assoc, hlen, if_false,
      take_append_len hl, drop_append_len hl, ih (fun y hy => h y (by simp [hy]))]
    simp [u32le, leVal_leBytes 4 x hx]

theorem decodeDoc_encode (d : Doc Nat) (rest : Bytes) (h : DocOk d) :
    decodeDoc (encodeDoc d ++ rest) = some (d, rest) := by
  obtain ⟨h1, h2, h3⟩ := h
  have hl1 : (u64le d.frameId).length = 8 := by simp [u64le]
  have hl2 : (u64le d.embedding.length).length = 8 := by simp [u64le]
  have hl16 : (u64le d.frameId ++ u64le d.embedding.length).length = 16 := by
    simp [u64le]
  have e : encodeDoc d ++ rest
      = u64le d.frameId ++ (u64le d.embedding.length ++ (encodeF32s d.embedding ++ rest)) := by
    simp [encodeDoc, List.append_assoc]
  have e' : encodeDoc d ++ rest
      = (u64le d.frameId ++ u64le d.embedding.length) ++ (encodeF32s d.embedding ++ rest) := by
    simp [encodeDoc, List.append_assoc]
  have hlen : ¬ (encodeDoc d ++ rest).length < 16 := by
    rw [e']; simp only [List.length_append] at *; omega
  unfold decodeDoc
  simp only [hlen, if_false]
  have t8 : (encodeDoc d ++ rest).take 8 = u64le d.frameId := by rw [e]; exact take_append_len hl1
  have d8 : (encodeDoc d ++ rest).drop 8
      = u64le d.embedding.length ++ (encodeF32s d.embedding ++ rest) := by
    rw [e]; exact drop_append_len hl1
  have d16 : (encodeDoc d ++ rest).drop 16 = encodeF32s d.embedding ++ rest := by
    rw [e']; exact drop_append_len hl16
  rw [t8, d8, take_append_len hl2, d16]
  have v1 : leVal (u64le d.frameId) = d.frameId :=
    leVal_leBytes 8 _ (by rw [pow_256_8]; exact h1)
  have v2 : leVal (u64le d.embedding.length) = d.embedding.length :=
    leVal_leBytes 8 _ (by rw [pow_256_8]; exact h2)
  rw [v1, v2, decodeF32s_encode d.embedding rest h3]

theorem decodeDocList_encode (ds : List (Doc Nat)) (rest : Bytes) (h : ∀ d ∈ ds, DocOk d) :
    decodeDocList ds.length (encodeDocList ds ++ rest) = some (ds, rest) := by
  induction ds with
  | nil => rfl
  | cons d ds ih =>
    simp only [List.length_cons, decodeDocList, encodeDocList, List.append_assoc,
      decodeDoc_encode d _ (h d (by simp)), ih (fun y hy => h y (by simp [hy]))]

/-- `VecIndex::decode(VecIndexBuilder::finish(docs).bytes) = Uncompressed { docs }` -/
theorem C13_codec_roundtrip (docs : List (Doc Nat)) (hn : docs.length < 2 ^ 64)
    (h : ∀ d ∈ docs, DocOk d) : decodeDocs (encodeDocs docs) = some docs := by
  have hl : (u64le docs.length).length = 8 := by simp [u64le]
  have hlen : ¬ (encodeDocs docs).length < 8 := by
    simp only [encodeDocs, List.length_append, hl]; omega
  have v : leVal (u64le docs.length) = docs.length :=
    leVal_leBytes 8 _ (by rw [pow_256_8]; exact hn)
  have := decodeDocList_encode docs [] h
  simp only [List.append_nil] at this
  unfold decodeDocs
  simp only [hlen, if_false]
  simp only [encodeDocs, take_append_len hl, drop_append_len hl, v, this]

/-- **C13_reopen**: searching the index decoded from its own persisted bytes gives the very same
    hits (ids, distances, order) as searching the in-memory index — for every distance function,
    comparator, query and k.  `ofBits` reads an f32 bit pattern. -/
theorem C13_reopen (ofBits : Nat → F) (dist : List F → List F → D)
    (pcmp : D → D → Option Ordering) (docs : List (Doc Nat)) (hn : docs.length < 2 ^ 64)
    (h : ∀ d ∈ docs, DocOk d) (q : List F) (k : Nat) :
    let view := fun (ds : List (Doc Nat)) =>
      ds.map fun d => ({ frameId := d.frameId, embedding := d.embedding.map ofBits } : Doc F)
    (decodeDocs (encodeDocs docs)).map (fun ds => search dist pcmp (view ds) q k)
      = some (search dist pcmp (view docs) q k) := by
  simp [C13_codec_roundtrip docs hn h]

end Mv.Vec
