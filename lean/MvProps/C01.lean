/-
  C01 — Acknowledged operations are never lost (crash-free histories).

  Model: MvModel/Core.lean (`step`, `run`, `trace`); reference: MvModel/Spec.lean (`specRun`: the
  acknowledged operations applied in order to a list of frames); simulation: MvProps/CoreLemmas.lean.
  Every theorem quantifies over ALL operation lists — unbounded length, every operation of the model
  (put incl. chunked, update with / without payload, delete, commit, drop+open, crash+open, batch mode,
  skip-index commits, finalize, vacuum, doctor, tickets) and arbitrary trace inputs, in particular an
  arbitrary choice of where automatic checkpoints fire and how the WAL region grows.
-/
import MvProps.CoreLemmas
namespace Mv.Core

/-- operations after which every acknowledged record has been applied to the frame table:
    explicit commit, drop+open, crash+open (WAL replay), skip-index commit, doctor, vacuum -/
def Op.durable : Op → Bool
  | .commit _ => true
  | .reopen _ _ => true
  | .crash _ => true
  | .commitSkipIndexes => true
  | .doctor _ _ _ _ _ _ _ _ => true
  | .vacuum _ _ => true
  | _ => false

theorem run_append (m : Mem) (ops : List Op) (op : Op) : run m (ops ++ [op]) = (step (run m ops) op).1 := by
  induction ops generalizing m with
  | nil => rfl
  | cons o os ih => exact ih (step m o).1

theorem commitSkip_frames (m : Mem) (hi : Inv m) : m.commitSkipIndexes.1.frames.map view = abs m := by
  unfold Mem.commitSkipIndexes
  split
  · rename_i h
    have hp : m.pending = [] := by
      have : m.pending.isEmpty = true := by
        revert h; cases m.pending.isEmpty <;> simp
      simpa using this
    unfold Mv.Core.abs; rw [hp]; rfl
  · obtain ⟨m1, δ, h1, hv, _, _⟩ := applyRecords_view m m.pending false hi.ok
    simp only [h1]
    show (m1.foldEmbs δ.embs).frames.map view = _
    rw [foldEmbs_frames]; exact hv

/-- after a durable operation the committed frame table IS the abstract state -/
theorem durable_frames (m : Mem) (op : Op) (hi : Inv m) (hd : op.durable = true) :
    (step m op).1.frames.map view = abs (step m op).1 := by
  cases op with
  | commit ft => show (m.commit ft).1.frames.map view = abs (m.commit ft).1; rw [commit_frames m ft hi, commit_abs m ft hi]
  | reopen a b =>
    obtain ⟨_, ha, hf⟩ := reopen_sim m a b hi
    show (m.reopen a b).1.frames.map view = abs (m.reopen a b).1
    rw [hf, ha]
  | crash ft =>
    obtain ⟨_, ha, hf⟩ := crash_sim m ft hi
    show (m.crash ft).1.frames.map view = abs (m.crash ft).1
    rw [hf, ha]
  | commitSkipIndexes =>
    show m.commitSkipIndexes.1.frames.map view = abs m.commitSkipIndexes.1
    rw [commitSkip_frames m hi, (commitSkip_sim m hi).2]
  | doctor v rt rl rv a b c d =>
    obtain ⟨hq, _⟩ := doctor_sim m v rt rl rv a b c d hi
    exact hq.abs_eq.symm
  | create => cases hd
  | put a t => cases hd
  | update id u t => cases hd
  | delete id t => cases hd
  | beginBatch d ws => cases hd
  | endBatch => cases hd
  | finalizeIndexes ft => cases hd
  | vacuum a b => exact (vacuum_spec m a b hi).1.abs_eq.symm
  | ticket s c b f => cases hd

/-- **C01 (refinement).**  After ANY history the committed frames followed by what the pending WAL
    records will produce are exactly what the reference predicts from the acknowledged operations:
    nothing acknowledged is dropped, duplicated or reordered, wherever automatic checkpoints fired. -/
theorem C01_refines (ops : List Op) :
    abs (run Mem.create ops) = specRun [] (trace Mem.create ops) := (run_create_refines ops).2

/-- **C01.**  After any history that ends in a commit, a drop+open, a crash+open (WAL replay), a
    skip-index commit or a doctor run, the frame table the memory exposes (ids, URIs, status,
    superseded_by, content token, metadata) equals the reference run of the acknowledged operations. -/
theorem C01_acknowledged_never_lost (ops : List Op) (last : Op) (hd : last.durable = true) :
    (run Mem.create (ops ++ [last])).frames.map view = specRun [] (trace Mem.create (ops ++ [last])) := by
  rw [← C01_refines, run_append]
  exact durable_frames _ last (run_create_refines ops).1 hd

/-- **C01 (any quiescent moment).**  Whenever no Insert/Tombstone record is pending — however that
    came about (automatic checkpoint included) — the exposed table equals the reference run. -/
theorem C01_quiescent (ops : List Op) (hq : OnlyLex (run Mem.create ops).pending) :
    (run Mem.create ops).frames.map view = specRun [] (trace Mem.create ops) := by
  rw [← C01_refines]
  unfold Mv.Core.abs
  rw [sApply_onlyLex _ _ hq]

/-- **C01 (no resurrection, no reordering before the commit point).**  At every moment of every
    history the committed table is a prefix of the reference run as far as identity goes: frame `i`
    already carries the id, URI, content, timestamp, role, … of the `i`-th acknowledged insert, and
    there are never more committed frames than acknowledged inserts. -/
theorem C01_committed_prefix (ops : List Op) (i : Nat) (hi : i < (run Mem.create ops).frames.length) :
    (((run Mem.create ops).frames.map view)[i]?).map SFrame.ident =
      ((specRun [] (trace Mem.create ops))[i]?).map SFrame.ident := by
  rw [← C01_refines]; exact committed_prefix _ i hi

theorem C01_no_extra_frames (ops : List Op) :
    (run Mem.create ops).frames.length ≤ (specRun [] (trace Mem.create ops)).length := by
  rw [← C01_refines, abs_length _ (run_create_refines ops).1]
  exact Nat.le_add_right _ _

/-- `commit` never fails on records the handle itself appended (`apply_records` finds every
    supersede / tombstone / reuse target) -/
theorem C01_commit_total (ops : List Op) (ft : Nat) : ((run Mem.create ops).commit ft).2 = Out.ok :=
  commit_ok _ ft (run_create_refines ops).1

/-! ## Non-vacuity: a concrete history with a chunked put, an automatic checkpoint, a delete, a
    payload-less update and a payload update satisfies the hypotheses, and the conclusion is checked
    by evaluation as well -/

def exPlain : PutArgs := { ts := 5, content := "aa", len := 10, plen := 10 }
def exChunks : List ChunkArg :=
  [{ content := "c1", len := 5, emb := none }, { content := "c2", len := 6, emb := none }]
def exDoc : PutArgs := { ts := 6, uri := some "mv2://d", content := "E", len := 0, plen := 30, chunks := exChunks }
def exHistory : List Op :=
  [.put exPlain {}, .put exDoc { ac := true, ft := 40 }, .delete 0 {}, .update 2 { tags := ["x"] } {},
   .update 3 { payload := some ("bb", 7, 7, []) } { ac := true, ft := 80 }, .put exPlain {}]

example : (Op.commit 90).durable = true := rfl
example : (run Mem.create (exHistory ++ [.commit 90])).frames.map view
    = specRun [] (trace Mem.create (exHistory ++ [.commit 90])) :=
  C01_acknowledged_never_lost exHistory (.commit 90) rfl
example : (specRun [] (trace Mem.create (exHistory ++ [.commit 90]))).map (fun f => (f.id, f.status, f.content, f.supersededBy))
    = [(0, .deleted, "aa", none), (1, .active, "E", none), (2, .superseded, "c1", some 4), (3, .superseded, "c2", some 5),
       (4, .active, "c1", none), (5, .active, "bb", none), (6, .active, "aa", none)] := by decide
example : (run Mem.create exHistory).pending.length = 1 ∧ (run Mem.create exHistory).frames.length = 6 := by decide
example : ((run Mem.create (exHistory ++ [.crash 95])).frames.map (·.id)) = [0, 1, 2, 3, 4, 5, 6] := by decide

/-! ## What a READ returns (`frame_canonical_payload`): the full-strength statement is false -/

/-- what the client expects to read back from the document frame of a put: its payload — which for
    UTF-8 text that the chunker split (the parent stores nothing) is the concatenation of the chunks -/
def docExpect (content : String) (len : Nat) (chunks : List ChunkArg) : String :=
  if chunks.isEmpty || len != 0 then content else "cat:" ++ "+".intercalate (chunks.map (·.content))

/-- expected read of every frame id, from the acknowledged calls: a payload-less update reads as
    the version it replaced -/
def expectStep (E : List String) : Op → List String
  | .create => []
  | .put a _ => E ++ docExpect a.content a.len a.chunks :: a.chunks.map (·.content)
  | .update id u _ =>
    match E[id]? with
    | none => E
    | some old =>
      match u.payload with
      | some p => E ++ docExpect p.1 p.2.1 p.2.2.2 :: p.2.2.2.map (·.content)
      | none => E ++ [old]
  | _ => E

def expectRun (E : List String) : List (Op × Out) → List String
  | [] => E
  | (op, out) :: rest => expectRun (if out.isAck then expectStep E op else E) rest

def readAt (m : Mem) (i : Nat) : Option String := (m.frames[i]?).map (canon m.frames)
def activeAt (m : Mem) (i : Nat) : Prop := (m.frames[i]?).map (·.status) = some Status.active
instance (m : Mem) (i : Nat) : Decidable (activeAt m i) := by unfold activeAt; exact inferInstance

/-- full strength: after a durable point every active frame reads back what the acknowledged calls
    put there -/
def C01_read_full : Prop :=
  ∀ (ops : List Op) (last : Op), last.durable = true →
    ∀ i, activeAt (run Mem.create (ops ++ [last])) i →
      readAt (run Mem.create (ops ++ [last])) i = (expectRun [] (trace Mem.create (ops ++ [last])))[i]?

/-- witness 1 (known finding `payloadless-update-of-chunked-document-reads-empty`): a chunked document,
    then `update_frame(id, None, …)`: the new version reuses the parent's EMPTY stored payload and has
    no manifest, so it reads back empty while the chunks stay attached to the superseded version -/
def readWitness1 : List Op := [.put exDoc {}, .commit 40, .update 0 { tags := ["x"] } {}]

theorem C01_read_counterexample : ¬ C01_read_full := by
  intro h
  have h3 := h readWitness1 (.commit 90) rfl 3 (by decide)
  exact absurd h3 (by decide)

/-- witness 2 (observed with the DEFAULT put options, i.e. the time-budgeted extractor of instant
    indexing; the harness runs the un-budgeted extractor and does not reproduce it): a non-UTF-8
    payload keeps its bytes in the parent frame but gets a chunk manifest from the extracted text, and
    `frame_canonical_bytes` prefers the manifest: the read returns the chunk text, not the payload -/
def readWitness2 : List Op :=
  [.put { ts := 7, content := "bin", len := 100, plen := 100, chunks := exChunks } {}]

example : readAt (run Mem.create (readWitness2 ++ [.commit 90])) 0 = some "cat:c1+c2" ∧
    (expectRun [] (trace Mem.create (readWitness2 ++ [.commit 90])))[0]? = some "bin" := by decide

/-- what does hold for reads: a frame that is not a manifest document reads back exactly the content
    token the reference assigns to its id (by `C01_acknowledged_never_lost`), as long as its stored
    bytes have not been dropped by a vacuum of an inactive frame -/
theorem C01_read_partial (frames : List Frame) (f : Frame) (hm : isManifestDoc f = false)
    (hs : f.len ≠ 0 ∨ (f.content = "E" ∧ f.zstd = false)) : canon frames f = (view f).content := by
  unfold canon
  simp only [hm, Bool.false_eq_true, if_false, ownContent]
  rcases hs with h | ⟨h1, h2⟩
  · simp [h, view]
  · simp [h1, h2, view]

end Mv.Core
