/- Driver for C27 (memory cards: queries and persistence).  State = `Store Mesh (Track × Mesh)`.
   strings travel as hex ("-" = empty); optional dates: "x" = None; optional version key: "none".
   requests
     new                                            → ok                (Memvid::create / MemoriesTrack::new)
     add <kind> <e> <s> <v> <ev> <doc> <vk> <rel> <created>  → id <n>  (put_memory_card / add_card)
     cards <e> <s>          → ids in the order get_cards returns them
     current <e> <s>        → none | <id>
     at <e> <s> <t>         → none | <id>
     ent <e>                → ids of get_entity_cards, ascending (order unspecified in Rust)
     timeline <e>           → ids of get_timeline, sorted by (timestamp, id) (ties across slots unspecified)
     card <id>              → none | the modelled fields of get_card(id)
     dump                   → next=<n> cards=<card;...> index=<key=ids;...> (index sorted by key)
     count                  → number of cards
     rawcard <id> <kind> <e> <s> <v> <ev> <doc> <vk> <rel> <created> → ok   (append a card, no index)
     rawindex <key> <ids>   → ok   (set one index entry);   rawnext <n> → ok
     clear | frame | commit → ok ;  reopen | crash → ok | err
     node <id> <name> <display> <kind> <conf> <frame> <start> <len> → ok     (add_mesh_node)
     edge <src> <dst> <tag> <link> <conf> <frame>   → ok                     (add_mesh_edge)
     meshclear              → ok                                              (set_logic_mesh(new))
     mesh                   → nodes and edges in their current order -/
import MvModel.Cards
import MvModel.CardsMesh
import MvModel.DrvUtil
open Mv Mv.Cards

abbrev Blob := Track × Mesh
abbrev St := Store Mesh Blob

def asciiLowerB (b : Bytes) : Bytes := b.map (fun c => if 0x41 ≤ c ∧ c ≤ 0x5A then c + 0x20 else c)

def env : Env Mesh Blob :=
  { lower := asciiLowerB
    cardsCodec := { ser := fun tr => (tr, Mesh.new), de := fun b => some b.1 }
    meshCodec := { ser := fun m => (Track.empty, m.canon), de := fun b => some b.2 }
    meshNew := Mesh.new
    meshIsEmpty := Mesh.isEmpty }

def parseKind : String → Option Kind
  | "fact" => some .fact | "preference" => some .preference | "event" => some .event
  | "profile" => some .profile | "relationship" => some .relationship | "goal" => some .goal
  | "other" => some .other | _ => none

def showKind : Kind → String
  | .fact => "fact" | .preference => "preference" | .event => "event" | .profile => "profile"
  | .relationship => "relationship" | .goal => "goal" | .other => "other"

def parseRel : String → Option Rel
  | "sets" => some .sets | "updates" => some .updates | "extends" => some .extends
  | "retracts" => some .retracts | _ => none

def showRel : Rel → String
  | .sets => "sets" | .updates => "updates" | .extends => "extends" | .retracts => "retracts"

def parseOptInt (s : String) : Option (Option Int) :=
  if s == "x" then some none else (parseInt s).map some

def parseOptBytes (s : String) : Option (Option Bytes) :=
  if s == "none" then some none else (ofHex s).map some

def showOptInt : Option Int → String
  | none => "x" | some t => toString t

def showOptBytes : Option Bytes → String
  | none => "none" | some b => toHexW b

def parseCard (id : Nat) (ws : List String) : Option Card :=
  match ws with
  | [k, e, s, v, ev, doc, vk, rel, created] =>
    match parseKind k, ofHex e, ofHex s, ofHex v, parseOptInt ev, parseOptInt doc, parseOptBytes vk,
          parseRel rel, parseInt created with
    | some k, some e, some s, some v, some ev, some doc, some vk, some rel, some created =>
      some { id := id, kind := k, entity := e, slot := s, value := v, eventDate := ev, documentDate := doc,
             versionKey := vk, rel := rel, createdAt := created }
    | _, _, _, _, _, _, _, _, _ => none
  | _ => none

def showCard (c : Card) : String :=
  s!"{c.id}/{showKind c.kind}/{toHexW c.entity}/{toHexW c.slot}/{toHexW c.value}/{showOptInt c.eventDate}/{showOptInt c.documentDate}/{showOptBytes c.versionKey}/{showRel c.rel}/{c.createdAt}"

def showIds (l : List Nat) : String := showNats l

def showOptCard : Option Card → String
  | none => "none" | some c => toString c.id

def joinOr (l : List String) : String := if l.isEmpty then "-" else ";".intercalate l

def dump (tr : Track) : String :=
  let ix := (tr.index.map (fun p => (toHexW p.1, p.2))).toArray.qsort (fun a b => a.1 < b.1) |>.toList
  s!"next={tr.nextId} cards={joinOr (tr.cards.map showCard)} index={joinOr (ix.map (fun p => p.1 ++ "=" ++ showIds p.2))}"

def indexSet : Index → Bytes → List Nat → Index
  | [], k, ids => [(k, ids)]
  | (k', x) :: rest, k, ids => if k' = k then (k, ids) :: rest else (k', x) :: indexSet rest k ids

def showNode (n : MNode) : String :=
  let ms := ",".intercalate (n.mentions.map (fun m => s!"{m.1}.{m.2.1}.{m.2.2}"))
  s!"n/{n.id}/{toHexW n.name}/{toHexW n.display}/{n.kind}/{n.conf}/{showIds n.frames}/{if ms.isEmpty then "-" else ms}"

def showEdge (e : MEdge) : String := s!"e/{e.src}/{e.dst}/{e.tag}/{toHexW e.link}/{e.conf}/{e.frame}"

def showMesh (m : Mesh) : String := joinOr (m.nodes.map showNode ++ m.edges.map showEdge)

def tsIdLt (a b : Card) : Bool := a.effTs < b.effTs || (a.effTs == b.effTs && a.id < b.id)

def step (s : St) (ws : List String) : St × String :=
  match ws with
  | ["new"] => (Store.create env, "ok")
  | "add" :: rest =>
    match parseCard 0 rest with
    | some c => let r := s.putCard env c; (r.1, s!"id {r.2}")
    | none => (s, "bad-op")
  | ["cards", e, sl] =>
    match ofHex e, ofHex sl with
    | some e, some sl => (s, showIds ((s.mem.getCards env.lower e sl).map (·.id)))
    | _, _ => (s, "bad-op")
  | ["current", e, sl] =>
    match ofHex e, ofHex sl with
    | some e, some sl => (s, showOptCard (s.mem.getCurrent env.lower e sl))
    | _, _ => (s, "bad-op")
  | ["at", e, sl, t] =>
    match ofHex e, ofHex sl, parseInt t with
    | some e, some sl, some t => (s, showOptCard (s.mem.getAtTime env.lower e sl t))
    | _, _, _ => (s, "bad-op")
  | ["ent", e] =>
    match ofHex e with
    | some e => (s, showIds (((s.mem.getEntityCards env.lower e).map (·.id)).toArray.qsort (· < ·)).toList)
    | none => (s, "bad-op")
  | ["timeline", e] =>
    match ofHex e with
    | some e => (s, showIds (((s.mem.getTimeline env.lower e).toArray.qsort tsIdLt).toList.map (·.id)))
    | none => (s, "bad-op")
  | ["card", id] =>
    match id.toNat? with
    | some id => (s, match findCard s.mem.cards id with | some c => showCard c | none => "none")
    | none => (s, "bad-op")
  | ["dump"] => (s, dump s.mem)
  | ["count"] => (s, toString s.mem.cards.length)
  | "rawcard" :: id :: rest =>
    match id.toNat? with
    | some id =>
      match parseCard id rest with
      | some c => ({ s with mem := { s.mem with cards := s.mem.cards ++ [c] } }, "ok")
      | none => (s, "bad-op")
    | none => (s, "bad-op")
  | ["rawindex", k, ids] =>
    match ofHex k, natList ids with
    | some k, some ids => ({ s with mem := { s.mem with index := indexSet s.mem.index k ids } }, "ok")
    | _, _ => (s, "bad-op")
  | ["rawnext", n] =>
    match n.toNat? with
    | some n => ({ s with mem := { s.mem with nextId := n } }, "ok")
    | none => (s, "bad-op")
  | ["clear"] => (s.clearCards, "ok")
  | ["frame"] => (s.putFrame, "ok")
  | ["commit"] => (s.commit env, "ok")
  | ["reopen"] => match s.reopen env with | some s' => (s', "ok") | none => (s, "err")
  | ["crash"] => match s.crash env with | some s' => (s', "ok") | none => (s, "err")
  | ["node", id, name, disp, kind, conf, frame, start, len] =>
    match id.toNat?, ofHex name, ofHex disp, kind.toNat?, conf.toNat?, frame.toNat?, start.toNat?, len.toNat? with
    | some id, some name, some disp, some kind, some conf, some frame, some start, some len =>
      (s.updMesh (fun m => m.mergeNode { id := id, name := name, display := disp, kind := kind, conf := conf,
                                         frames := [frame], mentions := [(frame, start, len)] }), "ok")
    | _, _, _, _, _, _, _, _ => (s, "bad-op")
  | ["edge", src, dst, tag, link, conf, frame] =>
    match src.toNat?, dst.toNat?, tag.toNat?, ofHex link, conf.toNat?, frame.toNat? with
    | some src, some dst, some tag, some link, some conf, some frame =>
      (s.updMesh (fun m => m.mergeEdge { src := src, dst := dst, tag := tag, link := link, conf := conf, frame := frame }), "ok")
    | _, _, _, _, _, _ => (s, "bad-op")
  | ["meshclear"] => (s.updMesh (fun _ => Mesh.new), "ok")
  | ["mesh"] => (s, showMesh s.mesh)
  | _ => (s, "bad-op")

def main : IO Unit := runDriver (Store.create env) step
