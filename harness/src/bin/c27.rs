//! C27 — memory-card queries are temporally consistent and persistent.
//!
//! Two streams of cases, both executed on the REAL code and on the Lean model (drv_c27):
//!  * track cases: `MemoriesTrack` in memory — add_card / get_cards / get_current / get_at_time /
//!    get_entity_cards / get_timeline, serialize→deserialize, and "raw" tracks deserialised from
//!    hand-made JSON (legacy mixed-case index keys, dangling ids, duplicate ids);
//!  * store cases: a real `.mv2` file — put_memory_card / clear_memories / mesh updates / frame puts /
//!    commit / close+reopen / crash (file copy taken while the handle is alive) + reopen.
//! Oracles (independent of the model): the property clauses restated over the implementation's
//! outputs, a naive reference for get_cards / get_current / get_at_time on add_card-built tracks, and
//! snapshot comparison of the whole card track / mesh across reopen and crash.
use memvid_core::{
    EntityKind, LinkType, LogicMesh, Memvid, MemoriesTrack, MemoryCard, MemoryKind, MeshEdge, MeshNode,
    Polarity, PutOptions, VersionRelation,
};
use mvh::*;
use std::collections::BTreeSet;
use std::path::PathBuf;

// ------------------------------------------------------------------------------------------ ops

#[derive(Clone, Debug)]
struct CardSpec {
    kind: u8,
    entity: String,
    slot: String,
    value: String,
    ev: Option<i64>,
    doc: Option<i64>,
    vk: Option<String>,
    rel: u8,
    created: i64,
    extra: u8, // selects polarity / source_uri / offset / confidence variants (not modelled; must persist)
}

#[derive(Clone, Debug)]
enum Op {
    Add(CardSpec),
    Cards(String, String),
    Current(String, String),
    At(String, String, i64),
    Ent(String),
    Timeline(String),
    Dump,
    RoundTrip, // track cases: serialize → deserialize, continue with the result
    Raw(Value), // track cases: replace the track by serde_json::from_value(json)
    Clear,
    Frame,
    Commit,
    Reopen,
    Crash,
    Node { name: String, display: String, kind: u8, conf: u8, frame: u64, start: u32, len: u16 },
    Edge { from: u64, to: u64, link: String, conf: u8, frame: u64 },
    MeshClear,
}

const KINDS: [&str; 7] = ["fact", "preference", "event", "profile", "relationship", "goal", "other"];
const RELS: [&str; 4] = ["sets", "updates", "extends", "retracts"];

fn kind_of(i: u8) -> MemoryKind {
    match i {
        0 => MemoryKind::Fact, 1 => MemoryKind::Preference, 2 => MemoryKind::Event, 3 => MemoryKind::Profile,
        4 => MemoryKind::Relationship, 5 => MemoryKind::Goal, _ => MemoryKind::Other,
    }
}
fn rel_of(i: u8) -> VersionRelation {
    match i { 0 => VersionRelation::Sets, 1 => VersionRelation::Updates, 2 => VersionRelation::Extends, _ => VersionRelation::Retracts }
}
const ENTITY_KINDS: [EntityKind; 11] = [EntityKind::Person, EntityKind::Organization, EntityKind::Project, EntityKind::Email,
    EntityKind::Date, EntityKind::Location, EntityKind::Product, EntityKind::Event, EntityKind::Money, EntityKind::Url, EntityKind::Other];

fn link_tag(l: &LinkType) -> u8 {
    match l {
        LinkType::Manager => 0, LinkType::Member => 1, LinkType::Owner => 2, LinkType::Author => 3, LinkType::Email => 4,
        LinkType::Deadline => 5, LinkType::Location => 6, LinkType::Employer => 7, LinkType::Parent => 8,
        LinkType::Child => 9, LinkType::Related => 10, LinkType::Custom(_) => 11,
    }
}

impl CardSpec {
    fn build(&self, id: u64) -> MemoryCard {
        MemoryCard {
            id,
            kind: kind_of(self.kind),
            entity: self.entity.clone(),
            slot: self.slot.clone(),
            value: self.value.clone(),
            polarity: match self.extra % 4 { 1 => Some(Polarity::Positive), 2 => Some(Polarity::Negative), 3 => Some(Polarity::Neutral), _ => None },
            event_date: self.ev,
            document_date: self.doc,
            version_key: self.vk.clone(),
            version_relation: rel_of(self.rel),
            source_frame_id: (self.extra as u64) * 7,
            source_uri: if self.extra & 4 != 0 { Some(format!("mv2://s/{}", self.extra)) } else { None },
            source_offset: if self.extra & 8 != 0 { Some((self.extra as usize, self.extra as usize + 5)) } else { None },
            engine: "eng".into(),
            engine_version: format!("{}.0", self.extra % 3),
            confidence: if self.extra & 16 != 0 { Some((self.extra as f32) / 255.0) } else { None },
            created_at: self.created,
        }
    }
    fn wire(&self) -> String {
        format!("{} {} {} {} {} {} {} {} {}", KINDS[self.kind.min(6) as usize], hs(&self.entity), hs(&self.slot), hs(&self.value),
            oi(self.ev), oi(self.doc), self.vk.as_ref().map(|s| hs(s)).unwrap_or_else(|| "none".into()),
            RELS[self.rel.min(3) as usize], self.created)
    }
    fn to_json(&self) -> Value {
        json!({"kind": self.kind, "entity": self.entity, "slot": self.slot, "value": self.value, "ev": self.ev, "doc": self.doc,
               "vk": self.vk, "rel": self.rel, "created": self.created, "extra": self.extra})
    }
    fn from_json(v: &Value) -> CardSpec {
        CardSpec {
            kind: v["kind"].as_u64().unwrap_or(0) as u8, entity: v["entity"].as_str().unwrap_or("").into(),
            slot: v["slot"].as_str().unwrap_or("").into(), value: v["value"].as_str().unwrap_or("").into(),
            ev: v["ev"].as_i64(), doc: v["doc"].as_i64(), vk: v["vk"].as_str().map(|s| s.to_string()),
            rel: v["rel"].as_u64().unwrap_or(0) as u8, created: v["created"].as_i64().unwrap_or(0),
            extra: v["extra"].as_u64().unwrap_or(0) as u8,
        }
    }
}

fn hs(s: &str) -> String { hexw(s.as_bytes()) }
fn oi(v: Option<i64>) -> String { v.map(|t| t.to_string()).unwrap_or_else(|| "x".into()) }

impl Op {
    fn to_json(&self) -> Value {
        match self {
            Op::Add(c) => json!({"op": "add", "card": c.to_json()}),
            Op::Cards(e, s) => json!({"op": "cards", "e": e, "s": s}),
            Op::Current(e, s) => json!({"op": "current", "e": e, "s": s}),
            Op::At(e, s, t) => json!({"op": "at", "e": e, "s": s, "t": t}),
            Op::Ent(e) => json!({"op": "ent", "e": e}),
            Op::Timeline(e) => json!({"op": "timeline", "e": e}),
            Op::Dump => json!({"op": "dump"}),
            Op::RoundTrip => json!({"op": "roundtrip"}),
            Op::Raw(v) => json!({"op": "raw", "track": v}),
            Op::Clear => json!({"op": "clear"}),
            Op::Frame => json!({"op": "frame"}),
            Op::Commit => json!({"op": "commit"}),
            Op::Reopen => json!({"op": "reopen"}),
            Op::Crash => json!({"op": "crash"}),
            Op::Node { name, display, kind, conf, frame, start, len } =>
                json!({"op": "node", "name": name, "display": display, "kind": kind, "conf": conf, "frame": frame, "start": start, "len": len}),
            Op::Edge { from, to, link, conf, frame } => json!({"op": "edge", "from": from.to_string(), "to": to.to_string(), "link": link, "conf": conf, "frame": frame}),
            Op::MeshClear => json!({"op": "meshclear"}),
        }
    }
    fn from_json(v: &Value) -> Op {
        let st = |k: &str| v[k].as_str().unwrap_or("").to_string();
        match v["op"].as_str().unwrap_or("") {
            "add" => Op::Add(CardSpec::from_json(&v["card"])),
            "cards" => Op::Cards(st("e"), st("s")),
            "current" => Op::Current(st("e"), st("s")),
            "at" => Op::At(st("e"), st("s"), v["t"].as_i64().unwrap_or(0)),
            "ent" => Op::Ent(st("e")),
            "timeline" => Op::Timeline(st("e")),
            "dump" => Op::Dump,
            "roundtrip" => Op::RoundTrip,
            "raw" => Op::Raw(v["track"].clone()),
            "clear" => Op::Clear,
            "frame" => Op::Frame,
            "commit" => Op::Commit,
            "reopen" => Op::Reopen,
            "crash" => Op::Crash,
            "node" => Op::Node { name: st("name"), display: st("display"), kind: v["kind"].as_u64().unwrap_or(0) as u8,
                conf: v["conf"].as_u64().unwrap_or(0) as u8, frame: v["frame"].as_u64().unwrap_or(0),
                start: v["start"].as_u64().unwrap_or(0) as u32, len: v["len"].as_u64().unwrap_or(0) as u16 },
            "edge" => Op::Edge { from: st("from").parse().unwrap_or(0), to: st("to").parse().unwrap_or(0), link: st("link"),
                conf: v["conf"].as_u64().unwrap_or(0) as u8, frame: v["frame"].as_u64().unwrap_or(0) },
            "meshclear" => Op::MeshClear,
            other => panic!("unknown op {other}"),
        }
    }
}

#[derive(Clone, Debug)]
struct Case {
    store: bool,
    model: bool, // false: oracle only (strings whose lower-casing is not ASCII lower-casing)
    ops: Vec<Op>,
}
impl Case {
    fn to_json(&self) -> Value {
        json!({"store": self.store, "model": self.model, "ops": self.ops.iter().map(|o| o.to_json()).collect::<Vec<_>>()})
    }
    fn from_json(v: &Value) -> Case {
        Case { store: v["store"].as_bool().unwrap_or(false), model: v["model"].as_bool().unwrap_or(true),
               ops: v["ops"].as_array().map(|a| a.iter().map(Op::from_json).collect()).unwrap_or_default() }
    }
}

// ------------------------------------------------------------------------------- implementation side

fn eff(c: &Value) -> i64 {
    c.get("event_date").and_then(|v| v.as_i64())
        .or_else(|| c.get("document_date").and_then(|v| v.as_i64()))
        .unwrap_or_else(|| c["created_at"].as_i64().unwrap_or(0))
}
fn is_retr(c: &Value) -> bool { c["version_relation"].as_str() == Some("retracts") }

/// canonical text of the modelled part of a card, from its JSON form
fn card_canon(c: &Value) -> String {
    let o = |k: &str| c.get(k).and_then(|v| v.as_i64()).map(|t| t.to_string()).unwrap_or_else(|| "x".into());
    format!("{}/{}/{}/{}/{}/{}/{}/{}/{}/{}", c["id"].as_u64().unwrap_or(u64::MAX), c["kind"].as_str().unwrap_or("?"),
        hs(c["entity"].as_str().unwrap_or("")), hs(c["slot"].as_str().unwrap_or("")), hs(c["value"].as_str().unwrap_or("")),
        o("event_date"), o("document_date"), c.get("version_key").and_then(|v| v.as_str()).map(hs).unwrap_or_else(|| "none".into()),
        c["version_relation"].as_str().unwrap_or("?"), c["created_at"].as_i64().unwrap_or(0))
}

fn join_or(v: Vec<String>) -> String { if v.is_empty() { "-".into() } else { v.join(";") } }
fn ids_str(v: &[u64]) -> String { if v.is_empty() { "-".into() } else { v.iter().map(|x| x.to_string()).collect::<Vec<_>>().join(",") } }

/// the driver's `dump` format computed from the real track (through its serde form)
fn track_dump(tr: &MemoriesTrack) -> String {
    let j = serde_json::to_value(tr).expect("track to json");
    let cards: Vec<String> = j["cards"].as_array().map(|a| a.iter().map(card_canon).collect()).unwrap_or_default();
    let mut ix: Vec<(String, String)> = j["slot_index"]["entries"].as_object().map(|m| m.iter().map(|(k, v)| {
        let ids: Vec<u64> = v.as_array().map(|a| a.iter().filter_map(|x| x.as_u64()).collect()).unwrap_or_default();
        (hs(k), ids_str(&ids))
    }).collect()).unwrap_or_default();
    ix.sort();
    format!("next={} cards={} index={}", j["next_id"].as_u64().unwrap_or(0), join_or(cards),
        join_or(ix.into_iter().map(|(k, v)| format!("{k}={v}")).collect()))
}

fn mesh_items(m: &LogicMesh) -> Vec<String> {
    let mut out = vec![];
    for n in &m.nodes {
        let ms: Vec<String> = n.mentions.iter().map(|(f, s, l)| format!("{f}.{s}.{l}")).collect();
        out.push(format!("n/{}/{}/{}/{}/{}/{}/{}", n.id, hs(&n.canonical_name), hs(&n.display_name), n.kind as u8, n.confidence,
            ids_str(&n.frame_ids), if ms.is_empty() { "-".into() } else { ms.join(",") }));
    }
    for e in &m.edges {
        out.push(format!("e/{}/{}/{}/{}/{}/{}", e.from_node, e.to_node, link_tag(&e.link), hs(e.link.as_str()), e.confidence, e.frame_id));
    }
    out
}
fn mesh_dump(m: &LogicMesh) -> String { join_or(mesh_items(m)) }

struct Imp {
    track: Option<MemoriesTrack>, // track cases
    mem: Option<Memvid>,          // store cases
    dir: Option<tempfile::TempDir>,
    path: PathBuf,
    gen_no: u32,
    frames: u32,
    raw: bool, // a Raw op happened: the naive reference (valid for add_card-built tracks) is off
    committed_cards: Value, // snapshot of the card track at the last durable point (store cases)
    committed_mesh: Vec<String>,
}

impl Imp {
    fn new(store: bool) -> Result<Imp, String> {
        if store {
            // tmpfs when available: the histories fsync a lot and the property does not depend on the medium
            let dir = if std::env::var_os("TMPDIR").is_none() && std::path::Path::new("/dev/shm").is_dir() { tempfile::tempdir_in("/dev/shm") } else { tempfile::tempdir() }.map_err(|e| e.to_string())?;
            let path = dir.path().join("c27-0.mv2");
            let mem = Memvid::create(&path).map_err(|e| format!("create: {e}"))?;
            let snap = serde_json::to_value(mem.memories()).unwrap();
            Ok(Imp { track: None, mem: Some(mem), dir: Some(dir), path, gen_no: 0, frames: 0, raw: false, committed_cards: snap, committed_mesh: vec![] })
        } else {
            Ok(Imp { track: Some(MemoriesTrack::new()), mem: None, dir: None, path: PathBuf::new(), gen_no: 0, frames: 0, raw: false,
                     committed_cards: Value::Null, committed_mesh: vec![] })
        }
    }
    fn tr(&self) -> &MemoriesTrack {
        match &self.track { Some(t) => t, None => self.mem.as_ref().expect("handle").memories() }
    }
}

fn lower_key(e: &str, s: &str) -> String { format!("{}:{}", e.to_lowercase(), s.to_lowercase()) }

/// naive reference for tracks built by add_card: the slot's cards, newest first
fn ref_cards<'a>(cards: &'a [Value], e: &str, s: &str) -> Vec<&'a Value> {
    let key = lower_key(e, s);
    let mut v: Vec<&Value> = cards.iter().filter(|c| lower_key(c["entity"].as_str().unwrap_or(""), c["slot"].as_str().unwrap_or("")) == key).collect();
    v.reverse();
    v
}
/// most recent non-retraction at or before t; ties: the newest card
fn ref_at(cards: &[&Value], t: Option<i64>) -> Option<u64> {
    let mut best: Option<&Value> = None;
    for c in cards {
        if is_retr(c) { continue; }
        if let Some(t) = t { if eff(c) > t { continue; } }
        match best { Some(b) if eff(b) >= eff(c) => {}, _ => best = Some(c) }
    }
    best.map(|c| c["id"].as_u64().unwrap())
}

struct Res {
    oracle: Vec<(String, String)>,
    disagree: Vec<(String, String, String)>,
    branches: Vec<&'static str>,
    trace: Vec<String>,
    canon: String,
    nontrivial: bool,
    error: Option<String>,
}

fn opt_id(c: Option<&MemoryCard>) -> String { c.map(|c| c.id.to_string()).unwrap_or_else(|| "none".into()) }

fn eval_case(case: &Case, drv: &mut Option<Driver>) -> Res {
    let mut r = Res { oracle: vec![], disagree: vec![], branches: vec![], trace: vec![], canon: String::new(), nontrivial: false, error: None };
    let mut imp = match Imp::new(case.store) { Ok(i) => i, Err(e) => { r.error = Some(e); return r; } };
    let use_model = case.model && drv.is_some();
    let mut ask = |drv: &mut Option<Driver>, line: &str| -> Option<String> {
        if use_model { Some(drv.as_mut().unwrap().ask(line)) } else { None }
    };
    ask(drv, "new");
    let mut canon = String::new();
    let t0 = std::time::Instant::now();
    for (i, op) in case.ops.iter().enumerate() {
        r.trace.push(format!("   [t+{} ms]", t0.elapsed().as_millis()));
        // (request to the model, implementation's answer)
        let mut req: Option<String> = None;
        let imp_ans: String;
        match op {
            Op::Add(c) => {
                let card = c.build(0xDEAD_0000 + i as u64);
                let id = if case.store {
                    match imp.mem.as_mut().unwrap().put_memory_card(card) { Ok(id) => id, Err(e) => { r.error = Some(format!("put_memory_card: {e}")); return r; } }
                } else { imp.track.as_mut().unwrap().add_card(card) };
                imp_ans = format!("id {id}");
                req = Some(format!("add {}", c.wire()));
                // version key defaulting + id assignment, on the stored card
                let stored = imp.tr().get_card(id).cloned();
                match stored {
                    Some(sc) => {
                        let want_vk = c.vk.clone().unwrap_or_else(|| format!("{}:{}", c.entity, c.slot));
                        if sc.version_key.as_deref() != Some(want_vk.as_str()) || sc.entity != c.entity || sc.created_at != c.created {
                            r.oracle.push(("add-card-alters-card".into(), format!("op {i}: stored {:?}", sc)));
                        }
                    }
                    None => if !imp.raw { r.oracle.push(("added-card-not-retrievable".into(), format!("op {i}: id {id}"))) },
                }
                if c.vk.is_none() { r.branches.push("default-version-key"); }
                if c.rel == 3 { r.branches.push("add-retraction"); }
                if c.ev.is_none() && c.doc.is_none() { r.branches.push("add-dateless"); }
                if c.entity.contains(':') || c.slot.contains(':') { r.branches.push("colon-in-entity-or-slot"); }
            }
            Op::Cards(e, s) | Op::Current(e, s) | Op::At(e, s, _) => {
                let tr = imp.tr();
                let cards: Vec<&MemoryCard> = tr.get_cards(e, s);
                let cards_j: Vec<Value> = cards.iter().map(|c| serde_json::to_value(c).unwrap()).collect();
                let all_j: Vec<Value> = tr.cards().iter().map(|c| serde_json::to_value(c).unwrap()).collect();
                let reference = ref_cards(&all_j, e, s);
                if !imp.raw {
                    let got: Vec<u64> = cards.iter().map(|c| c.id).collect();
                    let want: Vec<u64> = reference.iter().map(|c| c["id"].as_u64().unwrap()).collect();
                    if got != want {
                        r.oracle.push(("get-cards-differs-from-reference".into(), format!("op {i}: get_cards({e:?},{s:?}) = {got:?}, reference (same lower-cased key, newest first) = {want:?}")));
                    }
                    let k = lower_key(e, s);
                    if k.to_lowercase() != k { r.oracle.push(("lowercase-not-idempotent".into(), format!("op {i}: key {k:?}"))); }
                }
                if cards.len() >= 2 { r.nontrivial = true; }
                let mut tss: Vec<i64> = cards_j.iter().map(eff).collect();
                tss.sort();
                if tss.windows(2).any(|w| w[0] == w[1]) { r.branches.push("query-slot-with-timestamp-tie"); }
                let cur = if case.store { imp.mem.as_ref().unwrap().get_current_memory(e, s) } else { tr.get_current(e, s) };
                match op {
                    Op::Cards(..) => {
                        imp_ans = ids_str(&cards.iter().map(|c| c.id).collect::<Vec<_>>());
                        req = Some(format!("cards {} {}", hs(e), hs(s)));
                        if cards.is_empty() { r.branches.push("cards-empty"); } else { r.branches.push("cards-nonempty"); }
                    }
                    Op::Current(..) => {
                        imp_ans = opt_id(cur);
                        req = Some(format!("current {} {}", hs(e), hs(s)));
                        if let Some(c) = cur {
                            if c.is_retracted() { r.oracle.push(("current-returns-retraction".into(), format!("op {i}: get_current({e:?},{s:?}) = card {}", c.id))); }
                            if cards_j.iter().any(|d| !is_retr(d) && eff(d) > c.effective_timestamp()) {
                                r.oracle.push(("current-not-most-recent".into(), format!("op {i}: get_current({e:?},{s:?}) = card {} @{}", c.id, c.effective_timestamp())));
                            }
                            if cards_j.iter().any(|d| is_retr(d) && eff(d) >= c.effective_timestamp()) { r.branches.push("current-skips-newer-retraction"); }
                        } else if cards_j.iter().any(|d| !is_retr(d)) {
                            r.oracle.push(("current-none-with-live-card".into(), format!("op {i}: get_current({e:?},{s:?}) = None")));
                        } else if !cards_j.is_empty() { r.branches.push("current-none-all-retracted"); }
                        if !imp.raw {
                            let want = ref_at(&reference, None);
                            if cur.map(|c| c.id) != want { r.oracle.push(("current-differs-from-reference".into(), format!("op {i}: get_current({e:?},{s:?}) = {:?}, reference {want:?}", cur.map(|c| c.id)))); }
                        }
                    }
                    Op::At(_, _, t) => {
                        let at = if case.store { imp.mem.as_ref().unwrap().get_memory_at_time(e, s, *t) } else { tr.get_at_time(e, s, *t) };
                        imp_ans = opt_id(at);
                        req = Some(format!("at {} {} {}", hs(e), hs(s), t));
                        // ---- property oracle, clause 1
                        if let Some(c) = at {
                            r.branches.push("at-some");
                            if c.effective_timestamp() > *t {
                                r.oracle.push(("at-time-returns-future-card".into(), format!("op {i}: get_at_time({e:?},{s:?},{t}) = card {} with effective time {}", c.id, c.effective_timestamp())));
                            }
                            if c.is_retracted() || c.version_relation == VersionRelation::Retracts {
                                r.oracle.push(("at-time-returns-retraction".into(), format!("op {i}: get_at_time({e:?},{s:?},{t}) = card {}", c.id)));
                            }
                            if cards_j.iter().any(|d| !is_retr(d) && eff(d) <= *t && eff(d) > c.effective_timestamp()) {
                                r.oracle.push(("at-time-not-most-recent".into(), format!("op {i}: get_at_time({e:?},{s:?},{t}) = card {} @{}", c.id, c.effective_timestamp())));
                            }
                            if cards_j.iter().any(|d| eff(d) > *t) { r.branches.push("at-some-with-later-cards"); }
                            if cards_j.iter().any(|d| is_retr(d) && eff(d) <= *t && eff(d) >= c.effective_timestamp()) { r.branches.push("at-skips-retraction"); }
                        } else {
                            if cards_j.iter().any(|d| !is_retr(d) && eff(d) <= *t) {
                                r.oracle.push(("at-time-none-with-eligible-card".into(), format!("op {i}: get_at_time({e:?},{s:?},{t}) = None")));
                            }
                            if !cards_j.is_empty() { r.branches.push("at-none-with-cards"); }
                        }
                        // ---- property oracle, clause 2
                        if cards_j.iter().all(|d| eff(d) <= *t) {
                            if !cards_j.is_empty() { r.branches.push("at-beyond-latest"); }
                            if at.map(|c| c.id) != cur.map(|c| c.id) {
                                r.oracle.push(("latest-differs-from-current".into(), format!("op {i}: t={t} is at/beyond every card of ({e:?},{s:?}) but get_at_time = {:?}, get_current = {:?}", at.map(|c| c.id), cur.map(|c| c.id))));
                            }
                        }
                        if !imp.raw {
                            let want = ref_at(&reference, Some(*t));
                            if at.map(|c| c.id) != want { r.oracle.push(("at-time-differs-from-reference".into(), format!("op {i}: get_at_time({e:?},{s:?},{t}) = {:?}, reference {want:?}", at.map(|c| c.id)))); }
                        }
                    }
                    _ => unreachable!(),
                }
            }
            Op::Ent(e) => {
                let mut ids: Vec<u64> = imp.tr().get_entity_cards(e).iter().map(|c| c.id).collect();
                ids.sort();
                imp_ans = ids_str(&ids);
                req = Some(format!("ent {}", hs(e)));
            }
            Op::Timeline(e) => {
                let tl = imp.tr().get_timeline(e);
                if tl.windows(2).any(|w| w[0].effective_timestamp() > w[1].effective_timestamp()) {
                    r.oracle.push(("timeline-not-chronological".into(), format!("op {i}: get_timeline({e:?})")));
                }
                if tl.iter().any(|c| c.kind != MemoryKind::Event) { r.oracle.push(("timeline-non-event".into(), format!("op {i}"))); }
                let mut v: Vec<(i64, u64)> = tl.iter().map(|c| (c.effective_timestamp(), c.id)).collect();
                v.sort();
                if v.len() >= 2 { r.branches.push("timeline-2plus"); }
                imp_ans = ids_str(&v.iter().map(|x| x.1).collect::<Vec<_>>());
                req = Some(format!("timeline {}", hs(e)));
            }
            Op::Dump => {
                imp_ans = track_dump(imp.tr());
                req = Some("dump".into());
            }
            Op::RoundTrip => {
                let tr = imp.track.as_ref().expect("roundtrip in track case");
                let before = serde_json::to_value(tr).unwrap();
                let bytes = match tr.serialize() { Ok(b) => b, Err(e) => { r.error = Some(format!("serialize: {e}")); return r; } };
                match MemoriesTrack::deserialize(&bytes) {
                    Ok(t2) => {
                        let after = serde_json::to_value(&t2).unwrap();
                        if before != after { r.oracle.push(("serialize-roundtrip-changes-track".into(), format!("op {i}: before {before} after {after}"))); }
                        imp.track = Some(t2);
                        r.branches.push("roundtrip");
                    }
                    Err(e) => r.oracle.push(("serialize-roundtrip-fails".into(), format!("op {i}: {e}"))),
                }
                imp_ans = track_dump(imp.tr());
                req = Some("dump".into());
            }
            Op::Raw(j) => {
                match serde_json::from_value::<MemoriesTrack>(j.clone()) {
                    Ok(t) => { imp.track = Some(t); imp.raw = true; r.branches.push("raw-track"); }
                    Err(e) => { r.error = Some(format!("raw track json rejected: {e}")); return r; }
                }
                // load the same state into the model
                ask(drv, "new");
                for c in j["cards"].as_array().cloned().unwrap_or_default() {
                    let line = format!("rawcard {} {} {} {} {} {} {} {} {} {}", c["id"].as_u64().unwrap_or(0), c["kind"].as_str().unwrap_or("fact"),
                        hs(c["entity"].as_str().unwrap_or("")), hs(c["slot"].as_str().unwrap_or("")), hs(c["value"].as_str().unwrap_or("")),
                        oi(c.get("event_date").and_then(|v| v.as_i64())), oi(c.get("document_date").and_then(|v| v.as_i64())),
                        c.get("version_key").and_then(|v| v.as_str()).map(hs).unwrap_or_else(|| "none".into()),
                        c.get("version_relation").and_then(|v| v.as_str()).unwrap_or("sets"), c["created_at"].as_i64().unwrap_or(0));
                    ask(drv, &line);
                }
                if let Some(m) = j["slot_index"]["entries"].as_object() {
                    for (k, v) in m {
                        let ids: Vec<u64> = v.as_array().map(|a| a.iter().filter_map(|x| x.as_u64()).collect()).unwrap_or_default();
                        ask(drv, &format!("rawindex {} {}", hs(k), ids_str(&ids)));
                    }
                }
                ask(drv, &format!("rawnext {}", j["next_id"].as_u64().unwrap_or(0)));
                imp_ans = track_dump(imp.tr());
                req = Some("dump".into());
            }
            Op::Clear => {
                if case.store { imp.mem.as_mut().unwrap().clear_memories(); } else { imp.track.as_mut().unwrap().clear(); }
                imp_ans = "ok".into();
                req = Some("clear".into());
                r.branches.push("clear");
            }
            Op::Frame => {
                let m = imp.mem.as_mut().expect("frame in store case");
                imp.frames += 1;
                let opts = PutOptions::builder().extract_triplets(false).auto_tag(false).extract_dates(false).instant_index(false).build();
                let body = format!("frame number {} of this history", imp.frames);
                if let Err(e) = m.put_bytes_with_options(body.as_bytes(), opts) { r.error = Some(format!("put_bytes: {e}")); return r; }
                imp_ans = "ok".into();
                req = Some("frame".into());
                r.branches.push("frame");
            }
            Op::Commit => {
                let m = imp.mem.as_mut().expect("commit in store case");
                if let Err(e) = m.commit() { r.error = Some(format!("commit: {e}")); return r; }
                imp.committed_cards = serde_json::to_value(m.memories()).unwrap();
                imp.committed_mesh = { let mut v = mesh_items(m.logic_mesh()); v.sort(); v };
                imp_ans = "ok".into();
                req = Some("commit".into());
                if m.memory_card_count() == 0 { r.branches.push("commit-without-cards"); } else { r.branches.push("commit-with-cards"); }
            }
            Op::Reopen | Op::Crash => {
                let crash = matches!(op, Op::Crash);
                let m = imp.mem.take().expect("reopen in store case");
                let before_cards = serde_json::to_value(m.memories()).unwrap();
                let before_mesh = { let mut v = mesh_items(m.logic_mesh()); v.sort(); v };
                let open_path = if crash {
                    // what a dying process leaves behind: the file as it is now (WAL records are fsynced by put)
                    imp.gen_no += 1;
                    let p2 = imp.dir.as_ref().unwrap().path().join(format!("c27-{}.mv2", imp.gen_no));
                    if let Err(e) = std::fs::copy(&imp.path, &p2) { r.error = Some(format!("copy: {e}")); return r; }
                    drop(m);
                    let _ = std::fs::remove_file(&imp.path);
                    imp.path = p2.clone();
                    p2
                } else {
                    drop(m); // Drop commits a dirty handle
                    imp.path.clone()
                };
                match Memvid::open(&open_path) {
                    Ok(m2) => {
                        let after_cards = serde_json::to_value(m2.memories()).unwrap();
                        let after_mesh = { let mut v = mesh_items(m2.logic_mesh()); v.sort(); v };
                        let (want_cards, want_mesh, sig, how) = if crash {
                            (&imp.committed_cards, &imp.committed_mesh, "crash-reopen-changes-committed", "crash + reopen: state of the last commit")
                        } else {
                            (&before_cards, &before_mesh, "close-reopen-changes", "close + reopen: state before close")
                        };
                        if &after_cards != want_cards {
                            r.oracle.push((format!("{sig}-card-set"), format!("op {i}: {how} had {} cards, reopened file has {}; before={} after={}",
                                want_cards["cards"].as_array().map(|a| a.len()).unwrap_or(0), after_cards["cards"].as_array().map(|a| a.len()).unwrap_or(0),
                                want_cards["cards"], after_cards["cards"])));
                        }
                        if &after_mesh != want_mesh {
                            r.oracle.push((format!("{sig}-logic-mesh"), format!("op {i}: {how} had mesh {:?}, reopened file has {:?}", want_mesh, after_mesh)));
                        }
                        if after_cards["cards"].as_array().map(|a| a.len()).unwrap_or(0) > 0 { r.nontrivial = true; r.branches.push(if crash { "crash-with-cards" } else { "reopen-with-cards" }); }
                        if !after_mesh.is_empty() { r.branches.push("reopen-with-mesh"); }
                        imp.committed_cards = after_cards;
                        imp.committed_mesh = after_mesh;
                        imp.mem = Some(m2);
                        imp_ans = "ok".into();
                    }
                    Err(e) => {
                        r.oracle.push((if crash { "crash-reopen-fails".to_string() } else { "close-reopen-fails".to_string() }, format!("op {i}: open: {e}")));
                        r.error = Some(format!("open: {e}"));
                        imp_ans = "err".into();
                    }
                }
                let m_ans = ask(drv, if crash { "crash" } else { "reopen" });
                if let Some(ma) = m_ans { if ma != imp_ans { r.disagree.push((format!("op {i} {op:?}"), ma, imp_ans.clone())); } }
                if r.error.is_some() { return r; }
                // whole state after reopening
                let d_imp = track_dump(imp.tr());
                if let Some(d_mod) = ask(drv, "dump") { if d_mod != d_imp { r.disagree.push((format!("op {i} {op:?}: dump"), d_mod, d_imp.clone())); } }
                let m_imp = mesh_dump(imp.mem.as_ref().unwrap().logic_mesh());
                if let Some(m_mod) = ask(drv, "mesh") { if m_mod != m_imp { r.disagree.push((format!("op {i} {op:?}: mesh"), m_mod, m_imp.clone())); } }
                r.trace.push(format!("{i}: {op:?} -> impl cards={} mesh={}", d_imp, m_imp));
                canon.push_str(&d_imp);
                continue;
            }
            Op::Node { name, display, kind, conf, frame, start, len } => {
                let k = ENTITY_KINDS[(*kind as usize) % ENTITY_KINDS.len()];
                let mut n = MeshNode::new(name.clone(), display.clone(), k, 0.0, *frame, *start, *len);
                n.confidence = *conf;
                let id = n.id;
                imp.mem.as_mut().expect("node in store case").add_mesh_node(n);
                imp_ans = "ok".into();
                req = Some(format!("node {} {} {} {} {} {} {} {}", id, hs(name), hs(display), k as u8, conf, frame, start, len));
                r.branches.push("mesh-node");
            }
            Op::Edge { from, to, link, conf, frame } => {
                let l = LinkType::from_str(link);
                let mut e = MeshEdge::new(*from, *to, l.clone(), 0.0, *frame);
                e.confidence = *conf;
                imp.mem.as_mut().expect("edge in store case").add_mesh_edge(e);
                imp_ans = "ok".into();
                req = Some(format!("edge {} {} {} {} {} {}", from, to, link_tag(&l), hs(l.as_str()), conf, frame));
                r.branches.push("mesh-edge");
            }
            Op::MeshClear => {
                imp.mem.as_mut().expect("meshclear in store case").set_logic_mesh(LogicMesh::new());
                imp_ans = "ok".into();
                req = Some("meshclear".into());
                r.branches.push("mesh-clear");
            }
        }
        r.trace.push(format!("{i}: {op:?} -> impl {imp_ans}"));
        canon.push_str(&imp_ans);
        canon.push('|');
        if let Some(q) = req {
            if let Some(m_ans) = ask(drv, &q) {
                if m_ans != imp_ans { r.disagree.push((format!("op {i} {q}"), m_ans, imp_ans)); }
            }
        }
    }
    // end of case: whole state
    let d_imp = track_dump(imp.tr());
    if let Some(d_mod) = ask(drv, "dump") { if d_mod != d_imp { r.disagree.push(("final dump".into(), d_mod, d_imp.clone())); } }
    if case.store {
        let m_imp = mesh_dump(imp.mem.as_ref().unwrap().logic_mesh());
        if let Some(m_mod) = ask(drv, "mesh") { if m_mod != m_imp { r.disagree.push(("final mesh".into(), m_mod, m_imp)); } }
    }
    canon.push_str(&d_imp);
    r.canon = b3short(canon.as_bytes());
    r
}

// ------------------------------------------------------------------------------------- generators

const ENT_BASE: [&str; 12] = ["user", "User", "USER", "a", "a:b", "A:B", "b:c", "", "user.team", "東京", "zoé", "x y"];
const SLOT_BASE: [&str; 11] = ["loc", "Loc", "LOC", "c", "b:c", "employer", "", "hobby", ":", "名前", "c:"];

fn rand_case_of(rng: &mut Rng, s: &str) -> String {
    s.chars().map(|c| if c.is_ascii_alphabetic() && rng.chance(1, 3) { if c.is_ascii_lowercase() { c.to_ascii_uppercase() } else { c.to_ascii_lowercase() } } else { c }).collect()
}

fn gen_ts(rng: &mut Rng, pool: &[i64]) -> i64 {
    match rng.below(10) {
        0 => *rng.pick(&[i64::MIN, i64::MAX, i64::MIN + 1, i64::MAX - 1, 0, -1]),
        1 => rng.i64(-50, 50),
        _ => *rng.pick(pool),
    }
}

fn gen_card(rng: &mut Rng, ents: &[String], slots: &[String], pool: &[i64]) -> CardSpec {
    let e0 = rng.pick(ents).clone();
    let s0 = rng.pick(slots).clone();
    let e = rand_case_of(rng, &e0);
    let s = rand_case_of(rng, &s0);
    CardSpec {
        kind: if rng.chance(1, 3) { 2 } else { rng.below(7) as u8 },
        entity: e, slot: s,
        value: rng.pick(&["NY", "SF", "", "x y", "値", "NY"]).to_string(),
        ev: if rng.chance(2, 5) { Some(gen_ts(rng, pool)) } else { None },
        doc: if rng.chance(1, 2) { Some(gen_ts(rng, pool)) } else { None },
        vk: match rng.below(5) { 0 => Some("k".into()), 1 => Some(String::new()), _ => None },
        rel: if rng.chance(1, 4) { 3 } else { rng.below(4) as u8 },
        created: gen_ts(rng, pool),
        extra: rng.below(32) as u8,
    }
}

fn queries_for(rng: &mut Rng, cards: &[CardSpec], out: &mut Vec<Op>, n_pairs: usize) {
    if cards.is_empty() { out.push(Op::At("user".into(), "loc".into(), 0)); return; }
    for _ in 0..n_pairs {
        let c = rng.pick(cards).clone();
        let (e, s) = match rng.below(8) {
            0 => (c.entity.to_ascii_uppercase(), c.slot.to_ascii_lowercase()),
            1 => (rand_case_of(rng, &c.entity), rand_case_of(rng, &c.slot)),
            2 => ("nobody".to_string(), c.slot.clone()),
            // the other split of a colon-joined key
            3 => { let k = format!("{}:{}", c.entity, c.slot); match k.rfind(':') { Some(p) => (k[..p].to_string(), k[p + 1..].to_string()), None => (c.entity.clone(), c.slot.clone()) } }
            _ => (c.entity.clone(), c.slot.clone()),
        };
        out.push(Op::Cards(e.clone(), s.clone()));
        out.push(Op::Current(e.clone(), s.clone()));
        // times at/around every card of that slot, and beyond
        let key = lower_key(&e, &s);
        let mut ts: BTreeSet<i64> = BTreeSet::new();
        for d in cards.iter().filter(|d| lower_key(&d.entity, &d.slot) == key) {
            let t = d.ev.or(d.doc).unwrap_or(d.created);
            ts.insert(t); ts.insert(t.saturating_sub(1)); ts.insert(t.saturating_add(1));
        }
        ts.insert(i64::MAX); ts.insert(i64::MIN);
        let mut tv: Vec<i64> = ts.into_iter().collect();
        rng.shuffle(&mut tv);
        for t in tv.into_iter().take(7) { out.push(Op::At(e.clone(), s.clone(), t)); }
    }
}

fn gen_track_case(rng: &mut Rng, thorough: bool) -> Case {
    let ne = rng.usize(1, 3);
    let ns = rng.usize(1, 3);
    let ents: Vec<String> = (0..ne).map(|_| rng.pick(&ENT_BASE).to_string()).collect();
    let slots: Vec<String> = (0..ns).map(|_| rng.pick(&SLOT_BASE).to_string()).collect();
    let pool: Vec<i64> = (0..rng.usize(1, 4)).map(|_| rng.i64(-3, 30) * 10).collect();
    let n = if rng.chance(1, 10) { rng.usize(0, 1) } else { rng.usize(2, if thorough { 40 } else { 14 }) };
    let mut ops = vec![];
    let mut cards = vec![];
    for i in 0..n {
        let c = gen_card(rng, &ents, &slots, &pool);
        cards.push(c.clone());
        ops.push(Op::Add(c));
        if rng.chance(1, 6) && i + 1 < n { queries_for(rng, &cards, &mut ops, 1); }
        if rng.chance(1, 25) { ops.push(Op::RoundTrip); }
        if rng.chance(1, 60) { ops.push(Op::Clear); cards.clear(); }
    }
    queries_for(rng, &cards, &mut ops, 3);
    if let Some(c) = cards.first() { ops.push(Op::Ent(c.entity.clone())); ops.push(Op::Timeline(rand_case_of(rng, &c.entity))); }
    if rng.chance(1, 2) {
        ops.push(Op::RoundTrip);
        queries_for(rng, &cards, &mut ops, 2);
    }
    Case { store: false, model: true, ops }
}

/// a track as it could sit in an old or foreign file: mixed-case index keys, dangling and duplicate ids
fn gen_raw_case(rng: &mut Rng) -> Case {
    let ents = ["User", "user", "a:b"];
    let slots = ["Loc", "loc", "c"];
    let n = rng.usize(1, 8);
    let mut cards = vec![];
    let mut specs = vec![];
    for _ in 0..n {
        let id = rng.below(n as u64 + 2);
        let pool = [10i64, 20, 20, 30];
        let c = gen_card(rng, &ents.map(String::from), &slots.map(String::from), &pool);
        let mut j = json!({"id": id, "kind": KINDS[c.kind.min(6) as usize], "entity": c.entity, "slot": c.slot, "value": c.value,
            "version_relation": RELS[c.rel.min(3) as usize], "source_frame_id": 0, "engine": "e", "engine_version": "1", "created_at": c.created});
        if let Some(t) = c.ev { j["event_date"] = json!(t); }
        if let Some(t) = c.doc { j["document_date"] = json!(t); }
        if let Some(k) = &c.vk { j["version_key"] = json!(k); }
        cards.push(j);
        specs.push(c);
    }
    // one stored spelling per lower-cased key (the fallback's iteration order over several is unspecified)
    let mut entries = serde_json::Map::new();
    let mut seen = BTreeSet::new();
    for c in &specs {
        let lk = lower_key(&c.entity, &c.slot);
        if !seen.insert(lk.clone()) { continue; }
        let stored = if rng.chance(1, 2) { lk.clone() } else { format!("{}:{}", c.entity, c.slot) };
        let mut ids: Vec<u64> = (0..rng.usize(0, 5)).map(|_| rng.below(n as u64 + 3)).collect();
        if rng.chance(1, 2) { ids.dedup(); }
        entries.insert(stored, json!(ids));
    }
    let track = json!({"cards": cards, "next_id": n as u64 + 5 + rng.below(3), "slot_index": {"entries": entries},
        "enrichment_manifest": {"frames": {}, "total_frames_enriched": 0, "total_cards_created": 0, "last_enrichment": null}});
    let mut ops = vec![Op::Raw(track)];
    queries_for(rng, &specs, &mut ops, 3);
    if rng.chance(1, 2) {
        let c = gen_card(rng, &ents.map(String::from), &slots.map(String::from), &[10, 20]);
        specs.push(c.clone());
        ops.push(Op::Add(c));
        queries_for(rng, &specs, &mut ops, 2);
    }
    ops.push(Op::Ent("user".into()));
    ops.push(Op::RoundTrip);
    Case { store: false, model: true, ops }
}

/// strings whose Unicode lower-casing differs from ASCII lower-casing: oracle only
fn gen_unicode_case(rng: &mut Rng) -> Case {
    let ents = ["ÉCOLE", "école", "İstanbul", "ΣΑΣ", "σας", "STRASSE", "Ǆ", "ǆ", "ÀB:c"];
    let slots = ["ÑAME", "ñame", "Σ", "ς", "x"];
    let pool = [10i64, 20, 20, 30];
    let mut ops = vec![];
    let mut cards = vec![];
    for _ in 0..rng.usize(2, 12) {
        let mut c = gen_card(rng, &ents.map(String::from), &slots.map(String::from), &pool);
        c.entity = rng.pick(&ents).to_string();
        c.slot = rng.pick(&slots).to_string();
        cards.push(c.clone());
        ops.push(Op::Add(c));
    }
    queries_for(rng, &cards, &mut ops, 4);
    ops.push(Op::RoundTrip);
    queries_for(rng, &cards, &mut ops, 2);
    Case { store: false, model: false, ops }
}

fn gen_store_case(rng: &mut Rng, thorough: bool) -> Case {
    let ents: Vec<String> = vec!["user".into(), rng.pick(&ENT_BASE).to_string()];
    let slots: Vec<String> = vec!["loc".into(), rng.pick(&SLOT_BASE).to_string()];
    let pool = [10i64, 20, 20, 30];
    let n = rng.usize(3, if thorough { 20 } else { 9 });
    let mut ops = vec![];
    let mut cards: Vec<CardSpec> = vec![];
    let mut frames = 0;
    let mut node_ids: Vec<u64> = vec![];
    for _ in 0..n {
        match rng.below(20) {
            0..=6 => { let c = gen_card(rng, &ents, &slots, &pool); cards.push(c.clone()); ops.push(Op::Add(c)); }
            7 => { ops.push(Op::Clear); cards.clear(); }
            8 | 9 => if frames < 6 { frames += 1; ops.push(Op::Frame); },
            10..=12 => ops.push(Op::Commit),
            13 | 14 => ops.push(Op::Reopen),
            15 => ops.push(Op::Crash),
            16 | 17 => {
                let name = rng.pick(&["alice", "bob", "acme", "alice"]).to_string();
                let kind = rng.below(3) as u8;
                node_ids.push(memvid_core::types::logic_mesh::compute_node_id(&name, ENTITY_KINDS[kind as usize]));
                ops.push(Op::Node { display: rand_case_of(rng, &name), name, kind, conf: rng.below(101) as u8, frame: rng.below(4), start: rng.below(50) as u32, len: rng.below(9) as u16 });
            }
            18 => {
                let from = if node_ids.is_empty() { 1 } else { *rng.pick(&node_ids) };
                let to = if node_ids.is_empty() { 2 } else { *rng.pick(&node_ids) };
                ops.push(Op::Edge { from, to, link: rng.pick(&["manager", "works_at", "friend", "Zed", "member"]).to_string(), conf: rng.below(101) as u8, frame: rng.below(4) });
            }
            _ => ops.push(Op::MeshClear),
        }
    }
    // always end with a durable point and both kinds of reopening
    match rng.below(3) {
        0 => { ops.push(Op::Commit); ops.push(Op::Reopen); }
        1 => { ops.push(Op::Commit); if frames < 6 { ops.push(Op::Frame); } if rng.bool() { let c = gen_card(rng, &ents, &slots, &pool); ops.push(Op::Add(c)); } ops.push(Op::Crash); ops.push(Op::Reopen); }
        _ => { ops.push(Op::Reopen); ops.push(Op::Crash); }
    }
    queries_for(rng, &cards, &mut ops, 1);
    Case { store: true, model: true, ops }
}

fn spec(e: &str, s: &str, ev: Option<i64>, doc: Option<i64>, rel: u8, created: i64) -> CardSpec {
    CardSpec { kind: 0, entity: e.into(), slot: s.into(), value: "v".into(), ev, doc, vk: None, rel, created, extra: 0 }
}

fn corpus() -> Vec<Case> {
    let mut v = vec![];
    // the model's worked example (MvProps/C27.lean exTrack)
    let mut ops = vec![
        Op::Add(spec("User", "loc", None, Some(10), 0, 1)), Op::Add(spec("user", "Loc", Some(20), Some(3), 1, 1)),
        Op::Add(spec("user", "loc", None, Some(20), 0, 1)), Op::Add(spec("user", "loc", Some(30), None, 3, 1)),
        Op::Add(spec("USER", "loc", None, None, 2, 5)),
        Op::Cards("uSer".into(), "LOC".into()), Op::Current("uSer".into(), "LOC".into()),
    ];
    for t in [30, 20, 19, 9, 4, i64::MAX, i64::MIN] { ops.push(Op::At("uSer".into(), "LOC".into(), t)); }
    ops.push(Op::RoundTrip);
    ops.push(Op::Dump);
    v.push(Case { store: false, model: true, ops });
    // only retractions; empty track; colon collision
    v.push(Case { store: false, model: true, ops: vec![Op::Add(spec("u", "s", Some(5), None, 3, 0)), Op::Current("u".into(), "s".into()), Op::At("u".into(), "s".into(), 9), Op::At("x".into(), "y".into(), 0)] });
    v.push(Case { store: false, model: true, ops: vec![Op::Add(spec("a:b", "c", Some(5), None, 0, 0)), Op::Add(spec("a", "b:c", Some(7), None, 0, 0)), Op::Cards("a".into(), "b:c".into()), Op::At("a:b".into(), "c".into(), 6), Op::Ent("a".into()), Op::Timeline("a".into())] });
    // persistence witnesses: (A) clear is not persisted, (B) WAL recovery on open drops the committed tracks
    v.push(Case { store: true, model: true, ops: vec![Op::Add(spec("user", "loc", None, Some(1000), 0, 1)), Op::Commit, Op::Clear, Op::Commit, Op::Reopen] });
    v.push(Case { store: true, model: true, ops: vec![Op::Add(spec("user", "loc", None, Some(1000), 0, 1)), Op::Commit, Op::Frame, Op::Crash] });
    v.push(Case { store: true, model: true, ops: vec![
        Op::Node { name: "alice".into(), display: "Alice".into(), kind: 0, conf: 90, frame: 0, start: 0, len: 5 }, Op::Commit, Op::MeshClear, Op::Commit, Op::Reopen] });
    v.push(Case { store: true, model: true, ops: vec![
        Op::Node { name: "alice".into(), display: "Alice".into(), kind: 0, conf: 90, frame: 0, start: 0, len: 5 }, Op::Commit, Op::Frame, Op::Crash] });
    // both commit paths, plain
    v.push(Case { store: true, model: true, ops: vec![Op::Add(spec("user", "loc", None, Some(1), 0, 1)), Op::Frame, Op::Commit, Op::Add(spec("user", "loc", None, Some(2), 1, 1)), Op::Commit, Op::Reopen,
        Op::Current("user".into(), "loc".into()), Op::Add(spec("user", "loc", None, Some(3), 3, 1)), Op::Reopen, Op::Current("USER".into(), "LOC".into()), Op::Crash, Op::Dump] });
    v
}

// ------------------------------------------------------------------------------------------- main

fn record(case: &Case, res: &Res, sum: &mut Summary, known: &[String]) {
    for b in &res.branches { sum.branch(b); }
    sum.branch(if case.store { "store-case" } else { "track-case" });
    if !case.model { sum.branch("oracle-only-unicode-case"); }
    sum.case(&res.canon, res.nontrivial, || json!({"store": case.store, "ops": case.ops.len(), "first_ops": case.ops.iter().take(4).map(|o| format!("{o:?}")).collect::<Vec<_>>()}));
    if let Some((sig, what)) = res.oracle.first() {
        if res.disagree.is_empty() && case.model && known.iter().any(|k| k == sig) {
            sum.known_finding(sig, what, case.to_json());
        } else {
            sum.oracle_violation(sig, what, case.to_json());
        }
    } else if let Some(e) = &res.error {
        sum.oracle_violation("operation-failed", e, case.to_json());
    }
    if let Some((what, m, i)) = res.disagree.first() {
        sum.disagreement(what, case.to_json(), m, i);
    }
}

fn shrink(case: &Case, drv: &mut Option<Driver>, res: &Res) -> Case {
    let sig = res.oracle.first().map(|x| x.0.clone());
    let had_dis = !res.disagree.is_empty();
    let mut budget = if case.store { 14 } else { 400 };
    let mut fails = |ops: &[Op]| {
        if budget == 0 { return false; }
        budget -= 1;
        if matches!(ops.first(), Some(Op::Raw(_))) != matches!(case.ops.first(), Some(Op::Raw(_))) { return false; }
        let c = Case { store: case.store, model: case.model, ops: ops.to_vec() };
        let r = guarded(std::panic::AssertUnwindSafe(|| eval_case(&c, drv)));
        match r {
            Ok(r) => match &sig { Some(s) => r.oracle.first().map(|x| &x.0) == Some(s), None => had_dis && !r.disagree.is_empty() },
            Err(_) => false,
        }
    };
    let ops = shrink_list(&case.ops, &mut fails);
    Case { store: case.store, model: case.model, ops }
}

fn main() {
    let args = parse_args();
    let mut drv: Option<Driver> = if args.driver.as_os_str() == "none" { None } else { Some(Driver::spawn(&args.driver).expect("spawn driver")) };
    let known: Vec<String> = args.extra.get("known").map(|s| s.split(',').filter(|x| !x.is_empty() && *x != "-").map(|x| x.to_string()).collect()).unwrap_or_default();
    let mut sum = Summary::new("C27", &args,
        "track cases: 0-14 (thorough 0-40) cards over 1-3 entities x 1-3 slots in random ASCII case (pools include ':' inside names, empty, CJK), \
         timestamps from a pool of 1-4 values (ties) plus i64 extremes, missing event/document dates, all four version relations (25% extra retractions), \
         queries at/around/beyond every card time, serialize->deserialize in between; raw tracks deserialised from JSON (mixed-case index keys, dangling/duplicate ids); \
         oracle-only Unicode upper-case names; store cases: 3-9 (thorough 3-20) operations of put_memory_card / clear_memories / put_bytes / mesh node / mesh edge / mesh clear / \
         commit / close+reopen / crash+reopen on a real .mv2 file, ending with a durable point and a reopen; non-trivial = a queried slot holds >= 2 cards or cards survive a reopen; \
         distinct = blake3 of all implementation answers");
    sum.expect_branches(&["at-some", "at-none-with-cards", "at-beyond-latest", "at-some-with-later-cards", "at-skips-retraction", "query-slot-with-timestamp-tie",
        "current-skips-newer-retraction", "current-none-all-retracted", "add-dateless", "default-version-key", "colon-in-entity-or-slot", "roundtrip", "raw-track",
        "clear", "frame", "commit-with-cards", "commit-without-cards", "reopen-with-cards", "crash-with-cards", "reopen-with-mesh", "mesh-node", "mesh-edge", "mesh-clear",
        "oracle-only-unicode-case", "timeline-2plus"]);
    if args.mode == "replay" {
        let v = load_replay(args.replay_file.as_ref().expect("replay file"));
        let input = v.get("input").unwrap_or(&v);
        let case = Case::from_json(input);
        let res = eval_case(&case, &mut drv);
        println!("case: store={} model={} ops={}", case.store, case.model, case.ops.len());
        for t in &res.trace { println!("  {t}"); }
        for (s, w) in &res.oracle { println!("ORACLE {s}: {w}"); }
        for (w, m, i) in &res.disagree { println!("DISAGREE {w}\n   model: {m}\n   impl : {i}"); }
        if let Some(e) = &res.error { println!("ERROR {e}"); }
        record(&case, &res, &mut sum, &known);
        sum.model_requests = drv.as_ref().map(|d| d.requests).unwrap_or(0);
        sum.finish(&args);
    }
    let mut rng = Rng::new(args.seed);
    let (n_track, n_raw, n_uni, n_store) = if args.thorough { (4000, 1000, 400, 220) } else { (600, 150, 60, 14) };
    let mut cases = corpus();
    for _ in 0..n_track { cases.push(gen_track_case(&mut rng, args.thorough)); }
    for _ in 0..n_raw { cases.push(gen_raw_case(&mut rng)); }
    for _ in 0..n_uni { cases.push(gen_unicode_case(&mut rng)); }
    for _ in 0..n_store { cases.push(gen_store_case(&mut rng, args.thorough)); }
    let mut reported: BTreeSet<String> = BTreeSet::new();
    let t_start = std::time::Instant::now();
    let mut t_store = std::time::Duration::ZERO;
    for case in &cases {
        let t_case = std::time::Instant::now();
        let res = match guarded(std::panic::AssertUnwindSafe(|| eval_case(case, &mut drv))) {
            Ok(r) => r,
            Err(p) => {
                sum.oracle_violation("panic", &p, case.to_json());
                if let Some(d) = drv.as_mut() { let _ = d.restart(); }
                continue;
            }
        };
        let failing = !res.oracle.is_empty() || !res.disagree.is_empty();
        if failing {
            // one minimised report per failure class
            let class = res.oracle.first().map(|x| x.0.clone()).unwrap_or_else(|| format!("disagree:{}", res.disagree[0].0.split(' ').skip(2).next().unwrap_or("")));
            if reported.insert(class) {
                let small = shrink(case, &mut drv, &res);
                let res2 = eval_case(&small, &mut drv);
                if !res2.oracle.is_empty() || !res2.disagree.is_empty() { record(&small, &res2, &mut sum, &known); } else { record(case, &res, &mut sum, &known); }
            } else {
                sum.case(&res.canon, res.nontrivial, || json!({}));
                for b in &res.branches { sum.branch(b); }
            }
        } else {
            record(case, &res, &mut sum, &known);
        }
        if case.store { t_store += t_case.elapsed(); }
    }
    sum.notes.push(format!("wall: {:.1}s total, {:.1}s in store cases", t_start.elapsed().as_secs_f64(), t_store.as_secs_f64()));
    sum.model_requests = drv.as_ref().map(|d| d.requests).unwrap_or(0);
    sum.finish(&args);
}
