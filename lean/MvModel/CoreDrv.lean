/-
  Line protocol of the Core model (shared by every Core-family driver: drv_c01, drv_c06, …).
  One request line in, one answer line out.  Tokens are `key=value`; `-` = none / empty list.

    create                                                  → ok
    put    ts=<int> uri= kind= track= tags=<a,b> labels= role=<d|c|i> ct=<tok> len=<n> plen=<n>
           emb=<dim:tok|-> chunks=<ct:len:dim:tok;…|-> cdims=<d,d> z=<0|1> ii=<0|1> st=<0|1> q=<0|1> nc=<n>
           ac=<0|1> ft=<n> ws=<n>                           → ok <seq> | err <reason>
    update id=<n> [ts= uri= kind= track= tags= labels=] role= pl=<0|1> [ct= len= plen= chunks=] emb=
           ii= st= q= nc= ac= ft= ws=                       → ok <seq> | err <reason>
    delete id=<n> ac= ft= ws=                               → ok <seq> | err not-found | err inactive
    commit ft=<n>                                           → ok | err commit-failed
    reopen ftd=<n> fto=<n>                                  → ok     (drop incl. commit-when-dirty, open)
    crash  ft=<n>                                           → ok     (no Drop; open replays the WAL)
    batch  dis=<0|1> ws=<n>                                 → ok
    endbatch                                                → ok
    skip                                                    → ok | err commit-failed
    finalize ft=<n>                                         → ok
    vacuum ftc=<n> ftr=<n>                                  → ok
    doctor vac=<0|1> rt= rl= rv= ftd= fta= ftb= fto=                  → ok
    ticket seq=<int> cap=<n> blank=<0|1> free=<0|1>         → ok | err ticket-seq
    obs                                                     → the observation (Core.obs)
    head                                                    → the observation without the frame table
    next                                                    → next_frame_id
    byuri <uri>                                             → frame id | none
  Reasons: ticket-required dim-mismatch capacity not-found inactive canon-error commit-failed.
  (in a chunk item the embedding is `dim:tok`, or `0:-` for none)
-/
import MvModel.Core
import MvModel.DrvUtil
namespace Mv.Core

def kvs (ws : List String) : List (String × String) :=
  ws.filterMap fun w => match w.splitOn "=" with
    | k :: v :: rest => some (k, "=".intercalate (v :: rest))
    | _ => none

def getS (kv : List (String × String)) (k : String) : Option String :=
  match kv.lookup k with
  | some "-" => none
  | some v => some v
  | none => none

def getN (kv : List (String × String)) (k : String) (d : Nat := 0) : Nat :=
  match kv.lookup k with
  | some v => v.toNat?.getD d
  | none => d

def getB (kv : List (String × String)) (k : String) (d : Bool := false) : Bool :=
  match kv.lookup k with
  | some "1" => true
  | some "0" => false
  | _ => d

def getI (kv : List (String × String)) (k : String) : Option Int :=
  match getS kv k with
  | some v => Mv.parseInt v
  | none => none

def getL (kv : List (String × String)) (k : String) : List String :=
  match getS kv k with
  | some v => (v.splitOn ",").filter (· ≠ "")
  | none => []

def parseEmb (s : String) : Option Emb :=
  match s.splitOn ":" with
  | [d, t] => if t == "-" then none else d.toNat?.map (fun n => (n, t))
  | _ => none

def getEmb (kv : List (String × String)) (k : String) : Option Emb :=
  match getS kv k with
  | some v => parseEmb v
  | none => none

def parseChunk (s : String) : Option ChunkArg :=
  match s.splitOn ":" with
  | [ct, len, d, t] => len.toNat?.map fun l => { content := ct, len := l, emb := parseEmb s!"{d}:{t}" }
  | _ => none

def getChunks (kv : List (String × String)) (k : String) : List ChunkArg :=
  match getS kv k with
  | some v => (v.splitOn ";").filterMap parseChunk
  | none => []

def getRole (kv : List (String × String)) : Role :=
  match kv.lookup "role" with
  | some "c" => .chunk
  | some "i" => .image
  | _ => .document

def getTrace (m : Mem) (kv : List (String × String)) : Trace :=
  { ac := getB kv "ac", ft := getN kv "ft", ws := getN kv "ws" m.walSize }

def showOut : Out → String
  | .ok => "ok"
  | .seq n => s!"ok {n}"
  | .err r => s!"err {r}"

def drvStep (m : Mem) (ws : List String) : Mem × String :=
  match ws with
  | [] => (m, "bad-op")
  | op :: rest =>
    let kv := kvs rest
    -- every request may carry `ws=`: the WAL region size after the call (growth can happen inside any
    -- call that appends to the WAL, including the Lex record of a commit)
    let fin (r : Mem × Out) : Mem × String := (r.1.setWalSize (getN kv "ws" r.1.walSize), showOut r.2)
    match op with
    | "create" => fin (step m .create)
    | "put" =>
      match getI kv "ts" with
      | none => (m, "bad-op")
      | some ts =>
        let a : PutArgs :=
          { ts := ts, uri := getS kv "uri", kind := getS kv "kind", track := getS kv "track",
            tags := getL kv "tags", labels := getL kv "labels", role := getRole kv,
            content := (getS kv "ct").getD "E", len := getN kv "len", plen := getN kv "plen",
            emb := getEmb kv "emb", chunks := getChunks kv "chunks", ii := getB kv "ii",
            st := getB kv "st" true, q := getB kv "q", nc := getN kv "nc", zstd := getB kv "z",
            cdims := (getL kv "cdims").filterMap (·.toNat?) }
        fin (step m (.put a (getTrace m kv)))
    | "update" =>
      let pl : Option (String × Nat × Nat × List ChunkArg) :=
        if getB kv "pl" then some ((getS kv "ct").getD "E", getN kv "len", getN kv "plen", getChunks kv "chunks")
        else none
      let u : UpdArgs :=
        { ts := getI kv "ts", uri := getS kv "uri", kind := getS kv "kind", track := getS kv "track",
          tags := getL kv "tags", labels := getL kv "labels", role := getRole kv, payload := pl,
          emb := getEmb kv "emb", ii := getB kv "ii", st := getB kv "st" true, q := getB kv "q",
          nc := getN kv "nc", zstd := getB kv "z" }
      fin (step m (.update (getN kv "id") u (getTrace m kv)))
    | "delete" => fin (step m (.delete (getN kv "id") (getTrace m kv)))
    | "commit" => fin (step m (.commit (getN kv "ft")))
    | "reopen" => fin (step m (.reopen (getN kv "ftd") (getN kv "fto")))
    | "crash" => fin (step m (.crash (getN kv "ft")))
    | "batch" => fin (step m (.beginBatch (getB kv "dis" true) (getN kv "ws" m.walSize)))
    | "endbatch" => fin (step m .endBatch)
    | "skip" => fin (step m .commitSkipIndexes)
    | "finalize" => fin (step m (.finalizeIndexes (getN kv "ft")))
    | "vacuum" => fin (step m (.vacuum (getN kv "ftc") (getN kv "ftr")))
    | "doctor" => fin (step m (.doctor (getB kv "vac") (getB kv "rt") (getB kv "rl") (getB kv "rv") (getN kv "ftd") (getN kv "fta") (getN kv "ftb") (getN kv "fto")))
    | "ticket" =>
      match getI kv "seq" with
      | some s => fin (step m (.ticket s (getN kv "cap") (getB kv "blank") (getB kv "free")))
      | none => (m, "bad-op")
    | "obs" => (m, obs m)
    | "head" => (m, obsHead m)
    | "next" => (m, toString m.nextFrameId)
    | "byuri" =>
      match rest with
      | [u] => (m, match frameByUri m.frames u with | some f => toString f.id | none => "none")
      | _ => (m, "bad-op")
    | _ => (m, "bad-op")

def coreMain : IO Unit := Mv.runDriver (Mem.create) drvStep

end Mv.Core
