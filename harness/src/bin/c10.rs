//! C10 — every search hit is a valid answer to the query.
//! impl  : Memvid::search on real .mv2 files over random histories (put with/without instant index, commit,
//!         delete, update, reopen) and random query expressions printed from a generated AST;
//! model : drv_c10 (post-engine part of Memvid::search: dispatch, uri/scope filter, parsed.evaluate post-filter,
//!         occurrences, snippet slices, assembly loop, filters-only path) fed with the REAL engine answer
//!         (verif_hooks::tantivy_search_documents), the frame table and the f32 re-sort computed here;
//! oracle: every hit re-evaluated with an independent evaluator over the generated AST + text/range/rank/top_k clauses.
use memvid_core::verif_hooks as vh;
use memvid_core::{Frame, FrameRole, FrameStatus, Memvid, PutOptions, SearchRequest, SearchResponse};
use mvh::*;
use std::collections::BTreeSet;

// ------------------------------------------------------------------------------------------ vocabulary
const WORDS: &[&str] = &["alpha", "beta", "gamma", "delta", "kiwi", "zebra", "quartz", "walnut", "falcon", "running",
    "tables", "café", "über", "network", "memory"];
const ABSENT: &[&str] = &["zzyzx", "qwerty", "nothingness"];
const FILLER: &[&str] = &["lorem", "ipsum", "dolor", "amet", "tempor", "magna", "aliqua", "minim", "veniam", "nostrud",
    "ullamco", "laboris", "nisi", "commodo", "consequat", "duis", "aute", "irure", "velit", "esse", "señor", "naïve"];
const TAGS: &[&str] = &["red", "blue", "Green", "work"];
const LABELS: &[&str] = &["todo", "Done", "note"];
const TRACKS: &[&str] = &["main", "Side"];
/// hierarchical URIs: proper prefixes of each other, sibling prefixes (`a/b` vs `a/bc`, `a` vs `ab`), mixed case
const NESTED_URIS: &[&str] = &["mv2://c10/a", "mv2://c10/a/b", "mv2://c10/a/b/c", "mv2://c10/a/bc", "mv2://c10/ab", "mv2://c10/b",
    "mv2://C10/A/B/d", "mv2://c10"];
/// values for `scope:` / `uri:` terms and request.scope / request.uri: longer than, equal to and shorter than frame URIs
const URI_VALUES: &[&str] = &["mv2://c10/a", "mv2://c10/a/", "mv2://c10/a/b", "mv2://c10/a/b/", "mv2://c10/a/b/c", "mv2://c10/a/b/c/d", "mv2://c10/a/bc",
    "mv2://c10/a/bcd", "mv2://c10/ab", "mv2://c10/abc", "mv2://c10", "mv2://c1", "mv2://c10/b", "MV2://C10/A/B", "mv2://C10/a/B/C", "mv2://c10/A/b/d", "mv2://c10/a/b/d/e"];
const DATES_IN_TEXT: &[&str] = &["2019", "2021-06-15", "2023-11-02", "2020-02-29"];

// ------------------------------------------------------------------------------------------ query AST
#[derive(Clone, Debug, PartialEq)]
enum Ast {
    Word(String),
    Phrase(String),
    Wild(String),
    Field(String, String),
    Date(String, String),
    Not(Box<Ast>),
    And(bool, Box<Ast>, Box<Ast>),
    Or(Box<Ast>, Box<Ast>),
}

fn ast_json(a: &Ast) -> Value {
    match a {
        Ast::Word(w) => json!({"w": w}),
        Ast::Phrase(p) => json!({"p": p}),
        Ast::Wild(p) => json!({"wild": p}),
        Ast::Field(k, v) => json!({"field": k, "value": v}),
        Ast::Date(s, e) => json!({"date": [s, e]}),
        Ast::Not(x) => json!({"not": ast_json(x)}),
        Ast::And(ex, l, r) => json!({"and": [ast_json(l), ast_json(r)], "explicit": ex}),
        Ast::Or(l, r) => json!({"or": [ast_json(l), ast_json(r)]}),
    }
}

fn ast_from(v: &Value) -> Ast {
    if let Some(w) = v.get("w") { return Ast::Word(w.as_str().unwrap().into()); }
    if let Some(w) = v.get("p") { return Ast::Phrase(w.as_str().unwrap().into()); }
    if let Some(w) = v.get("wild") { return Ast::Wild(w.as_str().unwrap().into()); }
    if let Some(k) = v.get("field") { return Ast::Field(k.as_str().unwrap().into(), v["value"].as_str().unwrap().into()); }
    if let Some(d) = v.get("date") { return Ast::Date(d[0].as_str().unwrap().into(), d[1].as_str().unwrap().into()); }
    if let Some(x) = v.get("not") { return Ast::Not(Box::new(ast_from(x))); }
    if let Some(x) = v.get("and") { return Ast::And(v["explicit"].as_bool().unwrap_or(false), Box::new(ast_from(&x[0])), Box::new(ast_from(&x[1]))); }
    let x = &v["or"];
    Ast::Or(Box::new(ast_from(&x[0])), Box::new(ast_from(&x[1])))
}

/// query text of an AST: NOT > AND (explicit or by juxtaposition) > OR; parentheses only where needed
fn print_ast(a: &Ast, ctx: u8, out: &mut Vec<String>) {
    match a {
        Ast::Word(w) => out.push(w.clone()),
        Ast::Phrase(p) => out.push(format!("\"{p}\"")),
        Ast::Wild(p) => out.push(p.clone()),
        Ast::Field(k, v) => out.push(format!("{k}:{v}")),
        Ast::Date(s, e) => out.push(format!("date:[{s} TO {e}]")),
        Ast::Not(x) => { out.push("NOT".into()); print_ast(x, 2, out); }
        Ast::And(ex, l, r) => {
            if ctx > 1 { out.push("(".into()); }
            print_ast(l, 1, out);
            if *ex { out.push("AND".into()); }
            print_ast(r, 2, out);
            if ctx > 1 { out.push(")".into()); }
        }
        Ast::Or(l, r) => {
            if ctx > 0 { out.push("(".into()); }
            print_ast(l, 0, out);
            out.push("OR".into());
            print_ast(r, 1, out);
            if ctx > 0 { out.push(")".into()); }
        }
    }
}
fn query_text(a: &Ast) -> String { let mut v = vec![]; print_ast(a, 0, &mut v); v.join(" ") }

// ---- independent evaluator (the meaning of the AST; nothing of memvid's parser/evaluator is used)
fn days_from_civil(y: i64, m: i64, d: i64) -> i64 {
    let y = if m <= 2 { y - 1 } else { y };
    let era = if y >= 0 { y } else { y - 399 } / 400;
    let yoe = y - era * 400;
    let mp = (m + 9) % 12;
    let doy = (153 * mp + 2) / 5 + d - 1;
    let doe = yoe * 365 + yoe / 4 - yoe / 100 + doy;
    era * 146097 + doe - 719468
}
fn dim(y: i64, m: i64) -> i64 {
    match m { 2 => if (y % 4 == 0 && y % 100 != 0) || y % 400 == 0 { 29 } else { 28 }, 4 | 6 | 9 | 11 => 30, _ => 31 }
}
/// "YYYY-MM-DD" | "YYYY-MM" | "YYYY" at 00:00 UTC; `*`/anything else = no bound / not a date
fn date_ts(s: &str) -> Option<i64> {
    let parts: Vec<&str> = s.split('-').collect();
    let num = |x: &str| -> Option<i64> { if !x.is_empty() && x.bytes().all(|b| b.is_ascii_digit()) { x.parse().ok() } else { None } };
    let (y, m, d) = match parts.len() {
        3 => (num(parts[0])?, num(parts[1])?, num(parts[2])?),
        2 => (num(parts[0])?, num(parts[1])?, 1),
        1 => { if s.len() != 4 { return None; } (num(s)?, 1, 1) }
        _ => return None,
    };
    if !(1..=12).contains(&m) || d < 1 || d > dim(y, m) || y > 9999 { return None; }
    Some(days_from_civil(y, m, d) * 86400)
}
fn glob(p: &[char], h: &[char]) -> bool {
    match p.split_first() {
        None => h.is_empty(),
        Some((&'*', rest)) => {
            let mut i = 0;
            loop {
                if glob(rest, &h[i..]) { return true; }
                if i >= h.len() || h[i] == '\n' { return false; }
                i += 1;
            }
        }
        Some((&c, rest)) => match h.split_first() {
            None => false,
            Some((&x, hr)) => (if c == '?' { x != '\n' } else { x == c }) && glob(rest, hr),
        },
    }
}
fn eval_ast(a: &Ast, f: &Frame, content_lower: &str) -> bool {
    let ieq = |a: &str, b: &str| a.to_ascii_lowercase() == b.to_ascii_lowercase();
    match a {
        Ast::Word(w) | Ast::Phrase(w) => content_lower.contains(&w.to_ascii_lowercase()),
        Ast::Wild(p) => glob(&p.to_ascii_lowercase().chars().collect::<Vec<_>>(), &content_lower.chars().collect::<Vec<_>>()),
        Ast::Field(k, v) => match k.as_str() {
            "uri" => f.uri.as_deref().is_some_and(|u| ieq(u, v)),
            // `scope:` = the frame's URI starts with the value, ignoring ASCII case
            "scope" => f.uri.as_deref().is_some_and(|u| u.to_ascii_lowercase().starts_with(&v.to_ascii_lowercase())),
            "track" => f.track.as_deref().is_some_and(|t| ieq(t, v)),
            "tag" => f.tags.iter().any(|t| ieq(t, v)),
            "label" => f.labels.iter().any(|t| ieq(t, v)),
            _ => false,
        },
        Ast::Date(s, e) => {
            let (s, e) = (date_ts(s), date_ts(e));
            if s.is_none() && e.is_none() { return true; }
            let mut cands = vec![f.timestamp];
            for d in &f.content_dates { if let Some(t) = date_ts(d) { cands.push(t); } }
            cands.iter().any(|t| s.map_or(true, |s| *t >= s) && e.map_or(true, |e| *t <= e))
        }
        Ast::Not(x) => !eval_ast(x, f, content_lower),
        Ast::And(_, l, r) => eval_ast(l, f, content_lower) && eval_ast(r, f, content_lower),
        Ast::Or(l, r) => eval_ast(l, f, content_lower) || eval_ast(r, f, content_lower),
    }
}
/// request-level uri / scope filter as documented: uri = case-insensitive prefix (exact when it names a
/// fragment with '#'), otherwise scope = prefix; uri wins over scope
fn request_filter_ok(uri: &Option<String>, scope: &Option<String>, f: &Frame) -> bool {
    if let Some(u) = uri {
        let Some(fu) = f.uri.as_deref() else { return false };
        if u.contains('#') { fu.to_ascii_lowercase() == u.to_ascii_lowercase() } else { fu.to_ascii_lowercase().starts_with(&u.to_ascii_lowercase()) }
    } else if let Some(s) = scope {
        f.uri.as_deref().is_some_and(|fu| fu.starts_with(s.as_str()))
    } else { true }
}

// ------------------------------------------------------------------------------------------ histories
#[derive(Clone, Debug)]
struct DocSpec { text: String, uri: Option<String>, tags: Vec<String>, labels: Vec<String>, track: Option<String>, ts: i64,
    instant: bool, explicit_text: bool, auto: bool }
#[derive(Clone, Debug)]
struct Req { ast: Ast, top_k: usize, snippet: usize, uri: Option<String>, scope: Option<String>, cursor: Option<String>, follow: bool }
#[derive(Clone, Debug)]
enum Op { Put(DocSpec), Commit, CommitSkip, Delete(usize), Update(usize, DocSpec), Reopen, Search(Req) }

fn doc_json(d: &DocSpec) -> Value {
    json!({"text": d.text, "uri": d.uri, "tags": d.tags, "labels": d.labels, "track": d.track, "ts": d.ts,
        "instant": d.instant, "explicit_text": d.explicit_text, "auto": d.auto})
}
fn doc_from(v: &Value) -> DocSpec {
    let strs = |x: &Value| x.as_array().map(|a| a.iter().map(|s| s.as_str().unwrap().to_string()).collect()).unwrap_or_default();
    DocSpec { text: v["text"].as_str().unwrap().into(), uri: v["uri"].as_str().map(String::from), tags: strs(&v["tags"]), labels: strs(&v["labels"]),
        track: v["track"].as_str().map(String::from), ts: v["ts"].as_i64().unwrap(), instant: v["instant"].as_bool().unwrap(),
        explicit_text: v["explicit_text"].as_bool().unwrap(), auto: v["auto"].as_bool().unwrap() }
}
fn req_json(r: &Req) -> Value {
    json!({"ast": ast_json(&r.ast), "query": query_text(&r.ast), "top_k": r.top_k, "snippet": r.snippet, "uri": r.uri, "scope": r.scope,
        "cursor": r.cursor, "follow": r.follow})
}
fn req_from(v: &Value) -> Req {
    Req { ast: ast_from(&v["ast"]), top_k: v["top_k"].as_u64().unwrap() as usize, snippet: v["snippet"].as_u64().unwrap() as usize,
        uri: v["uri"].as_str().map(String::from), scope: v["scope"].as_str().map(String::from), cursor: v["cursor"].as_str().map(String::from),
        follow: v["follow"].as_bool().unwrap_or(false) }
}
fn op_json(o: &Op) -> Value {
    match o {
        Op::Put(d) => json!({"op": "put", "doc": doc_json(d)}),
        Op::Commit => json!({"op": "commit"}),
        Op::CommitSkip => json!({"op": "commit_skip_indexes"}),
        Op::Delete(i) => json!({"op": "delete", "pick": i}),
        Op::Update(i, d) => json!({"op": "update", "pick": i, "doc": doc_json(d)}),
        Op::Reopen => json!({"op": "reopen"}),
        Op::Search(r) => json!({"op": "search", "req": req_json(r)}),
    }
}
fn op_from(v: &Value) -> Op {
    match v["op"].as_str().unwrap() {
        "put" => Op::Put(doc_from(&v["doc"])),
        "commit" => Op::Commit,
        "commit_skip_indexes" => Op::CommitSkip,
        "delete" => Op::Delete(v["pick"].as_u64().unwrap() as usize),
        "update" => Op::Update(v["pick"].as_u64().unwrap() as usize, doc_from(&v["doc"])),
        "reopen" => Op::Reopen,
        _ => Op::Search(req_from(&v["req"])),
    }
}

fn gen_text(rng: &mut Rng, nwords: usize) -> String {
    let mut s = String::new();
    let mut since_dot = 0;
    for i in 0..nwords {
        let w = if rng.chance(1, 3) { *rng.pick(WORDS) } else if rng.chance(1, 40) { *rng.pick(DATES_IN_TEXT) } else { *rng.pick(FILLER) };
        if since_dot == 0 && rng.chance(1, 2) {
            let mut c = w.chars();
            let first = c.next().unwrap();
            s.extend(first.to_uppercase());
            s.push_str(c.as_str());
        } else { s.push_str(w); }
        since_dot += 1;
        if i + 1 < nwords {
            if since_dot > 3 && rng.chance(1, 7) { s.push_str(*rng.pick(&[". ", "! ", "? ", ", "])); since_dot = 0; } else { s.push(' '); }
        }
    }
    s
}

fn gen_doc(rng: &mut Rng, n: usize) -> DocSpec {
    let nwords = match rng.below(10) { 0 => rng.usize(1, 3), 1..=5 => rng.usize(4, 20), 6..=8 => rng.usize(30, 90), _ => rng.usize(250, 700) };
    let bare = rng.chance(1, 4);
    let pick_some = |rng: &mut Rng, xs: &[&str], p: u64| -> Vec<String> { xs.iter().filter(|_| rng.chance(1, p)).map(|s| s.to_string()).collect() };
    DocSpec {
        text: gen_text(rng, nwords),
        uri: if bare || rng.chance(1, 6) { None } else if rng.chance(1, 2) { Some(rng.pick(NESTED_URIS).to_string()) }
            else { Some(format!("mv2://c10/{}/doc{}", rng.pick(&["a", "b", "ab", "a/b"]), n)) },
        tags: if bare { vec![] } else { pick_some(rng, TAGS, 3) },
        labels: if bare { vec![] } else { pick_some(rng, LABELS, 4) },
        track: if bare || rng.chance(2, 3) { None } else { Some(rng.pick(TRACKS).to_string()) },
        ts: 1_546_300_800 + rng.i64(0, 5 * 365 * 86400),
        instant: bare || rng.chance(1, 2),
        explicit_text: bare || rng.chance(2, 3),
        auto: !bare && rng.chance(1, 4),
    }
}

fn gen_leaf_field(rng: &mut Rng, uris: &[String]) -> Ast {
    match rng.below(4) {
        0 => Ast::Field("scope".into(), if rng.chance(1, 4) { "mv2://frames".into() } else { rng.pick(URI_VALUES).to_string() }),
        1 => Ast::Field("uri".into(), if uris.is_empty() { "mv2://frames/0".into() } else if rng.chance(1, 3) { rng.pick(URI_VALUES).to_string() } else { rng.pick(uris).clone() }),
        2 => Ast::Field("tag".into(), rng.pick(TAGS).to_string()),
        _ => Ast::Date("2018".into(), "*".into()),
    }
}
fn gen_leaf(rng: &mut Rng, uris: &[String]) -> Ast {
    match rng.below(21) {
        0..=7 => Ast::Word(if rng.chance(1, 8) { rng.pick(ABSENT).to_string() } else {
            let w = rng.pick(WORDS).to_string();
            if rng.chance(1, 6) { w.to_uppercase() } else if rng.chance(1, 8) { w.chars().take(3).collect() } else { w }
        }),
        8..=9 => Ast::Phrase(format!("{} {}", if rng.bool() { rng.pick(WORDS) } else { rng.pick(FILLER) }, if rng.bool() { rng.pick(WORDS) } else { rng.pick(FILLER) })),
        10 => Ast::Field("uri".into(), if uris.is_empty() || rng.chance(1, 8) { "mv2://c10/a/doc99".into() } else if rng.chance(1, 3) { rng.pick(URI_VALUES).to_string() } else {
            let u = rng.pick(uris).clone(); if rng.chance(1, 4) { u.to_uppercase() } else { u } }),
        11 | 19 => Ast::Field("scope".into(), if rng.chance(1, 5) { (*rng.pick(&["mv2://frames", "mv2://none", "mv2://frames/1"])).into() } else {
            let v = rng.pick(URI_VALUES).to_string(); if rng.chance(1, 5) { v.to_uppercase() } else { v } }),
        12..=13 => Ast::Field("tag".into(), { let t = rng.pick(TAGS).to_string(); if rng.chance(1, 3) { t.to_uppercase() } else { t } }),
        14 => Ast::Field("label".into(), { let t = rng.pick(LABELS).to_string(); if rng.chance(1, 3) { t.to_lowercase() } else { t } }),
        15 => Ast::Field("track".into(), rng.pick(TRACKS).to_lowercase()),
        16..=18 => {
            let d = |rng: &mut Rng| -> String { match rng.below(4) { 0 => "*".into(), 1 => format!("{}", rng.usize(2018, 2025)),
                2 => format!("{}-{:02}", rng.usize(2018, 2025), rng.usize(1, 12)), _ => format!("{}-{:02}-{:02}", rng.usize(2018, 2025), rng.usize(1, 12), rng.usize(1, 28)) } };
            let (mut s, e) = (d(rng), d(rng));
            if s == "*" && e == "*" { s = "2019".into(); }     // `date:[* TO *]` panics inside Tantivy's RangeQuery (not a C10 matter)
            Ast::Date(s, e)
        }
        _ => Ast::Wild((*rng.pick(&["*", "*alpha*", "*kiwi*", "alp*", "?eta*", "*zzyzx*", "*a*"])).into()),
    }
}
fn gen_ast(rng: &mut Rng, depth: usize, uris: &[String]) -> Ast {
    if depth == 0 || rng.chance(2, 5) { return gen_leaf(rng, uris); }
    match rng.below(10) {
        0..=4 => Ast::And(rng.chance(1, 3), Box::new(gen_ast(rng, depth - 1, uris)), Box::new(gen_ast(rng, depth - 1, uris))),
        5..=7 => Ast::Or(Box::new(gen_ast(rng, depth - 1, uris)), Box::new(gen_ast(rng, depth - 1, uris))),
        _ => Ast::Not(Box::new(gen_ast(rng, depth - 1, uris))),
    }
}
fn gen_req(rng: &mut Rng, uris: &[String]) -> Req {
    let ast = match rng.below(12) {
        // shapes that reach the engine-less paths: seedless wildcard + field term (filters only)
        0 => Ast::And(false, Box::new(Ast::Wild((*rng.pick(&["*", "*a*", "*alpha*"])).into())), Box::new(gen_leaf_field(rng, uris))),
        1 => Ast::And(false, Box::new(gen_leaf_field(rng, uris)), Box::new(Ast::Not(Box::new(Ast::Wild("*zzyzx*".into()))))),
        _ => gen_ast(rng, 3, uris),
    };
    let uri = if rng.chance(1, 5) { Some(if uris.is_empty() || rng.chance(1, 4) { (*rng.pick(&["mv2://c10/", "MV2://C10/AB", "mv2://frames/1", "mv2://c10/a/doc1#x", "mv2://c10/a/b#page-1"])).to_string() }
        else if rng.chance(1, 2) { rng.pick(URI_VALUES).to_string() } else { rng.pick(uris).clone() }) } else { None };
    let scope = if rng.chance(1, 5) { Some(if rng.chance(1, 4) { (*rng.pick(&["mv2://frames", "mv2://c10/"])).to_string() } else { rng.pick(URI_VALUES).to_string() }) } else { None };
    let cursor = match rng.below(14) { 0 => Some("0".into()), 1 => Some(format!("{}", rng.usize(1, 4))), 2 => Some("abc".into()), 3 => Some(" 1 ".into()), 4 => Some("999".into()), _ => None };
    Req { ast, top_k: *rng.pick(&[0usize, 1, 1, 2, 3, 5, 10, 10, 50]), snippet: *rng.pick(&[0usize, 40, 80, 120, 200]), uri, scope, cursor, follow: rng.chance(1, 3) }
}

fn gen_history(rng: &mut Rng) -> Vec<Op> {
    // puts and commits cost seconds (Tantivy writer + staging copy), searches cost milliseconds: few state
    // changes, many searches in each of the situations the property names
    let mut ops = vec![];
    let mut uris: Vec<String> = vec![];
    let mut ndocs = 0usize;
    let put = |rng: &mut Rng, ops: &mut Vec<Op>, uris: &mut Vec<String>, ndocs: &mut usize| {
        let d = gen_doc(rng, *ndocs);
        uris.push(d.uri.clone().unwrap_or_else(|| format!("mv2://frames/{}", *ndocs)));
        *ndocs += 1;
        ops.push(Op::Put(d));
    };
    let searches = |rng: &mut Rng, ops: &mut Vec<Op>, uris: &[String], n: usize| { for _ in 0..n { ops.push(Op::Search(gen_req(rng, uris))); } };
    for _ in 0..rng.usize(4, 8) { put(rng, &mut ops, &mut uris, &mut ndocs); }
    if rng.chance(1, 3) { let n = rng.usize(2, 5); searches(rng, &mut ops, &uris, n); }      // nothing committed yet
    ops.push(Op::Commit);
    let n = rng.usize(8, 14); searches(rng, &mut ops, &uris, n);
    // uncommitted changes on top of a committed state
    for _ in 0..rng.usize(1, 3) { put(rng, &mut ops, &mut uris, &mut ndocs); }
    if rng.chance(2, 3) { ops.push(Op::Delete(rng.usize(0, 50))); }
    if rng.chance(2, 3) { let d = gen_doc(rng, ndocs); ops.push(Op::Update(rng.usize(0, 50), d)); }
    let n = rng.usize(6, 10); searches(rng, &mut ops, &uris, n);
    if rng.chance(1, 4) { ops.push(Op::Reopen); let n = rng.usize(3, 6); searches(rng, &mut ops, &uris, n); }   // reopen replays the WAL
    if rng.chance(1, 3) { ops.push(Op::CommitSkip); let n = rng.usize(4, 8); searches(rng, &mut ops, &uris, n); }
    ops.push(Op::Commit);
    let n = rng.usize(8, 14); searches(rng, &mut ops, &uris, n);
    ops.push(Op::Reopen);
    let n = rng.usize(8, 14); searches(rng, &mut ops, &uris, n);
    ops
}

// ------------------------------------------------------------------------------------------ running
fn put_opts(d: &DocSpec) -> PutOptions {
    PutOptions { uri: d.uri.clone(), search_text: if d.explicit_text { Some(d.text.clone()) } else { None }, timestamp: Some(d.ts),
        tags: d.tags.clone(), labels: d.labels.clone(), track: d.track.clone(),
        auto_tag: d.auto, extract_dates: d.auto, extract_triplets: false, instant_index: d.instant, ..Default::default() }
}

fn hx(s: &str) -> String { hexw(s.as_bytes()) }
fn hx_opt(s: Option<&str>) -> String { s.map(hx).unwrap_or_else(|| "~".into()) }
fn hx_list(v: &[String]) -> String { if v.is_empty() { "_".into() } else { v.iter().map(|s| hx(s)).collect::<Vec<_>>().join(",") } }
fn fnv1a(b: &[u8]) -> u64 { b.iter().fold(14695981039346656037u64, |h, x| (h ^ *x as u64).wrapping_mul(1099511628211)) }

fn classify_err(e: &str) -> String {
    let m = [("Lexical index is not enabled", "err lex-not-enabled"), ("at least one search term", "err no-terms"),
        ("unterminated quoted string", "err invalid-query unterminated-quote"), ("date range must be in format", "err invalid-query bad-date-range"),
        ("unterminated date range", "err invalid-query unterminated-date-range"), ("expected ')'", "err invalid-query expected-rparen"),
        ("unexpected token", "err invalid-query unexpected-token"), ("unexpected end of query", "err invalid-query unexpected-end"),
        ("unsupported field", "err invalid-query unsupported-field"), ("unexpected field for date range", "err invalid-query unexpected-date-field"),
        ("cursor not an integer", "err cursor notint"), ("cursor beyond total hits", "err cursor beyond")];
    for (k, v) in m { if e.contains(k) { return v.to_string(); } }
    format!("err other {e}")
}

fn canon_resp(r: &SearchResponse) -> String {
    let eng = match format!("{:?}", r.engine).as_str() { "Tantivy" => "T", "LexFallback" => "L", _ => "?" };
    let hits = if r.hits.is_empty() { "-".to_string() } else {
        r.hits.iter().map(|h| {
            let cr = h.chunk_range.unwrap_or((usize::MAX, usize::MAX));
            let ct = h.chunk_text.clone().unwrap_or_default();
            format!("{}:{}:{}:{}:{}:{}:{}:{}:{}:{}", h.rank, h.frame_id, h.range.0, h.range.1, h.matches, cr.0, cr.1, hx(&h.text), ct.len(), fnv1a(ct.as_bytes()))
        }).collect::<Vec<_>>().join(";")
    };
    format!("ok eng={eng} total={} next={} stale={} hits={hits}", r.total_hits, r.next_cursor.clone().unwrap_or("none".into()), r.stale_index_skips)
}

struct Ctx<'a> { drv: &'a mut Option<Driver>, sum: &'a mut Summary, verbose: bool, table: Vec<String>, failed: bool }

static T_PUT: std::sync::atomic::AtomicU64 = std::sync::atomic::AtomicU64::new(0);
static T_COMMIT: std::sync::atomic::AtomicU64 = std::sync::atomic::AtomicU64::new(0);
static T_SEARCH: std::sync::atomic::AtomicU64 = std::sync::atomic::AtomicU64::new(0);
static T_MODEL: std::sync::atomic::AtomicU64 = std::sync::atomic::AtomicU64::new(0);
static T_OPEN: std::sync::atomic::AtomicU64 = std::sync::atomic::AtomicU64::new(0);
fn tick(c: &std::sync::atomic::AtomicU64, t: std::time::Instant) { c.fetch_add(t.elapsed().as_millis() as u64, std::sync::atomic::Ordering::Relaxed); }

fn frame_lines(mem: &mut Memvid, frames: &[Frame]) -> Vec<String> {
    frames.iter().map(|f| {
        let st = match f.status { FrameStatus::Active => "a", FrameStatus::Superseded => "s", FrameStatus::Deleted => "d" };
        let chunk = match vh::resolve_chunk_context(mem, f) { Ok((s, e, t)) => format!("{}:{}:{}", s, e - s, hx(&t)), Err(_) => "~".into() };
        let fs = match vh::frame_search_text(mem, f) { Ok(t) => hx(&t), Err(_) => "~".into() };
        format!("frame {st} {} {} {} {} {} {} {} {chunk} {fs}", hx_opt(f.uri.as_deref()), hx_opt(f.track.as_deref()), hx_list(&f.tags), hx_list(&f.labels),
            f.timestamp, hx_list(&f.content_dates), hx_opt(f.search_text.as_deref()))
    }).collect()
}

fn mk_request(r: &Req, query: &str, cursor: Option<String>) -> SearchRequest {
    SearchRequest { query: query.to_string(), top_k: r.top_k, snippet_chars: r.snippet, uri: r.uri.clone(), scope: r.scope.clone(), cursor,
        as_of_frame: None, as_of_ts: None, no_sketch: true, acl_context: None, acl_enforcement_mode: Default::default() }
}

/// one search: real code, oracle, model.  Returns next_cursor of the real response.
fn check_search(mem: &mut Memvid, r: &Req, cursor: Option<String>, situation: &str, case: &Value, cx: &mut Ctx) -> Option<String> {
    let query = query_text(&r.ast);
    let frames = vh::verif_frames(mem);
    let request = mk_request(r, &query, cursor.clone());
    let what_req = format!("[{situation}] query `{query}` top_k={} snippet={} uri={:?} scope={:?} cursor={:?}", r.top_k, r.snippet, r.uri, r.scope, cursor);
    let t0 = std::time::Instant::now();
    let res = {
        let m = std::panic::AssertUnwindSafe(&mut *mem);
        guarded(move || { let m = m; m.0.search(request) })
    };
    tick(&T_SEARCH, t0);
    let res = match res {
        Ok(x) => x,
        Err(p) => { cx.sum.branch("search-panicked"); cx.sum.notes.push(format!("search panicked: {what_req}: {p}")); return None; }
    };
    if cx.verbose { println!("{what_req}\n  impl : {}", match &res { Ok(x) => canon_resp(x), Err(e) => format!("Err({e})") }); }
    cx.sum.branch(&format!("situation-{situation}"));
    // ---------------------------------------------------------------- property oracle (independent of the model)
    let mut nontrivial = false;
    if let Ok(resp) = &res {
        let k = r.top_k.max(1);
        if resp.hits.len() > k {
            cx.sum.oracle_violation("more-hits-than-top-k", &format!("{what_req}: {} hits", resp.hits.len()), case.clone()); cx.failed = true; }
        if resp.hits.iter().enumerate().any(|(i, h)| h.rank != i + 1) {
            cx.sum.oracle_violation("ranks-not-1-to-n", &format!("{what_req}: ranks {:?}", resp.hits.iter().map(|h| h.rank).collect::<Vec<_>>()), case.clone()); cx.failed = true; }
        let eng = format!("{:?}", resp.engine);
        if resp.stale_index_skips > 0 { cx.sum.branch("engine-returned-stale-frame-id"); }
        if !resp.hits.is_empty() { cx.sum.branch(if eng == "Tantivy" { "hits-from-tantivy-path" } else { "hits-from-filters-only-path" }); nontrivial = true; }
        for h in &resp.hits {
            let Some(f) = frames.get(h.frame_id as usize) else {
                cx.sum.oracle_violation("hit-names-missing-frame", &format!("{what_req}: frame {}", h.frame_id), case.clone()); cx.failed = true; continue; };
            if f.status != FrameStatus::Active {
                cx.sum.oracle_violation("hit-names-inactive-frame", &format!("{what_req}: hit {} names frame {} whose status is {:?} (engine {eng})", h.rank, h.frame_id, f.status), case.clone()); cx.failed = true; }
            let content = match (&f.search_text, &h.chunk_text) { (Some(t), _) => t.to_ascii_lowercase(), (None, Some(c)) => c.to_ascii_lowercase(), _ => String::new() };
            if !eval_ast(&r.ast, f, &content) {
                cx.sum.oracle_violation("hit-does-not-satisfy-query", &format!("{what_req}: frame {} (uri {:?}, tags {:?}, ts {}) does not satisfy the expression", h.frame_id, f.uri, f.tags, f.timestamp), case.clone()); cx.failed = true; }
            if !request_filter_ok(&r.uri, &r.scope, f) {
                cx.sum.oracle_violation("hit-outside-uri-scope-filter", &format!("{what_req}: frame {} has uri {:?} (engine {eng})", h.frame_id, f.uri), case.clone()); cx.failed = true; }
            match (&h.chunk_range, &h.chunk_text) {
                (Some(cr), Some(ct)) => {
                    let inside = cr.0 <= h.range.0 && h.range.0 <= h.range.1 && h.range.1 <= cr.1;
                    if !inside { cx.sum.oracle_violation("range-outside-chunk-range", &format!("{what_req}: range {:?} chunk_range {:?}", h.range, cr), case.clone()); cx.failed = true; }
                    let slice = if inside { ct.as_bytes().get(h.range.0 - cr.0..h.range.1 - cr.0) } else { None };
                    if slice != Some(h.text.as_bytes()) {
                        cx.sum.oracle_violation("text-is-not-content-at-range", &format!("{what_req}: frame {} range {:?}", h.frame_id, h.range), case.clone()); cx.failed = true; }
                    // the chunk text itself is stored content of the frame (or of its parent document)
                    let owner = if f.role == FrameRole::DocumentChunk { f.parent_id.unwrap_or(h.frame_id) } else { h.frame_id };
                    match mem.frame_text_by_id(owner) {
                        Ok(full) => {
                            if full.as_bytes().get(h.range.0..h.range.1) == Some(h.text.as_bytes()) { cx.sum.branch("text-equals-frame-content-at-global-range"); }
                            else if full.contains(h.text.as_str()) { cx.sum.branch("text-found-in-frame-content-at-other-offset"); }
                            else { cx.sum.branch("text-not-in-frame-text-by-id"); }
                        }
                        Err(_) => cx.sum.branch("frame-text-by-id-failed"),
                    }
                }
                _ => { cx.sum.oracle_violation("hit-without-chunk-range", &what_req, case.clone()); cx.failed = true; }
            }
        }
    } else { cx.sum.branch("search-returned-error"); }
    // ---------------------------------------------------------------- model
    let imp = match &res { Ok(x) => canon_resp(x), Err(e) => classify_err(&e.to_string()) };
    let t_model = std::time::Instant::now();
    if cx.drv.is_some() {
        let lines = frame_lines(mem, &frames);
        let d = cx.drv.as_mut().unwrap();
        if lines != cx.table {
            d.ask("reset");
            for l in &lines { let a = d.ask(l); if !a.starts_with("ok") { cx.sum.notes.push(format!("driver rejected frame line: {a}")); } }
            cx.table = lines;
        }
        // candidate filter: only the date-range stage can be active in this harness (no as_of, no sketches)
        let stage: Option<Option<Vec<u64>>> = match mem.verif_date_range_frame_ids(&query) {
            Err(_) | Ok(None) => Some(None),
            Ok(Some((true, _))) => None,
            Ok(Some((false, Some(ids)))) => if ids.is_empty() { None } else { Some(Some(ids.into_iter().collect::<BTreeSet<_>>().into_iter().collect())) },
            Ok(Some((false, None))) => Some(None),
        };
        let stage_s = match &stage { None => "empty".to_string(), Some(None) => "all".into(), Some(Some(ids)) => format!("ids:{}", ids.iter().map(|i| i.to_string()).collect::<Vec<_>>().join(",")) };
        let offset_hint = cursor.as_deref().and_then(|c| c.parse::<usize>().ok()).unwrap_or(0);
        let mut doc_limit = (r.top_k.max(1) + offset_hint).saturating_mul(4).max(20);
        if let Some(Some(ids)) = &stage { doc_limit = doc_limit.min(ids.len().max(1)); }
        let uri_f = r.uri.clone();
        let scope_f = if uri_f.is_some() { None } else { r.scope.clone() };
        let filt: Option<Vec<u64>> = stage.clone().flatten();
        let eng = {
            let m = std::panic::AssertUnwindSafe(&*mem);
            let q = query.clone();
            guarded(move || { let m = m; vh::tantivy_search_documents(m.0, &q, uri_f.as_deref(), scope_f.as_deref(), filt.as_deref(), doc_limit) })
        };
        let engine: Option<Vec<(u64, f32)>> = match eng { Ok(Some(Ok(v))) => Some(v), Ok(Some(Err(_))) => { cx.sum.branch("engine-call-failed"); None }, Ok(None) => None,
            Err(_) => { cx.sum.branch("engine-hook-panicked"); return None; } };
        let engine_s = match &engine { None => "none".to_string(), Some(v) if v.is_empty() => "-".into(), Some(v) => v.iter().map(|(i, _)| i.to_string()).collect::<Vec<_>>().join(",") };
        // analyser output per query token
        let stems_s = match vh::query_text_tokens(&query) {
            Ok(toks) => {
                let set: BTreeSet<String> = toks.into_iter().filter(|t| !t.trim().is_empty()).map(|t| t.to_ascii_lowercase()).collect();
                if set.is_empty() { "_".to_string() } else {
                    set.iter().map(|t| format!("{}={}", hx(t), vh::analysed_tokens(mem, &[t.clone()]).unwrap_or_default().iter().map(|s| hx(s)).collect::<Vec<_>>().join("+"))).collect::<Vec<_>>().join(",")
                }
            }
            Err(_) => "_".into(),
        };
        let (has_lex, lex_loaded) = vh::search_dispatch_state(mem);
        // f32 recency re-sort of the model's `evaluated` list, computed here with the formula of the source
        let mut perm_s = "-".to_string();
        if let Some(hits) = &engine { if !hits.is_empty() {
            let a = d.ask(&format!("ev {} {} {} {} {} {engine_s} {stems_s}", r.top_k, r.snippet, hx_opt(r.uri.as_deref()), hx_opt(r.scope.as_deref()), hx(&query)));
            if let Some(rest) = a.strip_prefix("ev ") {
                let ids: Vec<u64> = rest.split(' ').next().filter(|s| *s != "-").map(|s| s.split(',').filter_map(|x| x.parse().ok()).collect()).unwrap_or_default();
                let keep: BTreeSet<u64> = ids.iter().copied().collect();
                let evaluated: Vec<(u64, f32)> = hits.iter().filter(|(i, _)| keep.contains(i)).cloned().collect();
                if evaluated.iter().map(|e| e.0).collect::<Vec<_>>() == ids && evaluated.len() > 1 {
                    let ts = |id: u64| -> i64 { frames.get(id as usize).map(|f| memvid_core::memvid::search::parse_content_date_to_timestamp(&f.content_dates).unwrap_or(f.timestamp)).unwrap_or(0) };
                    let max_ts = evaluated.iter().map(|(i, _)| ts(*i)).max().unwrap_or(0);
                    let mut with: Vec<(f32, usize)> = evaluated.iter().enumerate().map(|(pos, (id, bm25))| {
                        let age_seconds = (max_ts - ts(*id)).max(0) as f32;
                        let decay_factor = 0.00000802;
                        let recency_boost = (-decay_factor * age_seconds).exp();
                        (bm25 * 0.4 + (bm25 * recency_boost * 0.6), pos)
                    }).collect();
                    with.sort_by(|a, b| b.0.partial_cmp(&a.0).unwrap_or(std::cmp::Ordering::Equal));
                    perm_s = with.iter().map(|(_, p)| p.to_string()).collect::<Vec<_>>().join(",");
                    if with.iter().enumerate().any(|(i, (_, p))| i != *p) { cx.sum.branch("recency-resort-changed-order"); }
                }
                if ids.len() < hits.len() { cx.sum.branch("post-filter-culled-an-engine-hit"); }
            }
        } }
        let line = format!("search {} {} {} {} {} {} {stage_s} {engine_s} {} {} {stems_s} {perm_s}", r.top_k, r.snippet, hx_opt(r.uri.as_deref()), hx_opt(r.scope.as_deref()),
            hx_opt(cursor.as_deref()), hx(&query), has_lex as u8, lex_loaded as u8);
        let model = d.ask(&line);
        if cx.verbose { println!("  model: {model}\n  engine={engine_s} stage={stage_s} stems={stems_s} perm={perm_s}"); }
        if model != imp {
            cx.sum.disagreement(&what_req, case.clone(), &model, &imp); cx.failed = true;
        }
        if model.starts_with("err unmodelled") { cx.sum.branch("legacy-lex-index-loaded"); }
    }
    tick(&T_MODEL, t_model);
    let canon = format!("{situation}|{query}|{}|{}|{:?}|{:?}|{:?}|{}", r.top_k, r.snippet, r.uri, r.scope, cursor, b3short(imp.as_bytes()));
    cx.sum.case(&canon, nontrivial, || json!({"situation": situation, "query": query, "top_k": r.top_k, "response": imp.chars().take(300).collect::<String>()}));
    res.ok().and_then(|x| x.next_cursor)
}

fn run_history(ops: &[Op], cx: &mut Ctx) {
    let dir = tempfile::tempdir().expect("tempdir");
    let path = dir.path().join("c10.mv2");
    let case = json!({"ops": ops.iter().map(op_json).collect::<Vec<_>>()});
    let mut mem = match Memvid::create(&path) { Ok(m) => m, Err(e) => { cx.sum.notes.push(format!("create failed: {e}")); return; } };
    let _ = mem.enable_lex();
    cx.table = vec!["?".into()];
    let mut pending = false;       // uncommitted mutations
    let mut pending_instant = false;
    let mut reopened = false;
    for op in ops {
        match op {
            Op::Put(d) => { let t0 = std::time::Instant::now(); let pr = mem.put_bytes_with_options(d.text.as_bytes(), put_opts(d)); tick(&T_PUT, t0); match pr { Ok(_) => { pending = true; pending_instant |= d.instant; } Err(e) => cx.sum.notes.push(format!("put failed: {e}")) } }
            Op::Commit => { let t0 = std::time::Instant::now(); let cr = mem.commit(); tick(&T_COMMIT, t0); if let Err(e) = cr { cx.sum.notes.push(format!("commit failed: {e}")); return; } pending = false; pending_instant = false; }
            Op::CommitSkip => {
                // bulk-ingestion commit: frames and payloads are persisted, no index is rebuilt (the caller is expected to commit() later)
                if let Err(e) = mem.commit_skip_indexes() { cx.sum.notes.push(format!("commit_skip_indexes failed: {e}")); return; }
                pending = false; pending_instant = false; cx.sum.branch("history-has-commit-skip-indexes");
            }
            Op::Delete(pick) | Op::Update(pick, _) => {
                let active: Vec<u64> = vh::verif_frames(&mem).iter().filter(|f| f.status == FrameStatus::Active && f.role == FrameRole::Document).map(|f| f.id).collect();
                if active.is_empty() { continue; }
                let id = active[pick % active.len()];
                let r = match op { Op::Update(_, d) => { let mut o = put_opts(d); o.uri = None; mem.update_frame(id, Some(d.text.as_bytes().to_vec()), o, None).map(|_| ()) }
                    _ => mem.delete_frame(id).map(|_| ()) };
                match r { Ok(()) => { pending = true; cx.sum.branch(if matches!(op, Op::Delete(_)) { "history-has-delete" } else { "history-has-update" }); } Err(e) => cx.sum.notes.push(format!("delete/update failed: {e}")) }
            }
            Op::Reopen => {
                let t0 = std::time::Instant::now();
                drop(mem);
                let reopened_mem = Memvid::open(&path);
                tick(&T_OPEN, t0);
                mem = match reopened_mem { Ok(m) => m, Err(e) => { cx.sum.notes.push(format!("reopen failed: {e}")); return; } };
                reopened = true; pending = false; pending_instant = false;
            }
            Op::Search(r) => {
                let situation = if pending_instant { "before-commit-instant-index" } else if pending { "before-commit" } else if reopened { "after-reopen" } else { "after-commit" };
                let next = check_search(&mut mem, r, r.cursor.clone(), situation, &case, cx);
                if r.follow { if let Some(c) = next { cx.sum.branch("followed-next-cursor"); check_search(&mut mem, r, Some(c), situation, &case, cx); } }
                if cx.failed { return; }
            }
        }
    }
}

/// hand-written histories that run first: the witnesses of the two defects of `search_with_filters_only`
fn fixed_corpus() -> Vec<(&'static str, Vec<Op>)> {
    let bare = |text: &str, ts: i64| DocSpec { text: text.into(), uri: None, tags: vec![], labels: vec![], track: None, ts, instant: true, explicit_text: true, auto: false };
    let rq = |ast: Ast, uri: Option<&str>, scope: Option<&str>| Req { ast, top_k: 10, snippet: 80, uri: uri.map(String::from), scope: scope.map(String::from), cursor: None, follow: false };
    let star_and = |f: Ast| Ast::And(false, Box::new(Ast::Wild("*".into())), Box::new(f));
    vec![
        ("deleted-frame-through-filters-only", vec![
            Op::Put(bare("alpha one", 1_600_000_000)), Op::Put(bare("alpha two", 1_600_000_100)), Op::Put(bare("beta three", 1_600_000_200)), Op::Commit,
            Op::Search(rq(star_and(Ast::Field("uri".into(), "mv2://frames/1".into())), None, None)),
            Op::Delete(1), Op::Commit,
            Op::Search(rq(Ast::Word("alpha".into()), None, None)),
            Op::Search(rq(star_and(Ast::Field("uri".into(), "mv2://frames/1".into())), None, None)),
            Op::Search(rq(star_and(Ast::Field("scope".into(), "mv2://frames".into())), None, None)),
        ]),
        ("request-uri-ignored-by-filters-only", vec![
            Op::Put(bare("alpha one", 1_600_000_000)), Op::Put(bare("alpha two", 1_600_000_100)), Op::Put(bare("beta three", 1_600_000_200)), Op::Commit,
            Op::Search(rq(star_and(Ast::Field("scope".into(), "mv2://frames".into())), Some("mv2://frames/1"), None)),
            Op::Search(rq(star_and(Ast::Date("2019".into(), "*".into())), None, Some("mv2://frames/2"))),
            Op::Search(rq(Ast::Word("alpha".into()), Some("mv2://frames/1"), None)),
        ]),
        ("inactive-frame-through-tantivy-after-commit-skip-indexes", vec![
            Op::Put(bare("kiwi first", 1_600_000_000)), Op::Put(bare("kiwi second", 1_600_000_100)), Op::Put(bare("kiwi third", 1_600_000_200)), Op::Commit,
            Op::Delete(0), Op::Update(0, bare("kiwi second rewritten", 1_600_000_300)),
            Op::CommitSkip,
            Op::Search(rq(Ast::Word("kiwi".into()), None, None)),
            Op::Commit,
            Op::Search(rq(Ast::Word("kiwi".into()), None, None)),
        ]),
        ("nested-uris", {
            let doc = |text: &str, uri: &str| DocSpec { text: text.into(), uri: Some(uri.into()), tags: vec![], labels: vec![], track: None, ts: 1_600_000_000, instant: false, explicit_text: true, auto: false };
            let sc = |v: &str| Ast::Field("scope".into(), v.into());
            let w = |t: &str| Box::new(Ast::Word(t.into()));
            let mut ops = vec![Op::Put(doc("alpha root", "mv2://c10/n")), Op::Put(doc("alpha child", "mv2://c10/n/x")), Op::Put(doc("alpha grandchild", "mv2://c10/n/x/y")),
                Op::Put(doc("alpha sibling", "mv2://c10/n/xy")), Op::Put(doc("alpha mixed", "mv2://C10/N/x/Z")), Op::Commit];
            for v in ["mv2://c10/n", "mv2://c10/n/x", "mv2://c10/n/x/", "mv2://c10/n/x/y", "mv2://c10/n/x/y/z", "mv2://c10/n/xyz", "MV2://C10/N/X", "mv2://c10/n/x/z/q"] {
                ops.push(Op::Search(rq(sc(v), None, None)));
                ops.push(Op::Search(rq(Ast::And(false, w("alpha"), Box::new(sc(v))), None, None)));
                ops.push(Op::Search(rq(Ast::And(false, w("alpha"), Box::new(Ast::Not(Box::new(sc(v))))), None, None)));
                ops.push(Op::Search(rq(Ast::Field("uri".into(), v.into()), None, None)));
                ops.push(Op::Search(rq(Ast::Word("alpha".into()), None, Some(v))));
                ops.push(Op::Search(rq(Ast::Word("alpha".into()), Some(v), None)));
                ops.push(Op::Search(rq(Ast::And(false, Box::new(sc(v)), Box::new(Ast::Not(Box::new(Ast::Wild("*zzyzx*".into()))))), None, Some(v))));
            }
            ops
        }),
        ("superseded-frame", vec![
            Op::Put(bare("gamma old version", 1_600_000_000)), Op::Put(bare("gamma other", 1_600_000_100)), Op::Commit,
            Op::Update(0, bare("gamma new version", 1_600_000_300)),
            Op::Search(rq(Ast::Word("gamma".into()), None, None)),
            Op::Commit,
            Op::Search(rq(Ast::Word("gamma".into()), None, None)),
            Op::Search(rq(Ast::And(false, Box::new(Ast::Wild("*old*".into())), Box::new(Ast::Field("scope".into(), "mv2://frames".into()))), None, None)),
            Op::Reopen,
            Op::Search(rq(Ast::Word("old".into()), None, None)),
        ]),
    ]
}

fn main() {
    let args = parse_args();
    let mut drv = if args.driver.to_str() == Some("none") { None } else { Some(Driver::spawn(&args.driver).expect("spawn driver")) };
    let mut sum = Summary::new("C10", &args,
        "random histories on real .mv2 files (2-25 puts of 1-700 word texts over a 15-word vocabulary with URIs, tags, labels, tracks, dates, \
         with and without instant index / explicit search text / auto-tagging; commits, deletes, updates, reopen) and random query expressions printed \
         from a generated AST (words, phrases, wildcards, uri:/scope:/tag:/label:/track: terms, date ranges, NOT/AND/implicit AND/OR, depth <= 3) with \
         top_k 0-50, snippet sizes 0-200, request uri/scope filters and cursors; each search is issued before commit (instant index), after commit \
         or after reopen; oracle = independent evaluator over the AST + frame-exists/active, uri/scope, text-at-range, range-in-chunk, top_k, rank clauses; \
         model = Lean post-filter fed with the real engine answer; non-trivial = response with at least one hit; distinct = situation+request+response digest");
    sum.expect_branches(&["hits-from-tantivy-path", "hits-from-filters-only-path", "situation-before-commit-instant-index", "situation-after-commit",
        "situation-after-reopen", "post-filter-culled-an-engine-hit", "history-has-delete", "history-has-update", "search-returned-error", "followed-next-cursor"]);
    let variant = drv.as_mut().map(|d| d.ask("variant")).unwrap_or_default();
    sum.notes.push(format!("model variant: {variant}"));
    if args.mode == "replay" {
        let case = load_replay(args.replay_file.as_ref().expect("replay file"));
        let input = case.get("input").unwrap_or(&case);
        let ops: Vec<Op> = input["ops"].as_array().expect("ops").iter().map(op_from).collect();
        let mut cx = Ctx { drv: &mut drv, sum: &mut sum, verbose: true, table: vec![], failed: false };
        run_history(&ops, &mut cx);
        sum.finish(&args);
    }
    for (name, ops) in fixed_corpus() {
        let mut cx = Ctx { drv: &mut drv, sum: &mut sum, verbose: false, table: vec![], failed: false };
        run_history(&ops, &mut cx);
        sum.branch(&format!("corpus-{name}"));
    }
    let mut rng = Rng::new(args.seed);
    let n = if args.thorough { 60 } else { 5 };
    for _ in 0..n {
        let ops = gen_history(&mut rng);
        let mut cx = Ctx { drv: &mut drv, sum: &mut sum, verbose: false, table: vec![], failed: false };
        run_history(&ops, &mut cx);
        if sum.oracle_violations.len() + sum.disagreements.len() >= 4 { break; }
    }
    if let Some(d) = drv.as_ref() { sum.model_requests = d.requests; }
    let ld = |c: &std::sync::atomic::AtomicU64| c.load(std::sync::atomic::Ordering::Relaxed);
    sum.notes.push(format!("wall ms: put {} commit {} reopen {} search {} model+hooks {}", ld(&T_PUT), ld(&T_COMMIT), ld(&T_OPEN), ld(&T_SEARCH), ld(&T_MODEL)));
    sum.finish(&args);
}
