/-
  C29 — Encrypted capsules round-trip exactly and reject tampering.

  Model: MvModel/Capsule.lean (mirror of /repo/src/encryption/{types,capsule,capsule_stream}.rs);
  lemmas: MvModel/CapsuleLemmas.lean.  The AEAD (AES-256-GCM) and the KDF (Argon2id) are parameters.
  Hypotheses, bundled in `Locked`: one successful call `lock A kdf pw salt base f = ok c`, sizes of
  salt/nonce as in the source, file and capsule shorter than 2^64 bytes, and `AeadIdeal`: the
  ciphertexts `lock` produced decrypt to their plaintexts, are TAG_SIZE longer, and NO other
  (key, nonce, ciphertext) triple authenticates (INT-CTXT idealised to probability 0).

  `unlock true`  = the reader with /verif/fixes/C29.diff applied (partial length prefix = error,
                   plaintext bytes written must equal header.original_size);
  `unlock false` = the reader as it was before that fix.

  What holds and what does not (every item is a theorem below):
    C29_roundtrip, C29_lock_total            unlock (lock f) = f for every valid f (both readers)
    C29_truncation                           every proper prefix of a capsule is rejected (repaired reader)
    C29_counterexample_unfixed               … and the unrepaired reader accepts a cut after a whole chunk
    C29_tamper                               a modified capsule OF THE SAME LENGTH (bit flips anywhere, chunk
                                             reordering, header edits) is rejected unless it differs only in the
                                             8 nonce bytes overwritten by the counter and in reserved[1..3]
    C29_never_wrong_plaintext(_fs)           as long as the header's original_size field is intact, an accepted
                                             capsule yields exactly f, whatever else was changed, any password
    C29_output_is_chunks                     without that proviso the output is still a run of leading chunks
                                             of f or one chunk of f — never fabricated bytes
    C29_full (def) / C29_counterexample      the literal statement is false even for the repaired reader:
    C29_accepts_ignored_header_bytes         - 11 header bytes are unauthenticated AND ignored
    C29_accepts_truncation_with_size_edit    - cut at a frame boundary + rewritten original_size ⇒ prefix of f
    C29_accepts_oneshot_rewrap               - one chunk re-wrapped as a legacy one-shot capsule ⇒ that chunk
-/
import MvModel.CapsuleLemmas
namespace Mv.Capsule
open Mv.Gen.C29

/-- standing hypotheses: one successful `lock` call and the idealised AEAD relative to it -/
structure Locked (A : Aead) (kdf : Kdf) (pw salt base f c : Bytes) : Prop where
  saltLen : salt.length = SALT_SIZE
  baseLen : base.length = NONCE_SIZE
  fLen : f.length < 18446744073709551616
  capLen : c.length < 18446744073709551616
  locked : lock A kdf pw salt base f = .ok c
  ideal : AeadIdeal A (kdf pw salt) base (chunks CHUNK_SIZE f)

section helpers
variable {A : Aead} {kdf : Kdf} {pw salt base f c : Bytes}

theorem Locked.cap_eq (L : Locked A kdf pw salt base f c) :
    c = encodeHeader (lockHeader salt base f) ++ frames A (kdf pw salt) base 0 (chunks CHUNK_SIZE f) :=
  (lock_inv A kdf pw salt base f c L.locked).2.2

theorem Locked.f_ne (L : Locked A kdf pw salt base f c) : f ≠ [] := by
  have := (lock_inv A kdf pw salt base f c L.locked).1
  intro h; subst h; simp at this

theorem Locked.chunks_len (L : Locked A kdf pw salt base f c) :
    (chunks CHUNK_SIZE f).length ≤ 18446744073709551616 := by
  have := chunks_length_le CHUNK_SIZE f
  have := L.fLen
  omega

theorem lockHeader_facts (salt base f : Bytes) (hs : salt.length = SALT_SIZE) (hb : base.length = NONCE_SIZE) :
    (lockHeader salt base f).salt.length = SALT_SIZE ∧ (lockHeader salt base f).nonce.length = NONCE_SIZE ∧
    (lockHeader salt base f).reserved.length = 4 ∧
    (lockHeader salt base f).reserved.head? = some STREAM_FLAG :=
  ⟨hs, hb, (by show LOCK_RESERVED.length = 4; decide), (by show LOCK_RESERVED.head? = some STREAM_FLAG; decide)⟩

theorem chunk_pos : 0 < CHUNK_SIZE := by decide

/-- a prefix list of the chunks whose plaintext has the length of `f` is all chunks -/
theorem prefix_is_all (f : Bytes) (qs : List Bytes) (hpre : qs ++ (chunks CHUNK_SIZE f).drop qs.length = chunks CHUNK_SIZE f)
    (hl : qs.flatten.length = f.length) : qs = chunks CHUNK_SIZE f := by
  have hne : ∀ x ∈ (chunks CHUNK_SIZE f).drop qs.length, x ≠ [] :=
    fun x hx => chunks_ne_nil CHUNK_SIZE chunk_pos f x (List.mem_of_mem_drop hx)
  have hfl : (chunks CHUNK_SIZE f).flatten.length = f.length := by rw [chunks_flatten CHUNK_SIZE chunk_pos]
  have : (chunks CHUNK_SIZE f).drop qs.length = [] := by
    apply prefix_full_of_length qs _ hne
    rw [hpre, hl, hfl]
  rw [this, List.append_nil] at hpre
  exact hpre

/-- two headers with well-sized fields and the same encoding are equal -/
theorem encodeHeader_inj (h1 h2 : Header)
    (a1 : h1.salt.length = SALT_SIZE) (b1 : h1.nonce.length = NONCE_SIZE) (c1 : h1.reserved.length = 4)
    (d1 : h1.originalSize < 18446744073709551616)
    (a2 : h2.salt.length = SALT_SIZE) (b2 : h2.nonce.length = NONCE_SIZE) (c2 : h2.reserved.length = 4)
    (d2 : h2.originalSize < 18446744073709551616) (h : encodeHeader h1 = encodeHeader h2) : h1 = h2 := by
  have e1 := decode_encode h1 a1 b1 d1 c1
  have e2 := decode_encode h2 a2 b2 d2 c2
  rw [h, e2] at e1
  exact (Except.ok.inj e1).symm

/-- header and body of `a ++ x = b ++ y` when both heads are 64-byte headers -/
theorem split_eq (h1 h2 : Header) (x y : Bytes)
    (l1 : (encodeHeader h1).length = HEADER_SIZE) (l2 : (encodeHeader h2).length = HEADER_SIZE)
    (h : encodeHeader h1 ++ x = encodeHeader h2 ++ y) : encodeHeader h1 = encodeHeader h2 ∧ x = y :=
  List.append_inj h (by rw [l1, l2])

end helpers

/-! ## Round trip -/

/-- **C29_roundtrip** — `unlock (lock f) = f` byte for byte, for every file `f` that `lock` accepts, of every
    length (one chunk, several, exact multiples of the chunk size), for the reader before and after the fix. -/
theorem C29_roundtrip (fx : Bool) (A : Aead) (kdf : Kdf) (pw salt base f c : Bytes)
    (L : Locked A kdf pw salt base f c) : unlock fx A kdf pw c = .ok f := by
  obtain ⟨hs, hn, hr, hflag⟩ := lockHeader_facts salt base f L.saltLen L.baseLen
  have hg : Good A (kdf pw salt) base 0 (chunks CHUNK_SIZE f) :=
    good_of_ideal A _ base _ (chunks CHUNK_SIZE f) [] L.ideal (by simp) (chunks_len_le CHUNK_SIZE f)
  have := unlock_stream_accepts fx A kdf pw (lockHeader salt base f) (chunks CHUNK_SIZE f) [] hs hn hr L.fLen hflag hg
    (by simp) (fun _ => ⟨rfl, by rw [chunks_flatten CHUNK_SIZE chunk_pos]; rfl⟩)
  rw [chunks_flatten CHUNK_SIZE chunk_pos, List.append_nil] at this
  rw [L.cap_eq]; exact this

/-- **C29_lock_total** — `lock` succeeds exactly on the files that start with the MV2 magic (at least 4 bytes);
    it refuses every other file (so a 0-byte file has no capsule). -/
theorem C29_lock_total (A : Aead) (kdf : Kdf) (pw salt base f : Bytes) :
    (∃ c, lock A kdf pw salt base f = .ok c) ↔ (4 ≤ f.length ∧ f.take 4 = MV2_MAGIC) := by
  constructor
  · rintro ⟨c, h⟩
    exact ⟨(lock_inv A kdf pw salt base f c h).1, (lock_inv A kdf pw salt base f c h).2.1⟩
  · rintro ⟨h1, h2⟩
    exact ⟨_, lock_of_valid A kdf pw salt base f h1 h2⟩

/-- the same as a file-system step: afterwards the output path holds exactly `f` -/
theorem C29_roundtrip_fs (fx : Bool) (A : Aead) (kdf : Kdf) (pw salt base f c : Bytes) (old : Option Bytes)
    (L : Locked A kdf pw salt base f c) : unlockFile fx A kdf pw c old = (.ok (), some f) := by
  simp [unlockFile, C29_roundtrip fx A kdf pw salt base f c L, writeAtomic, Except.map]

/-! ## What an accepted capsule can be (repaired reader), and the corollaries -/

/-- **C29_output_is_chunks** — no proviso on the header: whatever bytes `c'` and password `pw'` are presented,
    an accepted capsule yields the concatenation of the first `J` chunks of `f` (stream) or one single chunk of
    `f` (one-shot) — never bytes that are not in `f`. -/
theorem C29_output_is_chunks (fx : Bool) (A : Aead) (kdf : Kdf) (pw salt base f c : Bytes)
    (L : Locked A kdf pw salt base f c) (pw' c' out : Bytes) (hc' : c'.length < 18446744073709551616)
    (hu : unlock fx A kdf pw' c' = .ok out) :
    (∃ J, out = ((chunks CHUNK_SIZE f).take J).flatten) ∨ out ∈ chunks CHUNK_SIZE f := by
  obtain ⟨h, _, _, _, _, hcase⟩ :=
    unlock_ok_shape fx A kdf (kdf pw salt) base (chunks CHUNK_SIZE f) L.ideal L.baseLen L.chunks_len pw' c' out hc' hu
  rcases hcase with ⟨qs, tail, _, _, hpre, hout, _⟩ | ⟨m, p, _, hm, _, _, _, hout, _⟩
  · left
    refine ⟨qs.length, ?_⟩
    rw [hout]
    congr 1
    conv => rhs; rw [← hpre]
    simp
  · right
    rw [hout]; exact List.mem_of_getElem? hm

/-- **C29_never_wrong_plaintext** — if the 8 header bytes holding `original_size` are those of the capsule,
    then whatever else differs (any other header byte, any body byte, any length, any password `pw'`), an
    accepted capsule yields exactly `f`. -/
theorem C29_never_wrong_plaintext (A : Aead) (kdf : Kdf) (pw salt base f c : Bytes)
    (L : Locked A kdf pw salt base f c) (pw' c' out : Bytes) (hc' : c'.length < 18446744073709551616)
    (hsz : slice c' OFF_ORIGINAL_SIZE 8 = slice c OFF_ORIGINAL_SIZE 8)
    (hu : unlock true A kdf pw' c' = .ok out) : out = f := by
  obtain ⟨hs0, hn0, hr0, _⟩ := lockHeader_facts salt base f L.saltLen L.baseLen
  obtain ⟨h, hs, hn, hr, hz, hcase⟩ :=
    unlock_ok_shape true A kdf (kdf pw salt) base (chunks CHUNK_SIZE f) L.ideal L.baseLen L.chunks_len pw' c' out hc' hu
  -- the size field of both capsules
  have size_of : ∀ (hd : Header) (rest : Bytes), hd.salt.length = SALT_SIZE → hd.nonce.length = NONCE_SIZE →
      slice (encodeHeader hd ++ rest) OFF_ORIGINAL_SIZE 8 = u64le hd.originalSize := by
    intro hd rest a b
    have : encodeHeader hd ++ rest = (HEADER_PREFIX ++ hd.salt ++ hd.nonce) ++ u64le hd.originalSize ++ (hd.reserved ++ rest) := by
      simp [encodeHeader_eq]
    rw [this]
    exact slice_at _ _ _ _ _ (by
      have hp : HEADER_PREFIX = [0x4D, 0x56, 0x32, 0x45, 1, 0, 1, 1] := by decide
      rw [hp]; simp [a, b]; decide) (by simp [u64le])
  have hc0 : slice c OFF_ORIGINAL_SIZE 8 = u64le f.length := by
    rw [L.cap_eq]; exact size_of _ _ hs0 hn0
  have hsize : c' = encodeHeader h ++ c'.drop HEADER_SIZE → h.originalSize = f.length := by
    intro hc
    have h1 := size_of h (c'.drop HEADER_SIZE) hs hn
    rw [← hc, hsz, hc0] at h1
    exact (leBytes_inj 8 _ _ (by have := L.fLen; omega) (by omega) h1).symm
  have hl := encodeHeader_length h hs hn hr
  rcases hcase with ⟨qs, tail, _, hc, hpre, hout, _, _, hfx⟩ | ⟨m, p, _, hm, hc, _, _, hout, hosz, _⟩
  · obtain ⟨_, hosz⟩ := hfx rfl
    have hdrop : c' = encodeHeader h ++ c'.drop HEADER_SIZE := by
      conv => lhs; rw [hc, List.append_assoc]
      rw [hc, List.append_assoc, (take_header h _ hl).2]
    have hsz' := hsize hdrop
    have : qs = chunks CHUNK_SIZE f := prefix_is_all f qs hpre (by rw [← hout, ← hosz, hsz'])
    rw [hout, this, chunks_flatten CHUNK_SIZE chunk_pos]
  · have hdrop : c' = encodeHeader h ++ c'.drop HEADER_SIZE := by
      conv => lhs; rw [hc]
      rw [hc, (take_header h _ hl).2]
    have hsz' := hsize hdrop
    have := single_of_length (chunks CHUNK_SIZE f) m p hm (chunks_ne_nil CHUNK_SIZE chunk_pos f)
      (by rw [chunks_flatten CHUNK_SIZE chunk_pos, ← hosz, hsz'])
    rw [chunks_flatten CHUNK_SIZE chunk_pos] at this
    rw [hout, this]

/-- the same as a file-system step (`write_atomic`): after `unlock_file` on ANY bytes with the size field intact,
    the output path holds what it held before (error) or exactly `f` (success) — never other content. -/
theorem C29_never_wrong_plaintext_fs (A : Aead) (kdf : Kdf) (pw salt base f c : Bytes)
    (L : Locked A kdf pw salt base f c) (pw' c' : Bytes) (old : Option Bytes) (hc' : c'.length < 18446744073709551616)
    (hsz : slice c' OFF_ORIGINAL_SIZE 8 = slice c OFF_ORIGINAL_SIZE 8) :
    (unlockFile true A kdf pw' c' old).2 = old ∨ (unlockFile true A kdf pw' c' old).2 = some f := by
  unfold unlockFile writeAtomic
  cases hu : unlock true A kdf pw' c' with
  | error e => left; rfl
  | ok out => right; simp only; rw [C29_never_wrong_plaintext A kdf pw salt base f c L pw' c' out hc' hsz hu]

/-- **C29_truncation** — truncation at any offset: every proper prefix of the capsule is rejected by the repaired
    reader (with any password). -/
theorem C29_truncation (A : Aead) (kdf : Kdf) (pw salt base f c : Bytes)
    (L : Locked A kdf pw salt base f c) (pw' : Bytes) (n : Nat) (hn : n < c.length) :
    ∃ e, unlock true A kdf pw' (c.take n) = .error e := by
  cases hu : unlock true A kdf pw' (c.take n) with
  | error e => exact ⟨e, rfl⟩
  | ok out =>
    exfalso
    obtain ⟨hs0, hn0, hr0, hflag0⟩ := lockHeader_facts salt base f L.saltLen L.baseLen
    have hl0 := encodeHeader_length _ hs0 hn0 hr0
    have hclen : (c.take n).length < 18446744073709551616 := by
      have := L.capLen; simp only [List.length_take]; omega
    obtain ⟨h, hs, hnn, hr, hz, hcase⟩ :=
      unlock_ok_shape true A kdf (kdf pw salt) base (chunks CHUNK_SIZE f) L.ideal L.baseLen L.chunks_len pw' _ out hclen hu
    have hl := encodeHeader_length h hs hnn hr
    -- the prefix is at least a header long and its header is the capsule's header
    have hn64 : HEADER_SIZE ≤ n := by
      have hlen : HEADER_SIZE ≤ (c.take n).length := by
        rcases hcase with ⟨qs, tail, _, hc, _⟩ | ⟨m, p, _, _, hc, _⟩ <;>
          (rw [hc]; simp only [List.length_append, hl]; omega)
      simp only [List.length_take] at hlen; omega
    have htk : (c.take n).take HEADER_SIZE = encodeHeader (lockHeader salt base f) := by
      rw [List.take_take, Nat.min_eq_left hn64, L.cap_eq]
      exact (take_header _ _ hl0).1
    have hh : h = lockHeader salt base f := by
      apply encodeHeader_inj h _ hs hnn hr hz hs0 hn0 hr0 L.fLen
      rw [← htk]
      rcases hcase with ⟨qs, tail, _, hc, _⟩ | ⟨m, p, _, _, hc, _⟩
      · rw [hc, List.append_assoc]; exact (take_header h _ hl).1.symm
      · rw [hc]; exact (take_header h _ hl).1.symm
    rcases hcase with ⟨qs, tail, _, hc, hpre, hout, _, _, hfx⟩ | ⟨m, p, hnf, _⟩
    · obtain ⟨htail, hosz⟩ := hfx rfl
      have : qs = chunks CHUNK_SIZE f := prefix_is_all f qs hpre (by rw [← hout, ← hosz, hh]; rfl)
      rw [htail, List.append_nil, this, hh, ← L.cap_eq] at hc
      have : (c.take n).length = c.length := by rw [hc]
      simp only [List.length_take] at this
      omega
    · rw [hh] at hnf; exact hnf hflag0

/-- **C29_tamper** — modifications that keep the length (one or many flipped bits anywhere, swapped or reordered
    chunks, edited header fields incl. salt, nonce, original_size, flags): if the repaired reader accepts `c'` with
    the right password, then the output is `f` and `c'` is the capsule itself up to the 8 nonce bytes that the
    chunk counter overwrites and the bytes `reserved[1..3]`; every other same-length modification is rejected.
    `kdfInj`: no second 32-byte salt derives the same key from this password. -/
theorem C29_tamper (A : Aead) (kdf : Kdf) (pw salt base f c : Bytes)
    (L : Locked A kdf pw salt base f c)
    (kdfInj : ∀ s, s.length = SALT_SIZE → kdf pw s = kdf pw salt → s = salt)
    (c' out : Bytes) (hlen : c'.length = c.length) (hu : unlock true A kdf pw c' = .ok out) :
    out = f ∧ ∃ (nc r3 : Bytes), nc.length = COUNTER_BYTES ∧ r3.length = 3 ∧
      c' = encodeHeader { salt := salt, nonce := base.take NONCE_KEEP ++ nc, originalSize := f.length,
                          reserved := STREAM_FLAG :: r3 }
            ++ frames A (kdf pw salt) base 0 (chunks CHUNK_SIZE f) := by
  obtain ⟨hs0, hn0, hr0, _⟩ := lockHeader_facts salt base f L.saltLen L.baseLen
  have hl0 := encodeHeader_length _ hs0 hn0 hr0
  obtain ⟨h, hs, hn, hr, hz, hcase⟩ :=
    unlock_ok_shape true A kdf (kdf pw salt) base (chunks CHUNK_SIZE f) L.ideal L.baseLen L.chunks_len pw c' out
      (by rw [hlen]; exact L.capLen) hu
  have hl := encodeHeader_length h hs hn hr
  have hclen : c.length = HEADER_SIZE + (frames A (kdf pw salt) base 0 (chunks CHUNK_SIZE f)).length := by
    conv => lhs; rw [L.cap_eq]
    rw [List.length_append, hl0]
  rcases hcase with ⟨qs, tail, hflag, hc, hpre, hout, _, hkey, hfx⟩ | ⟨m, p, _, hm, hc, _⟩
  · obtain ⟨htail, hosz⟩ := hfx rfl
    subst htail
    rw [List.append_nil] at hc
    -- same length ⇒ all frames are there
    have hfr : frames A (kdf pw salt) base 0 (chunks CHUNK_SIZE f) =
        frames A (kdf pw salt) base 0 qs ++ frames A (kdf pw salt) base (0 + qs.length) ((chunks CHUNK_SIZE f).drop qs.length) := by
      rw [← frames_append, hpre]
    have hrest : (chunks CHUNK_SIZE f).drop qs.length = [] := by
      have h1 : c'.length = HEADER_SIZE + (frames A (kdf pw salt) base 0 qs).length := by
        conv => lhs; rw [hc]
        rw [List.length_append, hl]
      have h2 := frames_length_ge A (kdf pw salt) base ((chunks CHUNK_SIZE f).drop qs.length) (0 + qs.length)
      rw [hfr, List.length_append] at hclen
      have : ((chunks CHUNK_SIZE f).drop qs.length).length = 0 := by omega
      exact List.eq_nil_of_length_eq_zero this
    rw [hrest, List.append_nil] at hpre
    subst hpre
    have hof : out = f := by rw [hout, chunks_flatten CHUNK_SIZE chunk_pos]
    have hne : chunks CHUNK_SIZE f ≠ [] := by
      intro h0
      have := chunks_flatten CHUNK_SIZE chunk_pos f
      rw [h0] at this
      exact L.f_ne this.symm
    obtain ⟨hk, hnk⟩ := hkey hne
    have hsalt : h.salt = salt := kdfInj _ hs hk
    refine ⟨hof, h.nonce.drop NONCE_KEEP, h.reserved.drop 1, ?_, ?_, ?_⟩
    · simp only [List.length_drop, hn]; decide
    · simp only [List.length_drop, hr]
    · rw [hc]
      congr 1
      have hnonce : h.nonce = base.take NONCE_KEEP ++ h.nonce.drop NONCE_KEEP := by
        rw [← hnk, List.take_append_drop]
      have hres : h.reserved = STREAM_FLAG :: h.reserved.drop 1 := by
        cases hrs : h.reserved with
        | nil => rw [hrs] at hr; simp at hr
        | cons x xs =>
          rw [hrs] at hflag
          simp only [List.head?_cons, Option.some.injEq] at hflag
          rw [hflag]; simp
      have hsize : h.originalSize = f.length := by rw [hosz, hof]
      cases h with
      | mk s nn os rs =>
        simp only at hsalt hnonce hres hsize
        rw [hsalt, hsize]
        congr 1
        dsimp only
        rw [← hnonce, ← hres]
  · -- a one-shot capsule made of one chunk is shorter than the capsule
    exfalso
    have h1 : c'.length = HEADER_SIZE + (A.enc (kdf pw salt) (nonceFor base m) p).length := by
      conv => lhs; rw [hc]
      rw [List.length_append, hl]
    have h2 := frames_piece_le A (kdf pw salt) base (chunks CHUNK_SIZE f) 0 m p hm
    rw [Nat.zero_add] at h2
    omega

/-! ## The literal property is false: accepted modifications (completeness side) -/

/-- **C29_accepts_ignored_header_bytes** — the 8 nonce bytes overwritten by the chunk counter and `reserved[1..3]`
    are neither authenticated nor looked at: with ANY values there the capsule unlocks to `f`. -/
theorem C29_accepts_ignored_header_bytes (fx : Bool) (A : Aead) (kdf : Kdf) (pw salt base f c : Bytes)
    (L : Locked A kdf pw salt base f c) (nc r3 : Bytes) (hnc : nc.length = COUNTER_BYTES) (hr3 : r3.length = 3) :
    unlock fx A kdf pw
      (encodeHeader { salt := salt, nonce := base.take NONCE_KEEP ++ nc, originalSize := f.length,
                      reserved := STREAM_FLAG :: r3 }
        ++ frames A (kdf pw salt) base 0 (chunks CHUNK_SIZE f)) = .ok f := by
  have hbk : (base.take NONCE_KEEP).length = NONCE_KEEP := by
    simp only [List.length_take, L.baseLen]; decide
  have htk : base.take NONCE_KEEP = (base.take NONCE_KEEP ++ nc).take NONCE_KEEP :=
    (List.take_left' hbk).symm
  have hg0 : Good A (kdf pw salt) base 0 (chunks CHUNK_SIZE f) :=
    good_of_ideal A _ base _ (chunks CHUNK_SIZE f) [] L.ideal (by simp) (chunks_len_le CHUNK_SIZE f)
  have hg : Good A (kdf pw salt) (base.take NONCE_KEEP ++ nc) 0 (chunks CHUNK_SIZE f) := by
    intro m p hm
    rw [← nonceFor_congr base _ _ htk]; exact hg0 m p hm
  have := unlock_stream_accepts fx A kdf pw
    { salt := salt, nonce := base.take NONCE_KEEP ++ nc, originalSize := f.length, reserved := STREAM_FLAG :: r3 }
    (chunks CHUNK_SIZE f) [] L.saltLen
    (by simp only [List.length_append, hbk, hnc]; decide) (by simp [hr3]) L.fLen (by simp) hg (by simp)
    (fun _ => ⟨rfl, by rw [chunks_flatten CHUNK_SIZE chunk_pos]⟩)
  rw [chunks_flatten CHUNK_SIZE chunk_pos, List.append_nil] at this
  rw [frames_congr A (kdf pw salt) base _ htk]
  exact this

/-- **C29_accepts_truncation_with_size_edit** — keep the first `J` frames and rewrite the header's `original_size`
    to the size of their plaintext: both readers accept and output the first `J` chunks of `f`. -/
theorem C29_accepts_truncation_with_size_edit (fx : Bool) (A : Aead) (kdf : Kdf) (pw salt base f c : Bytes)
    (L : Locked A kdf pw salt base f c) (J : Nat) :
    unlock fx A kdf pw
      (encodeHeader { lockHeader salt base f with originalSize := ((chunks CHUNK_SIZE f).take J).flatten.length }
        ++ frames A (kdf pw salt) base 0 ((chunks CHUNK_SIZE f).take J)) = .ok ((chunks CHUNK_SIZE f).take J).flatten := by
  obtain ⟨hs0, hn0, hr0, hflag0⟩ := lockHeader_facts salt base f L.saltLen L.baseLen
  have hg : Good A (kdf pw salt) base 0 ((chunks CHUNK_SIZE f).take J) :=
    good_of_ideal A _ base _ _ ((chunks CHUNK_SIZE f).drop J) L.ideal (List.take_append_drop J _) (chunks_len_le CHUNK_SIZE f)
  have hsz : ((chunks CHUNK_SIZE f).take J).flatten.length < 18446744073709551616 := by
    have h1 : ((chunks CHUNK_SIZE f).take J).flatten.length ≤ (chunks CHUNK_SIZE f).flatten.length := by
      conv => rhs; rw [← List.take_append_drop J (chunks CHUNK_SIZE f)]
      simp only [List.flatten_append, List.length_append]; omega
    rw [chunks_flatten CHUNK_SIZE chunk_pos] at h1
    have := L.fLen; omega
  have := unlock_stream_accepts fx A kdf pw
    { lockHeader salt base f with originalSize := ((chunks CHUNK_SIZE f).take J).flatten.length }
    ((chunks CHUNK_SIZE f).take J) [] hs0 hn0 hr0 hsz hflag0 hg (by simp) (fun _ => ⟨rfl, rfl⟩)
  rw [List.append_nil] at this
  exact this

/-- **C29_accepts_oneshot_rewrap** — chunk `m` of the stream re-wrapped as a legacy one-shot capsule (any reserved
    bytes whose first is not the stream flag, nonce = the chunk's nonce, original_size = the chunk's size, body =
    the chunk's bare ciphertext) is accepted and yields that chunk, provided the chunk starts with the MV2 magic
    (chunk 0 always does). -/
theorem C29_accepts_oneshot_rewrap (fx : Bool) (A : Aead) (kdf : Kdf) (pw salt base f c : Bytes)
    (L : Locked A kdf pw salt base f c) (m : Nat) (p r : Bytes) (hm : (chunks CHUNK_SIZE f)[m]? = some p)
    (hr : r.length = 4) (hflag : r.head? ≠ some STREAM_FLAG) (hv : validMv2 p = true) :
    unlock fx A kdf pw
      (encodeHeader { salt := salt, nonce := nonceFor base m, originalSize := p.length, reserved := r }
        ++ A.enc (kdf pw salt) (nonceFor base m) p) = .ok p := by
  have hpl : p.length < 18446744073709551616 := by
    have h1 := length_le_flatten _ m p hm
    rw [chunks_flatten CHUNK_SIZE chunk_pos] at h1
    have := L.fLen; omega
  exact unlock_oneshot_accepts fx A kdf pw
    { salt := salt, nonce := nonceFor base m, originalSize := p.length, reserved := r } p L.saltLen
    (nonceFor_length base m L.baseLen) hr rfl hpl hflag hv (L.ideal.correct m p hm)

/-! ## The defect repaired by fixes/C29.diff -/

/-- **C29_unfixed_accepts_truncation** — the reader as it was: for every file of more than one chunk, the capsule
    cut right after the first frame (`HEADER + 4 + CHUNK_SIZE + TAG` bytes, a proper prefix) — or up to 3 bytes
    later — is accepted and the first `CHUNK_SIZE` bytes of `f` are written, which is not `f`. -/
theorem C29_unfixed_accepts_truncation (A : Aead) (kdf : Kdf) (pw salt base f c : Bytes)
    (L : Locked A kdf pw salt base f c) (hbig : CHUNK_SIZE < f.length) (k : Nat) (hk : k < 4) :
    HEADER_SIZE + (4 + (CHUNK_SIZE + TAG_SIZE)) + k < c.length ∧
    unlock false A kdf pw (c.take (HEADER_SIZE + (4 + (CHUNK_SIZE + TAG_SIZE)) + k)) = .ok (f.take CHUNK_SIZE) ∧
    f.take CHUNK_SIZE ≠ f := by
  obtain ⟨hs0, hn0, hr0, hflag0⟩ := lockHeader_facts salt base f L.saltLen L.baseLen
  have hl0 := encodeHeader_length _ hs0 hn0 hr0
  have hch := chunks_head CHUNK_SIZE f L.f_ne
  -- the second chunk exists
  have hdrop_ne : f.drop CHUNK_SIZE ≠ [] := by
    intro h0
    have := congrArg List.length h0
    simp only [List.length_drop, List.length_nil] at this; omega
  have hrest : chunksOf CHUNK_SIZE (f.length - 1) (f.drop CHUNK_SIZE) =
      (f.drop CHUNK_SIZE).take CHUNK_SIZE :: chunksOf CHUNK_SIZE (f.length - 1 - 1) ((f.drop CHUNK_SIZE).drop CHUNK_SIZE) := by
    have : f.length - 1 = (f.length - 1 - 1) + 1 := by have := chunk_pos; omega
    rw [this, chunksOf]
    cases hd : f.drop CHUNK_SIZE with
    | nil => exact absurd hd hdrop_ne
    | cons x xs => simp
  have h0m : (chunks CHUNK_SIZE f)[0]? = some (f.take CHUNK_SIZE) := by rw [hch]; rfl
  have h1m : (chunks CHUNK_SIZE f)[1]? = some ((f.drop CHUNK_SIZE).take CHUNK_SIZE) := by rw [hch, hrest]; rfl
  have hct0 : (A.enc (kdf pw salt) (nonceFor base 0) (f.take CHUNK_SIZE)).length = CHUNK_SIZE + TAG_SIZE := by
    rw [L.ideal.encLen 0 _ h0m]; simp only [List.length_take]; omega
  have hg : Good A (kdf pw salt) base 0 [f.take CHUNK_SIZE] :=
    good_of_ideal A _ base _ [f.take CHUNK_SIZE] (chunksOf CHUNK_SIZE (f.length - 1) (f.drop CHUNK_SIZE)) L.ideal
      (by rw [hch]; rfl) (chunks_len_le CHUNK_SIZE f)
  -- shape of the capsule: header, first frame, second frame, rest
  have hcap : c = encodeHeader (lockHeader salt base f) ++
      frames A (kdf pw salt) base 0 [f.take CHUNK_SIZE] ++
      (frame (A.enc (kdf pw salt) (nonceFor base 1) ((f.drop CHUNK_SIZE).take CHUNK_SIZE)) ++
        frames A (kdf pw salt) base 2 (chunksOf CHUNK_SIZE (f.length - 1 - 1) ((f.drop CHUNK_SIZE).drop CHUNK_SIZE))) := by
    rw [L.cap_eq, hch, hrest]
    simp only [frames, List.append_assoc, List.append_nil]
  have hfirst : (encodeHeader (lockHeader salt base f) ++ frames A (kdf pw salt) base 0 [f.take CHUNK_SIZE]).length =
      HEADER_SIZE + (4 + (CHUNK_SIZE + TAG_SIZE)) := by
    simp only [frames, List.append_nil, List.length_append, hl0, frame_length, hct0]
  have hlt : HEADER_SIZE + (4 + (CHUNK_SIZE + TAG_SIZE)) + k < c.length := by
    conv => rhs; rw [hcap]
    rw [List.length_append, hfirst, List.length_append, frame_length]
    omega
  refine ⟨hlt, ?_, ?_⟩
  · have htake : c.take (HEADER_SIZE + (4 + (CHUNK_SIZE + TAG_SIZE)) + k) =
        encodeHeader (lockHeader salt base f) ++ frames A (kdf pw salt) base 0 [f.take CHUNK_SIZE] ++
          (frame (A.enc (kdf pw salt) (nonceFor base 1) ((f.drop CHUNK_SIZE).take CHUNK_SIZE)) ++
            frames A (kdf pw salt) base 2 (chunksOf CHUNK_SIZE (f.length - 1 - 1) ((f.drop CHUNK_SIZE).drop CHUNK_SIZE))).take k := by
      conv => lhs; rw [hcap]
      rw [← hfirst, List.take_length_add_append]
    rw [htake]
    have := unlock_stream_accepts false A kdf pw (lockHeader salt base f) [f.take CHUNK_SIZE]
      ((frame (A.enc (kdf pw salt) (nonceFor base 1) ((f.drop CHUNK_SIZE).take CHUNK_SIZE)) ++
            frames A (kdf pw salt) base 2 (chunksOf CHUNK_SIZE (f.length - 1 - 1) ((f.drop CHUNK_SIZE).drop CHUNK_SIZE))).take k)
      hs0 hn0 hr0 L.fLen hflag0 hg (by simp only [List.length_take]; omega) (by intro h; cases h)
    simpa [lockHeader] using this
  · intro h
    have := congrArg List.length h
    simp only [List.length_take] at this; omega

/-! ## Full-strength statements and their refutation -/

/-- An AEAD that is ideal BY CONSTRUCTION for one `lock` call (key, base nonce, plaintext chunks `ps`): ciphertext
    = plaintext ‖ TAG_SIZE zero bytes, and decryption succeeds exactly on the triples that call produced.  It shows
    that the hypotheses `Locked` are satisfiable (non-vacuity) and carries the counterexamples. -/
noncomputable def idealAead (key base : Bytes) (ps : List Bytes) : Aead where
  enc _ _ p := p ++ zeros TAG_SIZE
  dec k n c :=
    open Classical in
    if k = key ∧ ∃ m p, ps[m]? = some p ∧ n = nonceFor base m ∧ c = p ++ zeros TAG_SIZE
    then some (c.take (c.length - TAG_SIZE)) else none

theorem idealAead_ideal (key base : Bytes) (ps : List Bytes) : AeadIdeal (idealAead key base ps) key base ps where
  correct m p hm := by
    simp only [idealAead]
    rw [if_pos ⟨rfl, m, p, hm, rfl, rfl⟩]
    simp
  encLen m p _ := by simp [idealAead]
  auth k n c q h := by
    simp only [idealAead] at h
    split at h
    · rename_i hc
      obtain ⟨hk, m, p, hm, hn, hcc⟩ := hc
      exact ⟨hk, m, p, hm, hn, by rw [hcc]; rfl⟩
    · cases h

/-- a file of one chunk and a file of two chunks, with the hypotheses discharged (non-vacuity of `Locked`) -/
def demoFile (extra : Nat) : Bytes := MV2_MAGIC ++ List.replicate extra 0x2A
def demoKdf : Kdf := fun pw salt => pw ++ salt
def demoSalt : Bytes := zeros SALT_SIZE
def demoBase : Bytes := zeros NONCE_SIZE
noncomputable def demoAead (extra : Nat) : Aead :=
  idealAead (demoKdf [1] demoSalt) demoBase (chunks CHUNK_SIZE (demoFile extra))
noncomputable def demoCapsule (extra : Nat) : Bytes :=
  encodeHeader (lockHeader demoSalt demoBase (demoFile extra)) ++
    frames (demoAead extra) (demoKdf [1] demoSalt) demoBase 0 (chunks CHUNK_SIZE (demoFile extra))

theorem demoFile_length (extra : Nat) : (demoFile extra).length = 4 + extra := by
  simp [demoFile, MV2_MAGIC_eq]; omega

theorem frames_length_le (A : Aead) (key base : Bytes) (ps : List Bytes) (i : Nat)
    (h : ∀ n p, (A.enc key n p).length = p.length + TAG_SIZE) :
    (frames A key base i ps).length = ps.flatten.length + (4 + TAG_SIZE) * ps.length := by
  induction ps generalizing i with
  | nil => simp [frames]
  | cons p ps ih =>
    simp only [frames, List.length_append, frame_length, h, ih, List.flatten_cons, List.length_cons]
    rw [Nat.mul_add]; omega

theorem demo_locked (extra : Nat) (hx : extra < 4294967296) :
    Locked (demoAead extra) demoKdf [1] demoSalt demoBase (demoFile extra) (demoCapsule extra) where
  saltLen := by simp [demoSalt]
  baseLen := by simp [demoBase]
  fLen := by rw [demoFile_length]; omega
  capLen := by
    obtain ⟨a0, b0, c0, _⟩ := lockHeader_facts demoSalt demoBase (demoFile extra) (by simp [demoSalt]) (by simp [demoBase])
    have hl := encodeHeader_length (lockHeader demoSalt demoBase (demoFile extra)) a0 b0 c0
    have hf := frames_length_le (demoAead extra) (demoKdf [1] demoSalt) demoBase (chunks CHUNK_SIZE (demoFile extra)) 0
      (by intro n p; simp [demoAead, idealAead])
    have hc := chunks_length_le CHUNK_SIZE (demoFile extra)
    rw [chunks_flatten CHUNK_SIZE chunk_pos] at hf
    rw [demoFile_length] at hf hc
    simp only [demoCapsule, List.length_append, hl, hf, HEADER_SIZE_eq, TAG_SIZE_eq]
    have : (4 + 16) * (chunks CHUNK_SIZE (demoFile extra)).length ≤ (4 + 16) * (4 + extra) := Nat.mul_le_mul_left _ hc
    omega
  locked := by
    have h1 : 4 ≤ (demoFile extra).length := by rw [demoFile_length]; omega
    have h2 : (demoFile extra).take 4 = MV2_MAGIC := by
      have : MV2_MAGIC.length = 4 := by decide
      simp only [demoFile]; rw [← this, List.take_left]
    exact lock_of_valid _ _ _ _ _ _ h1 h2
  ideal := idealAead_ideal _ _ _

/-- the hypotheses of every theorem above are satisfiable: a 12-byte file (one chunk) … -/
example : Locked (demoAead 8) demoKdf [1] demoSalt demoBase (demoFile 8) (demoCapsule 8) := demo_locked 8 (by decide)
/-- … and a file of `CHUNK_SIZE + 4` bytes (two chunks) -/
example : Locked (demoAead CHUNK_SIZE) demoKdf [1] demoSalt demoBase (demoFile CHUNK_SIZE) (demoCapsule CHUNK_SIZE) :=
  demo_locked CHUNK_SIZE (by decide)
/-- `kdfInj` of `C29_tamper` holds for the demo KDF -/
example : ∀ s, s.length = SALT_SIZE → demoKdf [1] s = demoKdf [1] demoSalt → s = demoSalt := by
  intro s _ h; simpa [demoKdf] using h

/-- the truncation clause for the reader as it was at /repo HEAD before fixes/C29.diff -/
def C29_truncation_unfixed : Prop :=
  ∀ (A : Aead) (kdf : Kdf) (pw salt base f c : Bytes), Locked A kdf pw salt base f c →
    ∀ n, n < c.length → ∃ e, unlock false A kdf pw (c.take n) = .error e

/-- **C29_counterexample_unfixed** — the unrepaired reader violates the truncation clause (and writes a wrong
    plaintext): witness = a file of CHUNK_SIZE + 4 bytes, capsule cut after its first frame. -/
theorem C29_counterexample_unfixed : ¬ C29_truncation_unfixed := by
  intro hall
  have L := demo_locked CHUNK_SIZE (by decide)
  obtain ⟨hlt, hok, _⟩ := C29_unfixed_accepts_truncation _ _ _ _ _ _ _ L (by rw [demoFile_length]; omega) 0 (by decide)
  obtain ⟨e, he⟩ := hall _ _ _ _ _ _ _ L _ hlt
  rw [hok] at he; cases he

/-- the literal property for the repaired reader: EVERY capsule other than `lock`'s output is rejected -/
def C29_full : Prop :=
  ∀ (A : Aead) (kdf : Kdf) (pw salt base f c : Bytes), Locked A kdf pw salt base f c →
    ∀ c', c' ≠ c → ∃ e, unlock true A kdf pw c' = .error e

/-- **C29_counterexample** — `C29_full` is false (format-level, not repaired): the capsule of the 12-byte demo file
    with `reserved[1..3] = 1,1,1` instead of `0,0,0` is accepted. -/
theorem C29_counterexample : ¬ C29_full := by
  intro hall
  have L := demo_locked 8 (by decide)
  have hacc := C29_accepts_ignored_header_bytes true _ _ _ _ _ _ _ L (demoBase.drop NONCE_KEEP) [1, 1, 1]
    (by simp [demoBase]; decide) rfl
  have hne : encodeHeader (Header.mk demoSalt (demoBase.take NONCE_KEEP ++ demoBase.drop NONCE_KEEP) (demoFile 8).length
        (STREAM_FLAG :: [1, 1, 1])) ++
      frames (demoAead 8) (demoKdf [1] demoSalt) demoBase 0 (chunks CHUNK_SIZE (demoFile 8)) ≠ demoCapsule 8 := by
    intro heq
    rw [L.cap_eq] at heq
    obtain ⟨a0, b0, c0, _⟩ := lockHeader_facts demoSalt demoBase (demoFile 8) (by simp [demoSalt]) (by simp [demoBase])
    have a1 : (Header.mk demoSalt (demoBase.take NONCE_KEEP ++ demoBase.drop NONCE_KEEP) (demoFile 8).length
        (STREAM_FLAG :: [1, 1, 1])).salt.length = SALT_SIZE := by simp [demoSalt]
    have b1 : (Header.mk demoSalt (demoBase.take NONCE_KEEP ++ demoBase.drop NONCE_KEEP) (demoFile 8).length
        (STREAM_FLAG :: [1, 1, 1])).nonce.length = NONCE_SIZE := by simp [demoBase]
    have c1 : (Header.mk demoSalt (demoBase.take NONCE_KEEP ++ demoBase.drop NONCE_KEEP) (demoFile 8).length
        (STREAM_FLAG :: [1, 1, 1])).reserved.length = 4 := by simp
    have hl1 := encodeHeader_length _ a1 b1 c1
    have hl2 := encodeHeader_length _ a0 b0 c0
    have h1 := (split_eq _ _ _ _ hl1 hl2 heq).1
    have h2 := encodeHeader_inj _ _ a1 b1 c1 (by rw [demoFile_length]; decide) a0 b0 c0
      (by show (demoFile 8).length < _; rw [demoFile_length]; decide) h1
    have h3 := congrArg Header.reserved h2
    simp [lockHeader, LOCK_RESERVED_eq, STREAM_FLAG_eq] at h3
  obtain ⟨e, he⟩ := hall _ _ _ _ _ _ _ L _ hne
  rw [hacc] at he; cases he

/-- the literal "never a wrong plaintext" clause for the repaired reader, without the proviso on `original_size` -/
def C29_never_wrong_plaintext_full : Prop :=
  ∀ (A : Aead) (kdf : Kdf) (pw salt base f c : Bytes), Locked A kdf pw salt base f c →
    ∀ c' out, unlock true A kdf pw c' = .ok out → out = f

/-- **C29_counterexample_size_edit** — it is false: the two-chunk demo capsule cut after the first frame, with
    `original_size` rewritten to CHUNK_SIZE, is accepted and yields the first chunk only. -/
theorem C29_counterexample_size_edit : ¬ C29_never_wrong_plaintext_full := by
  intro hall
  have L := demo_locked CHUNK_SIZE (by decide)
  have hacc := C29_accepts_truncation_with_size_edit true _ _ _ _ _ _ _ L 1
  have := hall _ _ _ _ _ _ _ L _ _ hacc
  have hch := chunks_head CHUNK_SIZE (demoFile CHUNK_SIZE) L.f_ne
  rw [hch] at this
  simp only [List.take_succ_cons, List.take_zero, List.flatten_cons, List.flatten_nil, List.append_nil] at this
  have := congrArg List.length this
  simp only [List.length_take, demoFile_length] at this
  omega

end Mv.Capsule
