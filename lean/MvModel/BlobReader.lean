/- Streaming reads (C07): `BlobReader` of src/memvid/frame.rs.

   Rust                                            here
   ----------------------------------------------  ---------------------------------------------
   Memvid.file / File::try_clone()                 `World.off` — ONE offset: `try_clone` is dup(2), the
                                                   clones share the open file description's offset with
                                                   the handle and with every other reader
   BlobReaderInner::File { file,start,len,pos }    `FileReader`
   BlobReaderInner::Memory(Cursor<Vec<u8>>)        `MemReader`  (std::io::Cursor semantics)
   <BlobReader as Read>::read                      `FileReader.read` (seek to start+pos, then read) / `MemReader.read`
   <BlobReader as Seek>::seek                      `FileReader.seek` / `MemReader.seek`
   any other use of the shared description         `Op.disturb o` (frame_canonical_payload, search, a put …
                                                   leave the offset anywhere)

   A regular-file `read(2)` of `n` bytes at offset `o` returns `min n (size - o)` bytes (no short
   reads inside the file); `i64` arithmetic of `seek` is `checked_add` (overflow = error).
   Payload lengths are < 2^63 (`*len as i64` does not wrap) — a frame is at most MAX_FRAME_BYTES. -/
import MvModel.Bytes
namespace Mv.Blob

abbrev Bytes := List UInt8

def I64_MAX : Int := 9223372036854775807
def I64_MIN : Int := -9223372036854775808

structure World where
  file : Bytes
  /-- offset of the shared open file description -/
  off : Nat
deriving Repr, DecidableEq

/-- `file.read(&mut buf[..n])` at the current offset -/
def World.readN (w : World) (n : Nat) : World × Bytes :=
  let b := (w.file.drop w.off).take n
  ({ w with off := w.off + b.length }, b)

structure FileReader where
  start : Nat
  len : Nat
  pos : Nat
deriving Repr, DecidableEq

inductive Whence
  | start (o : Nat)
  | cur (d : Int)
  | fromEnd (d : Int)
deriving Repr, DecidableEq

inductive SeekErr | overflow | beforeStart | beyondEnd
deriving Repr, DecidableEq

inductive SeekRes
  | ok (a : Nat)
  | error (e : SeekErr)
deriving Repr, DecidableEq

/-- `<BlobReader as Read>::read`, File variant -/
def FileReader.read (w : World) (r : FileReader) (n : Nat) : World × FileReader × Bytes :=
  let remaining := r.len - r.pos
  if remaining = 0 then (w, r, [])
  else
    let toRead := min remaining n
    let w1 : World := { w with off := r.start + r.pos }
    let (w2, b) := w1.readN toRead
    (w2, { r with pos := r.pos + b.length }, b)

/-- target of a seek, File variant: `checked_add` on `i64`, then the sign test -/
def FileReader.target (r : FileReader) : Whence → SeekRes
  | .start o => .ok o
  | .fromEnd d =>
    let res : Int := (r.len : Int) + d
    if res > I64_MAX ∨ res < I64_MIN then .error .overflow
    else if res < 0 then .error .beforeStart else .ok res.toNat
  | .cur d =>
    let res : Int := (r.pos : Int) + d
    if res > I64_MAX ∨ res < I64_MIN then .error .overflow
    else if res < 0 then .error .beforeStart else .ok res.toNat

/-- `<BlobReader as Seek>::seek`, File variant -/
def FileReader.seek (w : World) (r : FileReader) (wh : Whence) : World × FileReader × SeekRes :=
  match r.target wh with
  | .error e => (w, r, .error e)
  | .ok a =>
    if a > r.len then (w, r, .error .beyondEnd)
    else ({ w with off := r.start + a }, { r with pos := a }, .ok a)

/-! ### the pure cursor a caller expects (and `Cursor<Vec<u8>>` for the in-memory variant) -/

structure MemReader where
  data : Bytes
  pos : Nat
deriving Repr, DecidableEq

/-- `Cursor::read`: `Read for &[u8]` on `data[min(pos,len)..]` -/
def MemReader.read (r : MemReader) (n : Nat) : MemReader × Bytes :=
  let b := (r.data.drop r.pos).take n
  ({ r with pos := r.pos + b.length }, b)

/-- the reference semantics of a bounded reader over `data`: seeks are bounded by the length -/
def MemReader.target (r : MemReader) : Whence → SeekRes
  | .start o => .ok o
  | .fromEnd d =>
    let res : Int := (r.data.length : Int) + d
    if res > I64_MAX ∨ res < I64_MIN then .error .overflow
    else if res < 0 then .error .beforeStart else .ok res.toNat
  | .cur d =>
    let res : Int := (r.pos : Int) + d
    if res > I64_MAX ∨ res < I64_MIN then .error .overflow
    else if res < 0 then .error .beforeStart else .ok res.toNat

def MemReader.seekBounded (r : MemReader) (wh : Whence) : MemReader × SeekRes :=
  match r.target wh with
  | .error e => (r, .error e)
  | .ok a => if a > r.data.length then (r, .error .beyondEnd) else ({ r with pos := a }, .ok a)

/-- `Cursor::seek` (the Memory variant of BlobReader): the position may pass the end; `u64` base with
    `checked_add_signed` -/
def MemReader.seekCursor (r : MemReader) (wh : Whence) : MemReader × SeekRes :=
  let go (base : Nat) (d : Int) : MemReader × SeekRes :=
    let res : Int := (base : Int) + d
    if res < 0 ∨ res > 18446744073709551615 then (r, .error .overflow) else ({ r with pos := res.toNat }, .ok res.toNat)
  match wh with
  | .start o => ({ r with pos := o }, .ok o)
  | .fromEnd d => go r.data.length d
  | .cur d => go r.pos d

/-! ### several readers and the handle on one shared file description -/

inductive Op
  | read (h : Nat) (n : Nat)
  | seek (h : Nat) (wh : Whence)
  /-- any other access through the shared description leaves its offset at `o` -/
  | disturb (o : Nat)
deriving Repr, DecidableEq

inductive Out
  | bytes (b : Bytes)
  | seeked (r : SeekRes)
  | none
  | badHandle
deriving Repr, DecidableEq

structure Sys where
  w : World
  rs : List FileReader
deriving Repr, DecidableEq

def Sys.step (s : Sys) : Op → Sys × Out
  | .read h n =>
    match s.rs[h]? with
    | none => (s, .badHandle)
    | some r =>
      let (w', r', b) := r.read s.w n
      ({ w := w', rs := s.rs.set h r' }, .bytes b)
  | .seek h wh =>
    match s.rs[h]? with
    | none => (s, .badHandle)
    | some r =>
      let (w', r', o) := r.seek s.w wh
      ({ w := w', rs := s.rs.set h r' }, .seeked o)
  | .disturb o => ({ s with w := { s.w with off := o } }, .none)

def Sys.run (s : Sys) : List Op → Sys × List Out
  | [] => (s, [])
  | op :: ops =>
    let (s1, o) := s.step op
    let (s2, os) := s1.run ops
    (s2, o :: os)

/-- the reference: independent cursors, no shared state at all -/
abbrev Ref := List MemReader

def Ref.step (s : Ref) : Op → Ref × Out
  | .read h n =>
    match s[h]? with
    | none => (s, .badHandle)
    | some r => let (r', b) := r.read n; (s.set h r', .bytes b)
  | .seek h wh =>
    match s[h]? with
    | none => (s, .badHandle)
    | some r => let (r', o) := r.seekBounded wh; (s.set h r', .seeked o)
  | .disturb _ => (s, .none)

def Ref.run (s : Ref) : List Op → Ref × List Out
  | [] => (s, [])
  | op :: ops =>
    let (s1, o) := Ref.step s op
    let (s2, os) := Ref.run s1 ops
    (s2, o :: os)

def slice (b : Bytes) (off len : Nat) : Bytes := (b.drop off).take len

/-- what a caller sees of a file reader: the payload bytes of its range and its position -/
def FileReader.abs (file : Bytes) (r : FileReader) : MemReader :=
  { data := slice file r.start r.len, pos := r.pos }

def Sys.abs (s : Sys) : Ref := s.rs.map (FileReader.abs s.w.file)

/-- the reader's range lies inside the file and its position inside the range -/
def FileReader.Wf (file : Bytes) (r : FileReader) : Prop :=
  r.start + r.len ≤ file.length ∧ r.pos ≤ r.len

def Sys.Wf (s : Sys) : Prop := ∀ r ∈ s.rs, r.Wf s.w.file

end Mv.Blob
