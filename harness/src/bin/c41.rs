//! C41 — background enrichment is safe under any interleaving.
//!
//! impl  : a real `Memvid` (tempdir) behind `Arc<Mutex<_>>`; the REAL `run_worker_loop` runs in its own
//!         thread with the four closures of `start_enrichment_worker` (lock → `next_enrichment_task` /
//!         `process_enrichment_task` / `complete_enrichment_task` / `commit`), each closure additionally
//!         waiting at a gate until the schedule lets the worker run its next section.  Foreground
//!         sections (put / search / commit / stop) run on the main thread under the same mutex.  The
//!         sections therefore execute sequentially in exactly the order of the generated schedule —
//!         which is all the mutex allows a real run to do.
//! model : drv_c41 (MvModel/Worker.lean) — same schedule, state compared after every section.
//! oracle: the property restated over the implementation's own observations (independent of the
//!         model): frames never disappear / keep their content, non-queued frames never change state,
//!         state changes only S→E during a worker `process` section, the worker exits within one loop
//!         iteration after `stop`, and at the end every queued frame whose task left the queue is
//!         Enriched and no task was processed twice.
//! sanity: real two-thread runs of the unmodified `start_enrichment_worker` against a foreground thread
//!         with random yields/sleeps between sections (safety clauses only; not part of the proof).
use memvid_core::enrichment_worker::{run_worker_loop, EnrichmentWorkerConfig, EnrichmentWorkerHandle, TaskResult};
use memvid_core::verif_hooks::{verif_frames, verif_state};
use memvid_core::types::EnrichmentState;
use memvid_core::{start_enrichment_worker, FrameStatus, Memvid, PutOptions, SearchRequest};
use mvh::*;
use std::sync::mpsc::{channel, Receiver, Sender};
use std::sync::{Arc, Mutex};
use std::time::Duration;

const SIG_SEQ: &str = "enrichment-queue-holds-wal-sequence-not-frame-id";
const SIG_EARLY: &str = "task-processed-before-commit-is-dropped";
const GATE_TIMEOUT: Duration = Duration::from_secs(120);

#[derive(Clone, Debug, PartialEq)]
enum Act {
    Put { instant: bool, embed: bool, big: bool },
    Search,
    Commit,
    Stop,
    W,
}

fn act_str(a: &Act) -> String {
    match a {
        Act::Put { instant, embed, big } => format!("put:{}:{}:{}", *instant as u8, *embed as u8, *big as u8),
        Act::Search => "search".into(),
        Act::Commit => "commit".into(),
        Act::Stop => "stop".into(),
        Act::W => "w".into(),
    }
}
fn act_from(s: &str) -> Act {
    let p: Vec<&str> = s.split(':').collect();
    match p[0] {
        "put" => Act::Put { instant: p[1] == "1", embed: p[2] == "1", big: p.get(3).map(|x| *x == "1").unwrap_or(false) },
        "search" => Act::Search,
        "commit" => Act::Commit,
        "stop" => Act::Stop,
        _ => Act::W,
    }
}
fn case_json(interval: usize, acts: &[Act]) -> Value {
    json!({"interval": interval, "schedule": acts.iter().map(act_str).collect::<Vec<_>>()})
}

// ------------------------------------------------------------------------------------------
// the gated worker thread
enum Ev {
    Arrive(&'static str, Option<u64>),
    Exited,
}

struct Gate {
    ev_tx: Sender<Ev>,
    go_rx: Receiver<()>,
    done_tx: Sender<String>,
    abort: EnrichmentWorkerHandle,
}
impl Gate {
    /// announce the section, wait for the scheduler; false = the scheduler is gone → wind the loop down
    fn enter(&self, sec: &'static str, task: Option<u64>) -> bool {
        if self.ev_tx.send(Ev::Arrive(sec, task)).is_err() || self.go_rx.recv().is_err() {
            self.abort.stop();
            return false;
        }
        true
    }
    fn leave(&self, what: String) {
        let _ = self.done_tx.send(what);
    }
}

#[derive(Clone, Debug)]
struct PutRec {
    seq: u64,     // what put returned (the WAL sequence)
    queued: bool, // instant_index && enable_embedding
    task: Option<u64>, // the id the put pushed on the enrichment queue, as observed on the handle
    token: String,
    hash: String, // blake3 of the payload
}

#[derive(Clone, Debug)]
struct ProcRec {
    task: u64,
    committed_then: usize, // toc.frames.len() when process_task ran
    error: Option<String>,
}

struct Real {
    _dir: tempfile::TempDir,
    path: std::path::PathBuf,
    mem: Option<Arc<Mutex<Memvid>>>,
    handle: EnrichmentWorkerHandle,
    ev_rx: Receiver<Ev>,
    go_tx: Option<Sender<()>>,
    done_rx: Receiver<String>,
    waiting: Option<(&'static str, Option<u64>)>, // None = thread left the loop
    thread: Option<std::thread::JoinHandle<()>>,
    puts: Vec<PutRec>,
    procs: Vec<ProcRec>,
    stop_at: Option<usize>, // worker sections granted after stop was requested
}

/// durability is not what is examined here: keep the files on tmpfs when there is one
fn scratch_dir() -> std::io::Result<tempfile::TempDir> {
    if std::path::Path::new("/dev/shm").is_dir() { tempfile::tempdir_in("/dev/shm") } else { tempfile::tempdir() }
}

fn put_options(instant: bool, embed: bool) -> PutOptions {
    let mut o = PutOptions::default();
    o.instant_index = instant;
    o.enable_embedding = embed;
    o.auto_tag = false;
    o.extract_dates = false;
    o.extract_triplets = false;
    o
}

fn search_req(q: &str) -> SearchRequest {
    SearchRequest {
        query: q.into(), top_k: 10, snippet_chars: 40, uri: None, scope: None, cursor: None,
        as_of_frame: None, as_of_ts: None, no_sketch: false, acl_context: None,
        acl_enforcement_mode: Default::default(),
    }
}

impl Real {
    fn new(interval: usize) -> Result<Real, String> {
        let dir = scratch_dir().map_err(|e| e.to_string())?;
        let path = dir.path().join("w.mv2");
        let mem = Arc::new(Mutex::new(Memvid::create(&path).map_err(|e| format!("create: {e}"))?));
        let handle = EnrichmentWorkerHandle::new();
        let worker_handle = handle.clone_handle();
        let abort = handle.clone_handle();
        let (ev_tx, ev_rx) = channel::<Ev>();
        let (go_tx, go_rx) = channel::<()>();
        let (done_tx, done_rx) = channel::<String>();
        let m = Arc::clone(&mem);
        let config = EnrichmentWorkerConfig { embedding_batch_size: 32, checkpoint_interval: interval, task_delay_ms: 0, max_task_time_ms: 5000 };
        let thread = std::thread::spawn(move || {
            let exit_tx = ev_tx.clone();
            let gate = Gate { ev_tx, go_rx, done_tx, abort };
            let g = &gate;
            let memvid_clone = &m;
            // the four closures are those of `start_enrichment_worker`, plus the gate
            run_worker_loop(
                &worker_handle,
                &config,
                || {
                    if !g.enter("get", None) { return None; }
                    let r = (|| { let mv = memvid_clone.lock().ok()?; mv.next_enrichment_task() })();
                    g.leave(format!("{:?}", r.as_ref().map(|t| t.frame_id)));
                    r
                },
                |task| {
                    if !g.enter("process", Some(task.frame_id)) {
                        return TaskResult { frame_id: task.frame_id, re_extracted: false, embeddings_generated: 0, elapsed_ms: 0, error: Some("aborted".into()) };
                    }
                    let r = {
                        match memvid_clone.lock() {
                            Ok(mut mv) => mv.process_enrichment_task(task),
                            Err(_) => TaskResult { frame_id: task.frame_id, re_extracted: false, embeddings_generated: 0, elapsed_ms: 0, error: Some("Failed to acquire lock".to_string()) },
                        }
                    };
                    g.leave(format!("{}", r.error.clone().unwrap_or_else(|| "ok".into())));
                    r
                },
                |frame_id| {
                    if !g.enter("complete", Some(frame_id)) { return; }
                    if let Ok(mut mv) = memvid_clone.lock() { mv.complete_enrichment_task(frame_id); }
                    g.leave("ok".into());
                },
                || {
                    if !g.enter("checkpoint", None) { return; }
                    let mut res = "ok".to_string();
                    if let Ok(mut mv) = memvid_clone.lock() { if let Err(e) = mv.commit() { res = format!("err {e}"); } }
                    g.leave(res);
                },
            );
            let _ = exit_tx.send(Ev::Exited);
        });
        let mut r = Real {
            _dir: dir, path, mem: Some(mem), handle, ev_rx, go_tx: Some(go_tx), done_rx, waiting: None,
            thread: Some(thread), puts: vec![], procs: vec![], stop_at: None,
        };
        r.await_worker()?;
        Ok(r)
    }
    fn await_worker(&mut self) -> Result<(), String> {
        match self.ev_rx.recv_timeout(GATE_TIMEOUT) {
            Ok(Ev::Arrive(sec, t)) => { self.waiting = Some((sec, t)); Ok(()) }
            Ok(Ev::Exited) => { self.waiting = None; Ok(()) }
            Err(e) => Err(format!("worker thread did not reach its next section: {e}")),
        }
    }
    fn mem(&self) -> std::sync::MutexGuard<'_, Memvid> {
        self.mem.as_ref().unwrap().lock().expect("mutex poisoned")
    }
    /// let the worker run the section it is waiting at; returns (section, result text)
    fn grant(&mut self) -> Result<(String, String), String> {
        let Some((sec, task)) = self.waiting else { return Ok(("none".into(), "-".into())) };
        let committed_then = if sec == "process" { verif_state(&self.mem()).toc_frame_count as usize } else { 0 };
        self.go_tx.as_ref().unwrap().send(()).map_err(|e| e.to_string())?;
        let res = self.done_rx.recv_timeout(GATE_TIMEOUT).map_err(|e| format!("section {sec} did not finish: {e}"))?;
        if sec == "process" {
            self.procs.push(ProcRec { task: task.unwrap(), committed_then, error: if res == "ok" { None } else { Some(res.clone()) } });
        }
        if let Some(n) = self.stop_at.as_mut() { *n += 1; }
        self.await_worker()?;
        Ok((sec.to_string(), res))
    }
    fn pc(&self) -> String {
        match self.waiting {
            None => "stopped".into(),
            Some(("get", _)) => "fetch".into(),
            Some(("process", t)) => format!("hold:{}", t.unwrap()),
            Some(("complete", t)) => format!("proc:{}", t.unwrap()),
            Some((_, _)) => "ckpt".into(),
        }
    }
    /// the driver's state line, from the real handle
    fn state(&self) -> String {
        let m = self.mem();
        let s = verif_state(&m);
        let fr = verif_frames(&m);
        let frs: String = if fr.is_empty() { "-".into() } else { fr.iter().map(|f| if f.enrichment_state == EnrichmentState::Enriched { 'E' } else { 'S' }).collect() };
        let q = if s.enrichment_queue.is_empty() { "-".to_string() } else { s.enrichment_queue.iter().map(|x| x.to_string()).collect::<Vec<_>>().join(",") };
        let st = self.handle.stats();
        format!("q={} fr={} pend={} seq={} d={} td={} pc={} stop={} proc={} err={} nput={}",
            q, frs, s.pending_frame_inserts, s.wal_sequence, s.dirty as u8, s.tantivy_dirty as u8, self.pc(),
            self.handle.should_stop() as u8, st.frames_processed, st.errors, self.puts.len())
    }
    fn shutdown(&mut self) {
        // release the worker wherever it waits and let the loop wind down
        self.handle.stop();
        self.go_tx = None;
        if let Some(t) = self.thread.take() { let _ = t.join(); }
    }
}
impl Drop for Real {
    fn drop(&mut self) { self.shutdown(); }
}

// ------------------------------------------------------------------------------------------
#[derive(Default)]
struct Outcome {
    oracle: Option<(String, String)>,
    disagree: Option<(String, String, String)>,
    known: Vec<(String, String)>, // oracle failures of the `once` clause, classified by mechanism
    branches: Vec<&'static str>,
    trace: Vec<String>,
    error: Option<String>,
}

fn token(i: usize) -> String { format!("zq{i}x") }

fn big_payload(i: usize) -> Vec<u8> {
    // ~2300 characters of random words: just below the chunking limit (2400), ~4 KB of WAL per put,
    // so a dozen of them without a commit fill 75 % of the 64 KiB WAL region and the put's own
    // `if wal.should_checkpoint() { commit }` fires
    let mut v = format!("{} fat document ", token(i)).into_bytes();
    let mut x = 0x9E3779B97F4A7C15u64 ^ (i as u64 + 1);
    while v.len() < 2300 {
        x ^= x << 13; x ^= x >> 7; x ^= x << 17;
        v.push(b'a' + (x % 26) as u8);
        if x % 7 == 0 { v.push(b' '); }
    }
    v
}

/// Observation of the frame table used by the independent oracle.
fn frame_states(real: &Real) -> Vec<(bool, bool)> {
    verif_frames(&real.mem()).iter().map(|f| (f.enrichment_state == EnrichmentState::Enriched, f.status == FrameStatus::Active)).collect()
}

fn run_schedule(interval: usize, acts: &[Act], drv: Option<&mut Driver>, verbose: bool, closing: bool) -> Outcome {
    let mut out = Outcome::default();
    let mut real = match Real::new(interval) { Ok(r) => r, Err(e) => { out.error = Some(e); return out; } };
    let mut drv = drv;
    let mut model_state = String::new();
    // model: `new`, then the stop check the thread performs on its way to the first `get`
    if let Some(d) = drv.as_deref_mut() {
        let a = d.ask(&format!("new {interval}"));
        if a != "ok" { out.disagree = Some(("new".into(), a, "ok".into())); return out; }
        let a = d.ask("w");
        model_state = a.splitn(2, ' ').nth(1).unwrap_or("").to_string();
    }
    let init_real = real.state();
    if drv.is_some() && model_state != init_real {
        out.disagree = Some(("initial state".into(), model_state, init_real)); return out;
    }
    let mut full: Vec<Act> = acts.to_vec();
    let body_len = full.len();
    let mut prev = frame_states(&real);
    let mut i = 0usize;
    let mut closing_stage = 0u8; // 0 body, 1 drain, 2 stop, 3 done
    let mut drain_budget = 0usize;
    loop {
        if i >= full.len() {
            if !closing { break; }
            // closing phase: commit; drain the queue; commit; stop; let the worker leave; commit
            match closing_stage {
                0 => { full.push(Act::Commit); closing_stage = 1; drain_budget = 6 * (real.puts.len() + 2); }
                1 => {
                    let qempty = verif_state(&real.mem()).enrichment_queue.is_empty();
                    let idle = matches!(real.waiting, None | Some(("get", _)));
                    if (qempty && idle) || real.waiting.is_none() || drain_budget == 0 { full.push(Act::Commit); full.push(Act::Stop); closing_stage = 2; drain_budget = 4; }
                    else { full.push(Act::W); drain_budget -= 1; }
                }
                2 => {
                    if real.waiting.is_none() || drain_budget == 0 { full.push(Act::Commit); closing_stage = 3; }
                    else { full.push(Act::W); drain_budget -= 1; }
                }
                _ => break,
            }
            continue;
        }
        let act = full[i].clone();
        let in_body = i < body_len;
        let t_start = std::time::Instant::now();
        // ---- real side
        let mut sec_real = String::new();
        let mut put_auto = false;
        let res: String = match &act {
            Act::Put { instant, embed, big } => {
                let idx = real.puts.len();
                let payload = if *big { big_payload(idx) } else { format!("{} document number {} about enrichment", token(idx), idx).into_bytes() };
                let opts = put_options(*instant, *embed);
                let queue_len_before = verif_state(&real.mem()).enrichment_queue.len();
                let r = { let mut m = real.mem(); m.put_bytes_with_options(&payload, opts) };
                match r {
                    Ok(seq) => {
                        let st_after = verif_state(&real.mem());
                        let queued = *instant && *embed;
                        // the task id is whatever the put appended to the queue (observed, not assumed)
                        let task = if queued && st_after.enrichment_queue.len() == queue_len_before + 1 { st_after.enrichment_queue.last().copied() } else { None };
                        if queued && task.is_none() && out.oracle.is_none() {
                            out.oracle = Some(("queued-put-not-on-queue".into(), format!("step {i}: put {idx} needs enrichment but the queue did not grow by one")));
                        }
                        if !queued && st_after.enrichment_queue.len() != queue_len_before && out.oracle.is_none() {
                            out.oracle = Some(("non-queued-put-on-queue".into(), format!("step {i}: put {idx} does not need enrichment but the queue changed")));
                        }
                        real.puts.push(PutRec { seq, queued, task, token: token(idx), hash: b3(&payload) });
                        put_auto = st_after.pending_frame_inserts == 0;
                        if put_auto { out.branches.push("put-auto-commit"); }
                        out.branches.push(if *instant && *embed { "put-queued" } else { "put-not-queued" });
                        format!("ok {seq}")
                    }
                    Err(e) => { out.error = Some(format!("put failed: {e}")); break; }
                }
            }
            Act::Search => {
                let before = real.state();
                let q = if real.puts.is_empty() { "nothing".to_string() } else { real.puts[i % real.puts.len()].token.clone() };
                let r = { let mut m = real.mem(); m.search(search_req(&q)) };
                let txt = match r { Ok(r) => { out.branches.push("search-ok"); format!("hits {:?}", r.hits.iter().map(|h| h.frame_id).collect::<Vec<_>>()) }
                                    Err(e) => { out.branches.push("search-err"); format!("err {e}") } };
                let after = real.state();
                if before != after && out.oracle.is_none() {
                    out.oracle = Some(("search-changed-state".into(), format!("step {i}: search changed the handle: {before} -> {after}")));
                }
                txt
            }
            Act::Commit => {
                let r = { let mut m = real.mem(); m.commit() };
                match r { Ok(()) => "ok".into(), Err(e) => { out.error = Some(format!("commit failed: {e}")); break; } }
            }
            Act::Stop => { real.handle.stop(); if real.stop_at.is_none() { real.stop_at = Some(0); } out.branches.push("stop"); "ok".into() }
            Act::W => match real.grant() {
                Ok((sec, res)) => {
                    match sec.as_str() {
                        "get" => out.branches.push(if res == "None" { "get-empty" } else { "get-task" }),
                        "process" => out.branches.push(if res == "ok" { "process-found" } else { "process-not-found" }),
                        "complete" => out.branches.push("complete"),
                        "checkpoint" => out.branches.push("checkpoint"),
                        _ => out.branches.push("w-after-exit"),
                    }
                    sec_real = sec.clone();
                    format!("{sec} {res}")
                }
                Err(e) => { out.error = Some(e); break; }
            },
        };
        let imp = real.state();
        // ---- model side
        let (model, sec_model) = match drv.as_deref_mut() {
            None => (imp.clone(), sec_real.clone()),
            Some(d) => match &act {
                Act::Put { instant, embed, .. } => (d.ask(&format!("put {} {} {}", *instant as u8, *embed as u8, put_auto as u8)), String::new()),
                Act::Search => (d.ask("search"), String::new()),
                Act::Commit => (d.ask("commit"), String::new()),
                Act::Stop => (d.ask("stop"), String::new()),
                Act::W => {
                    let a = d.ask("w");
                    let mut it = a.splitn(2, ' ');
                    let sec = it.next().unwrap_or("").to_string();
                    let mut st = it.next().unwrap_or("").to_string();
                    // the real thread runs through the loop head (stop check) to its next gate
                    if st.contains(" pc=head ") {
                        let b = d.ask("w");
                        st = b.splitn(2, ' ').nth(1).unwrap_or("").to_string();
                    }
                    (st, sec)
                }
            },
        };
        if verbose { println!("  {:<12} {:<22} impl : {}\n  {:>5} ms {:<26} model: {}", act_str(&act), res, imp, t_start.elapsed().as_millis(), "", model); }
        out.trace.push(format!("{} {} -> {}", act_str(&act), res, imp));
        if (model != imp || sec_model != sec_real) && out.disagree.is_none() {
            out.disagree = Some((format!("step {i} `{}`{}", act_str(&act), if in_body { "" } else { " (closing phase)" }),
                format!("{sec_model} {model}"), format!("{sec_real} {imp}")));
            // the model is out of step from here on: finish the schedule on the implementation alone
            // so that the oracle (which never looks at the model) still gets its say
            drv = None;
        }
        // ---- oracle, safety clauses, after every section
        if out.oracle.is_none() {
            let cur = frame_states(&real);
            let st = verif_state(&real.mem());
            if cur.len() < prev.len() {
                out.oracle = Some(("committed-frame-disappeared".into(), format!("step {i}: toc.frames shrank {} -> {}", prev.len(), cur.len())));
            } else if cur.len() as u64 + st.pending_frame_inserts != real.puts.len() as u64 {
                out.oracle = Some(("acknowledged-put-unaccounted".into(), format!("step {i}: {} committed + {} pending != {} acknowledged puts", cur.len(), st.pending_frame_inserts, real.puts.len())));
            } else {
                for (k, (enr, active)) in cur.iter().enumerate() {
                    let was = prev.get(k).map(|p| p.0);
                    let queued = real.puts.get(k).map(|p| p.queued).unwrap_or(false);
                    if !*active { out.oracle = Some(("frame-not-active".into(), format!("step {i}: frame {k} is not Active"))); break; }
                    if !queued && !*enr { out.oracle = Some(("non-queued-frame-changed-state".into(), format!("step {i}: frame {k} was never queued but is Searchable"))); break; }
                    if let Some(w) = was {
                        if w && !*enr { out.oracle = Some(("frame-went-back-to-searchable".into(), format!("step {i}: frame {k} Enriched -> Searchable"))); break; }
                        if !w && *enr && sec_real != "process" { out.oracle = Some(("state-changed-outside-process-section".into(), format!("step {i}: frame {k} became Enriched during `{}`", act_str(&act)))); break; }
                    }
                }
            }
            prev = cur;
            // the worker stops within one loop iteration: at most get, process, complete, checkpoint
            if let Some(n) = real.stop_at { if n >= 4 && real.waiting.is_some() {
                out.oracle = Some(("worker-did-not-stop".into(), format!("step {i}: {n} worker sections ran after stop and the thread is still in the loop")));
            } }
        }
        if out.oracle.is_some() { break; }
        i += 1;
    }
    // ---- end-of-run oracle (only when the closing phase ran to its end)
    if closing && closing_stage == 3 && out.oracle.is_none() && out.error.is_none() {
        if real.waiting.is_some() {
            out.oracle = Some(("worker-did-not-stop".into(), "stop requested, four more worker sections granted, thread still inside run_worker_loop".into()));
        } else if real.handle.is_running() {
            out.oracle = Some(("worker-still-running".into(), "thread left the loop but is_running() is true".into()));
        }
        // the thread must really terminate
        real.go_tx = None;
        if let Some(t) = real.thread.take() { let _ = t.join(); }
        let n = real.puts.len();
        let (frames, queue) = { let m = real.mem(); (verif_frames(&m), verif_state(&m).enrichment_queue) };
        if out.oracle.is_none() && frames.len() != n {
            out.oracle = Some(("acknowledged-frame-lost".into(), format!("{} acknowledged puts, {} frames after the final commit", n, frames.len())));
        }
        if out.oracle.is_none() {
            for k in 0..n {
                let got = { let mut m = real.mem(); m.frame_canonical_payload(k as u64) };
                let st = frames[k].search_text.clone().unwrap_or_default();
                match got {
                    Ok(b) if b3(&b) == real.puts[k].hash && st.contains(&real.puts[k].token) => {}
                    Ok(b) => { out.oracle = Some(("acknowledged-frame-lost".into(), format!("frame {k} holds {} bytes / search text {:?}, not the content of put {k}", b.len(), &st[..st.len().min(30)]))); break; }
                    Err(e) => { out.oracle = Some(("acknowledged-frame-lost".into(), format!("frame {k} unreadable after the final commit: {e}"))); break; }
                }
            }
        }
        // once: no task processed twice; every queued put whose task has left the queue is Enriched
        if out.oracle.is_none() {
            let mut seen = std::collections::BTreeSet::new();
            for p in &real.procs { if !seen.insert(p.task) { out.oracle = Some(("task-processed-twice".into(), format!("task {} was handed to process_task twice", p.task))); break; } }
        }
        if out.oracle.is_none() {
            for p in &real.procs {
                if !real.puts.iter().any(|x| x.task == Some(p.task)) {
                    out.oracle = Some(("unknown-task-processed".into(), format!("task {} does not belong to any queued put", p.task))); break;
                }
            }
        }
        if out.oracle.is_none() {
            for (k, p) in real.puts.iter().enumerate() {
                let Some(tid) = p.task else { continue };
                if queue.contains(&tid) { continue; }
                let enriched = frames[k].enrichment_state == EnrichmentState::Enriched;
                let pr = real.procs.iter().find(|x| x.task == tid);
                match pr {
                    None => { out.oracle = Some(("task-left-queue-unprocessed".into(), format!("put {k} (task {tid}) left the queue without process_task"))); break; }
                    Some(pr) => {
                        let hit_own = pr.error.is_none() && pr.task == k as u64;
                        if !hit_own {
                            // which mechanism kept the task from reaching its own frame?
                            let (sig, why) = if k >= pr.committed_then {
                                (SIG_EARLY, format!("put {k} (frame {k}, task id {tid}, WAL sequence {}) was processed while the frame was still an uncommitted WAL record ({} frames committed): `{}`; the task was removed from the queue; frame {k} ends {}",
                                    p.seq, pr.committed_then, pr.error.clone().unwrap_or_else(|| "ok".into()), if enriched { "Enriched (by another put's task)" } else { "Searchable" }))
                            } else {
                                (SIG_SEQ, format!("put {k} is frame {k} but its task carries id {tid} (its WAL sequence is {}); process_task({tid}) {} ; frame {k} ends {}",
                                    p.seq, match &pr.error { Some(e) => format!("failed: `{e}`"), None => format!("enriched frame {tid} instead") },
                                    if enriched { "Enriched (by another put's task)" } else { "Searchable" }))
                            };
                            out.known.push((sig.to_string(), why));
                        } else if !enriched {
                            out.oracle = Some(("processed-frame-not-enriched".into(), format!("task {tid} hit its own frame {k} without error but the frame is Searchable"))); break;
                        }
                    }
                }
            }
        }
        // reopen: nothing acknowledged is lost across close/open either
        if out.oracle.is_none() {
            let states: Vec<EnrichmentState> = frames.iter().map(|f| f.enrichment_state).collect();
            let path = real.path.clone();
            if let Some(arc) = real.mem.take() {
                match Arc::try_unwrap(arc) {
                    Ok(mx) => {
                        drop(mx.into_inner().ok());
                        match Memvid::open(&path) {
                            Ok(m2) => {
                                let f2: Vec<EnrichmentState> = verif_frames(&m2).iter().map(|f| f.enrichment_state).collect();
                                if f2 != states { out.oracle = Some(("reopen-differs".into(), format!("after reopen: {f2:?}, before: {states:?}"))); }
                                // the enrichment QUEUE is part of what a close must persist: a task that left the queue in
                                // memory and is back after the reopen would be processed a second time (seed C41-1)
                                let q2 = verif_state(&m2).enrichment_queue;
                                if out.oracle.is_none() && q2 != queue {
                                    out.oracle = Some(("enrichment-queue-differs-after-reopen".into(), format!("queue before the close: {queue:?}, after reopen: {q2:?} (a completed task is queued again: its frame would be enriched twice)")));
                                }
                                out.branches.push("reopen");
                            }
                            Err(e) => { out.oracle = Some(("reopen-failed".into(), format!("{e}"))); }
                        }
                    }
                    Err(_) => { out.error = Some("handle still shared after the worker thread was joined".into()); }
                }
            }
        }
    }
    out
}

// ------------------------------------------------------------------------------------------
fn gen_schedule(rng: &mut Rng) -> Vec<Act> {
    let n = rng.usize(5, 40);
    // a few weight profiles: worker-heavy, put-heavy, commit-heavy, search-heavy, fat puts (auto-commit)
    let prof = rng.below(9);
    let mut v = vec![];
    for _ in 0..n {
        let r = rng.below(100);
        let (p_put, p_w, p_commit, p_search) = match prof { 0 | 1 => (25, 50, 12, 8), 2 | 3 => (40, 35, 10, 10), 4 | 5 => (20, 40, 25, 10), 6 | 7 => (30, 45, 5, 15), _ => (55, 35, 1, 5) };
        let a = if r < p_put {
            let k = rng.below(10);
            let big = prof == 8;
            if k < 6 { Act::Put { instant: true, embed: true, big } } else if k < 8 { Act::Put { instant: false, embed: rng.bool(), big } } else { Act::Put { instant: true, embed: false, big } }
        } else if r < p_put + p_w { Act::W }
        else if r < p_put + p_w + p_commit { Act::Commit }
        else if r < p_put + p_w + p_commit + p_search { Act::Search }
        else { Act::Stop };
        v.push(a);
    }
    v
}

fn record(sum: &mut Summary, known_sigs: &[String], interval: usize, acts: &[Act], out: &Outcome, drv: &mut Driver, use_model: bool) {
    for b in &out.branches { sum.branch(b); }
    let canon = format!("{interval}|{}", out.trace.join(";"));
    let nontrivial = out.branches.iter().any(|b| matches!(*b, "process-found" | "process-not-found"));
    sum.case(&canon, nontrivial, || json!({"case": case_json(interval, acts), "trace_tail": out.trace.iter().rev().take(3).collect::<Vec<_>>()}));
    if let Some(e) = &out.error {
        sum.oracle_violation("section-failed", e, case_json(interval, acts));
        return;
    }
    if out.oracle.is_none() && out.disagree.is_some() && !out.known.is_empty() {
        // `once` failed and the model did not go through the same states: not a known finding
        let (sig, what) = out.known[0].clone();
        sum.oracle_violation(&sig, &format!("{what} [model and implementation disagree on this schedule]"), case_json(interval, acts));
    }
    if out.oracle.is_some() || out.disagree.is_some() {
        let want_oracle = out.oracle.is_some();
        let mut fails = |cand: &[Act]| {
            let o = run_schedule(interval, cand, if use_model { Some(drv) } else { None }, false, true);
            if want_oracle { o.oracle.is_some() } else { o.disagree.is_some() }
        };
        let small = if acts.len() > 1 { shrink_list(acts, &mut fails) } else { acts.to_vec() };
        let o2 = run_schedule(interval, &small, if use_model { Some(drv) } else { None }, false, true);
        let case = case_json(interval, &small);
        if want_oracle { if let Some((sig, what)) = o2.oracle.clone().or(out.oracle.clone()) { sum.oracle_violation(&sig, &what, case.clone()); } }
        if let Some((w, m, i)) = o2.disagree.or(out.disagree.clone()) { sum.disagreement(&w, case, &m, &i); }
        return;
    }
    // `once` failures: known only when the model went through the same states (no disagreement,
    // checked above) and the mechanism's signature is a recorded finding
    let mut seen = std::collections::BTreeSet::new();
    for (sig, what) in &out.known {
        if !seen.insert(sig.clone()) { continue; }
        if use_model && known_sigs.iter().any(|k| k == sig) { sum.known_finding(sig, what, case_json(interval, acts)); }
        else { sum.oracle_violation(sig, what, case_json(interval, acts)); }
    }
}

// ------------------------------------------------------------------------------------------
/// one real two-thread run of the unmodified `start_enrichment_worker`; safety clauses only
fn free_run(rng: &mut Rng) -> Result<(u64, u64), (String, String)> {
    let dir = scratch_dir().map_err(|e| ("free-run-setup".to_string(), e.to_string()))?;
    let path = dir.path().join("f.mv2");
    let mem = Arc::new(Mutex::new(Memvid::create(&path).map_err(|e| ("free-run-setup".to_string(), e.to_string()))?));
    let cfg = EnrichmentWorkerConfig { embedding_batch_size: 32, checkpoint_interval: rng.usize(1, 3), task_delay_ms: rng.range(0, 1), max_task_time_ms: 5000 };
    let handle = start_enrichment_worker(Arc::clone(&mem), Some(cfg));
    let n_ops = rng.usize(4, 12);
    let mut puts: Vec<PutRec> = vec![];
    let mut frng = rng.fork();
    let pause = |r: &mut Rng| match r.below(5) { 0 => std::thread::yield_now(), 1 => std::thread::sleep(Duration::from_micros(r.range(50, 3000))), 2 => std::thread::sleep(Duration::from_millis(r.range(1, 12))), _ => {} };
    for _ in 0..n_ops {
        pause(&mut frng);
        let r = frng.below(100);
        let mut m = mem.lock().map_err(|_| ("mutex-poisoned".to_string(), "a section panicked".to_string()))?;
        pause(&mut frng); // hold the lock across a yield: the worker must wait, not interleave
        if r < 55 {
            let (instant, embed) = match frng.below(10) { 0..=5 => (true, true), 6 | 7 => (false, frng.bool()), _ => (true, false) };
            let idx = puts.len();
            let seq = m.put_bytes_with_options(format!("{} document number {} about enrichment", token(idx), idx).as_bytes(), put_options(instant, embed))
                .map_err(|e| ("free-run-put-failed".to_string(), e.to_string()))?;
            // under the lock the worker cannot have touched the queue since the push: the last id is this put's
            let task = if instant && embed { verif_state(&m).enrichment_queue.last().copied() } else { None };
            puts.push(PutRec { seq, queued: instant && embed, task, token: token(idx), hash: String::new() });
        } else if r < 80 {
            m.commit().map_err(|e| ("free-run-commit-failed".to_string(), e.to_string()))?;
        } else if !puts.is_empty() {
            let q = puts[frng.below(puts.len() as u64) as usize].token.clone();
            let _ = m.search(search_req(&q));
        }
        // safety, observed under the lock: non-queued frames are Enriched, nothing vanished
        let fr = verif_frames(&m);
        let st = verif_state(&m);
        if fr.len() as u64 + st.pending_frame_inserts != puts.len() as u64 {
            return Err(("acknowledged-put-unaccounted".into(), format!("{} committed + {} pending != {} puts", fr.len(), st.pending_frame_inserts, puts.len())));
        }
        for (k, f) in fr.iter().enumerate() {
            if !puts[k].queued && f.enrichment_state != EnrichmentState::Enriched { return Err(("non-queued-frame-changed-state".into(), format!("frame {k}"))); }
        }
    }
    pause(&mut frng);
    // stop and join with a timeout
    let (tx, rx) = channel();
    std::thread::spawn(move || { let st = handle.stop_and_wait(); let _ = tx.send(st); });
    let stats = rx.recv_timeout(Duration::from_secs(60)).map_err(|_| ("worker-did-not-stop".to_string(), "stop_and_wait did not return within 60 s".to_string()))?;
    if stats.is_running { return Err(("worker-still-running".into(), "is_running after stop_and_wait".into())); }
    let mut m = mem.lock().map_err(|_| ("mutex-poisoned".to_string(), "a section panicked".to_string()))?;
    m.commit().map_err(|e| ("free-run-commit-failed".to_string(), e.to_string()))?;
    let fr = verif_frames(&m);
    if fr.len() != puts.len() { return Err(("acknowledged-frame-lost".into(), format!("{} puts, {} frames", puts.len(), fr.len()))); }
    for k in 0..puts.len() {
        let t = m.frame_text_by_id(k as u64).map_err(|e| ("acknowledged-frame-lost".to_string(), format!("frame {k}: {e}")))?;
        if !t.contains(&puts[k].token) { return Err(("acknowledged-frame-lost".into(), format!("frame {k} has other content"))); }
        if !puts[k].queued && fr[k].enrichment_state != EnrichmentState::Enriched { return Err(("non-queued-frame-changed-state".into(), format!("frame {k}"))); }
    }
    let nq = puts.iter().filter(|p| p.queued).count() as u64;
    if stats.frames_processed > nq { return Err(("task-processed-twice".into(), format!("{} tasks processed, {} queued", stats.frames_processed, nq))); }
    for id in verif_state(&m).enrichment_queue { if !puts.iter().any(|p| p.task == Some(id)) { return Err(("unknown-task-in-queue".into(), format!("{id}"))); } }
    Ok((stats.frames_processed, stats.errors))
}

// ------------------------------------------------------------------------------------------
fn enumerate(sum: &mut Summary, known: &[String], drv: &mut Driver, use_model: bool, alphabet: &[Act], depth: usize, interval: usize, deadline: std::time::Instant) -> (u64, bool) {
    let mut idx = vec![0usize; depth];
    let mut ran = 0u64;
    loop {
        if std::time::Instant::now() >= deadline { return (ran, false); }
        let acts: Vec<Act> = idx.iter().map(|i| alphabet[*i].clone()).collect();
        // schedules without a put only exercise the idle loop: keep one in sixteen
        let has_put = acts.iter().any(|a| matches!(a, Act::Put { .. }));
        if has_put || idx.iter().sum::<usize>() % 16 == 0 {
            let out = run_schedule(interval, &acts, if use_model { Some(drv) } else { None }, false, true);
            sum.branch("enumerated");
            ran += 1;
            record(sum, known, interval, &acts, &out, drv, use_model);
            if sum.oracle_violations.len() + sum.disagreements.len() >= 5 { return (ran, true); }
        }
        let mut k = depth;
        loop {
            if k == 0 { return (ran, true); }
            k -= 1;
            idx[k] += 1;
            if idx[k] < alphabet.len() { break; }
            idx[k] = 0;
        }
    }
}

fn main() {
    let args = parse_args();
    let use_model = args.driver.to_string_lossy() != "none";
    let mut drv = Driver::spawn(if use_model { &args.driver } else { std::path::Path::new("/bin/cat") }).expect("spawn driver");
    let known: Vec<String> = args.extra.get("known").map(|s| s.split(',').filter(|x| !x.is_empty() && *x != "-").map(|x| x.to_string()).collect()).unwrap_or_default();
    let mut sum = Summary::new("C41", &args,
        "schedules over the section alphabet (foreground put[instant,embed,big] / search / commit / stop; w = the worker thread \
         runs its next section: get, process, complete, checkpoint) executed on a real handle behind Arc<Mutex<Memvid>> with \
         the real run_worker_loop gated at its closures, and on the Lean model; state (queue, per-frame enrichment_state, \
         pending, WAL sequence, dirty flags, worker pc, stop flag, stats) compared after every section; every schedule is \
         closed by commit / drain / commit / stop / join / commit / reopen; non-trivial = a task reached process_task; \
         distinct = full section/state trace.  Plus free-running two-thread runs of start_enrichment_worker (safety clauses only)");
    sum.expect_branches(&["put-queued", "put-not-queued", "get-task", "get-empty", "process-found", "process-not-found", "complete",
                          "checkpoint", "stop", "search-ok", "search-err", "put-auto-commit", "w-after-exit", "reopen", "free-run"]);
    if args.mode == "replay" {
        let case = load_replay(args.replay_file.as_ref().expect("replay file"));
        let input = case.get("input").unwrap_or(&case);
        let interval = input["interval"].as_u64().unwrap_or(100) as usize;
        let acts: Vec<Act> = input["schedule"].as_array().unwrap().iter().map(|s| act_from(s.as_str().unwrap())).collect();
        println!("schedule (interval {interval}): {}", acts.iter().map(act_str).collect::<Vec<_>>().join(" ; "));
        let out = run_schedule(interval, &acts, if use_model { Some(&mut drv) } else { None }, true, true);
        if let Some((sig, what)) = &out.oracle { println!("ORACLE {sig}: {what}"); }
        if let Some((w, m, i)) = &out.disagree { println!("DISAGREE {w}:\n  model={m}\n  impl ={i}"); }
        if let Some(e) = &out.error { println!("ERROR {e}"); }
        for (sig, what) in &out.known { println!("ONCE-FAILS {sig}: {what}"); }
        record(&mut sum, &known, interval, &acts, &out, &mut drv, use_model);
        sum.finish(&args);
    }
    let pie = Act::Put { instant: true, embed: true, big: false };
    let ppl = Act::Put { instant: false, embed: false, big: false };
    let pin = Act::Put { instant: true, embed: false, big: false };
    let w = Act::W;
    // fixed corpus: the witnesses of the two recorded mechanisms first
    let corpus: Vec<(usize, Vec<Act>)> = vec![
        // (ii) task processed before the foreground commit: put; [stop check] get; process; complete; commit
        (100, vec![pie.clone(), w.clone(), w.clone(), w.clone(), Act::Commit]),
        // (i) committed first, the task still carries WAL sequence 1 for frame 0
        (100, vec![pie.clone(), Act::Commit, w.clone(), w.clone(), w.clone()]),
        // (i) the task of put 0 (sequence 1) enriches frame 1 instead
        (100, vec![pie.clone(), pie.clone(), Act::Commit, w.clone(), w.clone(), w.clone(), w.clone(), w.clone(), w.clone()]),
        // (i) the task of a queued put lands on a frame that was never queued
        (100, vec![pie.clone(), ppl.clone(), Act::Commit, w.clone(), w.clone(), w.clone()]),
        // periodic checkpoint by the worker commits the foreground's pending put
        (1, vec![pie.clone(), w.clone(), w.clone(), w.clone(), w.clone(), Act::Search]),
        // stop while holding a task: the iteration finishes, then the final checkpoint
        (100, vec![pie.clone(), Act::Commit, w.clone(), Act::Stop, w.clone(), w.clone(), w.clone(), w.clone(), w.clone()]),
        // stop while holding the first of two tasks: the second one must stay in the queue
        (100, vec![pie.clone(), pie.clone(), Act::Commit, w.clone(), Act::Stop]),
        // stop with an empty queue, more puts afterwards stay queued
        (100, vec![Act::Stop, w.clone(), pie.clone(), w.clone(), Act::Commit]),
        // the put's own auto-commit (WAL 75 % full)
        (100, { let fat = Act::Put { instant: true, embed: true, big: true };
                let mut v = vec![pie.clone(), w.clone()]; for _ in 0..16 { v.push(fat.clone()); } v.extend([w.clone(), w.clone(), w.clone(), w.clone()]); v }),
        (2, vec![pin.clone(), ppl.clone(), Act::Search, Act::Commit, Act::Search, pie.clone(), Act::Search, w.clone(), w.clone(), w.clone()]),
        (100, vec![]),
    ];
    let t_corpus = std::time::Instant::now();
    let mut corpus_skipped = 0usize;
    for (ci, (interval, acts)) in corpus.iter().enumerate() {
        // the four witnesses always run; on a badly overloaded machine the rest of the corpus gives way
        if ci >= 4 && !args.thorough && t_corpus.elapsed().as_secs() >= 75 { corpus_skipped += 1; continue; }
        let out = run_schedule(*interval, acts, if use_model { Some(&mut drv) } else { None }, false, true);
        sum.branch("corpus");
        record(&mut sum, &known, *interval, acts, &out, &mut drv, use_model);
    }
    if corpus_skipped > 0 { sum.notes.push(format!("{corpus_skipped} corpus schedules skipped: the first ones took more than 75 s (overloaded machine)")); }
    let mut rng = Rng::new(args.seed);
    let (n_random, n_free, depth) = if args.thorough { (1500, 400, 5) } else { (120, 40, 3) };
    // wall-clock budgets (the machine may be heavily loaded): the streams stop early, never silently —
    // the number of cases actually run is in the summary
    let t_begin = std::time::Instant::now();
    let (b_random, b_enum, b_free) = if args.thorough { (420u64, 900u64, 1080u64) } else { (25u64, 42u64, 55u64) };
    let mut ran_random = 0u64;
    for _ in 0..n_random {
        if t_begin.elapsed().as_secs() >= b_random { break; }
        ran_random += 1;
        let interval = *rng.pick(&[1usize, 1, 2, 3, 100]);
        let acts = gen_schedule(&mut rng);
        let out = run_schedule(interval, &acts, if use_model { Some(&mut drv) } else { None }, false, true);
        sum.branch("random");
        record(&mut sum, &known, interval, &acts, &out, &mut drv, use_model);
        if sum.oracle_violations.len() + sum.disagreements.len() >= 5 { break; }
    }
    let alphabet = vec![pie.clone(), w.clone(), Act::Commit, ppl.clone(), Act::Stop];
    let deadline = t_begin + Duration::from_secs(b_enum);
    let e1 = enumerate(&mut sum, &known, &mut drv, use_model, &alphabet, depth, if args.thorough { 1 } else { 2 }, deadline);
    let e2 = if args.thorough { enumerate(&mut sum, &known, &mut drv, use_model, &[pie.clone(), w.clone(), Act::Commit, Act::Search], 6, 100, deadline) } else { (0, true) };
    sum.notes.push(format!("random schedules run: {ran_random} of {n_random}; exhaustive depth-{depth} over 5 sections: {} schedules{}; depth-6 over 4 sections: {} schedules{}",
        e1.0, if e1.1 { "" } else { " (cut by the time budget)" }, e2.0, if e2.1 { "" } else { " (cut by the time budget)" }));
    // sanity stream: real threads
    let mut free_ok = 0u64; let mut free_proc = 0u64; let mut free_err = 0u64;
    let mut ran_free = 0u64;
    for k in 0..n_free {
        let mut r = rng.fork();
        if t_begin.elapsed().as_secs() >= b_free && ran_free >= 5 { break; }
        ran_free += 1;
        match guarded(std::panic::AssertUnwindSafe(|| free_run(&mut r))) {
            Ok(Ok((p, e))) => { free_ok += 1; free_proc += p; free_err += e; sum.branch("free-run"); }
            Ok(Err((sig, what))) => sum.oracle_violation(&sig, &format!("two-thread run #{k} (seed {}): {what}", args.seed), json!({"free_run": k, "seed": args.seed})),
            Err(p) => sum.oracle_violation("free-run-panicked", &p, json!({"free_run": k, "seed": args.seed})),
        }
    }
    sum.notes.push(format!("two-thread sanity stream: {free_ok}/{ran_free} runs (of {n_free} planned) kept the safety clauses; the real worker processed {free_proc} tasks, {free_err} of them with `Frame not found`"));
    sum.model_requests = drv.requests;
    sum.finish(&args);
}
