#!/usr/bin/env python3
"""C18: constants and code-shape flags of the read-only open path.

Gen/C18.lean gets
  MAX_SEARCH_SIZE              `locate_footer_window`'s first tail window   (src/memvid/lifecycle.rs)
  LEGACY_LOCK_REGION_START/END the header padding `HeaderCodec::read` clears (src/io/header.rs)
  HEADER_SIZE                  (src/constants.rs)
  WAL_OPENED_READ_ONLY         `open_read_only_snapshot` opens the log with `EmbeddedWal::open_read_only`
  HEADER_READ_CLEARS_LEGACY    `open_read_only_snapshot` reads the header through `HeaderCodec::read`
                               (which rewrites the header when legacy bytes are set) rather than
                               reading the bytes and calling `HeaderCodec::decode`
  ALIGN_ON_READ_ONLY           `align_footer_with_catalog` can run on a read-only handle (no
                               `read_only` guard in it nor at its call site in
                               `materialize_tantivy_segments`)
The three flags select the model variant that the correspondence run compares with the
implementation (`Mv.ReadOnly.codeVariant`); the theorems are stated for explicit variants.
"""
import re
from common import *


def fn_body(src, name):
    s = strip_comments(src)
    m = re.search(r"\bfn\s+" + re.escape(name) + r"\b", s)
    if not m:
        raise TranslateError(f"fn {name} not found")
    i = s.find("{", m.end())
    depth, j = 0, i
    while j < len(s):
        if s[j] == "{":
            depth += 1
        elif s[j] == "}":
            depth -= 1
            if depth == 0:
                break
        j += 1
    if i < 0 or j >= len(s):
        raise TranslateError(f"fn {name}: body not delimited")
    return re.sub(r"\s+", "", s[i:j + 1])


def lean_bool(b):
    return "true" if b else "false"


def run():
    c = read("src/constants.rs")
    h = read("src/io/header.rs")
    life = read("src/memvid/lifecycle.rs")
    mut = read("src/memvid/mutation.rs")
    api = read("src/memvid/search/api.rs")
    header_size = const_int(c, "HEADER_SIZE")
    env = {}
    for n in ["TOC_CHECKSUM_POS", "TOC_CHECKSUM_END", "LEGACY_LOCK_REGION_START", "LEGACY_LOCK_REGION_END"]:
        env[n] = const_int(h, n, env)
    max_search = const_int(life, "MAX_SEARCH_SIZE")

    # shape of `clear_legacy_lock_metadata` / `HeaderCodec::read`
    clr = fn_body(h, "clear_legacy_lock_metadata")
    for frag in ["&mutbuf[LEGACY_LOCK_REGION_START..LEGACY_LOCK_REGION_END]", "region.iter().any(|byte|*byte!=0)", "region.fill(0)"]:
        if frag not in clr:
            raise TranslateError(f"clear_legacy_lock_metadata: statement not found: {frag}")
    rd = fn_body(h, "read")
    for frag in ["ifclear_legacy_lock_metadata(&mutbuf){reader.seek(SeekFrom::Start(0))?;reader.write_all(&buf)?;", "Self::decode(&buf)"]:
        if frag not in rd:
            raise TranslateError(f"HeaderCodec::read: statement not found: {frag}")

    snap = fn_body(life, "open_read_only_snapshot")
    if "EmbeddedWal::open_read_only(&file,&header)" in snap:
        wal_ro = True
    elif "EmbeddedWal::open(&file,&header)" in snap:
        wal_ro = False
    else:
        raise TranslateError("open_read_only_snapshot: EmbeddedWal open call not found")
    if "HeaderCodec::read(&mutfile)" in snap:
        clears = True
    elif "HeaderCodec::decode(" in snap:
        clears = False
    else:
        raise TranslateError("open_read_only_snapshot: header read/decode call not found")
    if "read_only:true" not in snap:
        raise TranslateError("open_read_only_snapshot: `read_only: true` not found")
    if "load_tail_snapshot(&file)" not in snap:
        raise TranslateError("open_read_only_snapshot: load_tail_snapshot call not found")

    align = fn_body(mut, "align_footer_with_catalog")
    mat = fn_body(api, "materialize_tantivy_segments")
    if "self.align_footer_with_catalog()" not in mat:
        raise TranslateError("materialize_tantivy_segments: align_footer_with_catalog call not found")
    guarded = ("ifself.read_only{returnOk(false);}" in align) or ("!self.read_only&&self.align_footer_with_catalog()?" in mat)
    for frag in ["letcatalog_end=self.catalog_data_end();", "ifcatalog_end<=self.header.footer_offset{returnOk(false);}",
                 "self.header.footer_offset=catalog_end;self.rewrite_toc_footer()?;",
                 "crate::persist_header(&mutself.file,&self.header)?;"]:
        if frag not in align:
            raise TranslateError(f"align_footer_with_catalog: statement not found: {frag}")

    body = "\n".join([
        f"def HEADER_SIZE : Nat := {header_size}",
        f"def LEGACY_LOCK_REGION_START : Nat := {env['LEGACY_LOCK_REGION_START']}",
        f"def LEGACY_LOCK_REGION_END : Nat := {env['LEGACY_LOCK_REGION_END']}",
        f"def MAX_SEARCH_SIZE : Nat := {max_search}",
        f"def WAL_OPENED_READ_ONLY : Bool := {lean_bool(wal_ro)}",
        f"def HEADER_READ_CLEARS_LEGACY : Bool := {lean_bool(clears)}",
        f"def ALIGN_ON_READ_ONLY : Bool := {lean_bool(not guarded)}",
    ]) + "\n"
    return emit("C18", body)


main(run)
