/-
  C40Lemmas — what `apply_records` does with the WAL records of plain puts, in closed form.

  The bulk-ingestion paths differ only in WHERE the pending records of a document set are cut into
  `apply_records` batches (explicit commit, automatic checkpoint, skip-index commit) and in what each
  commit does to the indexes.  This file shows that the frames a batch of put records produces do not
  depend on the cut: the frame table grows by `ldocs` (logical frames: everything but placement and
  stored length), the engine / sketch track grow by the ids of the frames with index text, the delta
  carries `embsOf`.
-/
import MvModel.Spec
import MvModel.Bulk
namespace Mv.Core

/-! ## Logical frames -/

/-- a frame without what depends on where and how its bytes were stored (`off`, `len`, `zstd`) -/
structure LFrame where
  v : SFrame
  parent : Option Nat
  idx : Bool
deriving DecidableEq, Repr, Inhabited

def lview (f : Frame) : LFrame := { v := view f, parent := f.parent, idx := f.idx }

/-- the stored range of a frame is readable: an empty range only for an empty, uncompressed payload -/
def FrameOk (f : Frame) : Prop := f.len = 0 → (f.content = "E" ∧ f.zstd = false)

/-- every chunk frame knows its document (no work for the orphan pass of `apply_records`) -/
def NoOrphan (frames : List Frame) : Prop := ∀ f ∈ frames, f.role = Role.chunk → f.parent.isSome = true

/-- the put has an embedding somewhere -/
def hasEmb (a : PutArgs) : Bool := a.emb.isSome || a.chunks.any (·.emb.isSome)

/-- well-formed trace inputs of a plain put of a document -/
structure DocOk (a : PutArgs) : Prop where
  /-- the caller does not choose the DocumentChunk role (documented precondition of the family) -/
  role : a.role ≠ Role.chunk
  /-- a payload that is stored in zero bytes is the empty, uncompressed one -/
  own : a.len = 0 → (a.content = "E" ∧ a.zstd = false)
  /-- chunk texts are non-empty, so their zstd frames are not empty either -/
  chunks : ∀ c ∈ a.chunks, c.len ≠ 0
  /-- the dimension contract sees every embedding the entries carry -/
  emb : hasEmb a = true → embDims a ≠ []

/-- the logical frame of the document entry of put `a` at id `k` -/
def ldoc (a : PutArgs) (k : Nat) : LFrame :=
  { v := mkSFrame k (parentIns a none none) a.content, parent := none, idx := a.st }

/-- the logical frame of chunk `i` (of `n`) of the document at id `d`, itself at id `k` -/
def lchunk (a : PutArgs) (d n i : Nat) (c : ChunkArg) (k : Nat) : LFrame :=
  { v := mkSFrame k (chunkIns a 0 n i c) c.content, parent := some d, idx := true }

def lchunks (a : PutArgs) (d n : Nat) : List ChunkArg → Nat → Nat → List LFrame
  | [], _, _ => []
  | c :: cs, i, k => lchunk a d n i c k :: lchunks a d n cs (i + 1) (k + 1)

/-- the logical frames one put produces, starting at id `k` -/
def ldocFrames (a : PutArgs) (k : Nat) : List LFrame :=
  ldoc a k :: lchunks a k a.chunks.length a.chunks 0 (k + 1)

/-- the logical frames a document set produces, starting at id `k` -/
def ldocs : Nat → List PutArgs → List LFrame
  | _, [] => []
  | k, a :: as => ldocFrames a k ++ ldocs (k + 1 + a.chunks.length) as

def embEnt (k : Nat) : Option Emb → List VecEnt
  | some (d, t) => [{ id := k, dim := d, tok := t }]
  | none => []

def chunkEmbs : List ChunkArg → Nat → List VecEnt
  | [], _ => []
  | c :: cs, k => embEnt k c.emb ++ chunkEmbs cs (k + 1)

def docEmbs (a : PutArgs) (k : Nat) : List VecEnt := embEnt k a.emb ++ chunkEmbs a.chunks (k + 1)

/-- the vector entries a document set produces, starting at id `k` -/
def embsOf : Nat → List PutArgs → List VecEnt
  | _, [] => []
  | k, a :: as => docEmbs a k ++ embsOf (k + 1 + a.chunks.length) as

/-- ids of the frames the engine indexes (active, with index text), on logical frames -/
def lidx (l : List LFrame) : List Nat := (l.filter (fun x => x.v.status == Status.active && x.idx)).map (·.v.id)

@[simp] theorem lchunks_length (a : PutArgs) (d n : Nat) (cs : List ChunkArg) (i k : Nat) :
    (lchunks a d n cs i k).length = cs.length := by
  induction cs generalizing i k with
  | nil => rfl
  | cons c cs ih => simp [lchunks, ih]

@[simp] theorem ldocFrames_length (a : PutArgs) (k : Nat) : (ldocFrames a k).length = 1 + a.chunks.length := by
  simp [ldocFrames]; omega

theorem fullLexRebuild_eq_lidx (fs : List Frame) : fullLexRebuild fs = lidx (fs.map lview) := by
  simp [fullLexRebuild, lidx, List.filter_map, Function.comp_def, lview, view]

theorem fullLexRebuild_append (a b : List Frame) : fullLexRebuild (a ++ b) = fullLexRebuild a ++ fullLexRebuild b := by
  simp [fullLexRebuild]

theorem lidx_append (a b : List LFrame) : lidx (a ++ b) = lidx a ++ lidx b := by simp [lidx]

/-! ## `applyLoop` -/

theorem applyLoop_append (st : ApSt) (a b : List (Nat × Entry)) :
    applyLoop st (a ++ b) = (applyLoop st a).bind (fun st' => applyLoop st' b) := by
  induction a generalizing st with
  | nil => rfl
  | cons r rs ih =>
    simp only [List.cons_append, applyLoop]
    cases applyOne st r with
    | none => rfl
    | some st1 => exact ih st1

theorem applyLoop_onlyLex (st : ApSt) (l : List (Nat × Entry)) (h : ∀ r ∈ l, r.2 = Entry.lex) :
    applyLoop st l = some st := by
  induction l with
  | nil => rfl
  | cons r rs ih =>
    have hr : r.2 = Entry.lex := h r (by simp)
    have h1 : applyOne st r = some st := by unfold applyOne; rw [hr]
    simp only [applyLoop, h1]
    exact ih (fun x hx => h x (by simp [hx]))

/-- how a stretch of Insert records of plain puts extends the state of `apply_records` -/
structure Ext (st st' : ApSt) (lnew : List LFrame) (E : List VecEnt) : Prop where
  frames : ∃ nf, st'.frames = st.frames ++ nf ∧ nf.map lview = lnew ∧
    (∀ f ∈ nf, FrameOk f ∧ f.status = Status.active ∧ (f.role = Role.chunk → f.parent.isSome = true))
  lexDocs : st'.lexDocs = st.lexDocs ++ (if st.engine then lidx lnew else [])
  sketch : st'.sketch = st.sketch ++ (if st.engine then lidx lnew else [])
  dirty : st'.tantivyDirty = (st.tantivyDirty || (st.engine && !(lidx lnew).isEmpty))
  embs : st'.embs = st.embs ++ E
  vec : st'.vec = st.vec
  engine : st'.engine = st.engine
  inserted : st'.inserted = st.inserted ++ List.range' st.frames.length lnew.length

theorem Ext.refl (st : ApSt) : Ext st st [] [] :=
  ⟨⟨[], by simp, rfl, by simp⟩, by simp [lidx], by simp [lidx], by simp [lidx], by simp, rfl, rfl, by simp⟩

theorem Ext.length {st st' : ApSt} {l E} (h : Ext st st' l E) : st'.frames.length = st.frames.length + l.length := by
  obtain ⟨nf, h1, h2, _⟩ := h.frames
  rw [h1, List.length_append, ← h2, List.length_map]

theorem Ext.trans {a b c : ApSt} {l1 l2 E1 E2} (h1 : Ext a b l1 E1) (h2 : Ext b c l2 E2) :
    Ext a c (l1 ++ l2) (E1 ++ E2) := by
  obtain ⟨n1, f1, m1, p1⟩ := h1.frames
  obtain ⟨n2, f2, m2, p2⟩ := h2.frames
  refine ⟨⟨n1 ++ n2, by rw [f2, f1, List.append_assoc], by rw [List.map_append, m1, m2], ?_⟩, ?_, ?_, ?_, ?_, ?_, ?_, ?_⟩
  · intro f hf
    rcases List.mem_append.mp hf with h | h
    · exact p1 f h
    · exact p2 f h
  · rw [h2.lexDocs, h1.lexDocs, h1.engine, lidx_append]; cases a.engine <;> simp
  · rw [h2.sketch, h1.sketch, h1.engine, lidx_append]; cases a.engine <;> simp
  · rw [h2.dirty, h1.dirty, h1.engine, lidx_append]
    cases a.tantivyDirty <;> cases a.engine <;> cases (lidx l1) <;> cases (lidx l2) <;> simp
  · rw [h2.embs, h1.embs, List.append_assoc]
  · rw [h2.vec, h1.vec]
  · rw [h2.engine, h1.engine]
  · rw [h2.inserted, h1.inserted, h1.length, List.length_append, List.append_assoc]
    congr 1
    have := @List.range'_append a.frames.length l1.length l2.length 1
    simpa using this

/-! ## One Insert record of a plain put -/

/-- the parent the first pass of `apply_records` gives an entry -/
def parentOf (st : ApSt) (e : Ins) : Option Nat :=
  match e.parentSeq with
  | none => none
  | some ps =>
    match st.seqMap.lookup ps with
    | some fid => some fid
    | none => if e.role == .chunk then fallbackParent st.frames st.inserted else none

/-- an Insert record that neither supersedes nor reuses: the state after it, written out -/
def insertStep (st : ApSt) (s : Nat) (e : Ins) : ApSt :=
  { st with
    cursor := st.cursor + e.len
    payloadEnd := max st.payloadEnd (st.cursor + e.len)
    lexDocs := if st.engine && e.idx then st.lexDocs ++ [st.frames.length] else st.lexDocs
    tantivyDirty := if st.engine && e.idx then true else st.tantivyDirty
    sketch := if st.engine && e.idx then st.sketch ++ [st.frames.length] else st.sketch
    embs := match e.emb with
      | some (d, t) => st.embs ++ [{ id := st.frames.length, dim := d, tok := t }]
      | none => st.embs
    timeN := if e.role == .document then st.timeN + 1 else st.timeN
    frames := st.frames ++ [mkFrame st.frames.length e e.content st.cursor e.len (parentOf st e) e.zstd]
    inserted := st.inserted ++ [st.frames.length]
    seqMap := (s, st.frames.length) :: st.seqMap }

theorem applyOne_insert (st : ApSt) (s : Nat) (e : Ins) (hs : e.supersedes = none) (hr : e.reuseFrom = none) :
    applyOne st (s, Entry.insert e) = some (insertStep st s e) := by
  simp only [applyOne, hs, hr]
  rfl

theorem lidx_single (x : LFrame) (h : x.v.status = Status.active) : lidx [x] = if x.idx then [x.v.id] else [] := by
  cases hx : x.idx <;> simp [lidx, h, hx]

/-- `insertStep` as an extension -/
theorem insertStep_ext (st : ApSt) (s : Nat) (e : Ins) (hlen : e.len = 0 → (e.content = "E" ∧ e.zstd = false))
    (hpar : e.role = Role.chunk → (parentOf st e).isSome = true) :
    Ext st (insertStep st s e)
      [{ v := mkSFrame st.frames.length e e.content, parent := parentOf st e, idx := e.idx }]
      (embEnt st.frames.length e.emb) := by
  have hl : lidx [({ v := mkSFrame st.frames.length e e.content, parent := parentOf st e, idx := e.idx } : LFrame)]
      = if e.idx then [st.frames.length] else [] := by
    rw [lidx_single _ rfl]; rfl
  refine ⟨⟨[mkFrame st.frames.length e e.content st.cursor e.len (parentOf st e) e.zstd], rfl, rfl, ?_⟩, ?_, ?_, ?_, ?_, rfl, rfl, ?_⟩
  · intro f hf
    simp only [List.mem_singleton] at hf
    subst hf
    exact ⟨hlen, rfl, hpar⟩
  · rw [hl]; cases hE : st.engine <;> cases hI : e.idx <;> simp [insertStep, hE, hI]
  · rw [hl]; cases hE : st.engine <;> cases hI : e.idx <;> simp [insertStep, hE, hI]
  · rw [hl]; cases hE : st.engine <;> cases hI : e.idx <;> cases hD : st.tantivyDirty <;> simp [insertStep, hE, hI, hD]
  · cases he : e.emb with
    | none => simp [insertStep, he, embEnt]
    | some p => obtain ⟨d, t⟩ := p; simp [insertStep, he, embEnt]
  · simp [insertStep, List.range']

/-! ## The records of one put, of a document set -/

theorem mkSFrame_chunkIns (a : PutArgs) (pseq n i k : Nat) (c : ChunkArg) :
    mkSFrame k (chunkIns a pseq n i c) c.content = mkSFrame k (chunkIns a 0 n i c) c.content := rfl

theorem applyLoop_chunks (a : PutArgs) (pseq n d : Nat) (cs : List ChunkArg) (hcs : ∀ c ∈ cs, c.len ≠ 0) (i : Nat) (st : ApSt)
    (hmap : st.seqMap.lookup pseq = some d) :
    ∃ st', applyLoop st (chunkRecords a pseq n cs i) = some st' ∧
      Ext st st' (lchunks a d n cs i st.frames.length) (chunkEmbs cs st.frames.length) := by
  induction cs generalizing i st with
  | nil => exact ⟨st, rfl, Ext.refl st⟩
  | cons c cs ih =>
    have hpar : parentOf st (chunkIns a pseq n i c) = some d := by
      simp only [parentOf, chunkIns, hmap]
    have h1 := applyOne_insert st (pseq + 1 + i) (chunkIns a pseq n i c) rfl rfl
    have he := insertStep_ext st (pseq + 1 + i) (chunkIns a pseq n i c)
      (fun h => absurd h (hcs c (by simp))) (fun _ => by rw [hpar]; rfl)
    have hmap' : (insertStep st (pseq + 1 + i) (chunkIns a pseq n i c)).seqMap.lookup pseq = some d := by
      have hne : (pseq == pseq + 1 + i) = false := by simp; omega
      simp only [insertStep, List.lookup_cons, hne, hmap]
    obtain ⟨st2, h2, e2⟩ := ih (fun x hx => hcs x (by simp [hx])) (i + 1) _ hmap'
    refine ⟨st2, by simp only [chunkRecords, applyLoop, h1]; exact h2, ?_⟩
    have hlen : (insertStep st (pseq + 1 + i) (chunkIns a pseq n i c)).frames.length = st.frames.length + 1 := by
      simp [insertStep]
    rw [hlen] at e2
    have := Ext.trans he e2
    rw [hpar] at this
    exact this

/-- the records of one accepted plain put -/
theorem applyLoop_put (st : ApSt) (s : Nat) (a : PutArgs) (hok : DocOk a) :
    ∃ st', applyLoop st (putRecords s a none none) = some st' ∧
      Ext st st' (ldocFrames a st.frames.length) (docEmbs a st.frames.length) := by
  have hpar : parentOf st (parentIns a none none) = none := by simp only [parentOf, parentIns]
  have h1 := applyOne_insert st (s + 1) (parentIns a none none) rfl rfl
  have he := insertStep_ext st (s + 1) (parentIns a none none) hok.own
    (fun h => absurd h hok.role)
  have hmap' : (insertStep st (s + 1) (parentIns a none none)).seqMap.lookup (s + 1) = some st.frames.length := by
    simp [insertStep]
  obtain ⟨st2, h2, e2⟩ := applyLoop_chunks a (s + 1) a.chunks.length st.frames.length a.chunks hok.chunks 0 _ hmap'
  refine ⟨st2, by simp only [putRecords, applyLoop, h1]; exact h2, ?_⟩
  have hlen : (insertStep st (s + 1) (parentIns a none none)).frames.length = st.frames.length + 1 := by
    simp [insertStep]
  rw [hlen] at e2
  have := Ext.trans he e2
  rw [hpar] at this
  exact this

/-- the pending records of a list of accepted plain puts `(sequence before the put, arguments)` -/
def recsOf (pd : List (Nat × PutArgs)) : List (Nat × Entry) :=
  pd.flatMap (fun p => putRecords p.1 p.2 none none)

theorem applyLoop_recsOf (pd : List (Nat × PutArgs)) (hok : ∀ p ∈ pd, DocOk p.2) (st : ApSt) :
    ∃ st', applyLoop st (recsOf pd) = some st' ∧
      Ext st st' (ldocs st.frames.length (pd.map (·.2))) (embsOf st.frames.length (pd.map (·.2))) := by
  induction pd generalizing st with
  | nil => exact ⟨st, rfl, Ext.refl st⟩
  | cons p ps ih =>
    obtain ⟨st1, h1, e1⟩ := applyLoop_put st p.1 p.2 (hok p (by simp))
    obtain ⟨st2, h2, e2⟩ := ih (fun x hx => hok x (by simp [hx])) st1
    refine ⟨st2, ?_, ?_⟩
    · simp only [recsOf, List.flatMap_cons, applyLoop_append, h1, Option.bind]
      exact h2
    · have hl := e1.length
      rw [ldocFrames_length] at hl
      have : st1.frames.length = st.frames.length + 1 + p.2.chunks.length := by omega
      rw [this] at e2
      simpa [ldocs, embsOf] using Ext.trans e1 e2

/-! ## `apply_records` on the pending records of plain puts -/

def OnlyLexRecs (l : List (Nat × Entry)) : Prop := ∀ r ∈ l, r.2 = Entry.lex

theorem secondPass_noOrphan (frames : List Frame) (ins : List Nat) (h : NoOrphan frames) :
    secondPass frames ins = frames := by
  unfold secondPass
  simp only []
  rw [List.filterMap_eq_nil_iff.mpr]
  · rfl
  · intro fid _
    cases hf : frames[fid]? with
    | none => rfl
    | some f =>
      have hm : f ∈ frames := List.mem_of_getElem? hf
      by_cases hr : f.role = Role.chunk
      · have := h f hm hr
        cases hp : f.parent with
        | none => rw [hp] at this; cases this
        | some p => simp [hr, hp]
      · have : (f.role == Role.chunk) = false := by simpa using hr
        simp [this]

/-- the handle after `apply_records` appended the frames `nf` (placement `pe`, `de`) -/
def Mem.applied (m : Mem) (nf : List Frame) (pe de : Nat) (eng : Bool) : Mem :=
  { m with
    frames := m.frames ++ nf, payloadEnd := pe, dataEnd := de
    lexDocs := m.lexDocs ++ (if eng && m.engine then fullLexRebuild nf else [])
    tantivyDirty := m.tantivyDirty || (eng && m.engine && !(fullLexRebuild nf).isEmpty)
    sketch := m.sketch ++ (if eng && m.engine then fullLexRebuild nf else []) }

/-- the new frames of a batch: logical content, readable, active, chunks linked -/
def NewFrames (nf : List Frame) (k : Nat) (ds : List PutArgs) : Prop :=
  nf.map lview = ldocs k ds ∧
  ∀ f ∈ nf, FrameOk f ∧ f.status = Status.active ∧ (f.role = Role.chunk → f.parent.isSome = true)

theorem NoOrphan_append {a b : List Frame} (ha : NoOrphan a)
    (hb : ∀ f ∈ b, FrameOk f ∧ f.status = Status.active ∧ (f.role = Role.chunk → f.parent.isSome = true)) :
    NoOrphan (a ++ b) := by
  intro f hf
  rcases List.mem_append.mp hf with h | h
  · exact ha f h
  · exact (hb f h).2.2

theorem ldocs_ne_nil (k : Nat) (ds : List PutArgs) (h : ds ≠ []) : ldocs k ds ≠ [] := by
  cases ds with
  | nil => exact absurd rfl h
  | cons a as => simp [ldocs, ldocFrames]

/-- `apply_records` over (Lex records then) the records of accepted plain puts -/
theorem applyRecords_docs (m : Mem) (L : List (Nat × Entry)) (hL : OnlyLexRecs L) (pd : List (Nat × PutArgs))
    (hok : ∀ p ∈ pd, DocOk p.2) (hne : pd ≠ []) (eng : Bool) (hno : NoOrphan m.frames) :
    ∃ nf pe de, NewFrames nf m.frames.length (pd.map (·.2)) ∧ nf ≠ [] ∧
      applyRecords m (L ++ recsOf pd) eng =
        some (m.applied nf pe de eng,
          { inserted := List.range' m.frames.length nf.length, embs := embsOf m.frames.length (pd.map (·.2)), nonEmpty := true }) := by
  have hne' : (L ++ recsOf pd).isEmpty = false := by
    cases pd with
    | nil => exact absurd rfl hne
    | cons p ps => simp [recsOf, putRecords]
  let st0 : ApSt :=
    { frames := m.frames, cursor := m.dataEnd, payloadEnd := m.payloadEnd, vec := m.vec,
      engine := eng && m.engine, lexDocs := m.lexDocs, tantivyDirty := m.tantivyDirty, sketch := m.sketch }
  obtain ⟨st', h1, e1⟩ := applyLoop_recsOf pd hok st0
  have hloop : applyLoop st0 (L ++ recsOf pd) = some st' := by
    rw [applyLoop_append, applyLoop_onlyLex st0 L hL]; exact h1
  obtain ⟨nf, hf, hm, hp⟩ := e1.frames
  have hins : st'.inserted ≠ [] := by
    intro h0
    have hl : st'.inserted = [] ++ List.range' m.frames.length (ldocs m.frames.length (pd.map (·.2))).length := e1.inserted
    rw [h0] at hl
    have : (ldocs m.frames.length (pd.map (·.2))).length = 0 := by
      have := congrArg List.length hl
      simpa using this.symm
    exact ldocs_ne_nil _ _ (by simpa using hne) (List.length_eq_zero_iff.mp this)
  have hinsEq : st'.inserted = List.range' m.frames.length nf.length := by
    have := e1.inserted
    rw [← hm, List.length_map] at this
    simpa [st0] using this
  have hnf : nf ≠ [] := by
    intro h0; rw [h0] at hinsEq; exact hins (by simpa using hinsEq)
  refine ⟨nf, st'.payloadEnd, max m.dataEnd st'.cursor, ⟨hm, hp⟩, hnf, ?_⟩
  have hno' : NoOrphan st'.frames := by rw [hf]; exact NoOrphan_append hno hp
  have hlid : lidx (ldocs m.frames.length (pd.map (·.2))) = fullLexRebuild nf := by
    rw [fullLexRebuild_eq_lidx, hm]
  unfold applyRecords
  simp only [hne', Bool.false_eq_true, if_false]
  show (match applyLoop st0 (L ++ recsOf pd) with
    | none => none
    | some st => some (_, _)) = _
  rw [hloop]
  simp only [secondPass_noOrphan _ _ hno', Mem.applied]
  have hne2 : st'.inserted.isEmpty = false := by
    cases h : st'.inserted with
    | nil => exact absurd h hins
    | cons _ _ => rfl
  have hfr : st'.frames = m.frames ++ nf := hf
  have hlx : st'.lexDocs = m.lexDocs ++ (if (eng && m.engine) = true then fullLexRebuild nf else []) := by
    have := e1.lexDocs; rw [hlid] at this; exact this
  have hsk : st'.sketch = m.sketch ++ (if (eng && m.engine) = true then fullLexRebuild nf else []) := by
    have := e1.sketch; rw [hlid] at this; exact this
  have hd : st'.tantivyDirty = (m.tantivyDirty || (eng && m.engine && !(fullLexRebuild nf).isEmpty)) := by
    have := e1.dirty; rw [hlid] at this; exact this
  have hv : st'.vec = m.vec := e1.vec
  have hE : st'.embs = embsOf m.frames.length (pd.map (·.2)) := by
    have := e1.embs; simpa [st0] using this
  simp only [hfr, hlx, hsk, hd, hv, hE, hne2, Bool.not_false, Bool.true_or, ← hinsEq]

/-- `apply_records` when nothing but Lex records is pending: the handle is unchanged -/
theorem applyRecords_lexOnly (m : Mem) (L : List (Nat × Entry)) (hL : OnlyLexRecs L) (eng : Bool) (hno : NoOrphan m.frames) :
    ∃ ins, applyRecords m L eng = some (m, { inserted := ins, embs := [], nonEmpty := false }) := by
  unfold applyRecords
  by_cases he : L.isEmpty = true
  · exact ⟨[], by simp [he]⟩
  · simp only [he, Bool.false_eq_true, if_false]
    rw [applyLoop_onlyLex _ L hL]
    refine ⟨[], ?_⟩
    simp only [secondPass_noOrphan _ _ hno, Nat.max_self]
    rfl

end Mv.Core
