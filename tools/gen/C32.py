#!/usr/bin/env python3
"""C32: lexer/parser tables of src/search/parser.rs -> lean/MvModel/Gen/C32.lean

  KNOWN_FIELDS            the `const KNOWN_FIELDS` array of the lexer
  KW_AND / KW_OR / KW_NOT the spellings `read_field_or_word` turns into boolean tokens
  PAIR_FIELDS             `FieldTerm::from_pair`: field name -> FieldTerm variant
  DATE_FIELD              the field name that may carry a `[a TO b]` range
  RANGE_SEP               the separator word of a date range (compared ignoring ASCII case)
  MAX_DEPTH               `const MAX_QUERY_DEPTH` of the parser if the tree has one (the nesting
                          limit proposed in /verif/fixes/C32.diff), else `none`
  SCOPE_IGNORES_CASE      whether the `FieldTerm::Scope` arm of `FieldTerm::matches`
                          (src/search/mod.rs) compares the URI prefix ignoring ASCII case
"""
from common import *


def lean_chars(s):
    def one(c):
        if c == "'":
            return "'\\''"
        if c == "\\":
            return "'\\\\'"
        return "'" + c + "'"
    return "[" + ", ".join(one(c) for c in s) + "]"


def fn_body(src, name):
    m = re.search(r"\bfn\s+" + re.escape(name) + r"\b", src)
    if not m:
        raise TranslateError(f"fn {name} not found")
    i = src.find("{", m.end())
    depth, j = 0, i
    while j < len(src):
        if src[j] == "{":
            depth += 1
        elif src[j] == "}":
            depth -= 1
            if depth == 0:
                return src[i:j + 1]
        j += 1
    raise TranslateError(f"fn {name}: unbalanced braces")


def run():
    src = strip_comments(read("src/search/parser.rs"))
    # --- KNOWN_FIELDS
    m = re.search(r"const\s+KNOWN_FIELDS\s*:[^=]*=\s*&\[(.*?)\]\s*;", src, re.S)
    if not m:
        raise TranslateError("KNOWN_FIELDS not found")
    known = re.findall(r'"([^"\\]*)"', m.group(1))
    if not known:
        raise TranslateError("KNOWN_FIELDS is empty")
    # --- keywords
    body = fn_body(src, "read_field_or_word")
    kws = {}
    for tok in ("And", "Or", "Not"):
        mm = re.search(r'((?:"[^"\\]*"\s*\|?\s*)+)=>\s*Ok\(Some\(Token::' + tok + r"\)\)", body)
        if not mm:
            raise TranslateError(f"keyword arm for Token::{tok} not found")
        kws[tok] = re.findall(r'"([^"\\]*)"', mm.group(1))
    if "to_ascii_lowercase" not in body or "KNOWN_FIELDS.contains" not in body:
        raise TranslateError("read_field_or_word: field-prefix test has changed shape")
    # --- from_pair
    body = fn_body(src, "from_pair")
    pairs = re.findall(r'"([^"\\]*)"\s*=>\s*Ok\(FieldTerm::(\w+)\(normalized\)\)', body)
    if not pairs:
        raise TranslateError("from_pair arms not found")
    if 'trim_matches(\'"\')' not in body or "to_ascii_lowercase" not in body:
        raise TranslateError("from_pair: value normalisation has changed shape")
    # --- date field / range separator
    body = fn_body(src, "read_field")
    mm = re.search(r"Some\('\['\)\s*if\s+field\s*==\s*\"([^\"]*)\"", body)
    if not mm:
        raise TranslateError("read_field: date-range arm not found")
    date_field = mm.group(1)
    body = fn_body(src, "from_date_range")
    mm = re.search(r'field\s*!=\s*"([^"]*)"', body)
    if not mm or mm.group(1) != date_field:
        raise TranslateError("from_date_range: field test not found / differs from read_field")
    body = fn_body(src, "read_date_range")
    mm = re.search(r'parts\.len\(\)\s*!=\s*(\d+)\s*\|\|\s*!parts\[(\d+)\]\.eq_ignore_ascii_case\("([^"]*)"\)', body)
    if not mm or mm.group(1) != "3" or mm.group(2) != "1":
        raise TranslateError("read_date_range: part test has changed shape")
    sep = mm.group(3)
    # --- optional nesting limit
    mm = re.search(r"\bconst\s+MAX_QUERY_DEPTH\s*:\s*usize\s*=\s*([\d_]+)\s*;", src)
    depth = f"some {int(mm.group(1).replace('_', ''))}" if mm else "none"

    # --- scope: arm of FieldTerm::matches in src/search/mod.rs
    msrc = strip_comments(read("src/search/mod.rs"))
    mm = re.search(r"FieldTerm::Scope\(prefix\)\s*=>(.*?)FieldTerm::Track", msrc, re.S)
    if not mm:
        raise TranslateError("FieldTerm::Scope arm of FieldTerm::matches not found")
    arm = mm.group(1)
    if "eq_ignore_ascii_case" in arm or "to_ascii_lowercase" in arm:
        scope_ci = "true"
    elif re.search(r"uri\.starts_with\(prefix\)", arm):
        scope_ci = "false"
    else:
        raise TranslateError("FieldTerm::Scope arm has an unknown shape")

    out = []
    out.append("def KNOWN_FIELDS : List (List Char) := [" + ", ".join(lean_chars(k) for k in known) + "]")
    out.append("def KW_AND : List (List Char) := [" + ", ".join(lean_chars(k) for k in kws["And"]) + "]")
    out.append("def KW_OR : List (List Char) := [" + ", ".join(lean_chars(k) for k in kws["Or"]) + "]")
    out.append("def KW_NOT : List (List Char) := [" + ", ".join(lean_chars(k) for k in kws["Not"]) + "]")
    out.append("def PAIR_FIELDS : List (List Char × List Char) := ["
               + ", ".join(f"({lean_chars(a)}, {lean_chars(b)})" for a, b in pairs) + "]")
    out.append(f"def DATE_FIELD : List Char := {lean_chars(date_field)}")
    out.append(f"def RANGE_SEP : List Char := {lean_chars(sep)}")
    out.append(f"def MAX_DEPTH : Option Nat := {depth}")
    out.append(f"def SCOPE_IGNORES_CASE : Bool := {scope_ci}")
    return emit("C32", "\n".join(out) + "\n")


main(run)
