/-
  Char level = byte level.  Lemmas showing that the literal char-level transcription
  (MvModel/SnippetChars.lean, decoding chars like `str::char_indices`) and the byte-level model
  (MvModel/Snippet.lean) compute the same thing on every well-formed UTF-8 text.
  Main result: `computeC_eq`.
-/
import MvModel.SnippetChars
import MvModel.SnippetLemmas
namespace Mv.Snippet

theorem isCont_iff (b : UInt8) : isCont b = true ↔ 128 ≤ b.toNat ∧ b.toNat < 192 := by
  simp [isCont, UInt8.le_iff_toNat_le, UInt8.lt_iff_toNat_lt]

theorem isCont_false_of (b : UInt8) (h : b.toNat < 128 ∨ 192 ≤ b.toNat) : isCont b = false := by
  cases hc : isCont b with
  | false => rfl
  | true => have := (isCont_iff b).mp hc; omega

/-! ### the break tests: bytes vs code points -/

theorem isStartBreak_ascii (b : UInt8) (h : isStartBreak b = true) : b.toNat < 128 := by
  simp [isStartBreak, Mv.Gen.C35.START_BREAKS] at h
  rcases h with h | h | h | h <;> subst h <;> decide

theorem isEndBreak_ascii (b : UInt8) (h : isEndBreak b = true) : b.toNat < 128 := by
  simp [isEndBreak, Mv.Gen.C35.END_BREAKS] at h
  rcases h with h | h | h <;> subst h <;> decide

theorem isEndStop_ascii (b : UInt8) (h : isEndStop b = true) : b.toNat < 128 := by
  simp [isEndStop, Mv.Gen.C35.END_STOP] at h
  subst h; decide

theorem isStartBreakCp_ascii (cp : Nat) (h : isStartBreakCp cp = true) : cp < 128 := by
  simp [isStartBreakCp, Mv.Gen.C35.START_BREAKS] at h
  omega

theorem isEndBreakCp_ascii (cp : Nat) (h : isEndBreakCp cp = true) : cp < 128 := by
  simp [isEndBreakCp, Mv.Gen.C35.END_BREAKS] at h
  omega

theorem isEndStopCp_ascii (cp : Nat) (h : isEndStopCp cp = true) : cp < 128 := by
  simp [isEndStopCp, Mv.Gen.C35.END_STOP] at h
  omega

theorem mem_map_toNat (l : List UInt8) (b : UInt8) : (l.map UInt8.toNat).contains b.toNat = l.contains b := by
  induction l with
  | nil => rfl
  | cons a t ih =>
    simp only [List.map_cons, List.contains_cons, ih]
    have : (b.toNat == a.toNat) = (b == a) := by
      by_cases h : b = a
      · subst h; simp
      · have h2 : b.toNat ≠ a.toNat := fun hh => h (UInt8.toNat_inj.mp hh)
        rw [beq_eq_false_iff_ne.mpr h2, beq_eq_false_iff_ne.mpr h]
    rw [this]

theorem isStartBreakCp_toNat (b : UInt8) : isStartBreakCp b.toNat = isStartBreak b := mem_map_toNat _ b
theorem isEndBreakCp_toNat (b : UInt8) : isEndBreakCp b.toNat = isEndBreak b := mem_map_toNat _ b
theorem isEndStopCp_toNat (b : UInt8) : isEndStopCp b.toNat = isEndStop b := by
  simp only [isEndStopCp, isEndStop]
  by_cases h : b = Mv.Gen.C35.END_STOP
  · rw [h]; simp
  · have h2 : b.toNat ≠ Mv.Gen.C35.END_STOP.toNat := fun hh => h (UInt8.toNat_inj.mp hh)
    rw [beq_eq_false_iff_ne.mpr h2, beq_eq_false_iff_ne.mpr h]

theorem not_break_of_high (b : UInt8) (h : 128 ≤ b.toNat) :
    isStartBreak b = false ∧ isEndBreak b = false ∧ isEndStop b = false := by
  refine ⟨?_, ?_, ?_⟩
  · cases hc : isStartBreak b with
    | false => rfl
    | true => have := isStartBreak_ascii b hc; omega
  · cases hc : isEndBreak b with
    | false => rfl
    | true => have := isEndBreak_ascii b hc; omega
  · cases hc : isEndStop b with
    | false => rfl
    | true => have := isEndStop_ascii b hc; omega

theorem not_breakCp_of_high (cp : Nat) (h : 128 ≤ cp) :
    isStartBreakCp cp = false ∧ isEndBreakCp cp = false ∧ isEndStopCp cp = false := by
  refine ⟨?_, ?_, ?_⟩
  · cases hc : isStartBreakCp cp with
    | false => rfl
    | true => have := isStartBreakCp_ascii cp hc; omega
  · cases hc : isEndBreakCp cp with
    | false => rfl
    | true => have := isEndBreakCp_ascii cp hc; omega
  · cases hc : isEndStopCp cp with
    | false => rfl
    | true => have := isEndStopCp_ascii cp hc; omega

/-! ### `charIndices` on one well-formed char -/

theorem ci_one (x : UInt8) (rest : Bytes) (pos : Nat) (h : x.toNat < 0x80) :
    charIndices (x :: rest) pos = (pos, x.toNat) :: charIndices rest (pos + 1) := by
  have : x < 0x80 := by simpa [UInt8.lt_iff_toNat_lt] using h
  rw [charIndices.eq_def]; simp [this]

theorem ci_two (x y : UInt8) (rest : Bytes) (pos : Nat) (h1 : 0xC2 ≤ x.toNat) (h2 : x.toNat ≤ 0xDF) :
    charIndices (x :: y :: rest) pos =
      (pos, (x.toNat % 32) * 64 + y.toNat % 64) :: charIndices rest (pos + 2) := by
  have a : ¬ x < 0x80 := fun hh => by have := UInt8.lt_iff_toNat_lt.mp hh; simp at this; omega
  have b : x < 0xE0 := UInt8.lt_iff_toNat_lt.mpr (by simp; omega)
  rw [charIndices.eq_def]; simp [a, b]

theorem ci_three (x y z : UInt8) (rest : Bytes) (pos : Nat) (h1 : 0xE0 ≤ x.toNat) (h2 : x.toNat ≤ 0xEF) :
    charIndices (x :: y :: z :: rest) pos =
      (pos, (x.toNat % 32) * 4096 + (y.toNat % 64) * 64 + z.toNat % 64) :: charIndices rest (pos + 3) := by
  have a : ¬ x < 0x80 := fun hh => by have := UInt8.lt_iff_toNat_lt.mp hh; simp at this; omega
  have b : ¬ x < 0xE0 := fun hh => by have := UInt8.lt_iff_toNat_lt.mp hh; simp at this; omega
  have d : x < 0xF0 := UInt8.lt_iff_toNat_lt.mpr (by simp; omega)
  rw [charIndices.eq_def]; simp [a, b, d]

theorem ci_four (x y z w : UInt8) (rest : Bytes) (pos : Nat) (h1 : 0xF0 ≤ x.toNat) :
    charIndices (x :: y :: z :: w :: rest) pos =
      (pos, (x.toNat % 32 % 8) * 262144 + (y.toNat % 64) * 4096 + (z.toNat % 64) * 64 + w.toNat % 64)
        :: charIndices rest (pos + 4) := by
  have a : ¬ x < 0x80 := fun hh => by have := UInt8.lt_iff_toNat_lt.mp hh; simp at this; omega
  have b : ¬ x < 0xE0 := fun hh => by have := UInt8.lt_iff_toNat_lt.mp hh; simp at this; omega
  have d : ¬ x < 0xF0 := fun hh => by have := UInt8.lt_iff_toNat_lt.mp hh; simp at this; omega
  rw [charIndices.eq_def]; simp [a, b, d]


theorem lenUtf8_ascii (cp : Nat) (h : cp < 128) : lenUtf8 cp = 1 := by simp [lenUtf8, h]

theorem cp2_high (x y : Nat) (h : 0xC2 ≤ x ∧ x ≤ 0xDF) : 128 ≤ (x % 32) * 64 + y % 64 := by omega
theorem cp3_high (x y z : Nat)
    (h : (x = 0xE0 ∧ 0xA0 ≤ y ∧ y ≤ 0xBF) ∨ (0xE1 ≤ x ∧ x ≤ 0xEF ∧ 128 ≤ y ∧ y < 192)) :
    128 ≤ (x % 32) * 4096 + (y % 64) * 64 + z % 64 := by omega
theorem cp4_high (x y z w : Nat)
    (h : (x = 0xF0 ∧ 0x90 ≤ y ∧ y ≤ 0xBF) ∨ (0xF1 ≤ x ∧ x ≤ 0xF4 ∧ 128 ≤ y ∧ y < 192)) :
    128 ≤ (x % 32 % 8) * 262144 + (y % 64) * 4096 + (z % 64) * 64 + w % 64 := by omega

/-- Induction over the chars of a well-formed UTF-8 string: an ASCII char is one byte `< 0x80`
    whose code point is the byte; any other char is a lead byte `≥ 0xC0` followed by 1–3
    continuation bytes, with a code point `≥ 0x80`; `charIndices` steps over exactly these bytes. -/
theorem ValidUtf8.chars_induction {P : Bytes → Prop} (hnil : P [])
    (hascii : ∀ (x : UInt8) (rest : Bytes), x.toNat < 128 → ValidUtf8 rest → P rest →
      (∀ pos, charIndices (x :: rest) pos = (pos, x.toNat) :: charIndices rest (pos + 1)) → P (x :: rest))
    (hmulti : ∀ (x : UInt8) (conts rest : Bytes) (cp : Nat), 192 ≤ x.toNat →
      (∀ b ∈ conts, isCont b = true) → 128 ≤ cp → ValidUtf8 rest → P rest →
      (∀ pos, charIndices (x :: (conts ++ rest)) pos = (pos, cp) :: charIndices rest (pos + 1 + conts.length)) →
      P (x :: (conts ++ rest)))
    (bs : Bytes) (hv : ValidUtf8 bs) : P bs := by
  induction hv with
  | nil => exact hnil
  | one x rest hx hr ih => exact hascii x rest hx hr ih (fun pos => ci_one x rest pos hx)
  | two x y rest h1 h2 hy hr ih =>
    exact hmulti x [y] rest _ (by omega) (by simpa using hy) (cp2_high x.toNat y.toNat ⟨h1, h2⟩) hr ih
      (fun pos => ci_two x y rest pos h1 h2)
  | three x y z rest hxy hz hr ih =>
    have hx : 0xE0 ≤ x.toNat ∧ x.toNat ≤ 0xEF ∧ isCont y = true := by
      rcases hxy with h | h | h | h
      · exact ⟨by omega, by omega, (isCont_iff y).mpr (by omega)⟩
      · exact ⟨by omega, by omega, h.2.2⟩
      · exact ⟨by omega, by omega, (isCont_iff y).mpr (by omega)⟩
      · exact ⟨by omega, by omega, h.2.2⟩
    have hcp : 128 ≤ (x.toNat % 32) * 4096 + (y.toNat % 64) * 64 + z.toNat % 64 := by
      apply cp3_high
      rcases hxy with h | h | h | h
      · exact Or.inl h
      · have := (isCont_iff y).mp h.2.2; exact Or.inr ⟨by omega, by omega, this.1, this.2⟩
      · exact Or.inr ⟨by omega, by omega, by omega, by omega⟩
      · have := (isCont_iff y).mp h.2.2; exact Or.inr ⟨by omega, by omega, this.1, this.2⟩
    exact hmulti x [y, z] rest _ (by omega) (by simp [hx.2.2, hz]) hcp hr ih
      (fun pos => ci_three x y z rest pos hx.1 hx.2.1)
  | four x y z w rest hxy hz hw hr ih =>
    have hx : 0xF0 ≤ x.toNat ∧ isCont y = true := by
      rcases hxy with h | h | h
      · exact ⟨by omega, (isCont_iff y).mpr (by omega)⟩
      · exact ⟨by omega, h.2.2⟩
      · exact ⟨by omega, (isCont_iff y).mpr (by omega)⟩
    have hcp : 128 ≤ (x.toNat % 32 % 8) * 262144 + (y.toNat % 64) * 4096 + (z.toNat % 64) * 64 + w.toNat % 64 := by
      apply cp4_high
      rcases hxy with h | h | h
      · exact Or.inl h
      · have := (isCont_iff y).mp h.2.2; exact Or.inr ⟨by omega, by omega, this.1, this.2⟩
      · exact Or.inr ⟨by omega, by omega, by omega, by omega⟩
    exact hmulti x [y, z, w] rest _ (by omega) (by simp [hx.2, hz, hw]) hcp hr ih
      (fun pos => ci_four x y z w rest pos hx.1)

/-! ### skipping a run of continuation bytes, byte level -/

theorem lastBreak_conts (conts rest : Bytes) (h : ∀ b ∈ conts, isCont b = true) (pos : Nat) (cand : Option Nat) :
    lastBreak (conts ++ rest) pos cand = lastBreak rest (pos + conts.length) cand := by
  induction conts generalizing pos with
  | nil => simp
  | cons b t ih =>
    have hb := (isCont_iff b).mp (h b (by simp))
    have := (not_break_of_high b (by omega)).1
    simp only [List.cons_append, lastBreak, this, Bool.false_eq_true, if_false, List.length_cons]
    rw [ih (fun b hb => h b (by simp [hb]))]
    congr 1; omega

theorem scanEnd_conts (c conts rest : Bytes) (h : ∀ b ∈ conts, isCont b = true) (g : Nat) :
    scanEnd c (conts ++ rest) g = scanEnd c rest (g + conts.length) := by
  induction conts generalizing g with
  | nil => simp
  | cons b t ih =>
    have hb := (isCont_iff b).mp (h b (by simp))
    have h3 := not_break_of_high b (by omega)
    simp only [List.cons_append, scanEnd, h3.2.1, h3.2.2, Bool.false_eq_true, if_false, List.length_cons]
    rw [ih (fun b hb => h b (by simp [hb]))]
    congr 1; omega

theorem advLoop_conts (len : Nat) (conts rest : Bytes) (h : ∀ b ∈ conts, isCont b = true) (pos w last : Nat) :
    advLoop len (conts ++ rest) pos w last = advLoop len rest (pos + conts.length) w last := by
  induction conts generalizing pos with
  | nil => simp
  | cons b t ih =>
    have hb := h b (by simp)
    simp only [List.cons_append, advLoop, hb, if_true, List.length_cons]
    rw [ih (fun b hb => h b (by simp [hb]))]
    congr 1; omega

/-! ### the three scans: char level = byte level on well-formed UTF-8 -/

theorem lastBreakC_eq (bs : Bytes) (hv : ValidUtf8 bs) :
    ∀ (pos : Nat) (cand : Option Nat), lastBreakC (charIndices bs pos) cand = lastBreak bs pos cand := by
  refine ValidUtf8.chars_induction
    (P := fun bs => ∀ (pos : Nat) (cand : Option Nat), lastBreakC (charIndices bs pos) cand = lastBreak bs pos cand)
    ?_ ?_ ?_ bs hv
  · intro pos cand; rw [charIndices.eq_def]; rfl
  · intro x rest hx _ ih hci pos cand
    rw [hci pos]
    simp only [lastBreakC, lastBreak, isStartBreakCp_toNat, lenUtf8_ascii _ hx, ih]
  · intro x conts rest cp hx hconts hcp _ ih hci pos cand
    rw [hci pos]
    have h1 := (not_breakCp_of_high cp hcp).1
    have h2 := (not_break_of_high x (by omega)).1
    simp only [lastBreakC, lastBreak, h1, h2, Bool.false_eq_true, if_false, ih,
      lastBreak_conts conts rest hconts]

theorem scanEndC_eq (c bs : Bytes) (hv : ValidUtf8 bs) :
    ∀ (g : Nat), scanEndC c (charIndices bs g) = scanEnd c bs g := by
  refine ValidUtf8.chars_induction
    (P := fun bs => ∀ (g : Nat), scanEndC c (charIndices bs g) = scanEnd c bs g) ?_ ?_ ?_ bs hv
  · intro g; rw [charIndices.eq_def]; rfl
  · intro x rest hx _ ih hci g
    rw [hci g]
    simp only [scanEndC, scanEnd, isEndBreakCp_toNat, isEndStopCp_toNat, lenUtf8_ascii _ hx, ih]
  · intro x conts rest cp hx hconts hcp _ ih hci g
    rw [hci g]
    have h1 := not_breakCp_of_high cp hcp
    have h2 := not_break_of_high x (by omega)
    simp only [scanEndC, scanEnd, h1.2.1, h1.2.2, h2.2.1, h2.2.2, Bool.false_eq_true, if_false, ih,
      scanEnd_conts c conts rest hconts]

theorem advLoopC_eq (len : Nat) (bs : Bytes) (hv : ValidUtf8 bs) :
    ∀ (pos w last : Nat), advLoopC len (charIndices bs pos) w last = advLoop len bs pos w last := by
  refine ValidUtf8.chars_induction
    (P := fun bs => ∀ (pos w last : Nat), advLoopC len (charIndices bs pos) w last = advLoop len bs pos w last)
    ?_ ?_ ?_ bs hv
  · intro pos w last; rw [charIndices.eq_def]; rfl
  · intro x rest hx _ ih hci pos w last
    rw [hci pos]
    have hnc := isCont_false_of x (Or.inl hx)
    cases w with
    | zero => simp [advLoopC, advLoop, hnc]
    | succ w' => simp only [advLoopC, advLoop, hnc, Bool.false_eq_true, if_false, ih]
  · intro x conts rest cp hx hconts hcp _ ih hci pos w last
    rw [hci pos]
    have hnc := isCont_false_of x (Or.inr hx)
    cases w with
    | zero => simp [advLoopC, advLoop, hnc]
    | succ w' =>
      simp only [advLoopC, advLoop, hnc, Bool.false_eq_true, if_false, ih,
        advLoop_conts len conts rest hconts]

/-! ### slicing a well-formed string at a char boundary keeps both halves well-formed -/

theorem boundary_tail (x : UInt8) (rest : Bytes) (j : Nat) (h : isCharBoundary (x :: rest) (j + 1) = true) :
    isCharBoundary rest j = true := by
  cases j with
  | zero => exact isCharBoundary_zero rest
  | succ k =>
    simp only [isCharBoundary, Nat.succ_ne_zero, if_false,
      List.getElem?_cons_succ, List.length_cons] at h ⊢
    cases hk : rest[k + 1]? with
    | none => simp only [hk] at h ⊢; simp at h ⊢; omega
    | some b => simp only [hk] at h ⊢; exact h

theorem not_boundary_of_cont (c : Bytes) (i : Nat) (b : UInt8) (hi : 0 < i) (hb : c[i]? = some b)
    (hc : isCont b = true) : isCharBoundary c i = false := by
  have : ¬ i = 0 := by omega
  simp [isCharBoundary, this, hb, hc]

theorem valid_split (c : Bytes) (hv : ValidUtf8 c) :
    ∀ i, isCharBoundary c i = true → i ≤ c.length → ValidUtf8 (c.take i) ∧ ValidUtf8 (c.drop i) := by
  induction hv with
  | nil => intro i _ _; simp; exact ValidUtf8.nil
  | one x rest hx hr ih =>
    intro i hb hi
    rcases i with _ | j
    · exact ⟨by simpa using ValidUtf8.nil, by simpa using ValidUtf8.one x rest hx hr⟩
    · have := ih j (boundary_tail x rest j hb) (by simpa using hi)
      exact ⟨by simpa using ValidUtf8.one x _ hx this.1, by simpa using this.2⟩
  | two x y rest h1 h2 hy hr ih =>
    intro i hb hi
    rcases i with _ | _ | j
    · exact ⟨by simpa using ValidUtf8.nil, by simpa using ValidUtf8.two x y rest h1 h2 hy hr⟩
    · rw [not_boundary_of_cont (x :: y :: rest) 1 y (by omega) (by simp) hy] at hb; cases hb
    · have := ih j (boundary_tail y rest j (boundary_tail x (y :: rest) (j + 1) hb)) (by simp at hi; omega)
      exact ⟨by simpa using ValidUtf8.two x y _ h1 h2 hy this.1, by simpa using this.2⟩
  | three x y z rest hxy hz hr ih =>
    intro i hb hi
    have hy : isCont y = true := by
      rcases hxy with h | h | h | h
      · exact (isCont_iff y).mpr (by omega)
      · exact h.2.2
      · exact (isCont_iff y).mpr (by omega)
      · exact h.2.2
    rcases i with _ | _ | _ | j
    · exact ⟨by simpa using ValidUtf8.nil, by simpa using ValidUtf8.three x y z rest hxy hz hr⟩
    · rw [not_boundary_of_cont (x :: y :: z :: rest) 1 y (by omega) (by simp) hy] at hb; cases hb
    · rw [not_boundary_of_cont (x :: y :: z :: rest) 2 z (by omega) (by simp) hz] at hb; cases hb
    · have := ih j (boundary_tail z rest j (boundary_tail y (z :: rest) (j + 1)
        (boundary_tail x (y :: z :: rest) (j + 2) hb))) (by simp at hi; omega)
      exact ⟨by simpa using ValidUtf8.three x y z _ hxy hz this.1, by simpa using this.2⟩
  | four x y z w rest hxy hz hw hr ih =>
    intro i hb hi
    have hy : isCont y = true := by
      rcases hxy with h | h | h
      · exact (isCont_iff y).mpr (by omega)
      · exact h.2.2
      · exact (isCont_iff y).mpr (by omega)
    rcases i with _ | _ | _ | _ | j
    · exact ⟨by simpa using ValidUtf8.nil, by simpa using ValidUtf8.four x y z w rest hxy hz hw hr⟩
    · rw [not_boundary_of_cont (x :: y :: z :: w :: rest) 1 y (by omega) (by simp) hy] at hb; cases hb
    · rw [not_boundary_of_cont (x :: y :: z :: w :: rest) 2 z (by omega) (by simp) hz] at hb; cases hb
    · rw [not_boundary_of_cont (x :: y :: z :: w :: rest) 3 w (by omega) (by simp) hw] at hb; cases hb
    · have := ih j (boundary_tail w rest j (boundary_tail z (w :: rest) (j + 1) (boundary_tail y (z :: w :: rest) (j + 2)
        (boundary_tail x (y :: z :: w :: rest) (j + 3) hb)))) (by simp at hi; omega)
      exact ⟨by simpa using ValidUtf8.four x y z w _ hxy hz hw this.1, by simpa using this.2⟩

/-! ### the functions, then the whole computation -/

theorem sentenceStartBeforeC_eq (c : Bytes) (hv : ValidUtf8 c) (i : Nat) :
    sentenceStartBeforeC c i = sentenceStartBefore c i := by
  unfold sentenceStartBeforeC sentenceStartBefore
  have hvt : ValidUtf8 (c.take (prevCharBoundary c (min i c.length))) :=
    (valid_split c hv _ (prevCharBoundary_boundary c _) (prevCharBoundary_le_length c _)).1
  simp only [lastBreakC_eq _ hvt]
  rfl

theorem sentenceEndAfterC_eq (c : Bytes) (hv : ValidUtf8 c) (i : Nat) :
    sentenceEndAfterC c i = sentenceEndAfter c i := by
  unfold sentenceEndAfterC sentenceEndAfter
  have hvd : ValidUtf8 (c.drop (prevCharBoundary c i)) :=
    (valid_split c hv _ (prevCharBoundary_boundary c _) (prevCharBoundary_le_length c _)).2
  simp only [scanEndC_eq c _ hvd]

theorem advanceBoundaryC_zero_eq (c : Bytes) (hv : ValidUtf8 c) (w : Nat) :
    advanceBoundaryC c 0 w = advanceBoundary c 0 w := by
  unfold advanceBoundaryC advanceBoundary
  simp only [List.drop_zero, advLoopC_eq c.length c hv]

theorem windowOfC_eq (fx : Bool) (c : Bytes) (hv : ValidUtf8 c) (w s e : Nat) :
    windowOfC fx c w s e = windowOf fx c w s e := by
  simp only [windowOfC, windowOf, sentenceStartBeforeC_eq c hv, sentenceEndAfterC_eq c hv]
  rfl

theorem loopC_eq (fx : Bool) (c : Bytes) (hv : ValidUtf8 c) (w maxS : Nat) (occ acc : List (Nat × Nat)) :
    loopC fx c w maxS occ acc = loop fx c w maxS occ acc := by
  induction occ generalizing acc with
  | nil => simp [loopC, loop]
  | cons o rest ih =>
    obtain ⟨s, e⟩ := o
    simp only [loopC, loop, windowOfC_eq fx c hv, ih]
    rfl

theorem fallbackC_eq (fx : Bool) (c : Bytes) (hv : ValidUtf8 c) (w : Nat) :
    fallbackC fx c w = fallback fx c w := by
  simp only [fallbackC, fallback, advanceBoundaryC_zero_eq c hv]
  rfl

/-- On every well-formed UTF-8 text the char-level transcription (decoding chars like
    `str::char_indices`) computes exactly what the byte-level model computes. -/
theorem computeC_eq (fx : Bool) (c : Bytes) (hv : ValidUtf8 c) (occ : List (Nat × Nat)) (w maxS : Nat) :
    computeC fx c occ w maxS = compute fx c occ w maxS := by
  simp only [computeC, compute, loopC_eq fx c hv, fallbackC_eq fx c hv]
  rfl

/-! ### `is_char_boundary` = a decoded char starts here (or the text ends) -/

theorem charStarts_ge (bs : Bytes) (hv : ValidUtf8 bs) : ∀ pos, ∀ p ∈ charStarts bs pos, pos ≤ p := by
  refine ValidUtf8.chars_induction (P := fun bs => ∀ pos, ∀ p ∈ charStarts bs pos, pos ≤ p) ?_ ?_ ?_ bs hv
  · intro pos p hp; rw [charStarts, charIndices.eq_def] at hp; simp at hp
  · intro x rest _ _ ih hci pos p hp
    simp only [charStarts, hci pos, List.map_cons, List.mem_cons] at hp
    rcases hp with hp | hp
    · omega
    · have := ih (pos + 1) p hp; omega
  · intro x conts rest cp _ _ _ _ ih hci pos p hp
    simp only [charStarts, hci pos, List.map_cons, List.mem_cons] at hp
    rcases hp with hp | hp
    · omega
    · have := ih (pos + 1 + conts.length) p hp; omega

theorem charStarts_lt (bs : Bytes) (hv : ValidUtf8 bs) : ∀ pos, ∀ p ∈ charStarts bs pos, p < pos + bs.length := by
  refine ValidUtf8.chars_induction (P := fun bs => ∀ pos, ∀ p ∈ charStarts bs pos, p < pos + bs.length) ?_ ?_ ?_ bs hv
  · intro pos p hp; rw [charStarts, charIndices.eq_def] at hp; simp at hp
  · intro x rest _ _ ih hci pos p hp
    simp only [charStarts, hci pos, List.map_cons, List.mem_cons] at hp
    rcases hp with hp | hp
    · simp; omega
    · have := ih (pos + 1) p hp; simp; omega
  · intro x conts rest cp _ _ _ _ ih hci pos p hp
    simp only [charStarts, hci pos, List.map_cons, List.mem_cons] at hp
    rcases hp with hp | hp
    · simp; omega
    · have := ih (pos + 1 + conts.length) p hp; simp; omega

/-- In a well-formed UTF-8 string a byte is a non-continuation byte exactly when a decoded char
    starts there: `is_char_boundary`'s bit test means what its name says. -/
theorem noncont_iff_charStart (bs : Bytes) (hv : ValidUtf8 bs) :
    ∀ (pos i : Nat) (b : UInt8), bs[i]? = some b → (isCont b = false ↔ pos + i ∈ charStarts bs pos) := by
  refine ValidUtf8.chars_induction
    (P := fun bs => ∀ (pos i : Nat) (b : UInt8), bs[i]? = some b → (isCont b = false ↔ pos + i ∈ charStarts bs pos))
    ?_ ?_ ?_ bs hv
  · intro pos i b hb; simp at hb
  · intro x rest hx hr ih hci pos i b hb
    simp only [charStarts, hci pos, List.map_cons, List.mem_cons]
    cases i with
    | zero =>
      simp only [List.getElem?_cons_zero, Option.some.injEq] at hb
      subst hb
      simp [isCont_false_of x (Or.inl hx)]
    | succ j =>
      simp only [List.getElem?_cons_succ] at hb
      have := ih (pos + 1) j b hb
      rw [this, charStarts]
      constructor
      · intro h; right; rw [show pos + (j + 1) = pos + 1 + j by omega]; exact h
      · intro h
        rcases h with h | h
        · omega
        · rw [show pos + (j + 1) = pos + 1 + j by omega] at h; exact h
  · intro x conts rest cp hx hconts _ hr ih hci pos i b hb
    simp only [charStarts, hci pos, List.map_cons, List.mem_cons]
    cases i with
    | zero =>
      simp only [List.getElem?_cons_zero, Option.some.injEq] at hb
      subst hb
      simp [isCont_false_of x (Or.inr hx)]
    | succ j =>
      simp only [List.getElem?_cons_succ] at hb
      by_cases hj : j < conts.length
      · -- inside the continuation bytes
        rw [List.getElem?_append_left hj] at hb
        have hmem : b ∈ conts := List.mem_of_getElem? hb
        have hc := hconts b hmem
        constructor
        · intro h; rw [hc] at h; cases h
        · intro h
          rcases h with h | h
          · omega
          · have := charStarts_ge rest hr (pos + 1 + conts.length) _ h; omega
      · rw [List.getElem?_append_right (by omega)] at hb
        have := ih (pos + 1 + conts.length) (j - conts.length) b hb
        rw [this, charStarts]
        have e : pos + 1 + conts.length + (j - conts.length) = pos + (j + 1) := by omega
        rw [e]
        constructor
        · intro h; right; exact h
        · intro h
          rcases h with h | h
          · omega
          · exact h

/-- `is_char_boundary(i)` on a well-formed text: `i` is the end of the text or the offset of a
    decoded char -/
theorem isCharBoundary_iff_charStart (c : Bytes) (hv : ValidUtf8 c) (i : Nat) :
    isCharBoundary c i = true ↔ (i = c.length ∨ i ∈ charStarts c 0) := by
  by_cases hi : i < c.length
  · obtain ⟨b, hb⟩ : ∃ b, c[i]? = some b := ⟨c[i], by simp [hi]⟩
    have h := noncont_iff_charStart c hv 0 i b hb
    rw [Nat.zero_add] at h
    by_cases h0 : i = 0
    · subst h0
      have : isCont b = false := by
        cases hv with
        | nil => simp at hi
        | one x rest hx _ => simp at hb; subst hb; exact isCont_false_of _ (Or.inl hx)
        | two x y rest h1 _ _ _ => simp at hb; subst hb; exact isCont_false_of _ (Or.inr (by omega))
        | three x y z rest hxy _ _ => simp at hb; subst hb; exact isCont_false_of _ (Or.inr (by omega))
        | four x y z w rest hxy _ _ _ => simp at hb; subst hb; exact isCont_false_of _ (Or.inr (by omega))
      simp [isCharBoundary_zero, h.mp this]
    · simp only [isCharBoundary, h0, if_false, hb, Bool.not_eq_true', h]
      constructor
      · intro h; exact Or.inr h
      · intro h; rcases h with h | h
        · omega
        · exact h
  · by_cases he : i = c.length
    · subst he; simp [isCharBoundary_length]
    · have h1 : isCharBoundary c i = false := by
        have : c[i]? = none := by simp; omega
        have h0 : ¬ i = 0 := by omega
        simp [isCharBoundary, h0, this, he]
      rw [h1]
      constructor
      · intro h; cases h
      · intro h
        rcases h with h | h
        · exact absurd h he
        · exfalso
          have := charStarts_lt c hv 0 i h
          omega

/-! ### `ValidUtf8` is decided by the executable check `validUtf8b` -/

theorem validUtf8b_sound (bs : Bytes) (h : validUtf8b bs = true) : ValidUtf8 bs := by
  fun_induction validUtf8b bs with
  | case1 => exact .nil
  | case2 x t hx ih => exact .one x t hx (ih h)
  | case3 => cases h
  | case4 x hx y t2 hx2 ih =>
    simp only [Bool.and_eq_true] at h
    exact .two x y t2 hx2.1 hx2.2 h.1 (ih h.2)
  | case5 => cases h
  | case6 x hx y hx2 z t3 h3 ih =>
    simp only [Bool.and_eq_true] at h
    refine .three x y z t3 ?_ h.1 (ih h.2)
    simp only [threeOk, Bool.or_eq_true, Bool.and_eq_true, beq_iff_eq, decide_eq_true_eq] at h3
    rcases h3 with ((h3 | h3) | h3) | h3
    · exact Or.inl ⟨h3.1.1, h3.1.2, h3.2⟩
    · exact Or.inr (Or.inl ⟨h3.1.1, h3.1.2, h3.2⟩)
    · exact Or.inr (Or.inr (Or.inl ⟨h3.1.1, h3.1.2, h3.2⟩))
    · exact Or.inr (Or.inr (Or.inr ⟨h3.1.1, h3.1.2, h3.2⟩))
  | case7 => cases h
  | case8 x hx y hx2 z h3 w t4 ih =>
    simp only [Bool.and_eq_true] at h
    refine .four x y z w t4 ?_ h.1.1.2 h.1.2 (ih h.2)
    have h4 := h.1.1.1
    simp only [fourOk, Bool.or_eq_true, Bool.and_eq_true, beq_iff_eq, decide_eq_true_eq] at h4
    rcases h4 with (h4 | h4) | h4
    · exact Or.inl ⟨h4.1.1, h4.1.2, h4.2⟩
    · exact Or.inr (Or.inl ⟨h4.1.1, h4.1.2, h4.2⟩)
    · exact Or.inr (Or.inr ⟨h4.1.1, h4.1.2, h4.2⟩)

theorem validUtf8b_complete (bs : Bytes) (h : ValidUtf8 bs) : validUtf8b bs = true := by
  induction h with
  | nil => rw [validUtf8b.eq_def]
  | one x rest hx _ ih => rw [validUtf8b.eq_def]; simp [hx, ih]
  | two x y rest h1 h2 hy _ ih =>
    rw [validUtf8b.eq_def]
    have a : ¬ x.toNat < 128 := by omega
    simp [a, h1, h2, hy, ih]
  | three x y z rest hxy hz _ ih =>
    rw [validUtf8b.eq_def]
    have a : ¬ x.toNat < 128 := by omega
    have b : ¬ (194 ≤ x.toNat ∧ x.toNat ≤ 223) := by omega
    have t : threeOk x y = true := by
      simp only [threeOk, Bool.or_eq_true, Bool.and_eq_true, beq_iff_eq, decide_eq_true_eq]
      rcases hxy with h | h | h | h
      · exact Or.inl (Or.inl (Or.inl ⟨⟨h.1, h.2.1⟩, h.2.2⟩))
      · exact Or.inl (Or.inl (Or.inr ⟨⟨h.1, h.2.1⟩, h.2.2⟩))
      · exact Or.inl (Or.inr ⟨⟨h.1, h.2.1⟩, h.2.2⟩)
      · exact Or.inr ⟨⟨h.1, h.2.1⟩, h.2.2⟩
    simp [a, b, t, hz, ih]
  | four x y z w rest hxy hz hw _ ih =>
    rw [validUtf8b.eq_def]
    have a : ¬ x.toNat < 128 := by omega
    have b : ¬ (194 ≤ x.toNat ∧ x.toNat ≤ 223) := by omega
    have t : threeOk x y = false := by
      cases ht : threeOk x y with
      | false => rfl
      | true =>
        simp only [threeOk, Bool.or_eq_true, Bool.and_eq_true, beq_iff_eq, decide_eq_true_eq] at ht
        omega
    have f : fourOk x y = true := by
      simp only [fourOk, Bool.or_eq_true, Bool.and_eq_true, beq_iff_eq, decide_eq_true_eq]
      rcases hxy with h | h | h
      · exact Or.inl (Or.inl ⟨⟨h.1, h.2.1⟩, h.2.2⟩)
      · exact Or.inl (Or.inr ⟨⟨h.1, h.2.1⟩, h.2.2⟩)
      · exact Or.inr ⟨⟨h.1, h.2.1⟩, h.2.2⟩
    simp [a, b, t, f, hz, hw, ih]

theorem validUtf8b_iff (bs : Bytes) : validUtf8b bs = true ↔ ValidUtf8 bs :=
  ⟨validUtf8b_sound bs, validUtf8b_complete bs⟩

instance (bs : Bytes) : Decidable (ValidUtf8 bs) := decidable_of_iff _ (validUtf8b_iff bs)

example : ValidUtf8 [0xC3, 0xA9, 0x2E, 0x20, 0xE6, 0x97, 0xA5, 0xF0, 0x9F, 0x98, 0x80] := by decide
example : ¬ ValidUtf8 [0xC0, 0xAE] := by decide
example : ¬ ValidUtf8 [0xED, 0xA0, 0x80] := by decide

end Mv.Snippet
