//! C05 — embedded WAL never loses or resurrects records.
//! impl: memvid_core::io::EmbeddedWal on a temp file; model: drv_c05; oracle: reference list of
//! accepted appends since the last checkpoint.
use memvid_core::io::EmbeddedWal;
use memvid_core::types::Header;
use mvh::*;
use std::fs::File;
use std::io::{Read, Seek, SeekFrom, Write};

const WAL_OFFSET: u64 = 4096;

#[derive(Clone, Debug, PartialEq)]
enum Op {
    Append(usize, u8), // len, fill seed
    Ckpt,
    Pending,
    After(u64),
    Stats,
    Reopen,
    Should,
    Region,
}

fn op_json(o: &Op) -> Value {
    match o {
        Op::Append(l, f) => json!(["append", l, f]),
        Op::Ckpt => json!(["ckpt"]),
        Op::Pending => json!(["pending"]),
        Op::After(k) => json!(["after", k]),
        Op::Stats => json!(["stats"]),
        Op::Reopen => json!(["reopen"]),
        Op::Should => json!(["should"]),
        Op::Region => json!(["region"]),
    }
}
fn op_from(v: &Value) -> Op {
    let a = v.as_array().unwrap();
    match a[0].as_str().unwrap() {
        "append" => Op::Append(a[1].as_u64().unwrap() as usize, a[2].as_u64().unwrap() as u8),
        "ckpt" => Op::Ckpt,
        "pending" => Op::Pending,
        "after" => Op::After(a[1].as_u64().unwrap()),
        "stats" => Op::Stats,
        "reopen" => Op::Reopen,
        "should" => Op::Should,
        _ => Op::Region,
    }
}

const GUARD: usize = 128;
fn guard_pattern(n: usize) -> Vec<u8> { (0..n).map(|i| 0xa5u8 ^ (i as u8).wrapping_mul(7)).collect() }

fn payload(len: usize, fill: u8) -> Vec<u8> {
    (0..len).map(|i| fill.wrapping_add((i % 251) as u8).wrapping_mul(3).wrapping_add(1)).collect()
}

struct Real {
    file: File,
    header: Header,
    wal: Option<EmbeddedWal>,
}

impl Real {
    fn new(s: u64) -> Result<Real, String> {
        let mut file = tempfile::tempfile().map_err(|e| e.to_string())?;
        // guard areas: the header page before the region and GUARD bytes behind it (where the data
        // area of a real memory starts) carry a pattern the log must never touch
        file.write_all(&guard_pattern(WAL_OFFSET as usize)).map_err(|e| e.to_string())?;
        file.set_len(WAL_OFFSET + s).map_err(|e| e.to_string())?;
        file.seek(SeekFrom::Start(WAL_OFFSET + s)).map_err(|e| e.to_string())?;
        file.write_all(&guard_pattern(GUARD)).map_err(|e| e.to_string())?;
        let header = Header {
            magic: *b"MV2\0", version: 0x0201, footer_offset: 0, wal_offset: WAL_OFFSET, wal_size: s,
            wal_checkpoint_pos: 0, wal_sequence: 0, toc_checksum: [0u8; 32],
        };
        let mut wal = EmbeddedWal::open(&file, &header).map_err(|e| format!("{e}"))?;
        wal.set_skip_sync(true);
        Ok(Real { file, header, wal: Some(wal) })
    }
    /// Some(what) when the log wrote outside `[WAL_OFFSET, WAL_OFFSET + wal_size)`
    fn outside_touched(&mut self) -> Option<String> {
        let s = self.header.wal_size;
        let mut f = self.file.try_clone().unwrap();
        let len = f.metadata().map(|m| m.len()).unwrap_or(0);
        if len != WAL_OFFSET + s + GUARD as u64 { return Some(format!("file length {len}, expected {}", WAL_OFFSET + s + GUARD as u64)); }
        let mut head = vec![0u8; WAL_OFFSET as usize];
        f.seek(SeekFrom::Start(0)).unwrap();
        f.read_exact(&mut head).unwrap();
        if head != guard_pattern(WAL_OFFSET as usize) { return Some("bytes before the log region changed".into()); }
        let mut tail = vec![0u8; GUARD];
        f.seek(SeekFrom::Start(WAL_OFFSET + s)).unwrap();
        f.read_exact(&mut tail).unwrap();
        let want = guard_pattern(GUARD);
        if tail != want {
            let k = tail.iter().zip(want.iter()).position(|(a, b)| a != b).unwrap_or(0);
            let n = tail.iter().zip(want.iter()).filter(|(a, b)| a != b).count();
            return Some(format!("{n} byte(s) behind the log region changed, first at region end + {k}"));
        }
        None
    }
    fn region_hash(&mut self) -> String {
        let mut buf = vec![0u8; self.header.wal_size as usize];
        let mut f = self.file.try_clone().unwrap();
        f.seek(SeekFrom::Start(WAL_OFFSET)).unwrap();
        f.read_exact(&mut buf).unwrap();
        b3(&buf)
    }
}

fn map_err(e: &memvid_core::error::MemvidError) -> String {
    let s = format!("{e}");
    use memvid_core::error::MemvidError as E;
    match e {
        E::WalCorruption { offset, .. } => format!("err corrupt {offset}"),
        E::Lock(_) => "err ro".into(),
        _ if s.contains("too large") => "err large".into(),
        _ if s.contains("too small") => "err small".into(),
        _ if s.contains("full") => "err full".into(),
        _ => format!("err other {s}"),
    }
}

fn show_recs(rs: &[memvid_core::io::WalRecord]) -> String {
    if rs.is_empty() { return "recs -".into(); }
    format!("recs {}", rs.iter().map(|r| format!("{}:{}:{}", r.sequence, r.payload.len(), b3short(&r.payload))).collect::<Vec<_>>().join(","))
}

/// run one history on both sides; returns (trace lines, first problem)
struct Outcome {
    oracle: Option<(String, String)>, // signature, what
    disagree: Option<(String, String, String)>, // what, model, impl
    branches: Vec<&'static str>,
    trace: Vec<String>,
}

fn run_history(s: u64, ops: &[Op], drv: Option<&mut Driver>, verbose: bool) -> Outcome {
    let mut out = Outcome { oracle: None, disagree: None, branches: vec![], trace: vec![] };
    let mut real = match Real::new(s) { Ok(r) => r, Err(e) => { out.oracle = Some(("open-failed".into(), e)); return out; } };
    let mut drv = drv;
    if let Some(d) = drv.as_deref_mut() {
        let a = d.ask(&format!("new {s}"));
        if a != "ok" { out.disagree = Some(("new".into(), a, "ok".into())); return out; }
    }
    // reference: appends accepted since the last checkpoint, and the next sequence number
    let mut expected: Vec<(u64, usize, String)> = vec![];
    let mut all: Vec<(u64, usize, String)> = vec![]; // every record since the region was last reset by a wrap
    let mut next_seq: u64 = 1;
    let mut ckseq: u64 = 0;
    let mut used_since_wrap: u64 = 0; // generator-independent bookkeeping only for branch tags
    for (i, op) in ops.iter().enumerate() {
        let (req, imp): (String, String) = match op {
            Op::Append(len, fill) => {
                let p = payload(*len, *fill);
                let before_stats = real.wal.as_ref().unwrap().stats();
                let before_region = real.region_hash();
                let r = real.wal.as_mut().unwrap().append_entry(&p);
                let imp = match &r {
                    Ok(seq) => {
                        if *seq != next_seq && out.oracle.is_none() {
                            out.oracle = Some(("sequence-not-consecutive".into(), format!("op {i}: append returned seq {seq}, expected {next_seq}")));
                        }
                        expected.push((*seq, p.len(), b3short(&p)));
                        let size = 48 + p.len() as u64;
                        if used_since_wrap + size > s { all.clear(); used_since_wrap = 0; out.branches.push("wrap"); }
                        used_since_wrap += size;
                        if s - used_since_wrap < 48 { out.branches.push(if used_since_wrap == s { "exact-fit" } else { "tail-lt-48" }); }
                        all.push((*seq, p.len(), b3short(&p)));
                        next_seq = *seq + 1;
                        format!("ok {seq}")
                    }
                    Err(e) => {
                        let m = map_err(e);
                        out.branches.push(match m.as_str() { "err full" => "reject-full", "err small" => "reject-small", _ => "reject-other" });
                        // a rejected append must leave the log unchanged
                        let after_stats = real.wal.as_ref().unwrap().stats();
                        if (after_stats != before_stats || real.region_hash() != before_region) && out.oracle.is_none() {
                            out.oracle = Some(("rejected-append-changed-state".into(), format!("op {i}: {m} but stats/region changed")));
                        }
                        m
                    }
                };
                (format!("append {}", hexw(&p)), imp)
            }
            Op::Ckpt => {
                let r = real.wal.as_mut().unwrap().record_checkpoint(&mut real.header);
                let imp = match r {
                    Ok(()) => { expected.clear(); ckseq = real.header.wal_sequence; out.branches.push("checkpoint");
                                format!("ok {} {}", real.header.wal_checkpoint_pos, real.header.wal_sequence) }
                    Err(e) => map_err(&e),
                };
                ("ckpt".into(), imp)
            }
            Op::Pending | Op::After(_) => {
                let (req, r) = match op {
                    Op::Pending => ("pending".to_string(), real.wal.as_mut().unwrap().pending_records()),
                    Op::After(k) => (format!("after {k}"), real.wal.as_mut().unwrap().records_after(*k)),
                    _ => unreachable!(),
                };
                let imp = match &r { Ok(rs) => show_recs(rs), Err(e) => map_err(e) };
                if out.oracle.is_none() {
                    match (&r, op) {
                        (Ok(rs), Op::Pending) => {
                            let got: Vec<(u64, usize, String)> = rs.iter().map(|r| (r.sequence, r.payload.len(), b3short(&r.payload))).collect();
                            if got != expected {
                                let sig = if got.len() < expected.len() { "pending-records-lost" }
                                          else if got.iter().any(|g| g.0 <= ckseq) { "checkpointed-record-resurrected" }
                                          else { "pending-records-differ" };
                                out.oracle = Some((sig.into(), format!("op {i}: pending_records = {got:?}, acknowledged since checkpoint = {expected:?}")));
                            }
                        }
                        (Ok(rs), Op::After(k)) => {
                            if rs.iter().any(|r| r.sequence <= *k) {
                                out.oracle = Some(("records-after-returned-old-sequence".into(), format!("op {i}: records_after({k}) returned {imp}")));
                            }
                            // every acknowledged pending record with seq > k must be present, in order
                            let want: Vec<u64> = expected.iter().filter(|e| e.0 > *k).map(|e| e.0).collect();
                            let got: Vec<u64> = rs.iter().filter(|r| r.sequence > ckseq).map(|r| r.sequence).collect();
                            if want != got { out.oracle = Some(("pending-records-lost".into(), format!("op {i}: records_after({k}) pending part = {got:?}, expected {want:?}"))); }
                        }
                        (Err(e), _) => {
                            out.oracle = Some(("scan-failed-on-own-log".into(), format!("op {i}: {req} failed: {e}")));
                        }
                        _ => {}
                    }
                }
                (req, imp)
            }
            Op::Stats => {
                let st = real.wal.as_ref().unwrap().stats();
                ("stats".into(), format!("{} {} {} {}", st.region_size, st.pending_bytes, st.appends_since_checkpoint, st.sequence))
            }
            Op::Should => ("should".into(), format!("{}", real.wal.as_ref().unwrap().should_checkpoint())),
            Op::Region => ("region".into(), real.region_hash()),
            Op::Reopen => {
                real.wal = None;
                let r = EmbeddedWal::open(&real.file, &real.header);
                let imp = match r {
                    Ok(mut w) => { w.set_skip_sync(true); real.wal = Some(w); out.branches.push("reopen"); "ok".to_string() }
                    Err(e) => {
                        let m = map_err(&e);
                        if out.oracle.is_none() { out.oracle = Some(("reopen-failed-on-own-log".into(), format!("op {i}: {m}"))); }
                        m
                    }
                };
                (format!("reopen {} {} 0", real.header.wal_sequence, real.header.wal_checkpoint_pos), imp)
            }
        };
        // after the first disagreement model and implementation have diverged: stop comparing, but keep
        // executing the history so that the reference-list oracle can still judge the implementation
        let model = match drv.as_deref_mut() { Some(d) if out.disagree.is_none() => d.ask(&req), _ => imp.clone() };
        if verbose { println!("  {:<28} impl: {:<40} model: {}", if req.len() > 28 { &req[..28] } else { &req }, imp, model); }
        out.trace.push(format!("{req} -> {imp}"));
        if model != imp && out.disagree.is_none() {
            out.disagree = Some((format!("op {i} `{}`", if req.len() > 60 { &req[..60] } else { &req }), model, imp.clone()));
        }
        if out.oracle.is_none() {
            if let Some(what) = real.outside_touched() {
                out.oracle = Some(("log-wrote-outside-its-region".into(), format!("op {i} `{}`: {what}", if req.len() > 40 { &req[..40] } else { &req })));
            }
        }
        if real.wal.is_none() { break; }
        if out.oracle.is_some() { break; }
    }
    out
}

fn gen_history(rng: &mut Rng, s: u64, n_ops: usize, drv: &mut Driver) -> Vec<Op> {
    // the model's write head is used ONLY to aim payload sizes at the interesting boundaries
    let mut ops = vec![];
    let _ = drv.ask(&format!("new {s}"));
    for _ in 0..n_ops {
        let cur = drv.ask("cursors");
        let wh: u64 = cur.split(' ').next().and_then(|x| x.parse().ok()).unwrap_or(0);
        let st = drv.ask("stats");
        let pend: u64 = st.split(' ').nth(1).and_then(|x| x.parse().ok()).unwrap_or(0);
        let remaining = s.saturating_sub(wh);
        let r = rng.below(100);
        let op = if r < 55 {
            let max_payload = s.saturating_sub(48).max(1);
            let len = match rng.below(10) {
                0 => 1,
                1 => rng.range(1, 8),
                2 | 3 => { // end exactly at / just before / just after the region end
                    let target = remaining as i64 - 48 + rng.i64(-3, 3);
                    target.clamp(1, max_payload as i64 + 2) as u64
                }
                4 => { // leave fewer than 48 bytes
                    let target = remaining as i64 - 48 - rng.i64(1, 47);
                    target.clamp(1, max_payload as i64) as u64
                }
                5 => { // cross the 75% line
                    let target = (3 * s / 4) as i64 - pend as i64 - 48 + rng.i64(-2, 2);
                    target.clamp(1, max_payload as i64) as u64
                }
                6 => max_payload + rng.range(0, 2), // too small / exact region
                _ => rng.range(1, (max_payload / 3).max(1)),
            };
            Op::Append(len as usize, rng.u64() as u8)
        } else if r < 70 { Op::Ckpt }
        else if r < 82 { Op::Pending }
        else if r < 86 { Op::After(rng.below(6)) }
        else if r < 90 { Op::Stats }
        else if r < 96 { Op::Reopen }
        else if r < 98 { Op::Should }
        else { Op::Region };
        // keep the model in step so that the next choice sees the right cursors
        match &op {
            Op::Append(l, f) => { drv.ask(&format!("append {}", hexw(&payload(*l, *f)))); }
            Op::Ckpt => { drv.ask("ckpt"); }
            Op::Pending => { drv.ask("pending"); }
            Op::After(k) => { drv.ask(&format!("after {k}")); }
            Op::Reopen => {
                let c = drv.ask("cursors");
                let mut it = c.split(' ');
                let _wh = it.next(); let ckh = it.next().unwrap_or("0"); let ckseq = it.next().unwrap_or("0");
                drv.ask(&format!("reopen {ckseq} {ckh} 0"));
            }
            _ => {}
        }
        ops.push(op);
    }
    // every history ends by checking what is pending, reopening, and checking again
    ops.push(Op::Pending); ops.push(Op::Region); ops.push(Op::Reopen); ops.push(Op::Pending); ops.push(Op::Stats);
    ops
}

fn record(sum: &mut Summary, s: u64, ops: &[Op], out: &Outcome, drv: &mut Driver) {
    for b in &out.branches { sum.branch(b); }
    let canon = format!("{s}|{}", out.trace.join(";"));
    let nontrivial = out.branches.iter().any(|b| matches!(*b, "wrap" | "tail-lt-48" | "exact-fit" | "reject-full" | "checkpoint"));
    sum.case(&canon, nontrivial, || json!({"S": s, "ops": ops.iter().map(op_json).collect::<Vec<_>>(), "trace_tail": out.trace.iter().rev().take(4).collect::<Vec<_>>()}));
    if out.oracle.is_some() || out.disagree.is_some() {
        // shrink to a minimal failing op list
        let want_oracle = out.oracle.is_some();
        let mut fails = |cand: &[Op]| {
            let o = run_history(s, cand, Some(drv), false);
            if want_oracle { o.oracle.is_some() } else { o.disagree.is_some() }
        };
        let small = shrink_list(ops, &mut fails);
        let o2 = run_history(s, &small, Some(drv), false);
        let case = json!({"S": s, "ops": small.iter().map(op_json).collect::<Vec<_>>()});
        if let Some((sig, what)) = o2.oracle.or(out.oracle.clone()) {
            sum.oracle_violation(&sig, &what, case);
        } else if let Some((what, m, i)) = o2.disagree.or(out.disagree.clone()) {
            sum.disagreement(&what, case, &m, &i);
        }
    }
}

fn enumerate(sum: &mut Summary, drv: &mut Driver, s: u64, depth: usize) {
    let lens: Vec<usize> = {
        let m = (s - 48) as usize;
        let mut v = vec![1, 7, m, m - 1];
        for k in [10usize, 24, 47, 48, 49, 60] { if m > k + 1 { v.push(m - k); } }
        if m / 2 > 1 { v.push(m / 2 - 24); v.push(m / 2 - 23); }
        v.retain(|x| *x >= 1); v.sort(); v.dedup(); v
    };
    let mut alphabet: Vec<Op> = lens.iter().map(|l| Op::Append(*l, 7)).collect();
    alphabet.push(Op::Ckpt); alphabet.push(Op::Pending); alphabet.push(Op::Reopen);
    let mut idx = vec![0usize; depth];
    loop {
        let mut ops: Vec<Op> = idx.iter().map(|i| alphabet[*i].clone()).collect();
        ops.push(Op::Pending); ops.push(Op::Reopen); ops.push(Op::Pending);
        let out = run_history(s, &ops, Some(drv), false);
        sum.branch("enumerated");
        record(sum, s, &ops, &out, drv);
        if sum.oracle_violations.len() + sum.disagreements.len() >= 5 { return; }
        let mut k = depth;
        loop {
            if k == 0 { return; }
            k -= 1;
            idx[k] += 1;
            if idx[k] < alphabet.len() { break; }
            idx[k] = 0;
        }
    }
}

fn main() {
    let args = parse_args();
    let mut drv = Driver::spawn(&args.driver).expect("spawn driver");
    let mut sum = Summary::new("C05", &args,
        "operation histories (append with boundary-aimed payload sizes, checkpoint, pending_records, records_after, stats, \
         reopen-from-header, should_checkpoint, region hash) on the real EmbeddedWal over a temp file and on the Lean model; \
         regions 96..512 B and 64 KiB random, plus exhaustive op sequences over small regions; non-trivial = history reached a \
         wrap, a tail < 48 B, an exact fit, a 'full' rejection or a checkpoint; distinct = full op/answer trace");
    sum.expect_branches(&["wrap", "tail-lt-48", "exact-fit", "reject-full", "reject-small", "checkpoint", "reopen"]);
    if args.mode == "replay" {
        let case = load_replay(args.replay_file.as_ref().expect("replay file"));
        let input = case.get("input").unwrap_or(&case);
        let s = input["S"].as_u64().unwrap();
        let ops: Vec<Op> = input["ops"].as_array().unwrap().iter().map(op_from).collect();
        let out = run_history(s, &ops, Some(&mut drv), true);
        if let Some((sig, what)) = &out.oracle { println!("ORACLE {sig}: {what}"); }
        if let Some((w, m, i)) = &out.disagree { println!("DISAGREE {w}: model={m} impl={i}"); }
        record(&mut sum, s, &ops, &out, &mut drv);
        sum.finish(&args);
    }
    // corpus: the two witnesses of the repaired defect (sentinel wrapped onto pending records)
    let corpus: Vec<(u64, Vec<Op>)> = vec![
        (1024, vec![Op::Append(966, 1), Op::Pending]),
        (100, vec![Op::Append(10, 1), Op::Pending]),
        (200, vec![Op::Append(52, 1), Op::Ckpt, Op::Append(52, 2), Op::Pending, Op::Reopen, Op::Pending]),
        (160, vec![Op::Append(32, 1), Op::Append(32, 2), Op::Ckpt, Op::Pending, Op::Append(32, 3), Op::Pending]),
        (128, vec![Op::Append(80, 1), Op::Append(1, 2), Op::Ckpt, Op::Append(80, 3), Op::Pending, Op::Reopen, Op::Pending]),
    ];
    for (s, ops) in &corpus {
        let out = run_history(*s, ops, Some(&mut drv), false);
        sum.branch("corpus");
        record(&mut sum, *s, ops, &out, &mut drv);
    }
    let mut rng = Rng::new(args.seed);
    let (n_small, n_big, depth) = if args.thorough { (6000, 300, 5) } else { (500, 30, 3) };
    for _ in 0..n_small {
        let s = *rng.pick(&[96u64, 97, 100, 128, 144, 160, 200, 255, 256, 300, 512]);
        let n_ops = rng.usize(4, 40);
        let ops = gen_history(&mut rng, s, n_ops, &mut drv);
        let out = run_history(s, &ops, Some(&mut drv), false);
        record(&mut sum, s, &ops, &out, &mut drv);
    }
    for _ in 0..n_big {
        let s = 65536u64;
        let n_ops = rng.usize(20, 120);
        // larger payloads so that the 64 KiB region wraps
        let mut ops = vec![];
        for _ in 0..n_ops {
            let r = rng.below(100);
            ops.push(if r < 70 { Op::Append(rng.usize(300, 6000), rng.u64() as u8) } else if r < 85 { Op::Ckpt } else if r < 93 { Op::Pending } else if r < 97 { Op::Reopen } else { Op::Should });
        }
        ops.push(Op::Pending); ops.push(Op::Reopen); ops.push(Op::Pending); ops.push(Op::Region);
        let out = run_history(s, &ops, Some(&mut drv), false);
        sum.branch("region-64k");
        record(&mut sum, s, &ops, &out, &mut drv);
    }
    let sizes: &[u64] = if args.thorough { &[96, 128, 144, 200] } else { &[128] };
    for s in sizes { enumerate(&mut sum, &mut drv, *s, depth); }
    sum.model_requests = drv.requests;
    sum.finish(&args);
}
