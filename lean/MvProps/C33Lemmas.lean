/-
  C33 — helper lemmas about the model MvModel/Text.lean (the property theorems are in C33.lean).
-/
import MvModel.Text
namespace Mv.Text

/-- NFKC-stable text -/
def Stable (U : Uni) (s : List Char) : Prop := U.nfkc s = s

/-- facts about three concrete characters (true of Rust's `char::is_whitespace` / `is_control`) -/
structure CharLaws (U : Uni) : Prop where
  ws_sp : U.isWhitespace ' ' = true
  ws_nl : U.isWhitespace '\n' = true
  ctl_sp : U.isControl ' ' = false

/-- grapheme segmentation splits the text into non-empty consecutive pieces -/
structure SegLaws (U : Uni) : Prop where
  flat : ∀ s, (U.graphemes s).flatten = s
  ne : ∀ s, ∀ g ∈ U.graphemes s, g ≠ []

/-- what is assumed of NFKC -/
structure NfkcLaws (U : Uni) : Prop where
  idem : ∀ s, U.nfkc (U.nfkc s) = U.nfkc s
  sub : ∀ a b, U.nfkc (a ++ b) = a ++ b → U.nfkc a = a ∧ U.nfkc b = b
  join : ∀ a b c, (c = ' ' ∨ c = '\n') → U.nfkc a = a → U.nfkc b = b → U.nfkc (a ++ c :: b) = a ++ c :: b
  ctl : ∀ s, (∀ c ∈ s, U.isControl c = true → c = '\n' ∨ c = '\r' ∨ c = '\t') →
        ∀ c ∈ U.nfkc s, U.isControl c = true → c = '\n' ∨ c = '\r' ∨ c = '\t'

/-- no two adjacent characters are both whitespace -/
def NoAdjWs (U : Uni) (s : List Char) : Prop :=
  ∀ a b, [a, b] <:+: s → ¬ (U.isWhitespace a = true ∧ U.isWhitespace b = true)

theorem CHAR_MAP_eq : Mv.Gen.C33.CHAR_MAP = [('\r', '\n'), ('\t', ' ')] := by decide
theorem MIN_LIMIT_eq : MIN_LIMIT = 1 := by decide

theorem mapCh_cases (ch : Char) :
    (ch = '\r' ∧ mapCh ch = '\n') ∨ (ch = '\t' ∧ mapCh ch = ' ') ∨ (ch ≠ '\r' ∧ ch ≠ '\t' ∧ mapCh ch = ch) := by
  unfold mapCh
  rw [CHAR_MAP_eq]
  simp only [List.foldl]
  by_cases h1 : ch = '\r'
  · left; subst h1; decide
  · by_cases h2 : ch = '\t'
    · right; left; subst h2; decide
    · right; right; simp [h1, h2]

theorem mapCh_idem (ch : Char) : mapCh (mapCh ch) = mapCh ch := by
  rcases mapCh_cases ch with ⟨_, h⟩ | ⟨_, h⟩ | ⟨_, _, h⟩
  · rw [h]; decide
  · rw [h]; decide
  · rw [h, h]

/-! ### bytes -/
theorem bytes_nil : bytes [] = 0 := rfl
theorem bytes_append (a b : List Char) : bytes (a ++ b) = bytes a + bytes b := by
  simp [bytes, List.sum_append]
theorem bytes_cons (c : Char) (s : List Char) : bytes (c :: s) = c.utf8Size + bytes s := by
  simp [bytes]
theorem bytes_pos {s : List Char} (h : s ≠ []) : 0 < bytes s := by
  cases s with
  | nil => exact absurd rfl h
  | cons c r => rw [bytes_cons]; have := Char.utf8Size_pos c; omega

/-! ### adjacent whitespace -/
theorem noAdj_nil (U : Uni) : NoAdjWs U [] := by
  intro a b h
  have := List.IsInfix.length_le h
  simp at this

theorem noAdj_infix {U : Uni} {s t : List Char} (h : s <:+: t) (ht : NoAdjWs U t) : NoAdjWs U s :=
  fun a b hab => ht a b (hab.trans h)

theorem noAdj_cons (U : Uni) (c : Char) (s : List Char) :
    NoAdjWs U (c :: s) ↔
      (∀ b, s.head? = some b → ¬ (U.isWhitespace c = true ∧ U.isWhitespace b = true)) ∧ NoAdjWs U s := by
  constructor
  · intro h
    refine ⟨?_, noAdj_infix (List.infix_cons (List.infix_refl s)) h⟩
    intro b hb
    cases s with
    | nil => simp at hb
    | cons x r =>
      simp only [List.head?_cons, Option.some.injEq] at hb
      subst hb
      exact h c x ⟨[], r, by simp⟩
  · rintro ⟨h1, h2⟩ a b ⟨p, q, hpq⟩
    cases p with
    | nil =>
      simp only [List.nil_append, List.cons_append, List.cons.injEq] at hpq
      obtain ⟨rfl, hs⟩ := hpq
      exact h1 b (by rw [← hs]; rfl)
    | cons x p' =>
      simp only [List.cons_append, List.cons.injEq] at hpq
      exact h2 a b ⟨p', q, by simpa using hpq.2⟩

theorem noAdj_reverse {U : Uni} {s : List Char} (h : NoAdjWs U s) : NoAdjWs U s.reverse := by
  intro a b hab
  have : [b, a] <:+: s := by
    have := List.reverse_infix.mpr hab
    simpa using this
  intro ⟨ha, hb⟩
  exact h b a this ⟨hb, ha⟩

/-! ### the cleaning loop -/

/-- invariant of the cleaning loop (`cleaned` is reversed: its head is the last pushed char) -/
structure Inv (U : Uni) (st : CleanSt) : Prop where
  fNl : st.lastNewline = true ↔ st.cleaned.head? = some '\n'
  fSp : st.lastSpace = true ↔ st.cleaned.head? = some ' '
  ctl : ∀ c ∈ st.cleaned, U.isControl c = true → c = '\n'
  ws : ∀ c ∈ st.cleaned, U.isWhitespace c = true → c = ' ' ∨ c = '\n'
  fix : ∀ c ∈ st.cleaned, mapCh c = c
  adj : NoAdjWs U st.cleaned

theorem inv_init (U : Uni) : Inv U CleanSt.init := by
  refine ⟨by simp [CleanSt.init], by simp [CleanSt.init], ?_, ?_, ?_, noAdj_nil U⟩ <;> simp [CleanSt.init]

/-- after popping trailing spaces the last char is no whitespace, provided it was no newline -/
theorem head_dropSpaces {U : Uni} (L : CharLaws U) {r : List Char}
    (hws : ∀ c ∈ r, U.isWhitespace c = true → c = ' ' ∨ c = '\n')
    (hadj : NoAdjWs U r) (hnl : r.head? ≠ some '\n') :
    ∀ b, (r.dropWhile (· == ' ')).head? = some b → U.isWhitespace b = false := by
  intro b hb
  cases r with
  | nil => simp at hb
  | cons c r1 =>
    by_cases hc : c = ' '
    · subst hc
      have h1 := (noAdj_cons U ' ' r1).mp hadj
      cases r1 with
      | nil => simp at hb
      | cons c1 r2 =>
        have hc1 : U.isWhitespace c1 = false := by
          have := h1.1 c1 rfl
          simp only [L.ws_sp, true_and] at this
          simpa using this
        have hne : c1 ≠ ' ' := by
          intro h; rw [h, L.ws_sp] at hc1; cases hc1
        have : (List.dropWhile (· == ' ') (' ' :: c1 :: r2)) = c1 :: r2 := by
          simp [hne]
        rw [this] at hb
        simp only [List.head?_cons, Option.some.injEq] at hb
        subst hb; exact hc1
    · have : (List.dropWhile (· == ' ') (c :: r1)) = c :: r1 := by
        simp [hc]
      rw [this] at hb
      simp only [List.head?_cons, Option.some.injEq] at hb
      subst hb
      cases hw : U.isWhitespace c with
      | false => rfl
      | true =>
        exfalso
        rcases hws c (by simp) hw with h | h
        · exact hc h
        · exact hnl (by simp [h])

theorem dropWhile_infix {α} (p : α → Bool) (l : List α) : l.dropWhile p <:+: l :=
  (List.dropWhile_suffix p).isInfix

theorem inv_step {U : Uni} (L : CharLaws U) {st : CleanSt} (h : Inv U st) (ch0 : Char) :
    Inv U (cleanStep U st ch0) := by
  unfold cleanStep
  simp only
  split
  · exact h
  · rename_i hctl
    split
    · rename_i hnl
      split
      · exact h
      · rename_i hlast
        have hd : ∀ c ∈ st.cleaned.dropWhile (· == ' '), c ∈ st.cleaned :=
          fun c hc => (List.dropWhile_sublist _).subset hc
        have hhead : st.cleaned.head? ≠ some '\n' := fun e => hlast (h.fNl.mpr e)
        refine ⟨by simp, by simp, ?_, ?_, ?_, ?_⟩
        · intro c hc; simp only [List.mem_cons] at hc
          rcases hc with rfl | hc
          · intro _; rfl
          · exact h.ctl c (hd c hc)
        · intro c hc; simp only [List.mem_cons] at hc
          rcases hc with rfl | hc
          · intro _; right; rfl
          · exact h.ws c (hd c hc)
        · intro c hc; simp only [List.mem_cons] at hc
          rcases hc with rfl | hc
          · decide
          · exact h.fix c (hd c hc)
        · refine (noAdj_cons U _ _).mpr ⟨?_, noAdj_infix (dropWhile_infix _ _) h.adj⟩
          intro b hb hw
          have := head_dropSpaces L h.ws h.adj hhead b hb
          rw [this] at hw; exact absurd hw.2 (by simp)
    · rename_i hnl
      split
      · rename_i hws
        split
        · exact h
        · rename_i hskip
          simp only [Bool.or_eq_true, not_or] at hskip
          have hsp : st.cleaned.head? ≠ some ' ' := fun e => hskip.1 (h.fSp.mpr e)
          have hnl' : st.cleaned.head? ≠ some '\n' := by
            intro e; apply hskip.2; simp [e]
          refine ⟨by simp, by simp, ?_, ?_, ?_, ?_⟩
          · intro c hc; simp only [List.mem_cons] at hc
            rcases hc with rfl | hc
            · intro hc'; rw [L.ctl_sp] at hc'; cases hc'
            · exact h.ctl c hc
          · intro c hc; simp only [List.mem_cons] at hc
            rcases hc with rfl | hc
            · intro _; left; rfl
            · exact h.ws c hc
          · intro c hc; simp only [List.mem_cons] at hc
            rcases hc with rfl | hc
            · decide
            · exact h.fix c hc
          · refine (noAdj_cons U _ _).mpr ⟨?_, h.adj⟩
            intro b hb hw
            cases hcl : st.cleaned with
            | nil => rw [hcl] at hb; simp at hb
            | cons x r =>
              rw [hcl] at hb
              simp only [List.head?_cons, Option.some.injEq] at hb
              subst hb
              rcases h.ws x (by rw [hcl]; simp) hw.2 with e | e
              · exact hsp (by rw [hcl, e]; rfl)
              · exact hnl' (by rw [hcl, e]; rfl)
      · rename_i hws
        have hws' : U.isWhitespace (mapCh ch0) = false := by simpa using hws
        refine ⟨?_, ?_, ?_, ?_, ?_, ?_⟩
        · simp; exact fun e => hnl e
        · simp; intro e; rw [e, L.ws_sp] at hws'; cases hws'
        · intro c hc; simp only [List.mem_cons] at hc
          rcases hc with rfl | hc
          · intro hc'
            simp only [hc', Bool.true_and, bne_iff_ne, ne_eq, Decidable.not_not] at hctl
            simpa using hctl
          · exact h.ctl c hc
        · intro c hc; simp only [List.mem_cons] at hc
          rcases hc with rfl | hc
          · intro hc'; rw [hws'] at hc'; cases hc'
          · exact h.ws c hc
        · intro c hc; simp only [List.mem_cons] at hc
          rcases hc with rfl | hc
          · exact mapCh_idem ch0
          · exact h.fix c hc
        · refine (noAdj_cons U _ _).mpr ⟨?_, h.adj⟩
          intro b _ hw
          rw [hws'] at hw; exact absurd hw.1 (by simp)

theorem inv_foldl {U : Uni} (L : CharLaws U) (s : List Char) {st : CleanSt} (h : Inv U st) :
    Inv U (s.foldl (cleanStep U) st) := by
  induction s generalizing st with
  | nil => exact h
  | cons c r ih => exact ih (inv_step L h c)

/-! ### trimming -/

theorem head_dropWhile {α} {p : α → Bool} {l : List α} {c : α} (h : (l.dropWhile p).head? = some c) :
    p c = false := by
  induction l with
  | nil => simp at h
  | cons x r ih =>
    rw [List.dropWhile_cons] at h
    split at h
    · exact ih h
    · rename_i hx
      simp only [List.head?_cons, Option.some.injEq] at h
      subst h; simpa using hx

theorem dropWhile_nil_all {α} {p : α → Bool} {l : List α} (h : l.dropWhile p = []) :
    ∀ a ∈ l, p a = true := by
  induction l with
  | nil => simp
  | cons x r ih =>
    rw [List.dropWhile_cons] at h
    split at h
    · rename_i hx
      intro a ha
      simp only [List.mem_cons] at ha
      rcases ha with rfl | ha
      · exact hx
      · exact ih h a ha
    · cases h

/-- `trim_end_matches`: drop the trailing characters satisfying `p` -/
theorem dropEnd_prefix {α} (p : α → Bool) (l : List α) : (l.reverse.dropWhile p).reverse <+: l := by
  have := List.reverse_prefix.mpr (List.dropWhile_suffix p (l := l.reverse))
  simpa using this

theorem dropEnd_last {α} {p : α → Bool} {l : List α} {c : α}
    (h : (l.reverse.dropWhile p).reverse.getLast? = some c) : p c = false := by
  rw [List.getLast?_reverse] at h
  exact head_dropWhile h

theorem dropEnd_ne_nil {α} {p : α → Bool} {l : List α} {c : α} (hc : c ∈ l) (hp : p c = false) :
    (l.reverse.dropWhile p).reverse ≠ [] := by
  intro h
  have h' : l.reverse.dropWhile p = [] := by simpa using h
  have := dropWhile_nil_all h' c (by simpa using hc)
  rw [hp] at this; cases this

theorem prefix_head {α} {a : List α} {c : α} {r : List α} (h : a <+: c :: r) (hne : a ≠ []) :
    a.head? = some c := by
  cases a with
  | nil => exact absurd rfl hne
  | cons x a' =>
    have := (List.cons_prefix_cons.mp h).1
    simp [this]

theorem trimWs_infix (U : Uni) (s : List Char) : trimWs U s <:+: s := by
  unfold trimWs
  exact (dropEnd_prefix _ _).isInfix.trans (dropWhile_infix _ _)

theorem trimWs_head {U : Uni} {s : List Char} {c : Char} (h : (trimWs U s).head? = some c) :
    U.isWhitespace c = false := by
  unfold trimWs at h
  cases hd : s.dropWhile U.isWhitespace with
  | nil => rw [hd] at h; simp at h
  | cons x r =>
    have hx : U.isWhitespace x = false := head_dropWhile (by rw [hd]; rfl)
    rw [hd] at h
    have hne := dropEnd_ne_nil (p := U.isWhitespace) (l := x :: r) (c := x) (by simp) hx
    have := prefix_head (dropEnd_prefix U.isWhitespace (x :: r)) hne
    rw [this] at h
    simp only [Option.some.injEq] at h
    subst h; exact hx

theorem trimWs_last {U : Uni} {s : List Char} {c : Char} (h : (trimWs U s).getLast? = some c) :
    U.isWhitespace c = false := by
  unfold trimWs at h
  exact dropEnd_last h

/-- the shape of the cleaned, trimmed text -/
structure Good (U : Uni) (t : List Char) : Prop where
  ctl : ∀ c ∈ t, U.isControl c = true → c = '\n'
  ws : ∀ c ∈ t, U.isWhitespace c = true → c = ' ' ∨ c = '\n'
  fix : ∀ c ∈ t, mapCh c = c
  adj : NoAdjWs U t
  head : ∀ c, t.head? = some c → U.isWhitespace c = false
  last : ∀ c, t.getLast? = some c → U.isWhitespace c = false

theorem clean_inv {U : Uni} (L : CharLaws U) (s : List Char) :
    Inv U (s.foldl (cleanStep U) CleanSt.init) := inv_foldl L s (inv_init U)

theorem good_trim_clean {U : Uni} (L : CharLaws U) (s : List Char) : Good U (trimWs U (clean U s)) := by
  have hi := clean_inv L s
  have hsub : ∀ c ∈ trimWs U (clean U s), c ∈ (s.foldl (cleanStep U) CleanSt.init).cleaned := by
    intro c hc
    have := (trimWs_infix U (clean U s)).subset hc
    simpa [clean] using this
  refine ⟨fun c hc => hi.ctl c (hsub c hc), fun c hc => hi.ws c (hsub c hc), fun c hc => hi.fix c (hsub c hc),
    ?_, fun c h => trimWs_head h, fun c h => trimWs_last h⟩
  exact noAdj_infix (trimWs_infix U _) (noAdj_reverse hi.adj)

/-! ### NFKC stability through the cleaning loop -/

/-- the only control characters are LF, CR, TAB -/
def CtlOk (U : Uni) (s : List Char) : Prop :=
  ∀ c ∈ s, U.isControl c = true → c = '\n' ∨ c = '\r' ∨ c = '\t'

theorem stable_nil {U : Uni} (N : NfkcLaws U) : Stable U [] :=
  (N.sub [] (U.nfkc []) (by simpa using N.idem [])).1

theorem stable_infix {U : Uni} (N : NfkcLaws U) {s t : List Char} (h : s <:+: t) (ht : Stable U t) :
    Stable U s := by
  obtain ⟨a, b, rfl⟩ := h
  exact (N.sub a s (N.sub (a ++ s) b ht).1).2

/-- replace a middle part by one space / newline -/
theorem stable_rejoin {U : Uni} (N : NfkcLaws U) {x y a m b : List Char} {c : Char}
    (hc : c = ' ' ∨ c = '\n') (hx : Stable U x) (ex : x = a ++ m ++ b) (ey : y = a ++ c :: b) :
    Stable U y := by
  subst ex ey
  have h1 := N.sub (a ++ m) b hx
  exact N.join a b c hc (N.sub a m h1.1).1 h1.2

theorem stable_step {U : Uni} (L : CharLaws U) (N : NfkcLaws U) {st : CleanSt} (h : Inv U st)
    (ch0 : Char) (todo : List Char)
    (hc : U.isControl ch0 = true → ch0 = '\n' ∨ ch0 = '\r' ∨ ch0 = '\t')
    (hs : Stable U (st.cleaned.reverse ++ ch0 :: todo)) :
    Stable U ((cleanStep U st ch0).cleaned.reverse ++ todo) := by
  unfold cleanStep
  simp only
  split
  · rename_i hctl
    exfalso
    simp only [Bool.and_eq_true, bne_iff_ne, ne_eq] at hctl
    rcases mapCh_cases ch0 with ⟨_, e⟩ | ⟨_, e⟩ | ⟨h1, h2, e⟩
    · exact hctl.2 e
    · rw [e, L.ctl_sp] at hctl; cases hctl.1
    · rw [e] at hctl
      rcases hc hctl.1 with r | r | r
      · exact hctl.2 r
      · exact h1 r
      · exact h2 r
  · split
    · rename_i hnl
      split
      · rename_i hlast
        have hh := h.fNl.mp hlast
        cases hcl : st.cleaned with
        | nil => rw [hcl] at hh; simp at hh
        | cons x r0 =>
          rw [hcl] at hh hs
          simp only [List.head?_cons, Option.some.injEq] at hh
          subst hh
          exact stable_rejoin N (a := r0.reverse) (m := ['\n', ch0]) (b := todo) (c := '\n')
            (Or.inr rfl) hs (by simp) (by simp)
      · have hsplit : st.cleaned.reverse =
            (st.cleaned.dropWhile (· == ' ')).reverse ++ (st.cleaned.takeWhile (· == ' ')).reverse := by
          rw [← List.reverse_append, List.takeWhile_append_dropWhile]
        exact stable_rejoin N (a := (st.cleaned.dropWhile (· == ' ')).reverse)
          (m := (st.cleaned.takeWhile (· == ' ')).reverse ++ [ch0]) (b := todo) (c := '\n')
          (Or.inr rfl) hs (by rw [hsplit]; simp) (by simp)
    · rename_i hnl
      split
      · split
        · rename_i hskip
          have hx : st.cleaned.head? = some ' ' ∨ st.cleaned.head? = some '\n' := by
            simp only [Bool.or_eq_true] at hskip
            rcases hskip with e | e
            · exact Or.inl (h.fSp.mp e)
            · right; simpa using e
          cases hcl : st.cleaned with
          | nil => rw [hcl] at hx; simp at hx
          | cons x r0 =>
            rw [hcl] at hx hs
            simp only [List.head?_cons, Option.some.injEq] at hx
            exact stable_rejoin N (a := r0.reverse) (m := [x, ch0]) (b := todo) (c := x)
              hx hs (by simp) (by simp)
        · exact stable_rejoin N (a := st.cleaned.reverse) (m := [ch0]) (b := todo) (c := ' ')
            (Or.inl rfl) hs (by simp) (by simp)
      · rename_i hws
        have e : mapCh ch0 = ch0 := by
          rcases mapCh_cases ch0 with ⟨_, e⟩ | ⟨_, e⟩ | ⟨_, _, e⟩
          · exact absurd e hnl
          · rw [e, L.ws_sp] at hws; exact absurd rfl hws
          · exact e
        rw [e]
        simpa using hs

theorem stable_foldl {U : Uni} (L : CharLaws U) (N : NfkcLaws U) (s : List Char) {st : CleanSt}
    (h : Inv U st) (hc : CtlOk U s) (hs : Stable U (st.cleaned.reverse ++ s)) :
    Stable U (s.foldl (cleanStep U) st).cleaned.reverse := by
  induction s generalizing st with
  | nil => simpa using hs
  | cons c r ih =>
    exact ih (inv_step L h c) (fun d hd => hc d (List.mem_cons_of_mem _ hd))
      (stable_step L N h c r (hc c (by simp)) hs)

theorem stable_clean {U : Uni} (L : CharLaws U) (N : NfkcLaws U) {s : List Char}
    (hc : CtlOk U s) (hs : Stable U s) : Stable U (clean U s) :=
  stable_foldl L N s (inv_init U) hc (by simpa [CleanSt.init] using hs)

theorem ctlOk_prefilter (U : Uni) (input : List Char) :
    CtlOk U (prefilter (some ['\n', '\r', '\t']) U input) := by
  intro c hc hctl
  simp only [prefilter, List.mem_filter, hctl, Bool.not_true, Bool.false_or] at hc
  simpa using hc.2

/-- the text before truncation is NFKC-stable in the repaired arrangement -/
theorem stable_cleanedText {U : Uni} (L : CharLaws U) (N : NfkcLaws U) (input : List Char) :
    Stable U (cleanedText (some ['\n', '\r', '\t']) U input) := by
  unfold cleanedText
  apply stable_infix N (trimWs_infix U _)
  exact stable_clean L N (N.ctl _ (ctlOk_prefilter U input)) (N.idem _)

/-! ### truncation -/

theorem bytes_flatten_prefix {l l' : List (List Char)} (h : l <+: l') :
    bytes l.flatten ≤ bytes l'.flatten := by
  obtain ⟨z, rfl⟩ := h
  rw [List.flatten_append, bytes_append]; omega

theorem prefix_take {α} {l gs : List α} {k : Nat} (h : l <+: gs.take k) :
    ∃ k1, k1 ≤ k ∧ k1 ≤ gs.length ∧ l = gs.take k1 := by
  have hl := List.prefix_iff_eq_take.mp h
  have hlen := h.length_le
  rw [List.length_take] at hlen
  refine ⟨l.length, by omega, by omega, ?_⟩
  rw [List.take_take] at hl
  have e : min l.length k = l.length := by omega
  rw [e] at hl
  exact hl

theorem takeFit_spec (L : Nat) (gs : List (List Char)) (consumed : Nat) :
    ∃ k, k ≤ gs.length ∧ (takeFit L gs consumed).1 = gs.take k ∧
      (consumed ≤ L → consumed + bytes (gs.take k).flatten ≤ L) ∧
      ((takeFit L gs consumed).2 = false → k = gs.length) ∧
      ((takeFit L gs consumed).2 = true →
        k < gs.length ∧ L < consumed + bytes (gs.take (k + 1)).flatten) := by
  induction gs generalizing consumed with
  | nil => exact ⟨0, by simp, by simp [takeFit], by simp [bytes_nil], by simp, by simp [takeFit]⟩
  | cons g rest ih =>
    unfold takeFit
    simp only
    split
    · rename_i hgt
      refine ⟨0, by simp, by simp, by simp [bytes_nil], by simp, ?_⟩
      intro _
      refine ⟨by simp, ?_⟩
      simp only [Nat.zero_add, List.take_succ_cons, List.take_zero, List.flatten_cons, List.flatten_nil,
        List.append_nil]
      omega
    · rename_i hle
      obtain ⟨k, hk, h1, h2, h3, h4⟩ := ih (consumed + bytes g)
      refine ⟨k + 1, by simp; omega, by simp [h1], ?_, ?_, ?_⟩
      · intro _
        have := h2 (by omega)
        simp only [List.take_succ_cons, List.flatten_cons, bytes_append]
        omega
      · intro hf
        have := h3 hf
        simp; omega
      · intro ht
        have := h4 ht
        refine ⟨by simp; omega, ?_⟩
        simp only [List.take_succ_cons, List.flatten_cons, bytes_append]
        have h5 := this.2
        omega

theorem dropTrailWs_prefix (U : Uni) (gs : List (List Char)) : dropTrailWs U gs <+: gs :=
  dropEnd_prefix _ _

theorem dropTrailWs_last {U : Uni} {gs : List (List Char)} {g : List Char}
    (h : (dropTrailWs U gs).getLast? = some g) : endsWs U g = false :=
  dropEnd_last h

theorem flatten_take_zero_of_nil {gs : List (List Char)} {k : Nat}
    (hne : ∀ g ∈ gs, g ≠ []) (hk : k ≤ gs.length) (h : (gs.take k).flatten = []) : k = 0 := by
  cases k with
  | zero => rfl
  | succ k =>
    cases gs with
    | nil => simp at hk
    | cons g r =>
      simp only [List.take_succ_cons, List.flatten_cons, List.append_eq_nil_iff] at h
      exact absurd h.1 (hne g (by simp))

theorem fallback_ne_none (o : List Char) (gs : List (List Char)) (b : Bool) :
    (if o.isEmpty = true then
        (match gs with
          | g :: _ => some (g, true)
          | [] => some (o, b))
      else some (o, b)) ≠ none := by
  split
  · cases gs <;> simp
  · simp

/-- everything the property needs to know about a `some` result of `normalize_text` -/
theorem normalize_spec {U : Uni} (S : SegLaws U) {keep : Option (List Char)} {trail : Bool}
    {input : List Char} {limit : Nat} {out : List Char} {tr : Bool}
    (h : normalizeCfg keep trail U input limit = some (out, tr)) :
    cleanedText keep U input ≠ [] ∧
    ∃ k, 1 ≤ k ∧ k ≤ (U.graphemes (cleanedText keep U input)).length ∧
      out = ((U.graphemes (cleanedText keep U input)).take k).flatten ∧
      (tr = false ↔ bytes (cleanedText keep U input) ≤ max limit MIN_LIMIT) ∧
      (tr = false → out = cleanedText keep U input) ∧
      (bytes out ≤ max limit MIN_LIMIT ∨ (k = 1 ∧ max limit MIN_LIMIT < bytes out)) ∧
      (trail = true → tr = true → k = 1 ∨
        ∀ g, ((U.graphemes (cleanedText keep U input)).take k).getLast? = some g → endsWs U g = false) := by
  unfold normalizeCfg at h
  simp only at h
  generalize ht : cleanedText keep U input = t at h ⊢
  generalize hL : max limit MIN_LIMIT = L at h ⊢
  split at h
  · cases h
  · rename_i hne
    have hne' : t ≠ [] := by simpa using hne
    refine ⟨hne', ?_⟩
    have hflat := S.flat t
    have hgne := S.ne t
    generalize hgs : U.graphemes t = gs at h hflat hgne ⊢
    obtain ⟨k0, hk0, h1, h2, h3, h4⟩ := takeFit_spec L gs 0
    have hmono : ∀ k, bytes (gs.take k).flatten ≤ bytes t := by
      intro k; rw [← hflat]; exact bytes_flatten_prefix (List.take_prefix k gs)
    -- the kept clusters are a prefix of the fitting ones
    have hkept : (if (trail && (takeFit L gs 0).2) = true then dropTrailWs U (takeFit L gs 0).1
        else (takeFit L gs 0).1) <+: gs.take k0 := by
      split
      · rw [← h1]; exact dropTrailWs_prefix U _
      · rw [h1]; exact List.prefix_refl _
    obtain ⟨k1, hk1, hk1', hkeq⟩ := prefix_take hkept
    rw [hkeq] at h
    have hfit : bytes (gs.take k1).flatten ≤ L := by
      have a := h2 (Nat.zero_le _)
      have b : bytes (gs.take k1).flatten ≤ bytes (gs.take k0).flatten := by
        apply bytes_flatten_prefix
        rw [List.prefix_take_iff]; exact ⟨List.take_prefix _ _, by simp; omega⟩
      omega
    split at h
    · -- nothing was kept: fall back to the first cluster
      rename_i hempty
      have hk10 : k1 = 0 := flatten_take_zero_of_nil hgne hk1' (by simpa using hempty)
      have hr2 : (takeFit L gs 0).2 = true := by
        cases hb : (takeFit L gs 0).2 with
        | true => rfl
        | false =>
          exfalso
          have hk0len := h3 hb
          rw [hb] at hkeq
          simp only [Bool.and_false, Bool.false_eq_true, if_false] at hkeq
          rw [h1, hk0len, List.take_length, hk10] at hkeq
          rw [hkeq] at hflat
          exact hne' (by simpa using hflat.symm)
      have hover := (h4 hr2).2
      cases gs with
      | nil => exact absurd hflat.symm hne'
      | cons g rest =>
        simp only [Option.some.injEq, Prod.mk.injEq] at h
        obtain ⟨rfl, rfl⟩ := h
        refine ⟨1, Nat.le_refl _, by simp, by simp, ?_, by simp, ?_, fun _ _ => Or.inl rfl⟩
        · have := hmono (k0 + 1)
          constructor
          · intro hc; cases hc
          · intro hle; omega
        · rcases Nat.lt_or_ge L (bytes g) with hlt | hge
          · exact Or.inr ⟨rfl, hlt⟩
          · exact Or.inl hge
    · rename_i hnonempty
      simp only [Option.some.injEq, Prod.mk.injEq] at h
      obtain ⟨rfl, rfl⟩ := h
      have hk1pos : 1 ≤ k1 := by
        rcases Nat.eq_zero_or_pos k1 with hz | hp
        · exfalso; apply hnonempty; simp [hz]
        · exact hp
      refine ⟨k1, hk1pos, hk1', rfl, ?_, ?_, Or.inl hfit, ?_⟩
      · constructor
        · intro hb
          have hk0len := h3 hb
          have := h2 (Nat.zero_le _)
          rw [hk0len, List.take_length, hflat] at this
          omega
        · intro hle
          cases hb : (takeFit L gs 0).2 with
          | false => rfl
          | true =>
            have := (h4 hb).2
            have := hmono (k0 + 1)
            omega
      · intro hb
        have hk0len := h3 hb
        rw [hb] at hkeq
        simp only [Bool.and_false, Bool.false_eq_true, if_false] at hkeq
        rw [← hkeq, h1, hk0len, List.take_length, hflat]
      · intro htrail hb
        right
        intro g hg
        rw [htrail, hb] at hkeq
        simp only [Bool.and_self, if_true] at hkeq
        rw [← hkeq] at hg
        exact dropTrailWs_last hg

/-! ### the cleaned text is a fixed point of every stage -/

theorem dropWhile_id_of_head {α} {p : α → Bool} {l : List α}
    (h : ∀ c, l.head? = some c → p c = false) : l.dropWhile p = l := by
  cases l with
  | nil => rfl
  | cons x r => rw [List.dropWhile_cons]; simp [h x rfl]

theorem trimWs_id {U : Uni} {t : List Char} (g : Good U t) : trimWs U t = t := by
  unfold trimWs
  rw [dropWhile_id_of_head g.head, dropWhile_id_of_head (l := t.reverse)]
  · simp
  · intro c hc; rw [List.head?_reverse] at hc; exact g.last c hc

theorem prefilter_id {U : Uni} {t : List Char} (g : Good U t) :
    prefilter (some ['\n', '\r', '\t']) U t = t := by
  unfold prefilter
  simp only
  rw [List.filter_eq_self]
  intro c hc
  cases hctl : U.isControl c with
  | false => simp
  | true => simp [g.ctl c hc hctl]

theorem takeFit_all (L : Nat) (gs : List (List Char)) (consumed : Nat)
    (h : consumed + bytes gs.flatten ≤ L) : takeFit L gs consumed = (gs, false) := by
  induction gs generalizing consumed with
  | nil => rfl
  | cons g rest ih =>
    rw [List.flatten_cons, bytes_append] at h
    unfold takeFit
    simp only
    rw [if_neg (by omega), ih (consumed + bytes g) (by omega)]

/-- one step of the loop on a character of an already clean text: it is pushed unchanged -/
theorem cleanStep_good {U : Uni} (L : CharLaws U) (st : CleanSt) (c : Char) (rest : List Char)
    (hf1 : st.lastNewline = true ↔ st.cleaned.head? = some '\n')
    (hf2 : st.lastSpace = true ↔ st.cleaned.head? = some ' ')
    (hctl : U.isControl c = true → c = '\n')
    (hws : U.isWhitespace c = true → c = ' ' ∨ c = '\n')
    (hfix : mapCh c = c)
    (hadj : NoAdjWs U (st.cleaned.reverse ++ c :: rest)) :
    cleanStep U st c =
      { cleaned := c :: st.cleaned, lastSpace := decide (c = ' '), lastNewline := decide (c = '\n') } := by
  -- the previous char and `c` are not both whitespace
  have hprev : ∀ x, st.cleaned.head? = some x → U.isWhitespace c = true → U.isWhitespace x = false := by
    intro x hx hc
    cases hcl : st.cleaned with
    | nil => rw [hcl] at hx; simp at hx
    | cons y r0 =>
      rw [hcl] at hx hadj
      simp only [List.head?_cons, Option.some.injEq] at hx
      subst hx
      have := hadj y c ⟨r0.reverse, rest, by simp⟩
      cases hy : U.isWhitespace y with
      | false => rfl
      | true => exact absurd ⟨hy, hc⟩ this
  unfold cleanStep
  simp only [hfix]
  have h0 : (U.isControl c && c != '\n') = false := by
    cases hc : U.isControl c with
    | false => simp
    | true => simp [hctl hc]
  rw [h0]
  simp only [Bool.false_eq_true, if_false]
  by_cases hnl : c = '\n'
  · subst hnl
    simp only [if_true]
    have hln : st.lastNewline = false := by
      cases hb : st.lastNewline with
      | false => rfl
      | true =>
        have := hprev '\n' (hf1.mp hb) L.ws_nl
        rw [L.ws_nl] at this; cases this
    have hdrop : st.cleaned.dropWhile (· == ' ') = st.cleaned := by
      apply dropWhile_id_of_head
      intro x hx
      have := hprev x hx L.ws_nl
      simp only [beq_eq_false_iff_ne, ne_eq]
      intro e; rw [e, L.ws_sp] at this; cases this
    simp [hln, hdrop]
  · simp only [hnl, if_false]
    by_cases hw : U.isWhitespace c = true
    · have hsp : c = ' ' := by
        rcases hws hw with e | e
        · exact e
        · exact absurd e hnl
      subst hsp
      have hls : st.lastSpace = false := by
        cases hb : st.lastSpace with
        | false => rfl
        | true =>
          have := hprev ' ' (hf2.mp hb) L.ws_sp
          rw [L.ws_sp] at this; cases this
      have hhn : (st.cleaned.head? == some '\n') = false := by
        cases hb : (st.cleaned.head? == some '\n') with
        | false => rfl
        | true =>
          have := hprev '\n' (by simpa using hb) L.ws_sp
          rw [L.ws_nl] at this; cases this
      simp [hw, hls, hhn]
    · have hne : c ≠ ' ' := by
        intro e; rw [e, L.ws_sp] at hw; exact hw rfl
      simp [hw, hne]

theorem clean_foldl_id {U : Uni} (L : CharLaws U) (s : List Char) (st : CleanSt)
    (hf1 : st.lastNewline = true ↔ st.cleaned.head? = some '\n')
    (hf2 : st.lastSpace = true ↔ st.cleaned.head? = some ' ')
    (hctl : ∀ c ∈ s, U.isControl c = true → c = '\n')
    (hws : ∀ c ∈ s, U.isWhitespace c = true → c = ' ' ∨ c = '\n')
    (hfix : ∀ c ∈ s, mapCh c = c)
    (hadj : NoAdjWs U (st.cleaned.reverse ++ s)) :
    (s.foldl (cleanStep U) st).cleaned = s.reverse ++ st.cleaned := by
  induction s generalizing st with
  | nil => simp
  | cons c r ih =>
    rw [List.foldl_cons,
      cleanStep_good L st c r hf1 hf2 (hctl c (by simp)) (hws c (by simp)) (hfix c (by simp)) hadj]
    rw [ih]
    · simp
    · simp [eq_comm]
    · simp [eq_comm]
    · exact fun d hd => hctl d (List.mem_cons_of_mem _ hd)
    · exact fun d hd => hws d (List.mem_cons_of_mem _ hd)
    · exact fun d hd => hfix d (List.mem_cons_of_mem _ hd)
    · simpa using hadj

theorem clean_id {U : Uni} (L : CharLaws U) {t : List Char} (g : Good U t) : clean U t = t := by
  unfold clean
  rw [clean_foldl_id L t CleanSt.init (by simp [CleanSt.init]) (by simp [CleanSt.init]) g.ctl g.ws g.fix
    (by simpa [CleanSt.init] using g.adj)]
  simp [CleanSt.init]

/-- in the repaired arrangement the text before truncation is a fixed point of all stages -/
theorem cleanedText_id {U : Uni} (L : CharLaws U) {t : List Char} (g : Good U t) (hs : Stable U t) :
    cleanedText (some ['\n', '\r', '\t']) U t = t := by
  unfold cleanedText
  rw [prefilter_id g, hs, clean_id L g, trimWs_id g]

/-! ### truncate_at_grapheme_boundary -/

theorem scanEnd_spec (L : Nat) (gs : List (List Char)) (idx e : Nat) :
    ∃ k, k ≤ gs.length ∧
      (k = 0 → scanEnd L gs idx e = e) ∧
      (0 < k → scanEnd L gs idx e = idx + bytes (gs.take k).flatten ∧
        idx + bytes (gs.take k).flatten ≤ L) ∧
      (k < gs.length → L < idx + bytes (gs.take (k + 1)).flatten) := by
  induction gs generalizing idx e with
  | nil => exact ⟨0, by simp, by simp [scanEnd], by simp, by simp⟩
  | cons g rest ih =>
    unfold scanEnd
    simp only
    split
    · rename_i hgt
      refine ⟨0, by simp, by simp, by simp, ?_⟩
      intro _
      simp only [Nat.zero_add, List.take_succ_cons, List.take_zero, List.flatten_cons, List.flatten_nil,
        List.append_nil]
      omega
    · rename_i hle
      obtain ⟨k, hk, h0, h1, h2⟩ := ih (idx + bytes g) (idx + bytes g)
      refine ⟨k + 1, by simp; omega, by simp, ?_, ?_⟩
      · intro _
        simp only [List.take_succ_cons, List.flatten_cons, bytes_append]
        rcases Nat.eq_zero_or_pos k with hz | hp
        · rw [h0 hz, hz]; simp [bytes_nil]; omega
        · have := h1 hp; omega
      · intro hlt
        have := h2 (by simpa using hlt)
        simp only [List.take_succ_cons, List.flatten_cons, bytes_append] at this ⊢
        omega

theorem truncIdx_spec {U : Uni} (S : SegLaws U) (s : List Char) (limit : Nat) :
    ∃ k, k ≤ (U.graphemes s).length ∧
      truncIdx U s limit = bytes ((U.graphemes s).take k).flatten ∧
      (truncIdx U s limit ≤ limit ∨ (k = 1 ∧ limit < truncIdx U s limit)) ∧
      (k < (U.graphemes s).length → limit < bytes ((U.graphemes s).take (k + 1)).flatten) ∧
      (s ≠ [] → 0 < truncIdx U s limit) := by
  have hflat := S.flat s
  have hgne := S.ne s
  unfold truncIdx
  generalize U.graphemes s = gs at hflat hgne ⊢
  split
  · rename_i hfits
    refine ⟨gs.length, Nat.le_refl _, by rw [List.take_length, hflat], Or.inl hfits,
      fun h => absurd h (Nat.lt_irrefl _), fun hne => bytes_pos hne⟩
  · rename_i hover
    obtain ⟨k, hk, h0, h1, h2⟩ := scanEnd_spec limit gs 0 0
    simp only
    split
    · rename_i hzero
      have hk0 : k = 0 := by
        rcases Nat.eq_zero_or_pos k with hz | hp
        · exact hz
        · exfalso
          have hb := (h1 hp).1
          rw [hzero] at hb
          cases gs with
          | nil => simp at hk; omega
          | cons g r =>
            cases k with
            | zero => omega
            | succ k' =>
              simp only [List.take_succ_cons, List.flatten_cons, bytes_append] at hb
              have := bytes_pos (hgne g (by simp))
              omega
      cases gs with
      | nil =>
        exfalso
        simp only [List.flatten_nil] at hflat
        rw [← hflat, bytes_nil] at hover; omega
      | cons g r =>
        have hfirst := h2 (by rw [hk0]; simp)
        rw [hk0] at hfirst
        simp only [Nat.zero_add, List.take_succ_cons, List.take_zero, List.flatten_cons,
          List.flatten_nil, List.append_nil] at hfirst
        refine ⟨1, by simp, by simp, Or.inr ⟨rfl, hfirst⟩, ?_, fun _ => bytes_pos (hgne g (by simp))⟩
        intro _
        have : bytes ((g :: r).take 1).flatten ≤ bytes ((g :: r).take 2).flatten :=
          bytes_flatten_prefix (by rw [List.prefix_take_iff]; exact ⟨List.take_prefix _ _, by simp⟩)
        simp only [List.take_succ_cons, List.take_zero, List.flatten_cons, List.flatten_nil,
          List.append_nil] at this ⊢
        omega
    · rename_i hnz
      have hp : 0 < k := by
        rcases Nat.eq_zero_or_pos k with hz | hp
        · exact absurd (h0 hz) hnz
        · exact hp
      have hb := h1 hp
      refine ⟨k, hk, by rw [hb.1]; simp, Or.inl (by rw [hb.1]; exact hb.2), ?_, fun _ => Nat.pos_of_ne_zero hnz⟩
      intro hlt
      have := h2 hlt
      simpa using this

/-! ### the output inside the text before truncation -/

theorem getLast?_append_ne {α} (l g : List α) (h : g ≠ []) : (l ++ g).getLast? = g.getLast? := by
  rw [List.getLast?_append]
  cases hg : g.getLast? with
  | none => exact absurd (List.getLast?_eq_none_iff.mp hg) h
  | some a => rfl

theorem flatten_getLast {l : List (List Char)} {g : List Char} (hl : l.getLast? = some g) (hg : g ≠ []) :
    l.flatten.getLast? = g.getLast? := by
  obtain ⟨ys, rfl⟩ := List.getLast?_eq_some_iff.mp hl
  rw [List.flatten_append]
  simp only [List.flatten_cons, List.flatten_nil, List.append_nil]
  exact getLast?_append_ne _ _ hg

theorem take_flatten_prefix (gs : List (List Char)) (k : Nat) : (gs.take k).flatten <+: gs.flatten := by
  refine ⟨(gs.drop k).flatten, ?_⟩
  rw [← List.flatten_append, List.take_append_drop]

theorem bytes_take_ge {gs : List (List Char)} (hne : ∀ g ∈ gs, g ≠ []) {k : Nat} (hk : k ≤ gs.length) :
    k ≤ bytes (gs.take k).flatten := by
  induction gs generalizing k with
  | nil => simp at hk; omega
  | cons g r ih =>
    cases k with
    | zero => omega
    | succ k =>
      simp only [List.take_succ_cons, List.flatten_cons, bytes_append]
      have h1 := bytes_pos (hne g (by simp))
      have h2 := ih (fun x hx => hne x (by simp [hx])) (k := k) (by simpa using hk)
      omega

theorem take_one_flatten {g : List Char} {rest : List (List Char)} :
    ((g :: rest).take 1).flatten = g := by simp

/-! ### the literal truncation loop equals the cluster-level formulation -/

theorem truncateStr_prefix (a b : List Char) : truncateStr (a ++ b) (bytes a) = some a := by
  induction a with
  | nil => cases b <;> simp [truncateStr, bytes_nil]
  | cons c r ih =>
    have hp := Char.utf8Size_pos c
    rw [List.cons_append, bytes_cons]
    unfold truncateStr
    rw [if_neg (by omega), if_neg (by omega)]
    have : c.utf8Size + bytes r - c.utf8Size = bytes r := by omega
    rw [this, ih]; rfl

theorem dropEnd_cons {α} (p : α → Bool) (x : α) (l : List α) :
    ((x :: l).reverse.dropWhile p).reverse =
      if (l.reverse.dropWhile p).reverse = [] then (if p x then [] else [x])
      else x :: (l.reverse.dropWhile p).reverse := by
  rw [List.reverse_cons, List.dropWhile_append]
  by_cases h : (l.reverse.dropWhile p) = []
  · simp [h, List.dropWhile_cons]
    split <;> simp
  · simp [h]

theorem truncLoop_eq (U : Uni) (trail : Bool) (L : Nat) (gs : List (List Char)) :
    ∀ (out : List Char) (consumed keep : Nat),
    truncLoop U trail L gs out consumed keep =
      (out ++ (takeFit L gs consumed).1.flatten,
       if trail = true ∧ dropTrailWs U (takeFit L gs consumed).1 ≠ [] then
         consumed + bytes (dropTrailWs U (takeFit L gs consumed).1).flatten
       else keep,
       (takeFit L gs consumed).2) := by
  induction gs with
  | nil => intro out consumed keep; simp [truncLoop, takeFit, dropTrailWs]
  | cons g rest ih =>
    intro out consumed keep
    unfold truncLoop takeFit
    simp only
    split
    · simp [dropTrailWs]
    · rw [ih]
      simp only [List.flatten_cons, List.append_assoc, Prod.mk.injEq, true_and, and_true]
      unfold dropTrailWs
      rw [dropEnd_cons]
      by_cases hd : ((takeFit L rest (consumed + bytes g)).1.reverse.dropWhile (endsWs U)).reverse = []
      · rw [hd]
        simp only [ne_eq, not_true_eq_false, and_false, if_false, if_true]
        cases trail <;> cases hg : endsWs U g <;> simp <;> simp [bytes, List.flatten]
      · simp only [hd, if_false, ne_eq, not_false_eq_true, and_true, List.flatten_cons, bytes_append,
          reduceCtorEq]
        cases trail <;> simp; omega

theorem normalizeLit_eq (keep : Option (List Char)) (trail : Bool) (U : Uni) (input : List Char) (limit : Nat) :
    normalizeLit keep trail U input limit = some (normalizeCfg keep trail U input limit) := by
  unfold normalizeLit normalizeCfg
  simp only
  split
  · rfl
  · generalize U.graphemes (cleanedText keep U input) = gs
    generalize max limit MIN_LIMIT = L
    rw [truncLoop_eq]
    simp only [List.nil_append, Nat.zero_add]
    by_cases hc : (trail && (takeFit L gs 0).2) = true
    · simp only [hc, if_true]
      have htrail : trail = true := by
        cases trail <;> simp_all
      have hk : (if trail = true ∧ dropTrailWs U (takeFit L gs 0).1 ≠ []
            then bytes (dropTrailWs U (takeFit L gs 0).1).flatten else 0) =
          bytes (dropTrailWs U (takeFit L gs 0).1).flatten := by
        split
        · rfl
        · rename_i hn
          simp only [htrail, true_and, ne_eq, Decidable.not_not] at hn
          rw [hn]; rfl
      rw [hk]
      obtain ⟨z, hz⟩ := dropTrailWs_prefix U (takeFit L gs 0).1
      have : (takeFit L gs 0).1.flatten = (dropTrailWs U (takeFit L gs 0).1).flatten ++ z.flatten := by
        rw [← List.flatten_append, hz]
      rw [this, truncateStr_prefix]
      simp only
      by_cases he : (dropTrailWs U (takeFit L gs 0).1).flatten.isEmpty = true <;> cases gs <;> simp [he]
    · simp only [hc]
      simp only [Bool.false_eq_true, if_false]
      by_cases he : (takeFit L gs 0).1.flatten.isEmpty = true <;> cases gs <;> simp [he]


/-! ### where a truncated output was cut -/


theorem mem_takeWhile_p {α} {p : α → Bool} {l : List α} {x : α} (h : x ∈ l.takeWhile p) : p x = true := by
  induction l with
  | nil => simp at h
  | cons y r ih =>
    rw [List.takeWhile_cons] at h
    split at h
    · rename_i hy
      simp only [List.mem_cons] at h
      rcases h with rfl | h
      · exact hy
      · exact ih h
    · simp at h

theorem dropEnd_split {α} (p : α → Bool) (l : List α) :
    ∃ z, l = (l.reverse.dropWhile p).reverse ++ z ∧ ∀ x ∈ z, p x = true := by
  refine ⟨(l.reverse.takeWhile p).reverse, ?_, ?_⟩
  · rw [← List.reverse_append, List.takeWhile_append_dropWhile, List.reverse_reverse]
  · intro x hx
    rw [List.mem_reverse] at hx
    exact mem_takeWhile_p hx

theorem flatten_nil_of_ne {a : List (List Char)} (hne : ∀ g ∈ a, g ≠ []) (h : a.flatten = []) : a = [] := by
  cases a with
  | nil => rfl
  | cons g r =>
    simp only [List.flatten_cons, List.append_eq_nil_iff] at h
    exact absurd h.1 (hne g (by simp))

/-- where a truncated output was cut -/
theorem normalize_cut_spec {U : Uni} (S : SegLaws U) {keep : Option (List Char)} {trail : Bool}
    {input : List Char} {limit : Nat} {out : List Char}
    (h : normalizeCfg keep trail U input limit = some (out, true)) :
    ∃ (a z : List (List Char)) (g : List Char) (rest : List (List Char)),
      U.graphemes (cleanedText keep U input) = a ++ z ++ g :: rest ∧
      bytes (a ++ z).flatten ≤ max limit MIN_LIMIT ∧
      max limit MIN_LIMIT < bytes (a ++ z).flatten + bytes g ∧
      (∀ x ∈ z, endsWs U x = true) ∧ (trail = false → z = []) ∧
      (∀ x, a.getLast? = some x → trail = true → endsWs U x = false) ∧
      ((a ≠ [] ∧ out = a.flatten) ∨
        (a = [] ∧ ∃ r', U.graphemes (cleanedText keep U input) = out :: r')) := by
  unfold normalizeCfg at h
  simp only at h
  generalize cleanedText keep U input = t at h ⊢
  generalize max limit MIN_LIMIT = L at h ⊢
  split at h
  · cases h
  · have hgne := S.ne t
    generalize U.graphemes t = gs at h hgne ⊢
    obtain ⟨k0, hk0, h1, h2, h3, h4⟩ := takeFit_spec L gs 0
    -- the flag is true in every branch that returns `true`
    have hr2 : (takeFit L gs 0).2 = true := by
      cases hb : (takeFit L gs 0).2 with
      | true => rfl
      | false =>
        exfalso
        rw [hb] at h
        simp only [Bool.and_false, Bool.false_eq_true, if_false] at h
        have hk := h3 hb
        rw [h1, hk, List.take_length] at h
        split at h
        · rename_i he
          cases gs with
          | nil => simp at h
          | cons g r =>
            simp only [List.flatten_cons, List.isEmpty_iff, List.append_eq_nil_iff] at he
            exact hgne g (by simp) he.1
        · simp at h
    obtain ⟨hlt, hover⟩ := h4 hr2
    have hfit := h2 (Nat.zero_le _)
    rw [Nat.zero_add] at hfit hover
    -- the first cluster that does not fit
    have hsplit : gs = gs.take k0 ++ gs[k0] :: gs.drop (k0 + 1) := by
      conv => lhs; rw [← List.take_append_drop k0 gs, List.drop_eq_getElem_cons hlt]
    have hover' : L < bytes (gs.take k0).flatten + bytes gs[k0] := by
      have : gs.take (k0 + 1) = gs.take k0 ++ [gs[k0]] := by
        rw [List.take_add_one, List.getElem?_eq_getElem hlt]; rfl
      rw [this, List.flatten_append, bytes_append] at hover
      simpa using hover
    rw [hr2, h1] at h
    simp only [Bool.and_true] at h
    cases trail with
    | false =>
      simp only [Bool.false_eq_true, if_false] at h
      refine ⟨gs.take k0, [], gs[k0], gs.drop (k0 + 1), by simpa using hsplit, by simpa using hfit,
        by simpa using hover', by simp, fun _ => rfl, (fun _ _ ht => by cases ht), ?_⟩
      split at h
      · rename_i he
        have ha : gs.take k0 = [] :=
          flatten_nil_of_ne (fun g hg => hgne g (List.take_subset _ _ hg)) (by simpa using he)
        right
        refine ⟨ha, ?_⟩
        cases gs with
        | nil => simp at hlt
        | cons g r => simp at h; exact ⟨r, by rw [h]⟩
      · rename_i he
        left
        simp only [Option.some.injEq, Prod.mk.injEq, and_true] at h
        refine ⟨?_, h.symm⟩
        intro e; apply he; simp [e]
    | true =>
      simp only [if_true] at h
      obtain ⟨z, hz, hzall⟩ := dropEnd_split (endsWs U) (gs.take k0)
      refine ⟨dropTrailWs U (gs.take k0), z, gs[k0], gs.drop (k0 + 1), ?_, ?_, ?_, hzall, (fun ht => by cases ht),
        (fun x hx _ => dropTrailWs_last hx), ?_⟩
      · unfold dropTrailWs; rw [← hz]; exact hsplit
      · unfold dropTrailWs; rw [← hz]; exact hfit
      · unfold dropTrailWs; rw [← hz]; exact hover'
      · split at h
        · rename_i he
          have ha : dropTrailWs U (gs.take k0) = [] :=
            flatten_nil_of_ne (fun g hg => hgne g (List.take_subset _ _ ((dropTrailWs_prefix U _).subset hg)))
              (by simpa using he)
          right
          refine ⟨ha, ?_⟩
          cases gs with
          | nil => simp at hlt
          | cons g r => simp at h; exact ⟨r, by rw [h]⟩
        · rename_i he
          left
          simp only [Option.some.injEq, Prod.mk.injEq, and_true] at h
          refine ⟨?_, h.symm⟩
          intro e; apply he; simp [e]


end Mv.Text
