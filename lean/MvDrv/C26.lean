/- Driver for C26: the Core model's line protocol (MvModel/CoreDrv.lean) with `put` / `update`
   executed under the derived-data id policy the source has (`codePolicy`, read off put_internal by
   tools/gen/C26.py: `IdPolicy.frameId` once /verif/fixes/C26.diff is in, `walSeq` before). -/
import MvModel.Derived
def main : IO Unit := Mv.runDriver Mv.Core.Mem.create (Mv.Core.drvStepG Mv.Core.codePolicy)
