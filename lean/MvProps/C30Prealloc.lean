/-
  C30, time index: `read_track` must not let the declared (untrusted) entry count size its
  pre-allocation.  The cap is read from the source by tools/gen/C30.py; this module elaborates
  only when the source caps the request (the repair in /verif/fixes/C30.diff).  With the uncapped
  `Vec::with_capacity(count as usize)` the obligation below is false — the witness is
  `Mv.TimeIndex.C30_timeidx_prealloc_witness` in MvProps/C30.lean — and this file fails to build.
-/
import MvModel.TimeIndex
namespace Mv.TimeIndex

/-- the cap found in the source keeps every request below `isize::MAX` bytes -/
theorem prealloc_cap_ok :
    (match PREALLOC_CAP with | some c => decide (c * 16 ≤ 2^63 - 1) | none => false) = true := by decide

/-- **C30_timeidx_no_prealloc_panic** — whatever count an image declares, the capacity
    `read_track` requests cannot trigger the "capacity overflow" panic. -/
theorem C30_timeidx_no_prealloc_panic (count : Nat) : preallocPanics (preallocRequest count) = false := by
  have hc := prealloc_cap_ok
  unfold preallocRequest
  revert hc
  cases PREALLOC_CAP with
  | none => intro hc; simp at hc
  | some c =>
    intro hc
    simp only [decide_eq_true_eq] at hc
    simp only [preallocPanics, decide_eq_false_iff_not]
    have : min count c ≤ c := Nat.min_le_right _ _
    omega

example : preallocPanics (preallocRequest (2^59)) = false := C30_timeidx_no_prealloc_panic _

end Mv.TimeIndex
