/-
  C09 — helper lemmas (list counting, the engine/post assumptions, the core recall argument).
  Property theorems are in MvProps/C09.lean.
-/
import MvModel.Recall
import MvProps.C11
import MvProps.C16
import MvProps.C39
namespace Mv.Recall
open Mv.Sketch Mv.Gen.C09

/-! ### counting -/

/-- a duplicate-free list inside `S` is not longer than `S` -/
theorem nodup_subset_length (S : List Nat) : ∀ l : List Nat, l.Nodup → (∀ x ∈ l, x ∈ S) → l.length ≤ S.length := by
  induction S with
  | nil =>
    intro l _ hs
    cases l with
    | nil => simp
    | cons a _ => exact absurd (hs a (by simp)) (by simp)
  | cons a S ih =>
    intro l hl hs
    have hsub : (l.filter (· != a)).Sublist l := List.filter_sublist
    have h1 : (l.filter (· != a)).length ≤ S.length := by
      apply ih _ (List.Nodup.sublist hsub hl)
      intro x hx
      have hx' := List.mem_filter.mp hx
      have : x ≠ a := by simpa using hx'.2
      rcases List.mem_cons.mp (hs x hx'.1) with h | h
      · exact absurd h this
      · exact h
    have h2 : l.length ≤ (l.filter (· != a)).length + 1 := by
      clear ih h1 hsub hs
      induction l with
      | nil => simp
      | cons b l ihl =>
        have hb : b ∉ l := (List.nodup_cons.mp hl).1
        have hl' : l.Nodup := (List.nodup_cons.mp hl).2
        by_cases hba : b = a
        · subst hba
          have : l.filter (· != b) = l := by
            apply List.filter_eq_self.mpr
            intro x hx
            have : x ≠ b := fun h => hb (h ▸ hx)
            simpa using this
          simp [this]
        · have := ihl hl'
          simp [hba]
          omega
    simp only [List.length_cons]
    omega

theorem totalSlices_cons (d : Page.Doc) (ds : List Page.Doc) :
    Page.totalSlices (d :: ds) = d.slices.length + Page.totalSlices ds := by
  simp [Page.totalSlices]

/-- the slices of a sub-selection of the frames are not more than those of all frames -/
theorem totalSlices_filter_le (g : Nat → Option Page.Doc) (p : Nat → Bool) (l : List Nat) :
    Page.totalSlices ((l.filter p).filterMap g) ≤ Page.totalSlices (l.filterMap g) := by
  induction l with
  | nil => simp
  | cons a l ih =>
    by_cases hp : p a = true
    · cases hg : g a with
      | none => simpa [hp, hg] using ih
      | some d => simp only [hp, List.filter_cons_of_pos, List.filterMap_cons, hg, totalSlices_cons]; omega
    · have hp' : p a = false := by simpa using hp
      cases hg : g a with
      | none => simpa [hp', hg] using ih
      | some d => simp only [List.filter_cons, hp', List.filterMap_cons, hg, totalSlices_cons]; simp; omega

theorem totalSlices_perm (g : Nat → Option Page.Doc) {l₁ l₂ : List Nat} (h : l₁.Perm l₂) :
    Page.totalSlices (l₁.filterMap g) = Page.totalSlices (l₂.filterMap g) := by
  unfold Page.totalSlices
  exact ((h.filterMap g).map _).sum_nat

/-- when every selected frame has a document with at least one slice, frames ≤ slices -/
theorem length_le_totalSlices (g : Nat → Option Page.Doc) (l : List Nat)
    (h : ∀ f ∈ l, ∃ d, g f = some d ∧ 1 ≤ d.slices.length) : l.length ≤ Page.totalSlices (l.filterMap g) := by
  induction l with
  | nil => simp
  | cons a l ih =>
    obtain ⟨d, hd, h1⟩ := h a (by simp)
    have := ih (fun f hf => h f (by simp [hf]))
    simp only [List.filterMap_cons, hd, totalSlices_cons, List.length_cons]
    omega

/-! ### the assumptions about the black boxes -/

/-- A-engine.  E1+E2: what `search_documents(q, frame_filter, n)` returns is the `max n 1`-prefix
    (`let doc_limit = limit.max(1)`) of one fixed
    ranking `rank` of the indexed documents matching `q`, restricted to the frame filter (so: at most `n`
    ids, all indexed, all inside the filter).  E3: every frame of `matching` (active frames whose text
    holds the query word as a whole word) is among the documents the engine matches. -/
structure EngineOK (E : Filter.Engine) (rank matching : List Nat) : Prop where
  e12 : ∀ filter n, E.tantivy filter n = some ((rank.filter (Filter.passes filter)).take (max n 1))
  e3 : ∀ f ∈ matching, f ∈ rank
  nodup : rank.Nodup

/-- what the post-filter and the re-sort do to the engine's matches: every document the engine matches
    survives `parsed.evaluate` and has a snippet slice that yields a hit (for whole-word matches:
    `word_evaluates` below and C35; for the engine's other matches this says the analyser does not
    conflate the query word with a different word), and the recency re-sort only permutes. -/
structure PostOK (W : World) (rank : List Nat) : Prop where
  keep : ∀ f ∈ rank, ∃ d, W.docs f = some d ∧ d.frame = f ∧ ∃ s ∈ d.slices, (Page.clip d s).isSome
  perm : ∀ l, (W.reorder l).Perm l

/-- the hits `top_k` can hold are snippets: all snippets of all matching documents fit the page -/
def Budget (W : World) (rank : List Nat) (topK : Nat) : Prop :=
  Page.totalSlices (rank.filterMap W.docs) ≤ max topK 1

/-- the literal reading "k ≤ top_k" is `Budget` when every document has one snippet -/
theorem budget_of_single (W : World) (rank : List Nat) (topK : Nat)
    (h1 : ∀ f ∈ rank, ∀ d, W.docs f = some d → d.slices.length = 1) (hk : rank.length ≤ topK) :
    Budget W rank topK := by
  unfold Budget
  have : Page.totalSlices (rank.filterMap W.docs) ≤ rank.length := by
    clear hk
    induction rank with
    | nil => simp [Page.totalSlices]
    | cons a l ih =>
      have ih' := ih (fun f hf => h1 f (by simp [hf]))
      cases hg : W.docs a with
      | none => simp only [List.filterMap_cons, hg, List.length_cons]; omega
      | some d =>
        have := h1 a (by simp) d hg
        simp only [List.filterMap_cons, hg, totalSlices_cons, List.length_cons]; omega
  omega

/-! ### the core argument: whatever filter reaches the engine, frames it allows are found -/

/-- frame ids of `try_tantivy_search` for candidate filter `flt` (text query, no cursor) -/
def searchWith (W : World) (topK : Nat) (flt : Option (List Nat)) : List Nat :=
  match Filter.tryTantivy W.engine (post W topK) flt topK 0 with
  | some hits => hits
  | none => Filter.lexFallback W.engine (post W topK) flt

theorem clip_frame (d : Page.Doc) (s : Nat × Nat) (h : Page.Hit) (hc : Page.clip d s = some h) : h.frame = d.frame := by
  unfold Page.clip at hc
  simp only at hc
  split at hc
  · cases hc
  · split at hc
    · cases hc
    · cases hc; rfl

theorem core (W : World) (rank matching : List Nat) (topK : Nat) (flt : Option (List Nat))
    (hE : EngineOK W.engine rank matching) (hP : PostOK W rank) (hB : Budget W rank topK)
    (hfit : (rank.filter (Filter.passes flt)).length ≤ Filter.docLimit topK 0 flt)
    (f : Nat) (hf : f ∈ matching) (hallow : Filter.passes flt f = true) :
    f ∈ searchWith W topK flt := by
  have hfr : f ∈ rank := hE.e3 f hf
  obtain ⟨allowed, hal⟩ : ∃ a, a = rank.filter (Filter.passes flt) := ⟨_, rfl⟩
  rw [← hal] at hfit
  have hfa : f ∈ allowed := by rw [hal]; exact List.mem_filter.mpr ⟨hfr, hallow⟩
  have hsub : ∀ x ∈ allowed, x ∈ rank := fun x hx => (List.mem_filter.mp (hal ▸ hx)).1
  have htake : allowed.take (max (Filter.docLimit topK 0 flt) 1) = allowed := List.take_of_length_le (by omega)
  have hne : allowed.isEmpty = false := Filter.isEmpty_false_of_mem hfa
  -- every allowed frame is kept by the post-filter
  have hkeepall : allowed.filter (post W topK).keep = allowed := by
    apply List.filter_eq_self.mpr
    intro x hx
    obtain ⟨d, hd, _⟩ := hP.keep x (hsub x hx)
    simp [post, hd]
  obtain ⟨ev, hev⟩ : ∃ e, e = (W.reorder allowed).filterMap W.docs := ⟨_, rfl⟩
  have hperm := hP.perm allowed
  have hfe : f ∈ W.reorder allowed := hperm.mem_iff.mpr hfa
  have hne2 : (W.reorder allowed).isEmpty = false := Filter.isEmpty_false_of_mem hfe
  -- the page holds every hit
  have htot : Page.totalSlices ev ≤ max topK 1 := by
    have h1 : Page.totalSlices ev = Page.totalSlices (allowed.filterMap W.docs) := by
      rw [hev]; exact totalSlices_perm W.docs hperm
    have h2 := totalSlices_filter_le W.docs (Filter.passes flt) rank
    rw [← hal] at h2
    unfold Budget at hB
    omega
  have hall : (Page.page ev 0 topK).hits = Page.allHits ev := by
    apply Page.C16_big_request
    have : (Page.allHits ev).length ≤ (Page.flat ev).length := by
      unfold Page.allHits
      exact List.length_filterMap_le _ _
    rw [Page.flat_length] at this
    omega
  -- the frame's document is in the evaluated list and yields a hit
  obtain ⟨d, hd, hdf, s, hs, hclip⟩ := hP.keep f hfr
  have hdev : d ∈ ev := by rw [hev]; exact List.mem_filterMap.mpr ⟨f, hfe, hd⟩
  obtain ⟨h, hh⟩ := Option.isSome_iff_exists.mp hclip
  have hin : h ∈ Page.allHits ev := by
    unfold Page.allHits Page.flat
    apply List.mem_filterMap.mpr
    exact ⟨(d, s), List.mem_flatMap.mpr ⟨d, hdev, List.mem_map.mpr ⟨s, hs, rfl⟩⟩, hh⟩
  have hframe : h.frame = f := by rw [clip_frame d s h hh, hdf]
  -- unfold the search
  unfold searchWith Filter.tryTantivy
  rw [hE.e12 flt, ← hal, htake]
  have ho : (post W topK).order allowed = W.reorder allowed := rfl
  simp only [hne, hkeepall, ho, hne2, Bool.false_eq_true, ↓reduceIte]
  show f ∈ ((Page.page ((W.reorder allowed).filterMap W.docs) 0 topK).hits.map (·.frame))
  rw [← hev, hall]
  exact List.mem_map.mpr ⟨h, hin, hframe⟩

end Mv.Recall
