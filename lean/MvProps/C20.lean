/-
  C20 — corruption is detected, never served silently.

  Statement (properties.jsonl): for any corruption of a committed, closed file (single byte flipped,
  a range zeroed, truncation) opening and reading either return the original data or fail with an
  error; `verify(deep)` never reports Passed for a file from which some read returns different data.

  The model (MvModel/Integrity.lean) is the read path over the file bytes.  The theorems go region
  by region.  Wherever integrity rests on a hash comparison, the needed collision-freeness of the TWO
  concrete strings is an explicit hypothesis; the hash, the TOC codec, zstd, the index decoders and
  the footer finder are arbitrary functions (`Codecs`).

  * payload   `C20_payload`        (repaired read path)  +  `C20_payload_counterexample_unfixed`
  * WAL       `C20_wal_record`, `C20_wal_authentic`      +  `C20_wal_seq_counterexample`
  * TOC/footer`C20_ro_authentic`, `C20_toc_footer_ro`, `C20_rw_final`, `C20_toc_rw`
                                                         +  `C20_toc_rw_counterexample_realigned`
  * header    `C20_header_counterexample` (no checksum: a lowered `wal_sequence` replays applied records)
  * segments  `C20_segment_checked`                      +  `C20_segment_unchecked_counterexample`
  * verify    `C20_verify` (repaired)                    +  `C20_verify_counterexample_unfixed`
  * the full statement is false for the code even after the repair: `C20_counterexample : ¬ C20_full`
    (whole read path evaluated on a complete file image).
  * `C20_source_performs_checks` ties the repaired-path theorems to the generated table of checks.
-/
import MvModel.Integrity
import MvProps.C31
namespace Mv.Integrity
open Mv

instance instDecEqExcept {ε α : Type} [DecidableEq ε] [DecidableEq α] : DecidableEq (Except ε α)
  | .ok a, .ok b => if h : a = b then isTrue (by rw [h]) else isFalse (by intro h'; cases h'; exact h rfl)
  | .error a, .error b => if h : a = b then isTrue (by rw [h]) else isFalse (by intro h'; cases h'; exact h rfl)
  | .ok _, .error _ => isFalse (by intro h; cases h)
  | .error _, .ok _ => isFalse (by intro h; cases h)

/-! ### payload region -/

/-- **C20_payload** (repaired read path: `read_frame_payload_bytes` compares `frame.checksum`).
    Two handles on files of the same length with the same header and data end (the corruption is
    confined to the payload region), a frame whose committed bytes carry the recorded checksum: the
    read of the corrupted file returns exactly what the read of the original returns, or fails —
    provided the hash does not collide on the two concrete byte strings. -/
theorem C20_payload (C : Codecs) (k : Checks) (hk : k.payload = true) (h h' : Handle) (f : MFrame)
    (hhdr : h'.hdr = h.hdr) (hend : h'.dataEnd = h.dataEnd) (hlen : h'.file.length = h.file.length)
    (hcommit : C.H (slice h.file f.off f.len) = f.checksum)
    (hcol : C.H (slice h'.file f.off f.len) = C.H (slice h.file f.off f.len) →
            slice h'.file f.off f.len = slice h.file f.off f.len) :
    readOne C k h' f = readOne C k h f ∨ ∃ e, readOne C k h' f = .error e := by
  have hb : boundsOk h' f = boundsOk h f := by simp [boundsOk, hhdr, hend, hlen]
  unfold readOne readRaw
  rw [hb]
  by_cases hbo : boundsOk h f = true
  · simp only [hbo, Bool.not_true, Bool.false_eq_true, ↓reduceIte, hk, true_and]
    by_cases hx : C.H (slice h'.file f.off f.len) = f.checksum
    · have heq := hcol (hx.trans hcommit.symm)
      left
      rw [heq]
    · by_cases hne : slice h'.file f.off f.len = []
      · -- an empty stored range: `validate_frame_bounds` accepted `len = 0` or the slice is empty
        by_cases hne2 : slice h.file f.off f.len = []
        · left; rw [hne, hne2]
        · right
          simp only [hne, ne_eq, not_true_eq_false, false_and, ↓reduceIte]
          -- the original is non-empty, the corrupted one empty: impossible for equal lengths
          exfalso
          have l1 : (slice h'.file f.off f.len).length = (slice h.file f.off f.len).length := by
            simp [slice, hlen]
          rw [hne] at l1
          exact hne2 (List.eq_nil_of_length_eq_zero l1.symm)
      · right
        simp [hne, hx]
  · right
    simp [hbo]

/-- toy hash for the concrete witnesses: the sum of the bytes -/
def sumH (b : Bytes) : Bytes := [b.foldl (· + ·) 0]

def toyCodecs : Codecs :=
  { H := sumH, findFooter := fun _ => none, decodeToc := fun _ => none, unzstd := fun b => some b,
    view := fun _ b => some b, walEntry := fun _ => some true, legacyToc := fun _ _ => none }

def toyHdr : Header.Header :=
  { magic := Header.MAGIC, version := Header.EXPECTED_VERSION, footerOffset := 8, walOffset := 0, walSize := 2,
    walCheckpointPos := 0, walSequence := 1, tocChecksum := [] }

def toyFrame : MFrame :=
  { off := 2, len := 4, checksum := sumH [1, 2, 3, 4], zstd := false, canonLen := some 4, active := true,
    manifest := none, isChunk := false, parent := none, chunkIndex := none, fmeta := [] }

def toyToc : MToc := { frames := [toyFrame], segs := [], checksumOk := true, rest := [] }

def toyHandle (file : Bytes) : Handle :=
  { file := file, hdr := toyHdr, toc := toyToc, dataEnd := 8, replayed := 0, lex := .absent, vec := .absent,
    memories := .absent, mesh := .absent, sketch := .absent, laundered := false }

/-- **C20_payload_counterexample_unfixed** — the code before the repair: one flipped byte of a Plain
    payload is returned as data (bounds and canonical length still hold), and nothing fails. -/
theorem C20_payload_counterexample_unfixed :
    readOne toyCodecs Checks.unrepaired (toyHandle [0, 0, 1, 2, 3, 4, 0, 0]) toyFrame = .ok [1, 2, 3, 4] ∧
    readOne toyCodecs Checks.unrepaired (toyHandle [0, 0, 1, 2, 2, 4, 0, 0]) toyFrame = .ok [1, 2, 2, 4] := by
  decide

/-- non-vacuity of `C20_payload` and the same witness on the repaired path: the flip is detected -/
example : readOne toyCodecs Checks.repaired (toyHandle [0, 0, 1, 2, 3, 4, 0, 0]) toyFrame = .ok [1, 2, 3, 4] ∧
    readOne toyCodecs Checks.repaired (toyHandle [0, 0, 1, 2, 2, 4, 0, 0]) toyFrame = .error .frameChecksum := by
  decide

/-! ### WAL region -/

/-- **C20_wal_record** — one step of `scan_records`: a record whose payload does not hash to the
    checksum in its header stops the scan with `WalCorruption`, for every continuation. -/
theorem C20_wal_record (H : Bytes → Bytes) (file : Bytes) (off size fuel c : Nat) (acc : List Rec)
    (hfit : c + WAL_HDR ≤ size) (hin : off + c + WAL_HDR ≤ file.length)
    (hnot0 : ¬ (leVal (slice file (off + c) 8) = 0 ∧ leVal (slice file (off + c + 8) 4) = 0))
    (hlen : leVal (slice file (off + c + 8) 4) ≠ 0)
    (hreg : c + WAL_HDR + leVal (slice file (off + c + 8) 4) ≤ size)
    (hfile : off + c + WAL_HDR + leVal (slice file (off + c + 8) 4) ≤ file.length)
    (hbad : H (slice file (off + c + WAL_HDR) (leVal (slice file (off + c + 8) 4))) ≠ slice file (off + c + 16) 32) :
    walScanFrom H file off size (fuel + 1) c acc = .error .wal := by
  rw [walScanFrom]
  have h1 : ¬ (off + c + WAL_HDR > file.length) := by omega
  have h2 : ¬ (leVal (slice file (off + c + 8) 4) = 0 ∨ c + WAL_HDR + leVal (slice file (off + c + 8) 4) > size) := by
    omega
  have h3 : ¬ (off + c + WAL_HDR + leVal (slice file (off + c + 8) 4) > file.length) := by omega
  simp only [hfit, ↓reduceIte, h1, hnot0, h2, h3, hbad, ne_eq, not_false_eq_true]

/-- what a scan may serve: every record comes from some offset whose header carries the hash of
    exactly the payload returned (and the sequence number stored there — which no hash covers) -/
def Authentic (H : Bytes → Bytes) (file : Bytes) (off : Nat) (r : Rec) : Prop :=
  ∃ c, r.payload = slice file (off + c + WAL_HDR) (leVal (slice file (off + c + 8) 4)) ∧
       H r.payload = slice file (off + c + 16) 32 ∧ r.seq = leVal (slice file (off + c) 8)

theorem walScanFrom_authentic (H : Bytes → Bytes) (file : Bytes) (off size : Nat) :
    ∀ (fuel c : Nat) (acc rs : List Rec), (∀ r ∈ acc, Authentic H file off r) →
      walScanFrom H file off size fuel c acc = .ok rs → ∀ r ∈ rs, Authentic H file off r := by
  intro fuel
  induction fuel with
  | zero =>
    intro c acc rs hacc h
    simp only [walScanFrom, Except.ok.injEq] at h
    subst h
    intro r hr
    exact hacc r (List.mem_reverse.mp hr)
  | succ n ih =>
    intro c acc rs hacc h
    rw [walScanFrom] at h
    by_cases h0 : c + WAL_HDR ≤ size
    · simp only [h0, ↓reduceIte] at h
      by_cases h1 : off + c + WAL_HDR > file.length
      · simp [h1] at h
      · simp only [h1, ↓reduceIte] at h
        by_cases h2 : leVal (slice file (off + c) 8) = 0 ∧ leVal (slice file (off + c + 8) 4) = 0
        · simp only [h2, and_self, ↓reduceIte, Except.ok.injEq] at h
          subst h
          intro r hr
          exact hacc r (List.mem_reverse.mp hr)
        · simp only [h2, ↓reduceIte] at h
          by_cases h3 : leVal (slice file (off + c + 8) 4) = 0 ∨ c + WAL_HDR + leVal (slice file (off + c + 8) 4) > size
          · simp [h3] at h
          · simp only [h3, ↓reduceIte] at h
            by_cases h4 : off + c + WAL_HDR + leVal (slice file (off + c + 8) 4) > file.length
            · simp [h4] at h
            · simp only [h4, ↓reduceIte] at h
              by_cases h5 : H (slice file (off + c + WAL_HDR) (leVal (slice file (off + c + 8) 4))) = slice file (off + c + 16) 32
              · simp only [h5, ne_eq, not_true_eq_false, ↓reduceIte] at h
                refine ih _ _ rs ?_ h
                intro r hr
                rcases List.mem_cons.mp hr with rfl | hr
                · exact ⟨c, rfl, h5, rfl⟩
                · exact hacc r hr
              · simp [h5] at h
    · simp only [h0, ↓reduceIte, Except.ok.injEq] at h
      subst h
      intro r hr
      exact hacc r (List.mem_reverse.mp hr)

/-- **C20_wal_authentic** — a scan that succeeds serves only records whose payload hashes to the
    checksum stored in front of it: a damaged payload is never replayed (up to a collision between
    the damaged payload and the stored checksum). -/
theorem C20_wal_authentic (H : Bytes → Bytes) (file : Bytes) (hdr : Header.Header) (rs : List Rec)
    (h : walScan H file hdr = .ok rs) : ∀ r ∈ rs, Authentic H file hdr.walOffset r :=
  walScanFrom_authentic H file hdr.walOffset hdr.walSize _ 0 [] rs (by simp) h

/-- a 52-byte WAL region holding one applied record (sequence 1, payload `[7,7,7,7]`, toy hash) -/
def toyWal (seq : UInt8) : Bytes :=
  [seq, 0, 0, 0, 0, 0, 0, 0] ++ [4, 0, 0, 0] ++ [0, 0, 0, 0] ++ (sumH [7, 7, 7, 7] ++ zeros 31) ++ [7, 7, 7, 7]

def toyH32 (b : Bytes) : Bytes := sumH b ++ zeros 31

def walHdr : Header.Header := { toyHdr with walOffset := 0, walSize := 52, walSequence := 1 }

/-- **C20_wal_seq_counterexample** — the sequence number of a record is not covered by the record
    hash: flipping one bit of it (1 → 3) in an already applied record makes the scan succeed and the
    record *pending* again, so a writable open replays it (a duplicate frame), silently. -/
theorem C20_wal_seq_counterexample :
    (walScan toyH32 (toyWal 1) walHdr).map (pending walHdr) = .ok [] ∧
    (walScan toyH32 (toyWal 3) walHdr).map (pending walHdr) = .ok [{ seq := 3, payload := [7, 7, 7, 7] }] := by
  decide

/-! ### TOC and footer -/

theorem roToc_ok (C : Codecs) (file : Bytes) (s : Footer.FooterSlice) (t : MToc) (h : roToc C file = .ok (s, t)) :
    C.findFooter file = some s ∧ C.decodeToc s.tocBytes = some t ∧ t.checksumOk = true := by
  unfold roToc at h
  cases hf : C.findFooter file with
  | none => simp [hf] at h
  | some s' =>
    simp only [hf] at h
    cases hd : C.decodeToc s'.tocBytes with
    | none => simp [hd] at h
    | some t' =>
      simp only [hd] at h
      by_cases hc : t'.checksumOk = true
      · simp only [hc, ↓reduceIte, Except.ok.injEq, Prod.mk.injEq] at h
        obtain ⟨rfl, rfl⟩ := h
        exact ⟨rfl, hd, hc⟩
      · simp [hc] at h

/-- the handle of a successful read-only open: its TOC, data end, file and header offset -/
theorem openRO_ok (C : Codecs) (k : Checks) (file : Bytes) (h : Handle) (hopen : openRO C k file = .ok h) :
    ∃ s, roToc C file = .ok (s, h.toc) ∧ h.dataEnd = s.footerOffset ∧ h.file = file ∧
         h.hdr.footerOffset = s.footerOffset := by
  unfold openRO at hopen
  cases hro : roToc C file with
  | error e => simp [hro] at hopen
  | ok r =>
    obtain ⟨s, toc⟩ := r
    simp only [hro] at hopen
    cases hh : readHeader file with
    | error e => simp [hh] at hopen
    | ok hdr0 =>
      simp only [hh] at hopen
      cases hw : walScan C.H file { hdr0 with footerOffset := s.footerOffset } with
      | error e => simp [hw] at hopen
      | ok recs =>
        simp only [hw] at hopen
        cases hl : loadAll C k file toc with
        | error e => simp [hl] at hopen
        | ok ix =>
          simp only [hl, Except.ok.injEq] at hopen
          subst hopen
          exact ⟨s, rfl, rfl, rfl, rfl⟩

/-- **C20_ro_authentic** — whatever a read-only open serves was vouched for twice: the TOC bytes are
    the ones the footer finder returned (C31: a footer whose hash matches them) and the decoded TOC
    passes its own checksum. -/
theorem C20_ro_authentic (C : Codecs) (k : Checks) (file : Bytes) (h : Handle) (hopen : openRO C k file = .ok h) :
    ∃ s, C.findFooter file = some s ∧ C.decodeToc s.tocBytes = some h.toc ∧ h.toc.checksumOk = true ∧
         h.dataEnd = s.footerOffset := by
  obtain ⟨s, hro, hde, _, _⟩ := openRO_ok C k file h hopen
  obtain ⟨h1, h2, h3⟩ := roToc_ok C file s h.toc hro
  exact ⟨s, h1, h2, h3, hde⟩

/-- **C20_toc_footer_ro** — corruption confined to the TOC bytes or to the footer's hash field.
    `P` is the offset of the committed footer; the corrupted file still carries the same `toc_len`
    at `P+8`, the TOC range holds `toc'` and the hash field holds `hf'`.  If `H toc' ≠ hf'` (which is
    the collision premise: one of the two was changed) and no OTHER offset of the corrupted file
    holds a valid footer (a stale commit), a read-only open — and therefore `verify` — fails. -/
theorem C20_toc_footer_ro (C : Codecs) (k : Checks) (file' : Bytes) (P : Nat)
    (hsound : ∀ s, C.findFooter file' = some s → Footer.ValidAt C.H file' s.footerOffset)
    (hbad : C.H (slice file' (P - leVal (slice file' (P + 8) 8)) (leVal (slice file' (P + 8) 8)))
              ≠ slice file' (P + 16) 32)
    (hother : ∀ p, p ≠ P → ¬ Footer.ValidAt C.H file' p) :
    openRO C k file' = .error .toc ∧ verify C k file' = .error .toc := by
  have hnone : C.findFooter file' = none := by
    cases hf : C.findFooter file' with
    | none => rfl
    | some s =>
      exfalso
      have hv := hsound s hf
      by_cases hp : s.footerOffset = P
      · rw [hp] at hv
        exact hbad hv.2.2.2.2
      · exact hother _ hp hv
  have h1 : openRO C k file' = .error .toc := by
    unfold openRO roToc
    simp [hnone]
  exact ⟨h1, by unfold verify; simp [h1]⟩

/-- the premises of `C20_toc_footer_ro` on a concrete image (3 TOC bytes, one of them flipped) -/
example : let file' := [9, 9] ++ [1, 2, 2] ++ Footer.encode { tocLen := 3, tocHash := Footer.toyH [1, 2, 3], generation := 7 }
    Footer.toyH (slice file' (5 - leVal (slice file' (5 + 8) 8)) (leVal (slice file' (5 + 8) 8))) ≠ slice file' (5 + 16) 32 ∧
    Footer.findLast Footer.toyH file' = none := by
  decide

/-- **C20_rw_final** — a writable open succeeds only with a TOC that passes its own checksum, or
    after `align_footer_with_catalog` rewrote TOC and footer, or after pending WAL records were
    replayed (the two paths that recompute the checksum before the deferred check). -/
theorem C20_rw_final (C : Codecs) (k : Checks) (file : Bytes) (h : Handle) (hopen : openRW C k file = .ok h) :
    ∃ hdr v recs, rwToc C file = .ok (hdr, h.toc, v) ∧ walScan C.H file hdr = .ok recs ∧
      (h.toc.checksumOk = true ∨ realigns h.toc file.length hdr.footerOffset = true ∨ pending hdr recs ≠ []) := by
  unfold openRW at hopen
  cases hrw : rwToc C file with
  | error e => simp [hrw] at hopen
  | ok r =>
    obtain ⟨hdr, toc, vouched⟩ := r
    simp only [hrw] at hopen
    by_cases hov : nonOverlapping toc.frames file.length = true
    · simp only [hov, Bool.not_true, Bool.false_eq_true, ↓reduceIte] at hopen
      cases hscan : walScan C.H file hdr with
      | error e => simp [hscan] at hopen
      | ok recs =>
        simp only [hscan] at hopen
        by_cases hwe : ((pending hdr recs).map (fun r => C.walEntry r.payload)).any (·.isNone) = true
        · simp [hwe] at hopen
        · simp only [hwe, Bool.false_eq_true, ↓reduceIte] at hopen
          by_cases hfin : finalTocOk toc (realigns toc file.length hdr.footerOffset) (pending hdr recs).isEmpty = true
          · simp only [hfin, Bool.not_true, Bool.false_eq_true, ↓reduceIte] at hopen
            cases hl : loadAll C k file toc with
            | error e => simp [hl] at hopen
            | ok ix =>
              simp only [hl, Except.ok.injEq] at hopen
              subst hopen
              refine ⟨hdr, vouched, recs, rfl, hscan, ?_⟩
              simp only [finalTocOk, Bool.or_eq_true, Bool.not_eq_true'] at hfin
              rcases hfin with (h1 | h2) | h3
              · exact Or.inl h1
              · exact Or.inr (Or.inl h2)
              · right; right
                intro hp
                simp [hp] at h3
          · simp [hfin] at hopen
    · simp [hov] at hopen

/-- **C20_toc_rw** — writable open of a file whose TOC bytes were damaged: when the TOC that the
    recovery path digs up fails its own checksum, no Tantivy segment of it points past the TOC offset
    (no realignment) and nothing is pending in the WAL, the open fails. -/
theorem C20_toc_rw (C : Codecs) (k : Checks) (file : Bytes) (hdr : Header.Header) (toc : MToc) (v : Bool)
    (hrw : rwToc C file = .ok (hdr, toc, v)) (hck : toc.checksumOk = false)
    (hre : realigns toc file.length hdr.footerOffset = false)
    (hpend : ∀ recs, walScan C.H file hdr = .ok recs → pending hdr recs = []) :
    ∃ e, openRW C k file = .error e := by
  cases hopen : openRW C k file with
  | error e => exact ⟨e, rfl⟩
  | ok h =>
    exfalso
    obtain ⟨hdr', v', recs, h1, h2, h3⟩ := C20_rw_final C k file h hopen
    rw [hrw] at h1
    simp only [Except.ok.injEq, Prod.mk.injEq] at h1
    obtain ⟨rfl, rfl, rfl⟩ := h1
    rcases h3 with h3 | h3 | h3
    · rw [hck] at h3; cases h3
    · rw [hre] at h3; cases h3
    · exact h3 (hpend recs h2)

/-- **C20_toc_rw_counterexample_realigned** — the deferred checksum test is skipped after a
    realignment: a TOC that fails its checksum but lists a Tantivy segment ending past the TOC offset
    is accepted (`finalTocOk`), i.e. a flipped byte in that segment's offset/length is laundered by
    `align_footer_with_catalog` rewriting TOC and footer with fresh checksums. -/
theorem C20_toc_rw_counterexample_realigned :
    let toc : MToc := { frames := [], segs := [{ kind := .lex, off := 100, len := 300, checksum := [] }],
                        checksumOk := false, rest := [] }
    realigns toc 500 200 = true ∧ finalTocOk toc (realigns toc 500 200) true = true ∧
    finalTocOk toc false true = false := by
  decide

/-! ### header -/

/-- **C20_header_counterexample** — the header carries no checksum.  Lowering `wal_sequence` (1 → 0)
    turns an applied record into a pending one: the next writable open replays it. -/
theorem C20_header_counterexample :
    pending walHdr [{ seq := 1, payload := [7, 7, 7, 7] }] = [] ∧
    pending { walHdr with walSequence := 0 } [{ seq := 1, payload := [7, 7, 7, 7] }] ≠ [] := by
  decide

/-- the header fields a read-only open ignores cannot change what it serves: `footer_offset` and
    `toc_checksum` are overwritten from the footer before use (only `readHeader`'s verdict matters) -/
theorem C20_header_ro_ignores (C : Codecs) (k : Checks) (file : Bytes) (h : Handle)
    (hopen : openRO C k file = .ok h) : ∃ s, C.findFooter file = some s ∧ h.hdr.footerOffset = s.footerOffset := by
  obtain ⟨s, hro, _, _, hfo⟩ := openRO_ok C k file h hopen
  exact ⟨s, (roToc_ok C file s h.toc hro).1, hfo⟩

/-! ### index segments -/

/-- **C20_segment_checked** — a segment kind whose loader compares the stored checksum (memories
    track, logic mesh): bytes that do not hash to the manifest's checksum are never decoded. -/
theorem C20_segment_checked (C : Codecs) (k : Checks) (kind : SegKind) (parts : List (MSeg × Bytes))
    (hcmp : k.compared kind = true) (hsw : kind.swallowed = false)
    (p : MSeg × Bytes) (hp : p ∈ parts) (hbad : C.H p.2 ≠ p.1.checksum) :
    loadParts C k kind parts = .error .segChecksum := by
  have hany : parts.any (fun p => decide (C.H p.2 ≠ p.1.checksum)) = true :=
    List.any_eq_true.mpr ⟨p, hp, by simpa using hbad⟩
  unfold loadParts
  simp only [hcmp, hany, and_self, ↓reduceIte, hsw, Bool.false_eq_true]

/-- **C20_segment_unchecked_counterexample** — kinds whose checksum is stored but never compared
    (time index, sketch track, vector index, Tantivy segments): different bytes are decoded and
    served (`.ok`), or — vector / lexical index — a failure to decode silently yields an empty index. -/
theorem C20_segment_unchecked_counterexample :
    let t : MToc := { frames := [], segs := [{ kind := .time, off := 0, len := 2, checksum := sumH [1, 2] },
                                             { kind := .vec, off := 2, len := 2, checksum := sumH [3, 4] }],
                      checksumOk := true, rest := [] }
    let C : Codecs := { toyCodecs with view := fun kd b => if kd = .vec ∧ b ≠ [3, 4] then none else some b }
    loadKind C Checks.repaired [1, 2, 3, 4] t .time = .ok (.ok [1, 2]) ∧
    loadKind C Checks.repaired [1, 9, 3, 4] t .time = .ok (.ok [1, 9]) ∧
    loadKind C Checks.repaired [1, 2, 3, 4] t .vec = .ok (.ok [3, 4]) ∧
    loadKind C Checks.repaired [1, 2, 3, 5] t .vec = .ok .fallback := by
  decide

/-- **C20_segment_swallowed** — for the kinds whose load failure `init_tantivy` /
    `load_vec_index_from_manifest` swallow (lexical, vector), loading NEVER reports an error, whatever
    the comparison flags are: since `fix: 444fffb` `materialize_tantivy_segments` compares the catalog
    checksum, but the mismatch only makes `init_tantivy` fall back to an empty engine
    (`has_tantivy_segments` ⇒ no rebuild).  Damage of such a segment therefore cannot be *detected* by
    an open; it is either served (`.ok`) or silently replaced by the empty index (`.fallback`). -/
theorem C20_segment_swallowed (C : Codecs) (k : Checks) (kind : SegKind) (parts : List (MSeg × Bytes))
    (hsw : kind.swallowed = true) : ∀ e, loadParts C k kind parts ≠ .error e := by
  intro e
  unfold loadParts
  split
  · simp [hsw]
  · split <;> simp [hsw]

/-- **C20_segment_compared_swallowed_fallback** — compared *and* swallowed (the lexical index of the
    current tree): a part that does not hash to its catalog checksum yields exactly the silent
    fallback. -/
theorem C20_segment_compared_swallowed_fallback (C : Codecs) (k : Checks) (kind : SegKind)
    (parts : List (MSeg × Bytes)) (hcmp : k.compared kind = true) (hsw : kind.swallowed = true)
    (p : MSeg × Bytes) (hp : p ∈ parts) (hbad : C.H p.2 ≠ p.1.checksum) :
    loadParts C k kind parts = .ok .fallback := by
  have hany : parts.any (fun p => decide (C.H p.2 ≠ p.1.checksum)) = true :=
    List.any_eq_true.mpr ⟨p, hp, by simpa using hbad⟩
  unfold loadParts
  simp only [hcmp, hany, and_self, ↓reduceIte, hsw]

/-- non-vacuity: with the flags generated from the source, a damaged Tantivy part falls back -/
example :
    let t : MToc := { frames := [], segs := [{ kind := .lex, off := 0, len := 2, checksum := sumH [1, 2] }],
                      checksumOk := true, rest := [] }
    loadKind toyCodecs { Checks.repaired with lex := true } [1, 2] t .lex = .ok (.ok [1, 2]) ∧
    loadKind toyCodecs { Checks.repaired with lex := true } [1, 9] t .lex = .ok .fallback := by
  decide

/-! ### verify(deep) -/

/-- **C20_verify** (repaired `verify`: payload pass + segment checksum pass).  `Passed` implies: the
    TOC was vouched for by a footer hash and its own checksum, no WAL record is pending, every active
    frame's stored bytes are readable and hash to the frame's checksum, every embedded segment hashes
    to its manifest's checksum.  Hence, up to hash collisions, no damaged payload or segment passes. -/
theorem C20_verify (C : Codecs) (k : Checks) (hk1 : k.verifyPayload = true) (hk2 : k.verifySegments = true)
    (hk3 : k.payload = true) (file : Bytes) (hv : verify C k file = .ok .passed) :
    ∃ h, openRO C k file = .ok h ∧
      (∃ s, C.findFooter file = some s ∧ C.decodeToc s.tocBytes = some h.toc ∧ h.toc.checksumOk = true) ∧
      (∀ rs, walScan C.H file h.hdr = .ok rs → pending h.hdr rs = []) ∧
      (∀ f ∈ h.toc.frames, f.active = true → f.len > 0 → slice file f.off f.len ≠ [] →
          boundsOk h f = true ∧ C.H (slice file f.off f.len) = f.checksum) ∧
      (∀ s ∈ h.toc.segs, s.len > 0 → ∃ b, readRange file s.off s.len = some b ∧ C.H b = s.checksum) := by
  unfold verify at hv
  cases hopen : openRO C k file with
  | error e => simp [hopen] at hv
  | ok h =>
    simp only [hopen, Except.ok.injEq] at hv
    have hfile : h.file = file := by
      obtain ⟨_, _, _, hf, _⟩ := openRO_ok C k file h hopen
      exact hf
    obtain ⟨s, hs1, hs2, hs3, _⟩ := C20_ro_authentic C k file h hopen
    have hc : (timeOk C k h && walOk C file h && (!k.verifyPayload || payloadOk C k h) &&
               (!k.verifySegments || segOk C file h)) = true := by
      by_cases hc : (timeOk C k h && walOk C file h && (!k.verifyPayload || payloadOk C k h) &&
               (!k.verifySegments || segOk C file h)) = true
      · exact hc
      · simp only [verifyChecks, hc, Bool.false_eq_true, ↓reduceIte] at hv
        cases hv
    simp only [hk1, hk2, Bool.not_true, Bool.false_or, Bool.and_eq_true] at hc
    obtain ⟨⟨⟨_, hwal⟩, hpay⟩, hseg⟩ := hc
    refine ⟨h, rfl, ⟨s, hs1, hs2, hs3⟩, ?_, ?_, ?_⟩
    · intro rs hrs
      unfold walOk at hwal
      rw [hrs] at hwal
      simpa using hwal
    · intro f hf hact hlen hne
      unfold payloadOk at hpay
      rw [List.all_eq_true] at hpay
      have := hpay f (by simp [List.mem_filter, hf, hact, hlen])
      unfold readRaw at this
      by_cases hb : boundsOk h f = true
      · refine ⟨hb, ?_⟩
        simp only [hb, Bool.not_true, Bool.false_eq_true, ↓reduceIte, hk3, true_and, hfile] at this
        by_cases hx : C.H (slice file f.off f.len) = f.checksum
        · exact hx
        · simp [hne, hx, Except.toOption] at this
      · simp [hb, Except.toOption] at this
    · intro sg hsg hlen
      unfold segOk at hseg
      rw [List.all_eq_true] at hseg
      have := hseg sg (by simp [List.mem_filter, hsg, hlen])
      cases hr : readRange file sg.off sg.len with
      | none => simp [hr] at this
      | some b => exact ⟨b, rfl, by simpa [hr] using this⟩

/-- **C20_verify_counterexample_unfixed** — before the repair `verify(deep)` has no payload pass and
    compares no segment checksum: a handle whose Plain payload was flipped still yields `Passed`. -/
theorem C20_verify_counterexample_unfixed :
    verifyChecks toyCodecs Checks.unrepaired [0, 0, 1, 2, 2, 4, 0, 0] (toyHandle [0, 0, 1, 2, 2, 4, 0, 0]) = .passed ∧
    verifyChecks toyCodecs Checks.repaired [0, 0, 1, 2, 2, 4, 0, 0] (toyHandle [0, 0, 1, 2, 2, 4, 0, 0]) = .failed ∧
    verifyChecks toyCodecs Checks.repaired [0, 0, 1, 2, 3, 4, 0, 0] (toyHandle [0, 0, 1, 2, 3, 4, 0, 0]) = .passed := by
  decide

/-! ### the full statement -/

/-- C20, first sentence, at full strength for the writable open of the repaired code: for ANY two
    files of the same length (in particular: one region damaged), with a collision-free hash, opening
    the second either fails or yields the same frame count, the same frame metadata, and payload reads
    that agree or fail. -/
def C20_full : Prop :=
  ∀ (C : Codecs) (file file' : Bytes) (h : Handle),
    (∀ a b, C.H a = C.H b → a = b) → file'.length = file.length →
    openRW C Checks.repaired file = .ok h →
    (∃ e, openRW C Checks.repaired file' = .error e) ∨
    (∃ h', openRW C Checks.repaired file' = .ok h' ∧
      (readAll C Checks.repaired h').count = (readAll C Checks.repaired h).count ∧
      (readAll C Checks.repaired h').metas = (readAll C Checks.repaired h).metas ∧
      ∀ i, framePayload C Checks.repaired h' i = framePayload C Checks.repaired h i ∨
           ∃ e, framePayload C Checks.repaired h' i = .error e)

/-- codecs of the witness: the identity as (injective) hash, a TOC decoder that accepts anything -/
def idCodecs : Codecs :=
  { H := fun b => b, findFooter := fun _ => none,
    decodeToc := fun _ => some { frames := [], segs := [], checksumOk := true, rest := [] },
    unzstd := fun b => some b, view := fun _ b => some b, walEntry := fun _ => some true, legacyToc := fun _ _ => none }

/-- a complete 4 384-byte file: header (wal_sequence = `walSeq`), a 128-byte WAL region holding one
    record with sequence 1, a 32-byte TOC and its footer -/
def cxFile (walSeq : Nat) : Bytes :=
  (Header.fieldBytes { magic := Header.MAGIC, version := Header.EXPECTED_VERSION, footerOffset := 4096 + 128,
                       walOffset := 4096, walSize := 128, walCheckpointPos := 0, walSequence := walSeq,
                       tocChecksum := zeros 32 } ++ zeros (4096 - 80)) ++
  (u64le 1 ++ u32le 32 ++ zeros 4 ++ List.replicate 32 7 ++ List.replicate 32 7 ++ zeros 48) ++ zeros 32 ++
  Footer.encode { tocLen := 32, tocHash := zeros 32, generation := 1 }

theorem cx_len : (cxFile 0).length = (cxFile 1).length := by decide +kernel

set_option maxRecDepth 100000 in
theorem cx_committed : (openRW idCodecs Checks.repaired (cxFile 1)).toOption.map
    (fun h => (readAll idCodecs Checks.repaired h).count) = some 0 := by decide +kernel

set_option maxRecDepth 100000 in
theorem cx_damaged : (openRW idCodecs Checks.repaired (cxFile 0)).toOption.map
    (fun h => (readAll idCodecs Checks.repaired h).count) = some 1 := by decide +kernel

/-- **C20_counterexample** — false even for the repaired code, by evaluation of the whole read path
    on a complete file image: one header field (`wal_sequence` 1 → 0, the header has no checksum)
    makes the writable open replay the applied WAL record — it succeeds with one frame more. -/
theorem C20_counterexample : ¬ C20_full := by
  intro hfull
  cases h1 : openRW idCodecs Checks.repaired (cxFile 1) with
  | error e => have := cx_committed; simp [h1, Except.toOption] at this
  | ok h =>
    have c1 : (readAll idCodecs Checks.repaired h).count = 0 := by
      have := cx_committed; simpa [h1, Except.toOption] using this
    cases h2 : openRW idCodecs Checks.repaired (cxFile 0) with
    | error e => have := cx_damaged; simp [h2, Except.toOption] at this
    | ok h' =>
      have c2 : (readAll idCodecs Checks.repaired h').count = 1 := by
        have := cx_damaged; simpa [h2, Except.toOption] using this
      rcases hfull idCodecs (cxFile 1) (cxFile 0) h (fun _ _ hab => hab) cx_len h1 with ⟨e, he⟩ | ⟨h'', h3, hc, _⟩
      · rw [h2] at he; cases he
      · rw [h2] at h3
        simp only [Except.ok.injEq] at h3
        subst h3
        omega

/-! ### the tie to the source -/

/-- **C20_source_performs_checks** — the comparisons the theorems above rely on are present in the
    source tree the model data was generated from (tools/gen/C20.py → MvModel/Gen/C20.lean): the payload
    checksum in `read_frame_payload_bytes`, the two passes of `verify(deep)`, the memories-track and
    logic-mesh checksums, the WAL record hash.  Fails to elaborate on a tree without them. -/
theorem C20_source_performs_checks :
    Checks.ofSource.payload = true ∧ Checks.ofSource.verifyPayload = true ∧ Checks.ofSource.verifySegments = true ∧
    Checks.ofSource.memories = true ∧ Checks.ofSource.mesh = true ∧ Mv.Gen.C20.WAL_PAYLOAD_COMPARED = true := by
  decide

/-- `C20_payload` and `C20_verify` for the source tree itself -/
theorem C20_payload_source (C : Codecs) (h h' : Handle) (f : MFrame)
    (hhdr : h'.hdr = h.hdr) (hend : h'.dataEnd = h.dataEnd) (hlen : h'.file.length = h.file.length)
    (hcommit : C.H (slice h.file f.off f.len) = f.checksum)
    (hcol : C.H (slice h'.file f.off f.len) = C.H (slice h.file f.off f.len) →
            slice h'.file f.off f.len = slice h.file f.off f.len) :
    readOne C Checks.ofSource h' f = readOne C Checks.ofSource h f ∨ ∃ e, readOne C Checks.ofSource h' f = .error e :=
  C20_payload C Checks.ofSource C20_source_performs_checks.1 h h' f hhdr hend hlen hcommit hcol

end Mv.Integrity
