/-
  C26Closure — only `put_internal` creates derived data, and under the repaired id policy every id
  held by derived data is the id of a put's document (never dangling, never a chunk).

  `Mem.HasDer m x`: some memory card, enrichment record or enrichment-queue entry of the handle — in
  memory (`cards`, `enrRecs`, `queue`) or in what was last persisted (`pCards`, `pQueue`) — names `x`.

    * `C26_only_puts_add`       an operation other than put/update: every id named afterwards was named before
                                (commit, reopen, crash recovery, vacuum, doctor, batches, tickets, delete only
                                move derived data between memory and disk, or lose it).
    * `C26_put_adds_only_its_id`  put/update: the only new id is the policy's id.
    * `C26_derived_name_documents`  policy `frameId`, every history: every id named is a valid frame id of the
                                reference state whose frame is a put's document (chunk_index = none).
    * `C26_walSeq_dangling`     policy `walSeq` (the code as it was): after one put the card names id 1 while the
                                reference state has the single frame 0.
-/
import MvProps.C26
namespace Mv.Core

/-- `x` is named by some derived datum of the handle, in memory or persisted -/
def Mem.HasDer (m : Mem) (x : Nat) : Prop :=
  x ∈ m.cards ∨ x ∈ m.enrRecs ∨ x ∈ m.queue ∨ x ∈ m.pQueue ∨ ∃ c, m.pCards = some c ∧ (x ∈ c.1 ∨ x ∈ c.2)

theorem HasDer.ofCards {m : Mem} {x : Nat} (h : x ∈ m.cards) : m.HasDer x := Or.inl h
theorem HasDer.ofRecs {m : Mem} {x : Nat} (h : x ∈ m.enrRecs) : m.HasDer x := Or.inr (Or.inl h)
theorem HasDer.ofQueue {m : Mem} {x : Nat} (h : x ∈ m.queue) : m.HasDer x := Or.inr (Or.inr (Or.inl h))
theorem HasDer.ofPQueue {m : Mem} {x : Nat} (h : x ∈ m.pQueue) : m.HasDer x := Or.inr (Or.inr (Or.inr (Or.inl h)))
theorem HasDer.ofPCards {m : Mem} {x : Nat} {c : List Nat × List Nat} (hc : m.pCards = some c) (h : x ∈ c.1 ∨ x ∈ c.2) :
    m.HasDer x := Or.inr (Or.inr (Or.inr (Or.inr ⟨c, hc, h⟩)))

/-- every id named by `m'` is named by `m` -/
def DerSub (m' m : Mem) : Prop := ∀ x, m'.HasDer x → m.HasDer x

theorem DerSub.refl (m : Mem) : DerSub m m := fun _ h => h
theorem DerSub.trans {a b c : Mem} (h1 : DerSub a b) (h2 : DerSub b c) : DerSub a c := fun x h => h2 x (h1 x h)

theorem DerSub.of_fields {m' m : Mem}
    (hc : ∀ x ∈ m'.cards, m.HasDer x) (hr : ∀ x ∈ m'.enrRecs, m.HasDer x) (hq : ∀ x ∈ m'.queue, m.HasDer x)
    (hpq : ∀ x ∈ m'.pQueue, m.HasDer x)
    (hpc : ∀ c, m'.pCards = some c → ∀ x, (x ∈ c.1 ∨ x ∈ c.2) → m.HasDer x) : DerSub m' m := by
  intro x h
  rcases h with h | h | h | h | ⟨c, hc', h⟩
  · exact hc x h
  · exact hr x h
  · exact hq x h
  · exact hpq x h
  · exact hpc c hc' x h

/-- the five derived-data fields are equal -/
structure SameAll (m' m : Mem) : Prop where
  cards : m'.cards = m.cards
  recs : m'.enrRecs = m.enrRecs
  queue : m'.queue = m.queue
  pQueue : m'.pQueue = m.pQueue
  pCards : m'.pCards = m.pCards

theorem SameAll.sub {m' m : Mem} (h : SameAll m' m) : DerSub m' m := by
  intro x hx
  unfold Mem.HasDer at hx ⊢
  rw [h.cards, h.recs, h.queue, h.pQueue, h.pCards] at hx
  exact hx

theorem SameAll.refl (m : Mem) : SameAll m m := ⟨rfl, rfl, rfl, rfl, rfl⟩

/-! ## building blocks -/

theorem persistToc_sub (m : Mem) : DerSub m.persistToc m :=
  DerSub.of_fields (fun _ h => HasDer.ofCards h) (fun _ h => HasDer.ofRecs h) (fun _ h => HasDer.ofQueue h)
    (fun _ h => HasDer.ofQueue h) (fun _ hc _ h => HasDer.ofPCards hc h)

theorem flushTantivy_sub (m : Mem) (ft : Nat) : DerSub (m.flushTantivy ft) m := by
  unfold Mem.flushTantivy
  split
  · exact DerSub.refl m
  · split
    · exact DerSub.trans (persistToc_sub _) (SameAll.sub ⟨rfl, rfl, rfl, rfl, rfl⟩)
    · exact SameAll.sub ⟨rfl, rfl, rfl, rfl, rfl⟩

theorem setWalSize_sub (m : Mem) (ws : Nat) : DerSub (m.setWalSize ws) m := by
  unfold Mem.setWalSize
  split
  · exact DerSub.refl m
  · exact DerSub.trans (persistToc_sub _) (SameAll.sub ⟨rfl, rfl, rfl, rfl, rfl⟩)

theorem rebuildLex_sub (m : Mem) (ins : List Nat) (ft : Nat) : DerSub (m.rebuildLex ins ft) m := by
  unfold Mem.rebuildLex
  split
  · exact DerSub.trans (flushTantivy_sub _ ft) (SameAll.sub ⟨rfl, rfl, rfl, rfl, rfl⟩)
  · exact DerSub.refl m

theorem rebuildVec_sub (m : Mem) (embs : List VecEnt) : DerSub (m.rebuildVec embs) m := by
  unfold Mem.rebuildVec
  split <;> exact SameAll.sub ⟨rfl, rfl, rfl, rfl, rfl⟩

/-- writing the memories track: `pCards` becomes (a copy of) the in-memory track, or nothing -/
theorem writeTrack_sub (m3 : Mem) (ft : Nat) :
    DerSub ({ m3 with pCards := if m3.cards.isEmpty then none else some (m3.cards, m3.enrRecs)
                      footer := max m3.footer ft } : Mem) m3 := by
  refine DerSub.of_fields (fun _ h => HasDer.ofCards h) (fun _ h => HasDer.ofRecs h) (fun _ h => HasDer.ofQueue h)
    (fun _ h => HasDer.ofPQueue h) ?_
  intro c hc x hx
  have hc' : (if m3.cards.isEmpty then none else some (m3.cards, m3.enrRecs)) = some c := hc
  split at hc'
  · cases hc'
  · cases hc'
    rcases hx with hx | hx
    · exact HasDer.ofCards hx
    · exact HasDer.ofRecs hx

theorem rebuildIndexes_sub (m : Mem) (embs : List VecEnt) (ins : List Nat) (ft : Nat) :
    DerSub (m.rebuildIndexes embs ins ft) m := by
  unfold Mem.rebuildIndexes
  split
  · exact DerSub.refl m
  · apply DerSub.trans (persistToc_sub _)
    apply DerSub.trans (writeTrack_sub _ ft)
    exact DerSub.trans (rebuildVec_sub _ _) (DerSub.trans (rebuildLex_sub _ _ _) (SameAll.sub ⟨rfl, rfl, rfl, rfl, rfl⟩))

theorem checkpoint_sub (m : Mem) : DerSub m.checkpoint m :=
  DerSub.trans (persistToc_sub _) (SameAll.sub ⟨rfl, rfl, rfl, rfl, rfl⟩)

theorem applyRecords_all (m : Mem) (recs : List (Nat × Entry)) (eng : Bool) (m1 : Mem) (δ : Delta)
    (h : applyRecords m recs eng = some (m1, δ)) : SameAll m1 m := by
  unfold applyRecords at h
  split at h
  · cases h; exact SameAll.refl m
  · dsimp only at h
    split at h
    · cases h
    · cases h; exact ⟨rfl, rfl, rfl, rfl, rfl⟩

/-- `persist_memories_track` without a rebuild: the persisted track is replaced only by the in-memory one -/
theorem keepTrack_sub (m1 : Mem) (ft : Nat) :
    DerSub ({ m1 with pCards := if m1.cards.isEmpty then m1.pCards else some (m1.cards, m1.enrRecs)
                      footer := max m1.footer ft } : Mem) m1 := by
  refine DerSub.of_fields (fun _ h => HasDer.ofCards h) (fun _ h => HasDer.ofRecs h) (fun _ h => HasDer.ofQueue h)
    (fun _ h => HasDer.ofPQueue h) ?_
  intro c hc x hx
  have hc' : (if m1.cards.isEmpty then m1.pCards else some (m1.cards, m1.enrRecs)) = some c := hc
  split at hc'
  · exact HasDer.ofPCards hc' hx
  · cases hc'
    rcases hx with hx | hx
    · exact HasDer.ofCards hx
    · exact HasDer.ofRecs hx

theorem commitFromRecords_sub (m : Mem) (ft : Nat) (m' : Mem) (h : m.commitFromRecords ft = some m') :
    DerSub m' m := by
  unfold Mem.commitFromRecords at h
  split at h
  · cases h
  · rename_i m1 δ h1
    have hd := (applyRecords_all m m.pending true m1 δ h1).sub
    cases h
    refine DerSub.trans ?_ hd
    split
    · exact DerSub.trans (b := (m1.rebuildIndexes δ.embs δ.inserted ft).checkpoint) (SameAll.sub ⟨rfl, rfl, rfl, rfl, rfl⟩)
        (DerSub.trans (checkpoint_sub _) (rebuildIndexes_sub _ _ _ _))
    · refine DerSub.trans (b := ({ m1.flushTantivy ft with
          pCards := if (m1.flushTantivy ft).cards.isEmpty then (m1.flushTantivy ft).pCards
                    else some ((m1.flushTantivy ft).cards, (m1.flushTantivy ft).enrRecs)
          footer := max (m1.flushTantivy ft).footer ft } : Mem).checkpoint) (SameAll.sub ⟨rfl, rfl, rfl, rfl, rfl⟩) ?_
      exact DerSub.trans (checkpoint_sub _) (DerSub.trans (keepTrack_sub _ ft) (flushTantivy_sub m1 ft))

theorem commit_sub (m : Mem) (ft : Nat) : DerSub (m.commit ft).1 m := by
  unfold Mem.commit
  split
  · exact DerSub.refl m
  · split
    · rename_i m' h
      exact commitFromRecords_sub m ft m' h
    · exact DerSub.refl m

theorem dropHandle_sub (m : Mem) (ft : Nat) : DerSub (m.dropHandle ft) m := by
  unfold Mem.dropHandle
  split
  · exact commit_sub m ft
  · exact DerSub.refl m

theorem autoCommit_sub (m : Mem) (t : Trace) : DerSub (m.autoCommit t) m := by
  unfold Mem.autoCommit
  split
  · exact commit_sub m t.ft
  · exact DerSub.refl m

theorem afterAppend_sub (m : Mem) (t : Trace) : DerSub (m.afterAppend t) m := by
  unfold Mem.afterAppend
  split
  · exact setWalSize_sub m t.ws
  · exact DerSub.trans (autoCommit_sub _ t) (setWalSize_sub m t.ws)

theorem foldEmbs_all (m : Mem) (embs : List VecEnt) : SameAll (m.foldEmbs embs) m := by
  unfold Mem.foldEmbs; split
  · exact SameAll.refl m
  · exact ⟨rfl, rfl, rfl, rfl, rfl⟩

theorem clearIndexManifests_sub (m : Mem) : DerSub m.clearIndexManifests m := by
  refine DerSub.of_fields (fun _ h => HasDer.ofCards h) (fun _ h => HasDer.ofRecs h) (fun _ h => HasDer.ofQueue h)
    (fun _ h => HasDer.ofPQueue h) ?_
  intro c hc
  cases hc

theorem commitSkip_sub (m : Mem) : DerSub m.commitSkipIndexes.1 m := by
  unfold Mem.commitSkipIndexes
  split
  · exact DerSub.refl m
  · split
    · exact SameAll.sub ⟨rfl, rfl, rfl, rfl, rfl⟩
    · rename_i m1 δ h1
      have hd := (applyRecords_all m m.pending false m1 δ h1).sub
      exact DerSub.trans (checkpoint_sub _) (DerSub.trans (clearIndexManifests_sub _)
        (DerSub.trans (foldEmbs_all m1 δ.embs).sub hd))

theorem fillSketches_sub (m : Mem) : DerSub m.fillSketches m := SameAll.sub ⟨rfl, rfl, rfl, rfl, rfl⟩

theorem finalizeIndexes_sub (m : Mem) (ft : Nat) : DerSub (m.finalizeIndexes ft).1 m :=
  DerSub.trans (fillSketches_sub _) (rebuildIndexes_sub m [] [] ft)

theorem delete_sub (m : Mem) (id : Nat) (t : Trace) : DerSub (m.delete id t).1 m := by
  unfold Mem.delete
  split
  · exact DerSub.refl m
  · split
    · exact DerSub.refl m
    · exact DerSub.trans (afterAppend_sub _ t) (SameAll.sub ⟨rfl, rfl, rfl, rfl, rfl⟩)

theorem openLoad_sub (m : Mem) : DerSub m.openLoad m :=
  DerSub.of_fields (fun _ h => by cases h) (fun _ h => by cases h) (fun _ h => HasDer.ofPQueue h)
    (fun _ h => HasDer.ofPQueue h) (fun _ hc _ h => HasDer.ofPCards hc h)

theorem persistSketch_sub (m : Mem) : DerSub m.persistSketch m := SameAll.sub ⟨rfl, rfl, rfl, rfl, rfl⟩

theorem bumpFooter_sub (m : Mem) (ft : Nat) : DerSub (m.bumpFooter ft) m := SameAll.sub ⟨rfl, rfl, rfl, rfl, rfl⟩

theorem enableVecForEmbs_sub (m : Mem) (embs : List VecEnt) : DerSub (m.enableVecForEmbs embs) m := by
  unfold Mem.enableVecForEmbs
  split
  · exact SameAll.sub ⟨rfl, rfl, rfl, rfl, rfl⟩
  · exact DerSub.refl m

theorem resetWal_sub (m : Mem) : DerSub m.resetWal m := SameAll.sub ⟨rfl, rfl, rfl, rfl, rfl⟩

theorem recoverWal_sub (m : Mem) (ft : Nat) : DerSub (m.recoverWal ft) m := by
  unfold Mem.recoverWal
  split
  · exact flushTantivy_sub m ft
  · split
    · exact DerSub.refl m
    · rename_i ma δ h1
      have hd := (applyRecords_all m m.pending true ma δ h1).sub
      have he := enableVecForEmbs_sub ma δ.embs
      refine DerSub.trans (checkpoint_sub _) (DerSub.trans (bumpFooter_sub _ ft) (DerSub.trans (persistSketch_sub _) ?_))
      split
      · exact DerSub.trans (rebuildIndexes_sub _ _ _ _) (DerSub.trans he hd)
      · exact DerSub.trans (flushTantivy_sub _ _) (DerSub.trans he hd)

theorem loadTracks_sub (m : Mem) : DerSub m.loadTracks m := by
  refine DerSub.of_fields ?_ ?_ (fun _ h => HasDer.ofQueue h) (fun _ h => HasDer.ofPQueue h)
    (fun _ hc _ h => HasDer.ofPCards hc h)
  · intro x hx
    have hx' : x ∈ (match m.pCards with | some c => c.1 | none => m.cards) := hx
    split at hx'
    · rename_i c hc; exact HasDer.ofPCards hc (Or.inl hx')
    · exact HasDer.ofCards hx'
  · intro x hx
    have hx' : x ∈ (match m.pCards with | some c => c.2 | none => m.enrRecs) := hx
    split at hx'
    · rename_i c hc; exact HasDer.ofPCards hc (Or.inr hx')
    · exact HasDer.ofRecs hx'

theorem openFrom_sub (m : Mem) (ft : Nat) : DerSub (m.openFrom ft) m :=
  DerSub.trans (recoverWal_sub _ ft) (DerSub.trans (loadTracks_sub _) (openLoad_sub m))

theorem reopen_sub (m : Mem) (a b : Nat) : DerSub (m.reopen a b).1 m :=
  DerSub.trans (openFrom_sub _ b) (dropHandle_sub m a)

theorem crash_sub (m : Mem) (ft : Nat) : DerSub (m.crash ft).1 m := by
  refine DerSub.trans (openFrom_sub _ ft) ?_
  exact DerSub.of_fields (fun _ h => HasDer.ofCards h) (fun _ h => HasDer.ofRecs h) (fun _ h => HasDer.ofPQueue h)
    (fun _ h => HasDer.ofPQueue h) (fun _ hc _ h => HasDer.ofPCards hc h)

theorem compactFrames_sub (m : Mem) : DerSub m.compactFrames m := SameAll.sub ⟨rfl, rfl, rfl, rfl, rfl⟩

theorem vacuum_sub (m : Mem) (a b : Nat) : DerSub (m.vacuum a b).1 m := by
  unfold Mem.vacuum
  split
  · exact DerSub.trans (checkpoint_sub _) (DerSub.trans (bumpFooter_sub _ b) (DerSub.trans (persistSketch_sub _)
      (DerSub.trans (rebuildIndexes_sub _ _ _ _) (DerSub.trans (compactFrames_sub _) (commit_sub m a)))))
  · exact commit_sub m a

theorem beginBatch_sub (m : Mem) (d : Bool) (ws : Nat) : DerSub (m.beginBatch d ws).1 m :=
  DerSub.trans (SameAll.sub ⟨rfl, rfl, rfl, rfl, rfl⟩) (setWalSize_sub m ws)

theorem applyTicket_sub (m : Mem) (s : Int) (c : Nat) (b f : Bool) : DerSub (m.applyTicket s c b f).1 m := by
  unfold Mem.applyTicket
  split
  · exact DerSub.refl m
  · exact DerSub.trans (persistToc_sub _) (SameAll.sub ⟨rfl, rfl, rfl, rfl, rfl⟩)

theorem doctorRebuild_sub (m : Mem) (rv : Bool) (ft : Nat) : DerSub (m.doctorRebuild rv ft) m := by
  unfold Mem.doctorRebuild
  refine DerSub.trans (b := Mem.rebuildIndexes _ [] [] ft) (SameAll.sub ⟨rfl, rfl, rfl, rfl, rfl⟩) ?_
  refine DerSub.trans (rebuildIndexes_sub _ _ _ _) ?_
  repeat' split
  all_goals first
    | exact DerSub.refl _
    | exact SameAll.sub ⟨rfl, rfl, rfl, rfl, rfl⟩

theorem doctor_sub (m : Mem) (v rt rl rv : Bool) (a b c d : Nat) : DerSub (m.doctor v rt rl rv a b c d).1 m := by
  have h1 : DerSub (m.doctorStage1 v a b c) m := by
    unfold Mem.doctorStage1
    split
    · exact DerSub.trans (vacuum_sub _ b c) (DerSub.trans (openFrom_sub _ b) (dropHandle_sub m a))
    · exact DerSub.trans (openFrom_sub _ b) (dropHandle_sub m a)
  have h2 : DerSub ((m.doctorStage1 v a b c).doctorStage2 (rt || rl || rv) rv c) m := by
    refine DerSub.trans ?_ h1
    unfold Mem.doctorStage2
    split
    · exact doctorRebuild_sub _ rv c
    · exact DerSub.refl _
  have hmain : DerSub (((((m.doctorStage1 v a b c).doctorStage2 (rt || rl || rv) rv c).resetWal).dropHandle c).openFrom d) m :=
    DerSub.trans (openFrom_sub _ d) (DerSub.trans (dropHandle_sub _ c) (DerSub.trans (resetWal_sub _) h2))
  exact hmain

/-! ## the closure theorems -/

/-- an operation that does not run `put_internal` names no id afterwards that was not named before -/
theorem C26_only_puts_add (m : Mem) (op : Op) (h : op.derives = none) : DerSub (step m op).1 m := by
  cases op with
  | put a t => simp [Op.derives] at h
  | update id u t => simp [Op.derives] at h
  | create =>
    intro x hx
    rcases hx with hx | hx | hx | hx | ⟨c, hc, _⟩
    · cases hx
    · cases hx
    · cases hx
    · cases hx
    · cases hc
  | delete id t => exact delete_sub m id t
  | commit ft => exact commit_sub m ft
  | reopen a b => exact reopen_sub m a b
  | crash ft => exact crash_sub m ft
  | beginBatch d ws => exact beginBatch_sub m d ws
  | endBatch => exact SameAll.sub ⟨rfl, rfl, rfl, rfl, rfl⟩
  | commitSkipIndexes => exact commitSkip_sub m
  | finalizeIndexes ft => exact finalizeIndexes_sub m ft
  | vacuum a b => exact vacuum_sub m a b
  | doctor v rt rl rv a b c d => exact doctor_sub m v rt rl rv a b c d
  | ticket s c b f => exact applyTicket_sub m s c b f

theorem stepG_only_puts_add (p : IdPolicy) (m : Mem) (op : Op) (h : op.derives = none) : DerSub (stepG p m op).1 m := by
  have hs : stepG p m op = step m op := by
    cases op <;> first | rfl | simp [Op.derives] at h
  rw [hs]
  exact C26_only_puts_add m op h

theorem enableVec_all (m : Mem) : SameAll m.enableVec m := by
  unfold Mem.enableVec; split
  · exact SameAll.refl m
  · exact ⟨rfl, rfl, rfl, rfl, rfl⟩

theorem noteDim_all (m : Mem) (d : Nat) : SameAll (m.noteDim d) m := by
  unfold Mem.noteDim; split
  · exact ⟨rfl, rfl, rfl, rfl, rfl⟩
  · exact SameAll.refl m

theorem loadVec_all (m : Mem) : SameAll m.loadVec m := by
  unfold Mem.loadVec; split
  · exact ⟨rfl, rfl, rfl, rfl, rfl⟩
  · exact SameAll.refl m

theorem putTailG_sub (p : IdPolicy) (m : Mem) (a : PutArgs) (sup reuse : Option Nat) (t : Trace) (x : Nat)
    (hx : (m.putTailG p a sup reuse t).1.HasDer x) : m.HasDer x ∨ x = p.id m := by
  revert hx
  unfold Mem.putTailG
  split
  · intro hx
    -- cards / records added at the end
    have hadd : ∀ (m0 : Mem), (m0.addCards a.nc (p.id m)).HasDer x → m0.HasDer x ∨ x = p.id m := by
      intro m0 h0
      obtain ⟨c1, c2, c3⟩ := addCards_adds m0 a.nc (p.id m)
      have hpq : (m0.addCards a.nc (p.id m)).pQueue = m0.pQueue := by unfold Mem.addCards; split <;> rfl
      have hpc : (m0.addCards a.nc (p.id m)).pCards = m0.pCards := by unfold Mem.addCards; split <;> rfl
      rcases h0 with h0 | h0 | h0 | h0 | ⟨c, hc, h0⟩
      · rw [c1] at h0
        rcases List.mem_append.mp h0 with h0 | h0
        · exact Or.inl (HasDer.ofCards h0)
        · exact Or.inr (List.eq_of_mem_replicate h0)
      · rcases (c3 x).mp h0 with h0 | ⟨_, h0⟩
        · exact Or.inl (HasDer.ofRecs h0)
        · exact Or.inr h0
      · rw [c2] at h0; exact Or.inl (HasDer.ofQueue h0)
      · rw [hpq] at h0; exact Or.inl (HasDer.ofPQueue h0)
      · rw [hpc] at hc; exact Or.inl (HasDer.ofPCards hc h0)
    rcases hadd _ hx with h1 | h1
    · have h2 := afterAppend_sub (m.appendPutG (p.id m) a sup reuse) t x h1
      -- the appends: only the queue may have grown, by the policy's id
      rcases h2 with h2 | h2 | h2 | h2 | ⟨c, hc, h2⟩
      · exact Or.inl (HasDer.ofCards h2)
      · exact Or.inl (HasDer.ofRecs h2)
      · have h3 : x ∈ (if a.q then m.queue ++ [p.id m] else m.queue) := h2
        split at h3
        · rcases List.mem_append.mp h3 with h3 | h3
          · exact Or.inl (HasDer.ofQueue h3)
          · exact Or.inr (by simpa using h3)
        · exact Or.inl (HasDer.ofQueue h3)
      · exact Or.inl (HasDer.ofPQueue h2)
      · exact Or.inl (HasDer.ofPCards hc h2)
    · exact Or.inr h1
  · rename_i hrej
    intro hx
    have hb : (m.putTail a sup reuse t).2.isAck = false := by
      cases hk : (m.putTail a sup reuse t).2.isAck
      · rfl
      · exact absurd hk hrej
    rw [putTail_rejected m a sup reuse t hb] at hx
    exact Or.inl hx

theorem putCoreG_sub (p : IdPolicy) (m : Mem) (a : PutArgs) (sup reuse : Option Nat) (t : Trace) (x : Nat)
    (hx : (m.putCoreG p a sup reuse t).1.HasDer x) : m.HasDer x ∨ x = p.id m := by
  revert hx
  unfold Mem.putCoreG
  split
  · intro hx; exact Or.inl hx
  · split
    · split
      · intro hx; exact Or.inl hx
      · split
        · intro hx; exact Or.inl ((enableVec_all m).sub x hx)
        · intro hx
          rcases putTailG_sub p _ a sup reuse t x hx with h | h
          · exact Or.inl ((enableVec_all m).sub x ((noteDim_all _ _).sub x h))
          · rw [id_noteDim, id_enableVec] at h; exact Or.inr h
    · intro hx; exact putTailG_sub p m a sup reuse t x hx

/-- put / update: the only id that may be newly named is the policy's id for this call -/
theorem C26_put_adds_only_its_id (p : IdPolicy) (m : Mem) (op : Op) (x : Nat)
    (hx : (stepG p m op).1.HasDer x) : m.HasDer x ∨ (op.derives.isSome ∧ x = p.id m) := by
  cases hd : op.derives with
  | none => exact Or.inl (stepG_only_puts_add p m op hd x hx)
  | some d =>
    cases op with
    | put a t =>
      rcases putCoreG_sub p m a none none t x hx with h | h
      · exact Or.inl h
      · exact Or.inr ⟨rfl, h⟩
    | update id u t =>
      have hx' : (m.updateG p id u t).1.HasDer x := hx
      revert hx'
      unfold Mem.updateG
      split
      · intro h; exact Or.inl h
      · split
        · intro h; exact Or.inl h
        · split
          · intro h; exact Or.inl h
          · split
            · intro h; exact Or.inl ((loadVec_all m).sub x h)
            · intro h
              rcases putCoreG_sub p _ _ _ _ t x h with h | h
              · exact Or.inl ((loadVec_all m).sub x h)
              · rw [id_loadVec] at h; exact Or.inr ⟨rfl, h⟩
    | _ => simp [Op.derives] at hd

theorem putTailG_rejected (p : IdPolicy) (m : Mem) (a : PutArgs) (sup reuse : Option Nat) (t : Trace)
    (h : (m.putTailG p a sup reuse t).2.isAck = false) : (m.putTailG p a sup reuse t).1 = m := by
  revert h
  unfold Mem.putTailG
  split
  · intro h; simp [Out.isAck] at h
  · intro h; exact putTail_rejected m a sup reuse t h

theorem putCoreG_rejected_sub (p : IdPolicy) (m : Mem) (a : PutArgs) (sup reuse : Option Nat) (t : Trace)
    (h : (m.putCoreG p a sup reuse t).2.isAck = false) : DerSub (m.putCoreG p a sup reuse t).1 m := by
  revert h
  unfold Mem.putCoreG
  split
  · intro _; exact DerSub.refl m
  · split
    · split
      · intro _; exact DerSub.refl m
      · split
        · intro _; exact (enableVec_all m).sub
        · intro h
          rw [putTailG_rejected p _ a sup reuse t h]
          exact DerSub.trans (noteDim_all _ _).sub (enableVec_all m).sub
    · intro h
      rw [putTailG_rejected p m a sup reuse t h]
      exact DerSub.refl m

theorem putG_rejected_sub (p : IdPolicy) (m : Mem) (a : PutArgs) (t : Trace)
    (h : (m.putG p a t).2.isAck = false) : DerSub (stepG p m (.put a t)).1 m :=
  putCoreG_rejected_sub p m a none none t h

theorem updateG_rejected_sub (p : IdPolicy) (m : Mem) (id : Nat) (u : UpdArgs) (t : Trace)
    (h : (m.updateG p id u t).2.isAck = false) : DerSub (stepG p m (.update id u t)).1 m := by
  show DerSub (m.updateG p id u t).1 m
  revert h
  unfold Mem.updateG
  split
  · intro _; exact DerSub.refl m
  · split
    · intro _; exact DerSub.refl m
    · split
      · intro _; exact DerSub.refl m
      · split
        · intro _; exact (loadVec_all m).sub
        · intro h
          exact DerSub.trans (putCoreG_rejected_sub p _ _ _ _ t h) (loadVec_all m).sub

/-- every id named by derived data is a valid frame id of the reference state, and the frame there is a
    put's document (documents have no chunk index; chunk frames do) -/
def DerivedNameDocuments (m : Mem) : Prop :=
  ∀ x, m.HasDer x → ∃ f, (abs m)[x]? = some f ∧ f.chunkIndex = none

theorem ident_chunkIndex {f g : SFrame} (h : f.ident = g.ident) : f.chunkIndex = g.chunkIndex :=
  congrArg Ident.chunkIndex h

/-- one step under the repaired policy preserves `DerivedNameDocuments` -/
theorem derivedNameDocuments_step (m : Mem) (op : Op) (hi : Inv m) (h : DerivedNameDocuments m) :
    DerivedNameDocuments (stepG .frameId m op).1 := by
  obtain ⟨_, hsim⟩ := stepG_sim .frameId m op hi
  by_cases hcreate : op = Op.create
  · subst hcreate
    intro x hx
    rcases hx with hx | hx | hx | hx | ⟨c, hc, _⟩
    · cases hx
    · cases hx
    · cases hx
    · cases hx
    · cases hc
  intro x hx
  -- existing ids keep their frame identity
  have keep : m.HasDer x → ∃ f, (abs (stepG .frameId m op).1)[x]? = some f ∧ f.chunkIndex = none := by
    intro hm
    obtain ⟨f, hf, hfc⟩ := h x hm
    have hlt : x < (abs m).length := (List.getElem?_eq_some_iff.mp hf).1
    rw [hsim]
    split
    · have hid := specStep_ident (abs m) op hcreate x hlt
      rw [hf] at hid
      cases hg : (specStep (abs m) op)[x]? with
      | none => rw [hg] at hid; simp at hid
      | some g =>
        rw [hg] at hid
        refine ⟨g, rfl, ?_⟩
        have : g.ident = f.ident := by simpa using hid
        rw [ident_chunkIndex this, hfc]
    · exact ⟨f, hf, hfc⟩
  rcases C26_put_adds_only_its_id .frameId m op x hx with hm | ⟨hder, hxid⟩
  · exact keep hm
  · -- the new id: the document this call adds (when acknowledged; a rejected call adds nothing)
    by_cases hack : (stepG .frameId m op).2.isAck = true
    · have hlen : x = (abs m).length := by rw [hxid, abs_length_next m hi]; rfl
      rw [hsim, if_pos hack, hlen]
      cases op with
      | put a t => exact ⟨_, specStep_doc (abs m) (.put a t) _ rfl, rfl⟩
      | update id u t =>
        obtain ⟨_, old, hold⟩ := updateG_derived .frameId m id u t hack
        obtain ⟨old', hS, _⟩ := abs_ident m id old hold
        have hdoc : specDocOf (abs m) (.update id u t)
            = some (specDoc (specInherit old' u) (abs m).length (some id) (specInherit old' u).content) := by
          simp only [specDocOf, hS, Option.map_some]
        exact ⟨_, specStep_doc (abs m) (.update id u t) _ hdoc, rfl⟩
      | _ => simp [Op.derives] at hder
    · -- rejected: the state's derived data is the old one
      have hrej : DerSub (stepG .frameId m op).1 m := by
        cases op with
        | put a t =>
          have hack' : (m.putG .frameId a t).2.isAck = false := by
            cases hb : (m.putG .frameId a t).2.isAck
            · rfl
            · exact absurd hb hack
          exact putG_rejected_sub .frameId m a t hack'
        | update id u t =>
          have hack' : (m.updateG .frameId id u t).2.isAck = false := by
            cases hb : (m.updateG .frameId id u t).2.isAck
            · rfl
            · exact absurd hb hack
          exact updateG_rejected_sub .frameId m id u t hack'
        | _ => simp [Op.derives] at hder
      exact keep (hrej x hx)

/-- MAIN CLOSURE THEOREM (repaired policy): at every point of every history, every memory card,
    enrichment record and queue entry — in memory or persisted — names a put's document -/
theorem C26_derived_name_documents (ops : List Op) : DerivedNameDocuments (runG .frameId Mem.create ops) := by
  have gen : ∀ (m : Mem), Inv m → DerivedNameDocuments m → DerivedNameDocuments (runG .frameId m ops) := by
    induction ops with
    | nil => intro m _ h; exact h
    | cons op ops ih =>
      intro m hi h
      exact ih _ (stepG_sim .frameId m op hi).1 (derivedNameDocuments_step m op hi h)
  refine gen Mem.create inv_create ?_
  intro x hx
  rcases hx with hx | hx | hx | hx | ⟨c, hc, _⟩
  · cases hx
  · cases hx
  · cases hx
  · cases hx
  · cases hc

/-- the code as it was: after a single put the card names frame 1; the memory has the single frame 0 -/
theorem C26_walSeq_dangling : ¬ DerivedNameDocuments (runG .walSeq Mem.create [wPut 100 "aa"]) := by
  intro h
  obtain ⟨f, hf, _⟩ := h 1 (HasDer.ofCards (by decide))
  have hlen : (abs (runG .walSeq Mem.create [wPut 100 "aa"])).length = 1 := by decide
  have hlt := (List.getElem?_eq_some_iff.mp hf).1
  omega

end Mv.Core
