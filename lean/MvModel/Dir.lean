/-
  C19 — single-file guarantee.  Model of the DIRECTORY that holds a memory: which entries every API step
  creates, renames and removes there, and when `create`/`open`/`doctor` refuse to run.

  A directory is a duplicate-free list of entry names (`Name = List Char`); every step of the API is
  reduced to the list of directory-level effects (`Eff`: creat / unlink / rename — what inotify or strace
  shows for the memory's directory) it performs, in order.  Everything the library writes *inside* the
  `.mv2` file (WAL appends, in-place TOC rewrites, vacuum, WAL growth …) has no directory effect and is
  not modelled here.  Sources mirrored:

    * `ensureSingleFile`  — src/memvid/lifecycle.rs `ensure_single_file`: the two suffix tables and the
                            two candidate formats are GENERATED (MvModel/Gen/C19.lean), scanned in source
                            order; the first existing candidate is reported.
    * `Op.create`         — `Memvid::create`: guard, `OpenOptions…create(true)` (the only place a
                            non-temporary entry is ever created), lock, header/WAL bootstrap.
    * `Op.open`           — `Memvid::open` / `open_read_only_with_options` / `try_open`: guard, open of an
                            EXISTING file (no O_CREAT), lock, recovery in place.
    * `runStage`          — src/memvid/mutation.rs `with_staging_lock` + `CommitStaging` on top of
                            atomic-write-file 0.3 (generic unix variant: the O_TMPFILE variant is behind a
                            cargo feature memvid does not enable, `Gen.unnamedTmpfile`): a NAMED sibling
                            `.<name>.<6 alphanumerics>` created with O_CREAT|O_EXCL (retry on EEXIST),
                            renamed over the target by `AtomicWriteFile::commit`, unlinked by
                            `discard()`/`Drop`.  `Stage` enumerates every exit of `with_staging_lock`:
                              early        `self.file.sync_all()?` / `CommitStaging::prepare(..)?` failed
                              mid          any `?` between prepare and `staging.commit()` (copy_from,
                                           clone_file, EmbeddedWal::open, the operation itself, sync_all):
                                           `staging.discard()` or the destructor unlinks the temp
                              commitFault  OS error INSIDE `AtomicWriteFile::commit` (its `sync_all` or
                                           `renameat`): the crate sets `finalized = true` first, so neither
                                           `discard` nor `Drop` removes the temp any more — it stays
                              post         renamed, then the directory fsync or re-opening the destination
                                           failed: the call errs, the rename has happened
                              ok
    * `Call`              — the handle methods by their directory behaviour: mutations (put/update/delete:
                            WAL append, plus `commit()` when the auto-checkpoint fires), `commit`
                            (staging only when there is work), `vacuum` (`commit()` then in place),
                            in-place paths, reads (Tantivy's work directory is a `TempDir` in the system
                            temp directory, not here).
    * `Op.drop`           — `impl Drop for Memvid`: `commit()` when dirty, result ignored.
    * `Op.doctor`         — `doctor_plan` guard, `try_open` (lock), any number of internal commits.
    * `Op.ext`            — the CALLER's own actions on the directory (other files, planted sidecars).

  Trace inputs (outcomes that depend on state outside this model — lock contention, whether a commit has
  work, where a failing call failed, the random temp suffixes) are fields of the operations; the theorems
  quantify over all of them.
-/
import MvModel.Gen.C19
namespace Mv.Dir
open Mv.Gen.C19

abbrev Name := List Char

/-! ### directory primitives -/

def add (x : Name) (d : List Name) : List Name := if x ∈ d then d else x :: d
def del (x : Name) (d : List Name) : List Name := d.filter (fun y => y != x)

/-- directory-level effects, as the kernel reports them for the memory's directory -/
inductive Eff where
  | creat (x : Name)
  | unlink (x : Name)
  | rename (a b : Name)
  deriving DecidableEq, Repr

def Eff.apply (d : List Name) : Eff → List Name
  | .creat x => add x d
  | .unlink x => del x d
  | .rename a b => if a ∈ d then add b (del a d) else d

def applyAll (d : List Name) (es : List Eff) : List Name := es.foldl Eff.apply d

/-! ### `ensure_single_file` -/

/-- the candidate sidecar names of memory `n`, in the order the source scans them -/
def candidates (n : Name) : List Name :=
  forbidden.map (fun s => plainPrefix ++ n ++ plainInfix ++ s) ++
  hiddenForbidden.map (fun s => hiddenPrefix ++ n ++ hiddenInfix ++ s)

/-- `ensure_single_file`: `some c` = `Err(AuxiliaryFileDetected { path: parent/c })` -/
def ensureSingleFile (d : List Name) (n : Name) : Option Name :=
  (candidates n).find? (fun c => c ∈ d)

/-! ### the staging temp of `with_staging_lock` -/

def tmpName (n : Name) (r : List Char) : Name := tmpLead ++ n ++ tmpSep ++ r

/-- what `RandomName::next` can produce -/
def validSuffix (r : List Char) : Bool := r.length == tmpSuffixLen && r.all Char.isAlphanum

/-- `create_temporary_file`: `openat(O_CREAT|O_EXCL)` over successive random names, EEXIST → next name.
    `rs` = the names the generator produced; running out of them = the call never returned (no effect). -/
def mktemp (d : List Name) (n : Name) : List (List Char) → Option Name
  | [] => none
  | r :: rs => if tmpName n r ∈ d then mktemp d n rs else some (tmpName n r)

/-- every exit of `with_staging_lock` -/
inductive Stage where
  | early
  | mid (rs : List (List Char))
  | commitFault (rs : List (List Char))
  | post (rs : List (List Char))
  | ok (rs : List (List Char))
  deriving DecidableEq, Repr

def Stage.isCommitFault : Stage → Bool
  | .commitFault _ => true
  | _ => false

/-- effects of one `with_staging_lock` round on memory `n`, and whether it returned `Ok` -/
def runStage (d : List Name) (n : Name) : Stage → List Eff × Bool
  | .early => ([], false)
  | .mid rs => match mktemp d n rs with
      | none => ([], false)
      | some t => ([.creat t, .unlink t], false)
  | .commitFault rs => match mktemp d n rs with
      | none => ([], false)
      | some t => ([.creat t], false)
  | .post rs => match mktemp d n rs with
      | none => ([], false)
      | some t => ([.creat t, .rename t n], false)
  | .ok rs => match mktemp d n rs with
      | none => ([], false)
      | some t => ([.creat t, .rename t n], true)

/-- several rounds one after the other (doctor); `true` when all returned `Ok` -/
def runStages (d : List Name) (n : Name) : List Stage → List Eff × Bool
  | [] => ([], true)
  | st :: rest =>
    let (e1, ok1) := runStage d n st
    let (e2, ok2) := runStages (applyAll d e1) n rest
    (e1 ++ e2, ok1 && ok2)

/-! ### API operations -/

inductive CreateFault where
  | none
  | io      -- `OpenOptions…create(true).open(path)` failed (missing parent directory, path is a directory…)
  | lock    -- `FileLock::open_and_lock` gave up: another handle holds the lock
  | late    -- any later `?` of `create` (set_len, header write, WAL open, Tantivy init…)
  deriving DecidableEq, Repr

inductive OpenFault where
  | none
  | lock
  | corrupt -- `open_locked` / `open_read_only_snapshot` rejected the content
  deriving DecidableEq, Repr

/-- handle methods, by directory behaviour -/
inductive Call where
  | mutate (accepted ac : Bool) (st : Stage)  -- put/update/delete: rejected, or appended (+ auto-commit when `ac`)
  | commit (work : Bool) (st : Stage)         -- `commit_with_options`: returns early when there is no work
  | vacuum (work : Bool) (st : Stage)         -- `self.commit()?` then compaction in place
  | inplace (ok : Bool)                       -- commit_skip_indexes, finalize_indexes, begin/end_batch, apply_ticket
  | read (ok : Bool)                          -- search, timeline, frame reads, stats, verify
  deriving DecidableEq, Repr

inductive Op where
  | create (n : Name) (f : CreateFault)
  | open (n : Name) (ro : Bool) (f : OpenFault)
  | call (n : Name) (c : Call)
  | drop (n : Name) (dirty : Bool) (st : Stage)
  | forget (n : Name)                                    -- process death: no destructor runs
  | doctor (n : Name) (lock : Bool) (rounds : List Stage) (ok : Bool)
  | ext (e : Eff)
  deriving DecidableEq, Repr

inductive Res where
  | ok
  | aux (c : Name)     -- AuxiliaryFileDetected
  | io
  | lock
  | corrupt
  | late
  | rejected           -- capacity exceeded, invalid frame id, dimension mismatch, … : nothing appended
  | commitFailed
  | failed
  | noHandle           -- not expressible through the API (no such handle)
  deriving DecidableEq, Repr

structure St where
  dir : List Name
  handles : List Name := []
  deriving DecidableEq, Repr

/-- the `with_staging_lock` rounds an operation runs (for stating "no OS fault inside a rename") -/
def Call.stages : Call → List Stage
  | .mutate accepted ac st => if accepted && ac then [st] else []
  | .commit work st => if work then [st] else []
  | .vacuum work st => if work then [st] else []
  | .inplace _ => []
  | .read _ => []

def Op.stages : Op → List Stage
  | .call _ c => c.stages
  | .drop _ dirty st => if dirty then [st] else []
  | .doctor _ _ rounds _ => rounds
  | _ => []

def callStep (d : List Name) (n : Name) : Call → List Eff × Res
  | .mutate accepted ac st =>
      if !accepted then ([], .rejected)
      else if !ac then ([], .ok)
      else let (es, ok) := runStage d n st; (es, if ok then .ok else .commitFailed)
  | .commit work st =>
      if !work then ([], .ok)
      else let (es, ok) := runStage d n st; (es, if ok then .ok else .commitFailed)
  | .vacuum work st =>
      if !work then ([], .ok)
      else let (es, ok) := runStage d n st; (es, if ok then .ok else .commitFailed)
  | .inplace ok => ([], if ok then .ok else .failed)
  | .read ok => ([], if ok then .ok else .failed)

/-- `open(O_CREAT)` without `O_EXCL`: a directory entry appears only when there was none -/
def creatIfAbsent (d : List Name) (n : Name) : List Eff := if n ∈ d then [] else [.creat n]

/-- one API step: new state, the directory effects in order, the answer -/
def step (s : St) : Op → St × List Eff × Res
  | .create n f =>
      match (if guard_create then ensureSingleFile s.dir n else none) with
      | some c => (s, [], .aux c)
      | none =>
        match f with
        | .io => (s, [], .io)
        | .lock => ({ s with dir := add n s.dir }, creatIfAbsent s.dir n, .lock)
        | .late => ({ s with dir := add n s.dir }, creatIfAbsent s.dir n, .late)
        | .none => ({ dir := add n s.dir, handles := n :: s.handles }, creatIfAbsent s.dir n, .ok)
  | .open n ro f =>
      match (if (if ro then guard_open_read_only_with_options else guard_open)
             then ensureSingleFile s.dir n else none) with
      | some c => (s, [], .aux c)
      | none =>
        if n ∉ s.dir then (s, [], .io)
        else match f with
          | .lock => (s, [], .lock)
          | .corrupt => (s, [], .corrupt)
          | .none => ({ s with handles := n :: s.handles }, [], .ok)
  | .call n c =>
      if n ∉ s.handles then (s, [], .noHandle)
      else
        let (es, r) := callStep s.dir n c
        ({ s with dir := applyAll s.dir es }, es, r)
  | .drop n dirty st =>
      if n ∉ s.handles then (s, [], .noHandle)
      else
        let es := if dirty then (runStage s.dir n st).1 else []
        ({ dir := applyAll s.dir es, handles := s.handles.erase n }, es, .ok)
  | .forget n =>
      if n ∉ s.handles then (s, [], .noHandle)
      else ({ s with handles := s.handles.erase n }, [], .ok)
  | .doctor n lock rounds ok =>
      match (if guard_doctor_plan && guard_try_open then ensureSingleFile s.dir n else none) with
      | some c => (s, [], .aux c)
      | none =>
        if n ∉ s.dir then (s, [], .io)
        else if lock then (s, [], .lock)
        else
          let (es, _) := runStages s.dir n rounds
          ({ s with dir := applyAll s.dir es }, es, if ok then .ok else .failed)
  | .ext e => ({ s with dir := e.apply s.dir }, [e], .ok)

def run (s : St) : List Op → St
  | [] => s
  | op :: rest => run (step s op).1 rest

/-! ### the caller's view of the directory -/

/-- what the CALLER did to the directory: the `.mv2` files it asked `create` for (when `create` got as far
    as opening the path) and its own file operations.  Nothing else. -/
def callerStep (c : List Name) : Op → List Name
  | .create n f =>
      match (if guard_create then ensureSingleFile c n else none) with
      | some _ => c
      | none => if f = .io then c else add n c
  | .ext e => e.apply c
  | _ => c

def callerDir (c : List Name) (h : List Op) : List Name := h.foldl callerStep c

/-- names a history can legitimately bring into the directory -/
def introduced : List Op → List Name
  | [] => []
  | .create n _ :: rest => n :: introduced rest
  | .ext (.creat x) :: rest => x :: introduced rest
  | .ext (.rename _ b) :: rest => b :: introduced rest
  | _ :: rest => introduced rest

/-- no OS-level failure inside `AtomicWriteFile::commit` (fsync of the temp / `renameat`) -/
def NoCommitFault (h : List Op) : Prop := ∀ op ∈ h, ∀ st ∈ op.stages, st.isCommitFault = false

/-- the caller does not unlink or rename away a memory file behind the back of a live handle -/
def Untampered : St → List Op → Prop
  | _, [] => True
  | s, op :: rest =>
    (match op with
     | .ext (.unlink x) => x ∉ s.handles
     | .ext (.rename a _) => a ∉ s.handles
     | _ => True) ∧ Untampered (step s op).1 rest

end Mv.Dir
